package main

import (
	"context"
	"fmt"
	"math/rand"
	"net/url"
	"runtime"
	"sort"
	"strings"
	"sync"
	"time"

	"github.com/smallnest/rpcx/client"
)

func init() {
	register("c14", "discovery: sequences of 1..6 published server lists (sizes 0..5, metadata over a grammar combining state, repeated group and unrelated keys) "+
		"through a real MultipleServersDiscovery into a real XClient (fake RPC clients; also 4..16 XClients sharing one discovery with long unordered lists), published back-to-back and with pauses, with fresh KVPair objects or with the publisher's own objects edited in place and republished, under GOMAXPROCS in {1,2,16}, "+
		"for every selection strategy in {random, round-robin, weighted, hash} and client group settings; after quiescence the set of servers that actually "+
		"receive calls must equal filter(last published list); the filter itself is compared with the Lean model on grammar-generated metadata; "+
		"plus clients whose selector is installed after construction (SelectByUser + SetSelector, Closest + ConfigGeoSelector), before or after an update arrived; plus client churn: 250-400 XClients on one discovery, a few of them closed concurrently with every published update, every client still open must switch to it (each round replayed on the Lean hub model); "+
		"non-trivial = at least two updates with different server sets; distinct = distinct input line",
		runC14)
}

var stateGroupMetas = []string{
	"", "state=active", "state=inactive", "group=a", "group=b", "group=a&group=b", "group=b&group=a&state=active", "state=inactive&group=a",
	"weight=3&group=a", "group=", "group=ab", "group=a%20", "state=Inactive", "state=inactive;group=a", "%zz", "group=a&tps=4&state=", "x=1&y=2",
	"group=a&state=inactive&group=b", "state=active&state=inactive", "state=inactive&state=active",
	// '+' is the query spelling of a space; %2B is a literal plus
	"group=a+b", "group=a%20b", "group=a%2Bb", "group=x&group=a+b&tps=1", "state=in+active", "group=a+b&state=inactive",
}

// specKeep: the filtering rule as the property states it (for well-formed metadata):
// kept iff not marked inactive and (no client group configured or the group is listed).
// Metadata that does not parse as a query is left alone by the code (kept).
func specKeep(group, meta string) (keep bool, parseOK bool, state string, groups []string) {
	v, err := url.ParseQuery(meta)
	if err != nil {
		return true, false, "", nil
	}
	state = v.Get("state")
	groups = v["group"]
	if state == "inactive" {
		return false, true, state, groups
	}
	if group != "" {
		found := false
		for _, g := range groups {
			if g == group {
				found = true
			}
		}
		if !found {
			return false, true, state, groups
		}
	}
	return true, true, state, groups
}

func c14Filter(o *Out, r *rand.Rand) {
	n := 400
	if thorough() {
		n = 6000
	}
	for i := 0; i < n; i++ {
		group := []string{"", "a", "b", "ab", "a ", "a b", "a+b"}[r.Intn(7)]
		servers := map[string]string{}
		for j := r.Intn(6); j > 0; j-- {
			servers[fmt.Sprintf("fake@h%d", r.Intn(8))] = stateGroupMetas[r.Intn(len(stateGroupMetas))]
		}
		in := map[string]string{}
		for k, v := range servers {
			in[k] = v
		}
		client.VerifFilterByStateAndGroup(group, servers)
		var keys []string
		for k := range in {
			keys = append(keys, k)
		}
		sort.Strings(keys)
		var spec, got []string
		for _, k := range keys {
			keep, ok, state, groups := specKeep(group, in[k])
			okb := "1"
			if !ok {
				okb = "0"
			}
			gs := "-"
			if len(groups) > 0 {
				gs = strings.Join(hexAll(groups), "+")
			}
			spec = append(spec, fmt.Sprintf("%s/%s/%s/%s", k, okb, hx([]byte(state)), gs))
			if _, kept := servers[k]; kept {
				got = append(got, k)
				if !keep {
					o.Violate("c14.filter.kept", fmt.Sprintf("server with metadata %q kept for client group %q", in[k], group), map[string]any{"group": group, "meta": in[k]})
				}
			} else if keep {
				o.Violate("c14.filter.dropped", fmt.Sprintf("server with metadata %q dropped for client group %q", in[k], group), map[string]any{"group": group, "meta": in[k]})
			}
		}
		res := "-"
		if len(got) > 0 {
			res = strings.Join(got, ",")
		}
		sp := "-"
		if len(spec) > 0 {
			sp = strings.Join(spec, ",")
		}
		o.SpecCase(fmt.Sprintf("filter %s %s", hx([]byte(group)), sp), res, len(keys) > 0)
		o.Count("filter.cases")
	}
}

func hexAll(ss []string) []string {
	out := make([]string, len(ss))
	for i, s := range ss {
		out[i] = hx([]byte(s))
	}
	return out
}

// c14Shared: several clients share ONE discovery (XClient.Clone, OneClient pools, or simply
// one discovery object handed to many NewXClient calls) and the publisher's lists are long and
// unordered.  Every client must converge to exactly the last published set.
func c14Shared(o *Out, r *rand.Rand) {
	rounds := 6
	if thorough() {
		rounds = 40
	}
	for round := 0; round < rounds; round++ {
		nClients := 4 + r.Intn(13)
		n := []int{40, 150, 300, 600}[r.Intn(4)]
		sc := &fakeScenario{perAddr: map[string]fakeOutcome{}}
		for i := 0; i < nClients*(2*n+150); i++ {
			sc.dials = append(sc.dials, true)
		}
		setScenario(sc)
		d, _ := client.NewMultipleServersDiscovery([]*client.KVPair{{Key: "fake@seed"}})
		opt := client.DefaultOption
		opt.Retries = 0
		var xcs []client.XClient
		for k := 0; k < nClients; k++ {
			xcs = append(xcs, client.NewXClient("Svc", client.Failfast, client.RoundRobin, d, opt))
		}
		var last []*client.KVPair
		updates := 1 + r.Intn(3)
		for u := 0; u < updates; u++ {
			last = nil
			for _, i := range r.Perm(n) {
				last = append(last, &client.KVPair{Key: fmt.Sprintf("fake@u%d-%d", u, i)})
			}
			d.Update(last)
		}
		time.Sleep(30 * time.Millisecond)
		want := map[string]bool{}
		for i := 0; i < n; i++ {
			want[fmt.Sprintf("fake@u%d-%d", updates-1, i)] = true
		}
		// wait (up to 2 s) until every client has at least switched to the last update's servers
		for deadline := time.Now().Add(2 * time.Second); time.Now().Before(deadline); {
			settled := true
			for _, xc := range xcs {
				reply := &fakeReply{}
				if err := xc.Call(context.Background(), "M", 0, reply); err != nil || !want[reply.Addr] {
					settled = false
				}
			}
			if settled {
				break
			}
			time.Sleep(20 * time.Millisecond)
		}
		rp := map[string]any{"clients_sharing_one_discovery": nClients, "servers_per_list": n, "updates": updates, "published_order": "random permutation"}
		o.Eval(fmt.Sprintf("shared %v", rp), true)
		o.Count("shared-discovery.rounds")
		bad := ""
		for ci, xc := range xcs {
			got := map[string]int{}
			for i := 0; i < 2*n; i++ {
				reply := &fakeReply{}
				if err := xc.Call(context.Background(), "M", i, reply); err == nil {
					got[reply.Addr]++
				}
			}
			missing, foreign := 0, 0
			for a := range want {
				if got[a] == 0 {
					missing++
				}
			}
			for a := range got {
				if !want[a] {
					foreign++
				}
			}
			if missing > 0 || foreign > 0 {
				bad = fmt.Sprintf("client %d of %d reaches %d servers: %d of the last published list never selected under round-robin, %d selected that are not in it", ci, nClients, len(got), missing, foreign)
				break
			}
		}
		// the publisher's own list must still be what it published
		seen := map[string]bool{}
		for _, p := range last {
			seen[p.Key] = true
		}
		if bad == "" && len(seen) != n {
			bad = fmt.Sprintf("the publisher's own slice now holds %d distinct servers of the %d it published", len(seen), n)
		}
		for _, xc := range xcs {
			xc.Close()
		}
		if bad != "" {
			o.Violate("c14.shared-discovery.server-set", "after the last update was applied: "+bad, rp)
			return
		}
	}
}

// c14ConcurrentPublishers: several goroutines call Update on ONE discovery at the same time (two registry
// watchers, a reload racing a health checker).  Whatever order the discovery puts them in, the list it
// ends up holding (GetServices) is the last published one, and every client watching it must converge to
// exactly that list – no client may be left on a list that a later update replaced.
func c14ConcurrentPublishers(o *Out, r *rand.Rand) {
	rounds := 150
	if thorough() {
		rounds = 1500
	}
	nClients := 8
	sc := &fakeScenario{perAddr: map[string]fakeOutcome{}}
	for i := 0; i < nClients*(rounds*8+50); i++ {
		sc.dials = append(sc.dials, true)
	}
	setScenario(sc)
	d, _ := client.NewMultipleServersDiscovery([]*client.KVPair{{Key: "fake@seed"}})
	opt := client.DefaultOption
	opt.Retries = 0
	var xcs []client.XClient
	for k := 0; k < nClients; k++ {
		xcs = append(xcs, client.NewXClient("Svc", client.Failfast, client.RoundRobin, d, opt))
	}
	defer func() {
		for _, xc := range xcs {
			xc.Close()
		}
	}()
	const publishers = 4
	for round := 0; round < rounds; round++ {
		var wg sync.WaitGroup
		gate := make(chan struct{})
		for p := 0; p < publishers; p++ {
			wg.Add(1)
			go func(p int) {
				defer wg.Done()
				list := []*client.KVPair{{Key: fmt.Sprintf("fake@r%d-p%d-a", round, p)}, {Key: fmt.Sprintf("fake@r%d-p%d-b", round, p)}}
				<-gate
				d.Update(list)
			}(p)
		}
		close(gate)
		wg.Wait()
		want := map[string]bool{}
		for _, kv := range d.GetServices() {
			want[kv.Key] = true
		}
		o.Count("concurrent-publishers.rounds")
		bad := ""
		for deadline := time.Now().Add(2 * time.Second); ; {
			bad = ""
			for ci, xc := range xcs {
				got := map[string]bool{}
				for i := 0; i < 4; i++ {
					reply := &fakeReply{}
					if err := xc.Call(context.Background(), "M", i, reply); err == nil {
						got[reply.Addr] = true
					}
				}
				for a := range got {
					if !want[a] {
						bad = fmt.Sprintf("client %d selects %s, which is not in the list the discovery holds after the concurrent updates", ci, a)
					}
				}
				if len(got) != len(want) && bad == "" {
					bad = fmt.Sprintf("client %d reaches %d of the %d servers of the list the discovery holds", ci, len(got), len(want))
				}
			}
			if bad == "" || time.Now().After(deadline) {
				break
			}
			time.Sleep(5 * time.Millisecond)
		}
		if bad != "" {
			var held []string
			for a := range want {
				held = append(held, a)
			}
			sort.Strings(held)
			o.Eval(fmt.Sprintf("concurrent publishers round %d", round), true)
			o.Violate("c14.concurrent-publishers.stale-list", fmt.Sprintf("%d goroutines called Update at once (round %d); 2 s later: %s", publishers, round, bad),
				map[string]any{"publishers": publishers, "clients": nClients, "round": round, "discovery_holds": held})
			return
		}
	}
	o.Eval(fmt.Sprintf("concurrent publishers %d rounds x %d publishers, %d clients", rounds, publishers, nClients), true)
}

// c14Churn: clients that share one discovery come and go while updates are published.  Closing one
// client (its watcher is removed from the discovery, in a goroutine of its own) concurrently with the
// fan-out of an update must not make any OTHER, still running client miss that update.
func c14Churn(o *Out, r *rand.Rand) {
	rounds, nClients := 2, 250
	if thorough() {
		rounds, nClients = 6, 400
	}
	for round := 0; round < rounds; round++ {
		sc := &fakeScenario{perAddr: map[string]fakeOutcome{}}
		for i := 0; i < 400000; i++ {
			sc.dials = append(sc.dials, true)
		}
		setScenario(sc)
		d, _ := client.NewMultipleServersDiscovery([]*client.KVPair{{Key: "fake@seed"}})
		opt := client.DefaultOption
		opt.Retries = 0
		var xcs []client.XClient
		for k := 0; k < nClients; k++ {
			xcs = append(xcs, client.NewXClient("Svc", client.Failfast, client.RoundRobin, d, opt))
		}
		trials := 60
		if thorough() {
			trials = 150
		}
		closed := 0
		ops := []string{}
		for k := 0; k < nClients; k++ {
			ops = append(ops, fmt.Sprintf("w%d", k))
		}
		lastT := -1
		for t := 0; t < trials && closed < nClients-40; t++ {
			addr := fmt.Sprintf("fake@churn%d-%d", round, t)
			// close a few clients from the front of the watcher list while the update fans out
			k := 1 + r.Intn(3)
			spin := r.Intn(200)
			var wg sync.WaitGroup
			wg.Add(2)
			go func() {
				defer wg.Done()
				d.Update([]*client.KVPair{{Key: addr}})
			}()
			go func(from, k int) {
				defer wg.Done()
				for i := 0; i < spin; i++ {
					runtime.Gosched()
				}
				for i := from; i < from+k; i++ {
					xcs[i].Close()
				}
			}(closed, k)
			wg.Wait()
			ops = append(ops, fmt.Sprintf("p%d", t))
			for i := closed; i < closed+k; i++ {
				ops = append(ops, fmt.Sprintf("r%d", i))
			}
			closed += k
			lastT = t
			o.Eval(fmt.Sprintf("churn round=%d trial=%d clients=%d closed=%d", round, t, nClients, closed), true)
			o.Count("churn.trials")
			// every client that is still open must reach the newly published server (re-observed for up to 2 s)
			stale := -1
			staleAddr := ""
			for deadline := time.Now().Add(2 * time.Second); ; {
				stale = -1
				for ci := closed; ci < nClients; ci++ {
					reply := &fakeReply{}
					err := xcs[ci].Call(context.Background(), "M", 0, reply)
					if err != nil || reply.Addr != addr {
						stale, staleAddr = ci, reply.Addr
						if err != nil {
							staleAddr = "error: " + err.Error()
						}
						break
					}
				}
				if stale < 0 || time.Now().After(deadline) {
					break
				}
				time.Sleep(20 * time.Millisecond)
			}
			if stale >= 0 {
				o.Violate("c14.churn.missed-update", fmt.Sprintf("%d clients share one discovery; clients %d..%d were closed while an update to [%s] was published: open client %d never switched to it (still %s)",
					nClients, closed-k, closed-1, addr, stale, staleAddr),
					map[string]any{"clients_sharing_one_discovery": nClients, "trial": t, "closed_during_update": []int{closed - k, closed - 1}, "published": addr, "stale_client": stale, "still_selects": staleAddr})
				for ci := closed; ci < nClients; ci++ {
					xcs[ci].Close()
				}
				return
			}
		}
		// the whole round against the model of one discovery with many watchers (Disc.hubRun,
		// theorem hub_converges): what every still-open client selects after the last trial
		var obs []string
		for ci := closed; ci < nClients; ci++ {
			reply := &fakeReply{}
			x := "-"
			if err := xcs[ci].Call(context.Background(), "M", 0, reply); err == nil {
				x = strings.TrimPrefix(reply.Addr, fmt.Sprintf("fake@churn%d-", round))
			}
			obs = append(obs, fmt.Sprintf("%d=%s", ci, x))
		}
		_ = lastT
		o.SpecCase("hub 10 "+strings.Join(ops, " ")+" A", strings.Join(obs, " "), true)
		for ci := closed; ci < nClients; ci++ {
			xcs[ci].Close()
		}
	}
}

func runC14(o *Out, r *rand.Rand) {
	c14Filter(o, r)
	c14Shared(o, r)
	c14Churn(o, r)
	c14ConcurrentPublishers(o, r)
	c14LateSelector(o, r)
	n := 40
	if thorough() {
		n = 400
	}
	modes := []client.SelectMode{client.RoundRobin, client.RandomSelect, client.WeightedRoundRobin, client.ConsistentHash}
	for _, procs := range []int{1, 2, 16} {
		old := runtime.GOMAXPROCS(procs)
		for i := 0; i < n; i++ {
			c14Converge(o, r, modes[r.Intn(len(modes))], procs)
		}
		runtime.GOMAXPROCS(old)
	}
}

func c14Converge(o *Out, r *rand.Rand, mode client.SelectMode, procs int) {
	group := []string{"", "", "a", "a b", "a+b"}[r.Intn(5)]
	mkList := func() []*client.KVPair {
		var ps []*client.KVPair
		seen := map[string]bool{}
		for j := r.Intn(6); j > 0; j-- {
			k := fmt.Sprintf("fake@h%d", r.Intn(9))
			if seen[k] {
				continue
			}
			seen[k] = true
			ps = append(ps, &client.KVPair{Key: k, Value: stateGroupMetas[r.Intn(len(stateGroupMetas))]})
		}
		return ps
	}
	initial := mkList()
	sc := &fakeScenario{perAddr: map[string]fakeOutcome{}}
	for i := 0; i < 400; i++ {
		sc.dials = append(sc.dials, true)
	}
	setScenario(sc)
	d, _ := client.NewMultipleServersDiscovery(initial)
	opt := client.DefaultOption
	opt.Group = group
	opt.Retries = 0
	xc := client.NewXClient("Svc", client.Failfast, mode, d, opt)
	defer xc.Close()
	// the discovery may have many other watchers (clients sharing it): publishing then takes a
	// while, and a watcher may run long before Update has finished
	crowd := r.Intn(4) == 0
	if crowd {
		for k := 0; k < 20000; k++ {
			d.WatchService()
		}
		o.Count("converge.crowded-discovery")
	}
	nup := 1 + r.Intn(6)
	var lists [][]*client.KVPair
	backToBack := r.Intn(3) != 0
	// publisher styles: fresh objects per update, or one set of *KVPair objects edited in place
	// and republished (same slice or a fresh slice of the same pointers) – the discovery keeps
	// the caller's slice, so the second style makes "previous" and "new" list alias each other
	inPlace := r.Intn(3) == 0
	snapshot := func(l []*client.KVPair) []*client.KVPair {
		c := make([]*client.KVPair, len(l))
		for i, p := range l {
			c[i] = &client.KVPair{Key: p.Key, Value: p.Value}
		}
		return c
	}
	if inPlace {
		backToBack = false
		own := initial
		if len(own) == 0 {
			own = []*client.KVPair{{Key: "fake@h0", Value: ""}}
			d.Update(own)
			lists = append(lists, snapshot(own))
		}
		for u := 0; u < nup; u++ {
			// let the previous notification be consumed before its objects are edited
			time.Sleep(6 * time.Millisecond)
			for _, p := range own {
				switch r.Intn(4) {
				case 0:
					p.Value = stateGroupMetas[r.Intn(len(stateGroupMetas))]
				case 1:
					p.Value = []string{"state=inactive", "", "group=a", "group=b"}[r.Intn(4)]
				case 2:
					k := fmt.Sprintf("fake@h%d", r.Intn(9))
					dup := false
					for _, q := range own {
						if q.Key == k {
							dup = true
						}
					}
					if !dup {
						p.Key = k
					}
				}
			}
			if r.Intn(2) == 0 {
				own = append([]*client.KVPair(nil), own...)
			}
			d.Update(own)
			lists = append(lists, snapshot(own))
			o.Count("converge.in-place-update")
		}
	} else {
		for u := 0; u < nup; u++ {
			l := mkList()
			lists = append(lists, l)
			d.Update(l)
			if !backToBack {
				time.Sleep(time.Duration(r.Intn(3)) * time.Millisecond)
			}
		}
	}
	// quiescence: give the notification goroutines and the watcher time to run
	time.Sleep(25 * time.Millisecond)
	last := lists[len(lists)-1]
	want := map[string]bool{}
	for _, p := range last {
		if keep, _, _, _ := specKeep(group, p.Value); keep {
			want[p.Key] = true
		}
	}
	// which servers actually receive calls now?  "once updates stop" has no deadline in the
	// property: a mismatch is re-observed for up to two seconds before it is judged (the watcher
	// goroutine may simply not have run yet on a busy machine)
	var got map[string]bool
	ncalls := 12 * (len(last) + 1)
	noServer := 0
	observe := func() bool {
		got = map[string]bool{}
		noServer = 0
		for i := 0; i < ncalls; i++ {
			reply := &fakeReply{}
			err := xc.Call(context.Background(), "M", i, reply)
			if err == nil {
				got[reply.Addr] = true
			} else if err == client.ErrXClientNoServer {
				noServer++
			}
		}
		for a := range got {
			if !want[a] {
				return false
			}
		}
		if mode == client.RoundRobin {
			for a := range want {
				if !got[a] {
					return false
				}
			}
		}
		return !(len(want) == 0 && noServer != ncalls)
	}
	for deadline := time.Now().Add(2 * time.Second); !observe() && time.Now().Before(deadline); {
		time.Sleep(20 * time.Millisecond)
	}
	var hist []string
	for _, l := range lists {
		var ks []string
		for _, p := range l {
			ks = append(ks, p.Key+"{"+p.Value+"}")
		}
		hist = append(hist, "["+strings.Join(ks, " ")+"]")
	}
	rp := map[string]any{"strategy": fmt.Sprint(mode), "group": group, "gomaxprocs": procs, "back_to_back": backToBack, "published": hist, "publisher_edits_in_place": inPlace, "other_watchers": map[bool]int{false: 0, true: 20000}[crowd]}
	distinctSets := map[string]bool{}
	for _, l := range lists {
		var ks []string
		for _, p := range l {
			ks = append(ks, p.Key)
		}
		sort.Strings(ks)
		distinctSets[strings.Join(ks, ",")] = true
	}
	o.Eval(fmt.Sprintf("converge %v", rp), len(distinctSets) >= 2)
	o.Count(fmt.Sprintf("converge.procs=%d", procs))
	for a := range got {
		if !want[a] {
			o.Violate("c14.stale-or-filtered-server-selected", fmt.Sprintf("after the last update was applied, calls still reach %s, which is not in filter(last published list)", a), rp)
			return
		}
	}
	if mode == client.RoundRobin || mode == client.WeightedRoundRobin {
		// weighted: only positive weights are eligible; round-robin reaches everyone
		for a := range want {
			if !got[a] && mode == client.RoundRobin {
				o.Violate("c14.new-server-not-eligible", fmt.Sprintf("server %s of the last published list never receives a call under round-robin", a), rp)
				return
			}
		}
	}
	if len(want) == 0 && noServer != ncalls {
		o.Violate("c14.stale-or-filtered-server-selected", "the last published list has no eligible server but calls still succeed", rp)
	}
}

// c14UserSel: a selector supplied by the user (SelectByUser): round-robin over what it was given
type c14UserSel struct {
	mu   sync.Mutex
	keys []string
	i    int
}

func (s *c14UserSel) Select(ctx context.Context, servicePath, serviceMethod string, args interface{}) string {
	s.mu.Lock()
	defer s.mu.Unlock()
	if len(s.keys) == 0 {
		return ""
	}
	k := s.keys[s.i%len(s.keys)]
	s.i++
	return k
}

func (s *c14UserSel) UpdateServer(servers map[string]string) {
	s.mu.Lock()
	defer s.mu.Unlock()
	s.keys = s.keys[:0]
	for k := range servers {
		s.keys = append(s.keys, k)
	}
	sort.Strings(s.keys)
}

// c14LateSelector: clients whose selector is installed AFTER construction (SelectByUser +
// SetSelector, Closest + ConfigGeoSelector), before or after discovery updates arrived: whatever
// the order, once updates stop only servers of filter(last published list) may be selected.
func c14LateSelector(o *Out, r *rand.Rand) {
	rounds := 16
	if thorough() {
		rounds = 80
	}
	for round := 0; round < rounds; round++ {
		group := []string{"", "g1", "g1"}[r.Intn(3)]
		geo := r.Intn(3) == 0
		mk := func(tag string) ([]*client.KVPair, map[string]bool) {
			want := map[string]bool{}
			var out []*client.KVPair
			for i := 0; i < 3+r.Intn(4); i++ {
				key := fmt.Sprintf("fake@%s%d-%d", tag, round, i)
				state := []string{"", "", "state=inactive", "state=active"}[r.Intn(4)]
				grp := []string{"", "group=g1", "group=g2", "group=g2&group=g1"}[r.Intn(4)]
				coord := fmt.Sprintf("latitude=%d&longitude=%d", 10+r.Intn(60), 10+r.Intn(60))
				if keep0, _, _, _ := specKeep(group, strings.Join([]string{state, grp}, "&")); !keep0 && r.Intn(2) == 0 {
					coord = "latitude=30&longitude=30" // an ineligible server right where the client is
				}
				var parts []string
				for _, p := range []string{state, grp, coord} {
					if p != "" {
						parts = append(parts, p)
					}
				}
				meta := strings.Join(parts, "&")
				out = append(out, &client.KVPair{Key: key, Value: meta})
				keep, _, _, _ := specKeep(group, meta)
				if keep {
					want[key] = true
				}
			}
			return out, want
		}
		first, _ := mk("a")
		last, want := mk("b")
		updateBefore := r.Intn(3) != 0 // does the update arrive before the selector is installed?
		sc := &fakeScenario{perAddr: map[string]fakeOutcome{}}
		for i := 0; i < 200; i++ {
			sc.dials = append(sc.dials, true)
		}
		setScenario(sc)
		d, _ := client.NewMultipleServersDiscovery(first)
		opt := client.DefaultOption
		opt.Retries = 0
		opt.Group = group
		var mode client.SelectMode = client.SelectByUser
		if geo {
			mode = client.Closest
		}
		xc := client.NewXClient("Svc", client.Failfast, mode, d, opt)
		install := func() {
			if geo {
				xc.ConfigGeoSelector(30, 30)
			} else {
				xc.SetSelector(&c14UserSel{})
			}
		}
		if updateBefore {
			d.Update(last)
			time.Sleep(30 * time.Millisecond)
			install()
		} else {
			install()
			d.Update(last)
		}
		// re-observe for up to 2 s until every selection lies in the expected set
		var got map[string]int
		bad := ""
		for deadline := time.Now().Add(2 * time.Second); ; {
			got = map[string]int{}
			bad = ""
			for i := 0; i < 24; i++ {
				reply := &fakeReply{}
				if err := xc.Call(context.Background(), "M", i, reply); err == nil {
					got[reply.Addr]++
					if !want[reply.Addr] {
						bad = reply.Addr
					}
				}
			}
			if (bad == "" && (len(got) > 0 || len(want) == 0)) || time.Now().After(deadline) {
				break
			}
			time.Sleep(20 * time.Millisecond)
		}
		xc.Close()
		how := "SelectByUser + SetSelector"
		if geo {
			how = "Closest + ConfigGeoSelector"
		}
		o.Eval(fmt.Sprintf("late-selector %s group=%q update-before-install=%v n=%d", how, group, updateBefore, len(last)), true)
		o.Count("late-selector.rounds")
		if len(last) > len(want) {
			o.Count("late-selector.rounds-with-ineligible-servers")
		}
		if updateBefore {
			o.Count("late-selector.update-before-install")
		}
		o.Count(fmt.Sprintf("late-selector.selected-servers=%d", len(got)))
		rp := map[string]any{"client": how, "client_group": group, "update_arrives_before_the_selector_is_installed": updateBefore,
			"last_published": kvList(last), "eligible": keysOf(want), "selected": got}
		if bad != "" {
			o.Violate("c14.late-selector.ineligible-server-selected", fmt.Sprintf("%s: calls reach %s, which is not in filter(last published list)", how, bad), rp)
			return
		}
		if len(want) > 0 && len(got) == 0 {
			o.Violate("c14.late-selector.no-server", fmt.Sprintf("%s: no call succeeds although the last published list has eligible servers", how), rp)
			return
		}
	}
}

func kvList(ps []*client.KVPair) []string {
	var out []string
	for _, p := range ps {
		out = append(out, p.Key+" {"+p.Value+"}")
	}
	return out
}

func keysOf(m map[string]bool) []string {
	var out []string
	for k := range m {
		out = append(out, k)
	}
	sort.Strings(out)
	return out
}
