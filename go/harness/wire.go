package main

import (
	"bytes"
	"compress/gzip"
	"encoding/binary"
	"errors"
	"fmt"
	"io"
	"math/rand"
	"sort"
	"strings"

	"github.com/smallnest/rpcx/protocol"
)

// ---- toy compressors registered by the harness, mirrored in the Lean driver ----------

// toyCompressor (compress type 2): Zip(x) = 0x5A ++ (x xor 0xA5); Unzip rejects input
// that does not start with 0x5A.  Reversible, deterministic, and cheap to mirror in Lean.
type toyCompressor struct{}

func (toyCompressor) Zip(b []byte) ([]byte, error) {
	out := make([]byte, len(b)+1)
	out[0] = 0x5A
	for i, x := range b {
		out[i+1] = x ^ 0xA5
	}
	return out, nil
}

func (toyCompressor) Unzip(b []byte) ([]byte, error) {
	if len(b) == 0 || b[0] != 0x5A {
		return nil, errors.New("toy: bad prefix")
	}
	out := make([]byte, len(b)-1)
	for i, x := range b[1:] {
		out[i] = x ^ 0xA5
	}
	return out, nil
}

// failCompressor (compress type 3): always fails, to reach the encoders' error paths.
type failCompressor struct{}

func (failCompressor) Zip(b []byte) ([]byte, error)   { return nil, errors.New("fail: zip") }
func (failCompressor) Unzip(b []byte) ([]byte, error) { return nil, errors.New("fail: unzip") }

func init() {
	protocol.Compressors[protocol.CompressType(2)] = toyCompressor{}
	protocol.Compressors[protocol.CompressType(3)] = failCompressor{}
}

// ---- message generation ---------------------------------------------------------------

type kv struct{ k, v string }

type genMsg struct {
	hdr     [12]byte
	path    string
	method  string
	meta    map[string]string
	payload []byte
}

func randBytes(r *rand.Rand, n int) []byte {
	b := make([]byte, n)
	for i := range b {
		switch r.Intn(8) {
		case 0:
			b[i] = 0
		case 1:
			b[i] = 0xFF
		case 2:
			b[i] = byte(0x80 + r.Intn(0x40)) // non-UTF8 continuation bytes
		default:
			b[i] = byte(r.Intn(256))
		}
	}
	return b
}

func randStr(r *rand.Rand) string {
	switch r.Intn(10) {
	case 0:
		return ""
	case 1:
		return string(randBytes(r, 1+r.Intn(3)))
	case 2:
		return string(randBytes(r, 200+r.Intn(400)))
	case 3:
		return "Arith"
	case 4:
		return "Mul"
	default:
		return string(randBytes(r, 1+r.Intn(24)))
	}
}

var payloadSizes = []int{0, 1, 2, 3, 7, 100, 479, 480, 481, 495, 496, 497, 511, 512, 513, 1023, 1024, 1025, 2047, 2048, 4000, 4079, 4080, 4081, 4096, 4097, 9000}

func genMessage(r *rand.Rand, big bool) genMsg {
	var g genMsg
	// header: magic fixed (Decode rejects others), everything else over the full space
	g.hdr[0] = protocol.MagicNumber()
	for i := 1; i < 12; i++ {
		g.hdr[i] = byte(r.Intn(256))
	}
	// compress type: bias towards None / Gzip / toy; others occasionally
	ct := []byte{0, 0, 0, 1, 2, 2, 3, byte(r.Intn(8))}[r.Intn(8)]
	g.hdr[2] = (g.hdr[2] &^ 0x1C) | (ct << 2)
	switch r.Intn(6) {
	case 0:
		binary.BigEndian.PutUint64(g.hdr[4:], 0)
	case 1:
		binary.BigEndian.PutUint64(g.hdr[4:], ^uint64(0))
	}
	g.path = randStr(r)
	g.method = randStr(r)
	n := []int{0, 0, 1, 2, 3, 5, 17, 64}[r.Intn(8)]
	if n > 0 {
		g.meta = map[string]string{}
		for i := 0; i < n; i++ {
			g.meta[randStr(r)] = randStr(r)
		}
	} else if r.Intn(2) == 0 {
		g.meta = map[string]string{}
	}
	sz := payloadSizes[r.Intn(len(payloadSizes))]
	if r.Intn(4) == 0 {
		sz = r.Intn(6000)
	}
	if big && r.Intn(40) == 0 {
		sz = 64*1024 + r.Intn(2*1024*1024)
	}
	g.payload = randBytes(r, sz)
	if r.Intn(6) == 0 && sz > 0 {
		// compressible content: one short record repeated
		rec := randBytes(r, 1+r.Intn(12))
		for j := range g.payload {
			g.payload[j] = rec[j%len(rec)]
		}
	}
	if r.Intn(8) == 0 {
		// payloads that LOOK compressed already (an application that compresses its own data, a file
		// upload): the bare gzip magic, a gzip header stub, a real short gzip stream, magic + noise
		switch r.Intn(5) {
		case 0:
			g.payload = []byte{0x1f, 0x8b, 0x08}
		case 1:
			g.payload = []byte{0x1f, 0x8b, 0x08, 0, 0, 0, 0, 0, 0, 0xff}
		case 2:
			var zb bytes.Buffer
			zw := gzip.NewWriter(&zb)
			zw.Write(randBytes(r, r.Intn(12)))
			zw.Close()
			g.payload = zb.Bytes()
		case 3:
			g.payload = append([]byte{0x1f, 0x8b, 0x08}, randBytes(r, r.Intn(60))...)
		default:
			g.payload = append([]byte{0x1f, 0x8b, 0x08}, randBytes(r, 64+r.Intn(3000))...)
		}
	}
	return g
}

func (g genMsg) toMessage() *protocol.Message {
	m := protocol.NewMessage()
	h := protocol.Header(g.hdr)
	m.Header = &h
	m.ServicePath = g.path
	m.ServiceMethod = g.method
	if g.meta != nil {
		m.Metadata = make(map[string]string, len(g.meta))
		for k, v := range g.meta {
			m.Metadata[k] = v
		}
	}
	m.Payload = append([]byte(nil), g.payload...)
	return m
}

// metaOrderOf parses the metadata section of a frame the implementation produced, to
// learn the map iteration order it used (the model takes the order as an input).
// Independent mini-parser used only on frames produced by the encoder under test.
func metaOrderOf(frame []byte) ([]kv, bool) {
	if len(frame) < 16 {
		return nil, false
	}
	p := 16
	skip := func() bool {
		if p+4 > len(frame) {
			return false
		}
		l := int(binary.BigEndian.Uint32(frame[p:]))
		p += 4
		if p+l > len(frame) {
			return false
		}
		p += l
		return true
	}
	if !skip() || !skip() {
		return nil, false
	}
	if p+4 > len(frame) {
		return nil, false
	}
	ml := int(binary.BigEndian.Uint32(frame[p:]))
	p += 4
	if p+ml > len(frame) {
		return nil, false
	}
	sec := frame[p : p+ml]
	var out []kv
	q := 0
	rd := func() (string, bool) {
		if q+4 > len(sec) {
			return "", false
		}
		l := int(binary.BigEndian.Uint32(sec[q:]))
		q += 4
		if q+l > len(sec) {
			return "", false
		}
		s := string(sec[q : q+l])
		q += l
		return s, true
	}
	for q < len(sec) {
		k, ok := rd()
		if !ok {
			return nil, false
		}
		v, ok := rd()
		if !ok {
			return nil, false
		}
		out = append(out, kv{k, v})
	}
	return out, true
}

func metaListStr(l []kv) string {
	if len(l) == 0 {
		return "-"
	}
	parts := make([]string, len(l))
	for i, e := range l {
		parts[i] = hx([]byte(e.k)) + ":" + hx([]byte(e.v))
	}
	return strings.Join(parts, ",")
}

func metaMapStr(m map[string]string) string {
	l := make([]kv, 0, len(m))
	for k, v := range m {
		l = append(l, kv{k, v})
	}
	sort.Slice(l, func(i, j int) bool { return l[i].k < l[j].k })
	return metaListStr(l)
}

// zipOracle: what the registered compressor returns for this payload ("NONE" when no
// compressor is registered for the type, "FAIL" on error) – the model's Compressor.
func zipOracle(ct protocol.CompressType, payload []byte) string {
	if ct == protocol.None {
		return "NA"
	}
	c := protocol.Compressors[ct]
	if c == nil {
		return "NONE"
	}
	z, err := c.Zip(payload)
	if err != nil {
		return "FAIL"
	}
	return hx(append([]byte(nil), z...))
}

func messagesEqual(g genMsg, m *protocol.Message, hdrWant [12]byte) string {
	if [12]byte(*m.Header) != hdrWant {
		return fmt.Sprintf("header: want %x got %x", hdrWant, [12]byte(*m.Header))
	}
	if m.ServicePath != g.path {
		return "service path differs"
	}
	if m.ServiceMethod != g.method {
		return "service method differs"
	}
	if len(m.Metadata) != len(g.meta) {
		return fmt.Sprintf("metadata size: want %d got %d", len(g.meta), len(m.Metadata))
	}
	for k, v := range g.meta {
		if got, ok := m.Metadata[k]; !ok || got != v {
			return "metadata entry differs"
		}
	}
	if !bytes.Equal(m.Payload, g.payload) {
		return fmt.Sprintf("payload differs (want %d bytes, got %d)", len(g.payload), len(m.Payload))
	}
	return ""
}

// ---- decoding under test -----------------------------------------------------------------

// chunkReader yields the given chunks one Read call at a time, then io.EOF or failErr.
type chunkReader struct {
	chunks  [][]byte
	failErr error
	n       int // bytes handed out
}

func (c *chunkReader) Read(p []byte) (int, error) {
	for len(c.chunks) > 0 && len(c.chunks[0]) == 0 {
		c.chunks = c.chunks[1:]
	}
	if len(c.chunks) == 0 {
		if c.failErr != nil {
			return 0, c.failErr
		}
		return 0, io.EOF
	}
	n := copy(p, c.chunks[0])
	c.chunks[0] = c.chunks[0][n:]
	c.n += n
	return n, nil
}

var errInjected = errors.New("verif: injected reader failure")

func classifyDecodeErr(err error) string {
	switch {
	case err == nil:
		return "ok"
	case errors.Is(err, io.EOF), errors.Is(err, io.ErrUnexpectedEOF), errors.Is(err, errInjected):
		return "eof"
	case errors.Is(err, protocol.ErrMessageTooLong):
		return "tooLong"
	case errors.Is(err, protocol.ErrMetaKVMissing):
		return "metaKV"
	case errors.Is(err, protocol.ErrUnsupportedCompressor):
		return "unsupportedCompressor"
	case strings.HasPrefix(err.Error(), "wrong magic number"):
		return "badMagic"
	case strings.HasPrefix(err.Error(), "toy:"), strings.HasPrefix(err.Error(), "fail:"),
		strings.Contains(err.Error(), "gzip"), strings.Contains(err.Error(), "flate"):
		return "unzipFailed"
	case strings.Contains(err.Error(), "panic"):
		return "panic"
	}
	return "malformed"
}

// decodeOutcome runs Decode on the object with a recover of our own (a crash of the
// decoder is a property violation, not a harness crash).
func decodeOutcome(m *protocol.Message, rd io.Reader) (err error, panicked any) {
	defer func() {
		if p := recover(); p != nil {
			panicked = p
		}
	}()
	err = m.Decode(rd)
	return
}

func decodedStr(m *protocol.Message, consumed int) string {
	return fmt.Sprintf("ok consumed=%d hdr=%s path=%s method=%s meta=%s payload=%s", consumed,
		hx(m.Header[:]), hx([]byte(m.ServicePath)), hx([]byte(m.ServiceMethod)), metaMapStr(m.Metadata), hx(m.Payload))
}

// payloadSection returns the raw (possibly compressed) payload bytes of a frame produced
// by the encoder under test (used to build the gzip oracle for the model).
func payloadSection(frame []byte) ([]byte, bool) {
	p := 16
	for i := 0; i < 3; i++ {
		if p+4 > len(frame) {
			return nil, false
		}
		l := int(binary.BigEndian.Uint32(frame[p:]))
		p += 4 + l
	}
	if p+4 > len(frame) {
		return nil, false
	}
	l := int(binary.BigEndian.Uint32(frame[p:]))
	p += 4
	if p+l > len(frame) {
		return nil, false
	}
	return frame[p : p+l], true
}
