package main

import (
	"context"
	"fmt"
	"math/rand"
	"strings"
	"time"

	"github.com/smallnest/rpcx/client"
	"github.com/smallnest/rpcx/protocol"
	"github.com/smallnest/rpcx/share"
)

func init() {
	register("c10", "fail-mode contract with scripted fake RPC clients (client.RegisterCacheClientBuilder) behind a real XClient with the real round-robin selector: "+
		"modes {Failfast, Failtry, Failover} x retries 0..3 x servers 1..4 x dial scripts {ok, refused}* x per-delivery outcome scripts over "+
		"{ok, service error, connection lost, cancelled, deadline} (exhaustive up to the retry bound in thorough, sampled in quick), for Call and for SendRaw; "+
		"Failbackup with scripted dispatch failures and completion orders; direct oracle: delivery bound, success iff the last delivery was answered ok (and the reply is that delivery's), "+
		"non-nil error otherwise, no attempt after service error / cancel / deadline, Failtry same server, Failover different consecutive servers; every case replayed on the Lean model; "+
		"plus, end to end with REAL clients and real servers that do not answer before the caller's deadline / cancellation: exactly one delivery for Call and SendRaw in every fail mode; "+
		"non-trivial = at least one failing delivery or dial; distinct = distinct input line",
		runC10)
}

var outcomeLetters = "KSLCD"

func mkXClient(n int, mode client.FailMode, retries int, sel client.SelectMode) (client.XClient, []string) {
	var pairs []*client.KVPair
	var addrs []string
	for i := 0; i < n; i++ {
		a := fmt.Sprintf("fake@s%d", i)
		addrs = append(addrs, a)
		pairs = append(pairs, &client.KVPair{Key: a})
	}
	d, _ := client.NewMultipleServersDiscovery(pairs)
	opt := client.DefaultOption
	opt.Retries = retries
	opt.BackupLatency = 30 * time.Millisecond
	return client.NewXClient("Svc", mode, sel, d, opt), addrs
}

func canonDeliveries(ds []string) string {
	names := map[string]int{}
	var out []string
	for _, d := range ds {
		if _, ok := names[d]; !ok {
			names[d] = len(names)
		}
		out = append(out, fmt.Sprint(names[d]))
	}
	if len(out) == 0 {
		return "-"
	}
	return strings.Join(out, ",")
}

func classifyErr(err error) string {
	switch {
	case err == nil:
		return "nil"
	case err == context.Canceled:
		return "cancelled"
	case err == context.DeadlineExceeded:
		return "deadline"
	case err == errFakeLost:
		return "lost"
	case err == errFakeDial:
		return "dial"
	case err == client.ErrXClientNoServer:
		return "noServer"
	case err == client.ErrServerUnavailable:
		return "unavailable"
	}
	if se, ok := err.(client.ServiceError); ok && se.IsServiceError() {
		return "svc"
	}
	return "other:" + err.Error()
}

type c10Case struct {
	mode    client.FailMode
	retries int
	n       int
	dials   []bool
	calls   []fakeOutcome
	raw     bool
}

func (c c10Case) line() string {
	ds := "-"
	if len(c.dials) > 0 {
		b := make([]byte, len(c.dials))
		for i, d := range c.dials {
			b[i] = '0'
			if d {
				b[i] = '1'
			}
		}
		ds = string(b)
	}
	cs := "-"
	if len(c.calls) > 0 {
		b := make([]byte, len(c.calls))
		for i, o := range c.calls {
			b[i] = outcomeLetters[o]
		}
		cs = string(b)
	}
	mode := map[client.FailMode]string{client.Failfast: "failfast", client.Failtry: "failtry", client.Failover: "failover"}[c.mode]
	api := "call"
	if c.raw {
		api = "raw"
	}
	return fmt.Sprintf("fm %s %s %d %d %s %s", api, mode, c.retries, c.n, ds, cs)
}

func runC10Case(o *Out, c c10Case) {
	sc := &fakeScenario{dials: append([]bool(nil), c.dials...), calls: append([]fakeOutcome(nil), c.calls...)}
	setScenario(sc)
	xc, _ := mkXClient(c.n, c.mode, c.retries, client.RoundRobin)
	defer xc.Close()
	var err error
	reply := &fakeReply{Delivery: -1}
	gotReply := -1
	done := make(chan struct{})
	go func() {
		defer close(done)
		defer func() {
			if p := recover(); p != nil {
				err = fmt.Errorf("panic: %v", p)
			}
		}()
		if c.raw {
			req := protocol.NewMessage()
			req.ServicePath, req.ServiceMethod = "Svc", "M"
			var payload []byte
			_, payload, err = xc.SendRaw(context.Background(), req)
			if err == nil && len(payload) == 1 {
				gotReply = int(payload[0])
			}
		} else {
			err = xc.Call(context.Background(), "M", 1, reply)
			if err == nil {
				gotReply = reply.Delivery
			}
		}
	}()
	select {
	case <-done:
	case <-time.After(5 * time.Second):
		o.Violate("c10.hang", "the call did not return within 5s", map[string]any{"case": c.line()})
		return
	}
	sc.mu.Lock()
	deliveries := append([]string(nil), sc.deliveries...)
	usedCalls := len(c.calls) - len(sc.calls)
	sc.mu.Unlock()
	cls := classifyErr(err)
	res := "err:" + cls
	if err == nil {
		if gotReply >= 0 {
			res = fmt.Sprintf("ok:%d", gotReply)
		} else {
			res = "nilNoReply"
		}
	}
	nontrivial := false
	for _, d := range c.dials {
		if !d {
			nontrivial = true
		}
	}
	for _, x := range c.calls[:min(usedCalls, len(c.calls))] {
		if x != foOK {
			nontrivial = true
		}
	}
	o.SpecCase(c.line(), fmt.Sprintf("%s d=%s", res, canonDeliveries(deliveries)), nontrivial)
	o.Count("mode." + c.line()[3:strings.Index(c.line()[8:], " ")+8])
	o.Count("result." + strings.SplitN(res, ":", 2)[0])

	// ---- direct oracle ------------------------------------------------------------------
	rp := map[string]any{"case": c.line(), "deliveries": deliveries, "result": res}
	bound := c.retries + 1
	if c.mode == client.Failfast {
		bound = 1
	}
	if len(deliveries) > bound {
		o.Violate("c10.too-many-deliveries", fmt.Sprintf("%d deliveries, the mode allows at most %d", len(deliveries), bound), rp)
	}
	var last fakeOutcome = -1
	if len(deliveries) > 0 && len(deliveries) <= len(c.calls) {
		last = c.calls[len(deliveries)-1]
	} else if len(deliveries) > len(c.calls) {
		last = foLost
	}
	if err == nil {
		if len(deliveries) == 0 || last != foOK {
			o.Violate("c10.untruthful-success", "nil error although the attempt the call ended with was not answered successfully (or no request was delivered at all)", rp)
		} else if gotReply != len(deliveries)-1 {
			o.Violate("c10.wrong-reply", fmt.Sprintf("success, but the reply is that of delivery %d, not of the last delivery %d", gotReply, len(deliveries)-1), rp)
		}
	} else if last == foOK {
		o.Violate("c10.error-after-success", "the last delivery was answered successfully but the call returned "+cls, rp)
	}
	for i := 0; i+1 < len(deliveries) && i < len(c.calls); i++ {
		if x := c.calls[i]; x == foSvcErr || x == foCancelled || x == foDeadline {
			o.Violate("c10.attempt-after-terminal", fmt.Sprintf("delivery %d ended with %c (service error / cancel / deadline) but another attempt followed", i, outcomeLetters[x]), rp)
			break
		}
	}
	if c.mode == client.Failtry {
		for _, d := range deliveries {
			if d != deliveries[0] {
				o.Violate("c10.failtry-other-server", "Failtry delivered to more than one server", rp)
				break
			}
		}
	}
	allDialsOK := true
	for _, d := range c.dials {
		allDialsOK = allDialsOK && d
	}
	// (when a dial is refused the selector's next server is legitimately skipped, so the
	// "different server" clause is judged only when every server could be reached)
	if c.mode == client.Failover && c.n > 1 && allDialsOK {
		for i := 1; i < len(deliveries); i++ {
			if deliveries[i] == deliveries[i-1] {
				o.Violate("c10.failover-same-server", "Failover under round-robin delivered twice in a row to the same server although others are available", rp)
				break
			}
		}
	}
}

func runC10(o *Out, r *rand.Rand) {
	modes := []client.FailMode{client.Failfast, client.Failtry, client.Failover}
	enumCalls := func(l int, f func([]fakeOutcome)) {
		cur := make([]fakeOutcome, l)
		var rec func(i int)
		rec = func(i int) {
			if i == l {
				f(append([]fakeOutcome(nil), cur...))
				return
			}
			for x := foOK; x <= foDeadline; x++ {
				cur[i] = x
				rec(i + 1)
			}
		}
		rec(0)
	}
	total := 0
	for _, raw := range []bool{false, true} {
		for _, mode := range modes {
			for retries := 0; retries <= 3; retries++ {
				for n := 1; n <= 4; n++ {
					maxCalls := retries + 1
					if mode == client.Failfast {
						maxCalls = 1
					}
					enumCalls(maxCalls, func(calls []fakeOutcome) {
						// dial scripts: all ok; plus scripts with refusals at each position
						dialScripts := [][]bool{{true, true, true, true, true, true}}
						for pos := 0; pos < maxCalls+1; pos++ {
							ds := []bool{true, true, true, true, true, true}
							ds[pos] = false
							dialScripts = append(dialScripts, ds)
						}
						dialScripts = append(dialScripts, []bool{false, false, true, true, true, true}, []bool{false, false, false, false, false, false, false})
						for _, ds := range dialScripts {
							if !thorough() {
								// sample
								keep := 40
								if maxCalls >= 3 {
									keep = 6
								}
								if maxCalls >= 4 {
									keep = 2
								}
								if r.Intn(100) >= keep {
									continue
								}
							} else if maxCalls >= 4 && r.Intn(4) != 0 {
								continue
							}
							runC10Case(o, c10Case{mode, retries, n, ds, calls, raw})
							total++
						}
					})
				}
			}
		}
	}
	c10Backup(o, r)
	c10RealDeadline(o, r)
	c10RealServiceError(o, r)
}

// ---- Failbackup ------------------------------------------------------------------------

// Three servers under round-robin: Call's own initial selection dials server A (dial 1),
// the first dispatch selects B (dial 2), the backup dispatch selects C (dial 3); refusing
// dial 2 / dial 3 makes the corresponding dispatch fail to start.  Completions are gated.
func c10Backup(o *Out, r *rand.Rand) {
	outs := []fakeOutcome{foOK, foSvcErr, foLost}
	c10BackupDeadline(o, foOK)
	c10BackupDeadline(o, foSvcErr)
	for _, go1 := range []bool{true, false} {
		for _, go2 := range []bool{true, false} {
			for _, o1 := range outs {
				for _, o2 := range outs {
					for order := 0; order <= 2; order++ { // 0: reply1 before the timer; 1: after the timer reply1 first; 2: reply2 first
						c10BackupCase(o, go1, go2, o1, o2, order)
					}
				}
			}
		}
	}
}

// c10BackupDeadline: the caller's context has a deadline shorter than twice the backup latency;
// the first request is answered after more than half of the remaining time but BEFORE the backup
// latency has passed: exactly one request must have been delivered (the second is sent only
// after the backup latency has passed with the first still unanswered).
func c10BackupDeadline(o *Out, o1 fakeOutcome) {
	g1 := make(chan struct{})
	g2 := make(chan struct{})
	close(g2)
	sc := &fakeScenario{dials: []bool{true, true, true, false, false},
		perDial: map[int]fakeOutcome{2: o1, 3: foOK}, gatesByDial: map[int]chan struct{}{2: g1, 3: g2}}
	setScenario(sc)
	var pairs []*client.KVPair
	for i := 0; i < 3; i++ {
		pairs = append(pairs, &client.KVPair{Key: fmt.Sprintf("fake@s%d", i)})
	}
	d, _ := client.NewMultipleServersDiscovery(pairs)
	opt := client.DefaultOption
	opt.Retries = 0
	opt.BackupLatency = 300 * time.Millisecond
	xc := client.NewXClient("Svc", client.Failbackup, client.RoundRobin, d, opt)
	defer xc.Close()
	ctx, cancel := context.WithTimeout(context.Background(), 420*time.Millisecond)
	defer cancel()
	reply := &fakeReply{Delivery: -1}
	resCh := make(chan error, 1)
	t0 := time.Now()
	go func() { resCh <- xc.Call(ctx, "M", 1, reply) }()
	time.Sleep(250 * time.Millisecond)
	late := time.Since(t0) > 290*time.Millisecond // a stalled machine: not judged
	close(g1)
	var err error
	select {
	case err = <-resCh:
	case <-time.After(2 * time.Second):
		o.Violate("c10.backup.hang", "Failbackup call with a deadline did not return", nil)
		return
	}
	sc.mu.Lock()
	nd := len(sc.deliveries)
	sc.mu.Unlock()
	res := "err"
	if err == nil {
		res = "ok"
	}
	line := fmt.Sprintf("fb 1 1 %c %c r1,t,r2", outcomeLetters[o1], outcomeLetters[foOK])
	rp := map[string]any{"case": line, "deliveries": nd, "err": classifyErr(err), "backup_latency_ms": 300, "context_deadline_ms": 420, "first_reply_at_ms": 250}
	o.Count("backup.deadline-cases")
	if late {
		o.Note("backup deadline case: the machine stalled (%v), not judged", time.Since(t0))
		return
	}
	o.SpecCase(line, fmt.Sprintf("%s n=%d", res, nd), true)
	if nd > 1 {
		o.Violate("c10.backup.early-second", "the backup request was sent before the backup latency had passed (the caller's deadline was shorter than twice the latency)", rp)
	}
}

func c10BackupCase(o *Out, go1, go2 bool, o1, o2 fakeOutcome, order int) {
	g1 := make(chan struct{})
	g2 := make(chan struct{})
	sc := &fakeScenario{dials: []bool{true, go1, go2, false, false},
		perDial: map[int]fakeOutcome{2: o1, 3: o2}, gatesByDial: map[int]chan struct{}{2: g1, 3: g2}}
	setScenario(sc)
	xc, _ := mkXClient(3, client.Failbackup, 0, client.RoundRobin)
	defer xc.Close()
	reply := &fakeReply{Delivery: -1}
	resCh := make(chan error, 1)
	go func() { resCh <- xc.Call(context.Background(), "M", 1, reply) }()
	var err error
	returned := false
	var atReturn [2]interface{} // the reply as it was when Call returned
	wait := func(d time.Duration) {
		if returned {
			return
		}
		select {
		case err = <-resCh:
			returned = true
			atReturn = [2]interface{}{reply.Delivery, reply.Addr}
		case <-time.After(d):
		}
	}
	var events []string
	switch order {
	case 0:
		close(g1)
		events = []string{"r1", "t", "r2"}
		wait(20 * time.Millisecond)
		wait(150 * time.Millisecond) // (if dispatch 1 never started the call goes on to the backup)
		close(g2)
	case 1:
		wait(120 * time.Millisecond) // backup latency is 30ms: the timer has fired, backup dispatched
		close(g1)
		events = []string{"t", "r1", "r2"}
		wait(100 * time.Millisecond)
		close(g2)
	default:
		wait(120 * time.Millisecond)
		close(g2)
		events = []string{"t", "r2", "r1"}
		wait(100 * time.Millisecond)
		close(g1)
	}
	wait(3 * time.Second)
	sc.mu.Lock()
	nd := len(sc.deliveries)
	sc.mu.Unlock()
	res := "err"
	if err == nil {
		res = "ok"
		if reply.Delivery < 0 {
			res = "nilNoReply"
		}
	}
	b := func(x bool) string {
		if x {
			return "1"
		}
		return "0"
	}
	line := fmt.Sprintf("fb %s %s %c %c %s", b(go1), b(go2), outcomeLetters[o1], outcomeLetters[o2], strings.Join(events, ","))
	rp := map[string]any{"case": line, "deliveries": nd, "err": classifyErr(err)}
	if !returned {
		o.Violate("c10.backup.hang", "Failbackup call did not return", rp)
		o.SpecCase(line, "hang", true)
		return
	}
	o.SpecCase(line, fmt.Sprintf("%s n=%d", res, nd), true)
	o.Count("backup.cases")
	if nd > 2 {
		o.Violate("c10.backup.too-many", fmt.Sprintf("Failbackup dispatched %d requests", nd), rp)
	}
	if order == 0 && go1 && nd > 1 {
		o.Violate("c10.backup.early-second", "the backup request was sent although the first reply arrived before the backup latency", rp)
	}
	if res == "nilNoReply" {
		o.Violate("c10.backup.untruthful-success", "Failbackup returned a nil error but no attempt was answered successfully", rp)
	}
	// the reply the call returned with is that attempt's, for good: the other attempt, answered later (both
	// gates are open by now), must not write into the caller's reply any more
	if err == nil && returned {
		time.Sleep(15 * time.Millisecond)
		if now := [2]interface{}{reply.Delivery, reply.Addr}; now != atReturn {
			rp["reply_when_Call_returned"] = fmt.Sprint(atReturn)
			rp["reply_later"] = fmt.Sprint(now)
			o.Violate("c10.backup.reply-changed-after-return", "the reply of a successful Failbackup call changed after Call had returned: the abandoned attempt, answered later, wrote into the caller's reply", rp)
		}
	}
}

// c10RealDeadline: the fail-mode contract end to end – a REAL rpcx client under the discovery client,
// real servers whose handler does not answer before the caller's deadline (or before the caller
// cancels).  A cancelled context or an expired deadline ends the call at once: the request is
// delivered once, whatever the fail mode and the number of retries, for Call and for SendRaw.
func c10RealDeadline(o *Out, r *rand.Rand) {
	type cfg struct {
		mode    client.FailMode
		retries int
		raw     bool
		cancel  bool
		servers int
	}
	var cfgs []cfg
	for _, mode := range []client.FailMode{client.Failtry, client.Failover, client.Failfast} {
		for _, raw := range []bool{false, true} {
			cfgs = append(cfgs, cfg{mode, 1 + r.Intn(3), raw, r.Intn(2) == 0, 1 + r.Intn(2)})
		}
	}
	if thorough() {
		for _, mode := range []client.FailMode{client.Failtry, client.Failover} {
			for _, raw := range []bool{false, true} {
				for _, cancel := range []bool{false, true} {
					cfgs = append(cfgs, cfg{mode, 3, raw, cancel, 2})
				}
			}
		}
	}
	for ci, c := range cfgs {
		var rigs []*srvRig
		var pairs []*client.KVPair
		for k := 0; k < c.servers; k++ {
			rig, err := newSrvRig(srvOpts{})
			if err != nil {
				o.Violate("srv.rig", "cannot start the server: "+err.Error(), nil)
				return
			}
			rigs = append(rigs, rig)
			pairs = append(pairs, &client.KVPair{Key: "tcp@" + rig.addr})
		}
		id := 7700000 + ci
		var gates []chan struct{}
		for _, rig := range rigs {
			g, _ := rig.gate(id)
			gates = append(gates, g)
		}
		d, _ := client.NewMultipleServersDiscovery(pairs)
		opt := client.DefaultOption
		opt.Retries = c.retries
		opt.SerializeType = protocol.JSON
		opt.Heartbeat = false
		xc := client.NewXClient("Svc", c.mode, client.RoundRobin, d, opt)
		ctx, cancel := context.WithTimeout(context.Background(), 150*time.Millisecond)
		if c.cancel {
			ctx, cancel = context.WithCancel(context.Background())
			time.AfterFunc(150*time.Millisecond, cancel)
		}
		args := &SArgs{ID: id, Mode: "ok"}
		var err error
		start := time.Now()
		if c.raw {
			req := protocol.NewMessage()
			req.SetMessageType(protocol.Request)
			req.SetSerializeType(protocol.JSON)
			req.SetSeq(uint64(900000 + ci))
			req.ServicePath, req.ServiceMethod = "Svc", "Do"
			req.Payload, _ = share.Codecs[protocol.JSON].Encode(args)
			_, _, err = xc.SendRaw(ctx, req)
		} else {
			var reply SReply
			err = xc.Call(ctx, "Do", args, &reply)
		}
		took := time.Since(start)
		cancel()
		time.Sleep(30 * time.Millisecond)
		deliveries := 0
		for _, rig := range rigs {
			deliveries += rig.invocations(id)
		}
		for _, g := range gates {
			close(g)
		}
		xc.Close()
		for _, rig := range rigs {
			rig.close()
		}
		what := "Call"
		if c.raw {
			what = "SendRaw"
		}
		how := "deadline expired"
		if c.cancel {
			how = "context cancelled"
		}
		o.Eval(fmt.Sprintf("real-deadline %s mode=%v retries=%d cancel=%v servers=%d", what, c.mode, c.retries, c.cancel, c.servers), true)
		o.Count("real-deadline." + what)
		rp := map[string]any{"operation": what, "fail_mode": fmt.Sprint(c.mode), "retries": c.retries, "servers": c.servers, "ended_by": how,
			"deliveries": deliveries, "returned": fmt.Sprint(err), "took_ms": took.Milliseconds()}
		if err == nil {
			o.Violate("c10.real.success-without-answer", fmt.Sprintf("%s returned nil although no server answered before the %s", what, how), rp)
			return
		}
		if deliveries == 0 {
			// (a starved machine: the request had not reached a handler when the caller gave up – at
			// most one delivery all the same)
			o.Note("real-deadline %s mode=%v: the request never reached a handler before the caller's %s", what, c.mode, how)
			continue
		}
		if deliveries != 1 {
			o.Violate("c10.real.redelivered-after-context-ended", fmt.Sprintf("%s in %v mode with %d retries: the request reached servers %d times although the caller's %s while the first attempt was unanswered (want exactly 1)",
				what, c.mode, c.retries, deliveries, how), rp)
			return
		}
	}
}

// c10RealServiceError: end to end again – a REAL client under the discovery client and real servers whose
// handler fails.  A service error ends the call at once: one delivery whatever the fail mode and the
// number of retries, and the caller gets a service error – for every error text, the empty one included
// (what the fake clients of the scripted scenarios hand over as a ready-made ServiceError is built by
// the real client from the response here).
func c10RealServiceError(o *Out, r *rand.Rand) {
	texts := []string{"", "boom", "line one\nline two", "日本語のエラー", strings.Repeat("long ", 300)}
	modes := []client.FailMode{client.Failtry, client.Failover, client.Failfast}
	ci := 0
	for _, text := range texts {
		for _, mode := range modes {
			if !thorough() && text != "" && r.Intn(2) == 0 {
				continue
			}
			ci++
			servers := 1 + r.Intn(3)
			retries := 1 + r.Intn(3)
			var rigs []*srvRig
			var pairs []*client.KVPair
			for k := 0; k < servers; k++ {
				rig, err := newSrvRig(srvOpts{})
				if err != nil {
					o.Violate("srv.rig", "cannot start the server: "+err.Error(), nil)
					return
				}
				rigs = append(rigs, rig)
				pairs = append(pairs, &client.KVPair{Key: "tcp@" + rig.addr})
			}
			id := 7800000 + ci
			d, _ := client.NewMultipleServersDiscovery(pairs)
			opt := client.DefaultOption
			opt.Retries = retries
			opt.SerializeType = protocol.JSON
			opt.Heartbeat = false
			xc := client.NewXClient("Svc", mode, client.RoundRobin, d, opt)
			ctx, cancel := context.WithTimeout(context.Background(), 5*time.Second)
			var reply SReply
			err := xc.Call(ctx, "Do", &SArgs{ID: id, Mode: "err", Text: text}, &reply)
			cancel()
			time.Sleep(5 * time.Millisecond)
			deliveries := 0
			for _, rig := range rigs {
				deliveries += rig.invocations(id)
			}
			xc.Close()
			for _, rig := range rigs {
				rig.close()
			}
			o.Eval(fmt.Sprintf("real-service-error mode=%v retries=%d servers=%d textlen=%d", mode, retries, servers, len(text)), true)
			o.Count("real-service-error.calls")
			rp := map[string]any{"fail_mode": fmt.Sprint(mode), "retries": retries, "servers": servers, "handler_error_text": text, "deliveries": deliveries, "returned": fmt.Sprint(err)}
			if err == nil {
				o.Violate("c10.real.untruthful-success", "the handler failed but Call returned nil", rp)
				return
			}
			if deliveries != 1 {
				o.Violate("c10.real.service-error-redelivered", fmt.Sprintf("%v mode, %d retries: a request whose handler returned the error %q reached servers %d times (a service error ends the call at once: want 1)", mode, retries, text, deliveries), rp)
				return
			}
			if _, ok := err.(client.ServiceError); !ok {
				o.Violate("c10.real.service-error-kind", fmt.Sprintf("the handler's error %q came back as %T (%v), not as a service error", text, err, err), rp)
				return
			}
		}
	}
}
