package main

import (
	"context"
	"fmt"
	"math/rand"
	"sort"
	"strings"
	"time"

	"github.com/smallnest/rpcx/client"
)

func init() {
	register("c17", "Broadcast / Fork / Inform over scripted fake clients: server counts 1..4, every outcome vector over {ok, service error, connection lost} "+
		"(the slowest server of each completion order plays 'slow'), every completion order for n<=3 and sampled orders for n=4, completions released one at a time through gates; "+
		"direct oracle: Broadcast ok iff all ok, Fork ok iff some ok, on success the reply is that of a server that succeeded, Inform gives one receipt per server with "+
		"that server's own reply and own error (nil iff it succeeded); the reply type holds a map the caller pre-populates (a server's payload is inserted into it, as a codec does): on success the caller's reply and every receipt must be exactly one server's value; plus vectors whose last server does not answer before the caller's deadline (a context the harness expires once the others have answered; the abandoned call winds up 4 ms later); every case replayed on the Lean model; non-trivial = at least one failing server; distinct = distinct input line",
		runC17)
}

func perms(n int) [][]int {
	if n == 1 {
		return [][]int{{0}}
	}
	var out [][]int
	for _, p := range perms(n - 1) {
		for i := 0; i <= len(p); i++ {
			q := append(append(append([]int{}, p[:i]...), n-1), p[i:]...)
			out = append(out, q)
		}
	}
	return out
}

func runC17(o *Out, r *rand.Rand) {
	outs := []fakeOutcome{foOK, foSvcErr, foLost}
	for n := 1; n <= 4; n++ {
		vec := make([]fakeOutcome, n)
		var rec func(i int)
		rec = func(i int) {
			if i == n {
				ps := perms(n)
				for _, op := range []string{"broadcast", "fork", "inform"} {
					for _, p := range ps {
						if n == 4 && r.Intn(6) != 0 {
							continue
						}
						if !thorough() && n >= 3 && r.Intn(4) != 0 {
							continue
						}
						c17Case(o, op, append([]fakeOutcome(nil), vec...), p)
					}
				}
				return
			}
			for _, x := range outs {
				vec[i] = x
				rec(i + 1)
			}
			if i == n-1 {
				// the last server never answers before the caller's deadline; completion orders in
				// which it is last
				vec[i] = foSlow
				for _, op := range []string{"broadcast", "fork", "inform"} {
					for _, p := range perms(n) {
						if p[n-1] != n-1 || (!thorough() && n >= 3 && r.Intn(3) != 0) {
							continue
						}
						c17CaseCtx(o, op, append([]fakeOutcome(nil), vec...), p, "deadline")
						c17CaseCtx(o, op, append([]fakeOutcome(nil), vec...), p, "cancel")
					}
				}
			}
		}
		rec(0)
	}
}

var c17Counter int

func c17Case(o *Out, op string, vec []fakeOutcome, order []int) {
	c17CaseCtx(o, op, vec, order, "")
}

// ending = "deadline" / "cancel": the caller's context ends (a deadline the harness triggers by hand, or a
// plain cancellation – however a caller gives up, a server that has not answered has not succeeded) once every
// server that answers at all has answered; the servers whose outcome is foSlow have not, and their
// calls end with the context's error – a little later (slowWindUp)
func c17CaseCtx(o *Out, op string, vec []fakeOutcome, order []int, ending string) {
	withDeadline := ending != ""
	n := len(vec)
	sc := &fakeScenario{perAddr: map[string]fakeOutcome{}, gates: map[string]chan struct{}{}}
	for i := 0; i < 8; i++ {
		sc.dials = append(sc.dials, true)
	}
	gates := make([]chan struct{}, n)
	for i := 0; i < n; i++ {
		a := fmt.Sprintf("fake@s%d", i)
		sc.perAddr[a] = vec[i]
		gates[i] = make(chan struct{})
		sc.gates[a] = gates[i]
	}
	// in half of the cases dropping a broken client is slow (its Close takes 3 ms): the verdict
	// must still account for that server's failure
	c17Counter++
	slow := c17Counter%2 == 0
	if slow {
		sc.slowClose = 3 * time.Millisecond
	}
	var ctx context.Context = context.Background()
	var dctx *deadlineCtx
	endCtx := func() {}
	if ending == "deadline" {
		dctx = &deadlineCtx{deadline: time.Now().Add(time.Hour), done: make(chan struct{})}
		ctx = dctx
		endCtx = dctx.expire
		sc.slowWindUp = 4 * time.Millisecond
	} else if ending == "cancel" {
		cctx, cancel := context.WithCancel(context.Background())
		defer cancel()
		ctx = cctx
		endCtx = cancel
		sc.slowWindUp = 4 * time.Millisecond
	}
	ended := false
	setScenario(sc)
	xc, _ := mkXClient(n, client.Failfast, 0, client.RandomSelect)
	defer xc.Close()
	reply := &fakeReply{Delivery: -1, Seen: map[string]int{"caller-default": 1}}
	type result struct {
		err      error
		receipts []client.Receipt
	}
	resCh := make(chan result, 1)
	go func() {
		var res result
		switch op {
		case "broadcast":
			res.err = xc.Broadcast(ctx, "M", 1, reply)
		case "fork":
			res.err = xc.Fork(ctx, "M", 1, reply)
		default:
			res.receipts, res.err = xc.Inform(ctx, "M", 1, reply)
		}
		resCh <- res
	}()
	// release completions one at a time, in the given order
	var res result
	returned := false
	for _, i := range order {
		if withDeadline && vec[i] == foSlow && !ended {
			// everything that answers has answered (slow servers come last in `order`): the caller gives up
			endCtx()
			ended = true
		}
		close(gates[i])
		if !returned {
			select {
			case res = <-resCh:
				returned = true
			case <-time.After(6 * time.Millisecond):
			}
		}
	}
	if !returned {
		select {
		case res = <-resCh:
		case <-time.After(3 * time.Second):
			o.Violate("c17.hang", op+" did not return", map[string]any{"op": op, "outcomes": fmt.Sprint(vec), "order": order})
			return
		}
	}
	time.Sleep(time.Millisecond)
	var spec []string
	allOK, someOK := true, false
	okAddrs := map[string]bool{}
	for _, i := range order {
		k := 0
		if vec[i] == foOK {
			k = 1
			someOK = true
			okAddrs[fmt.Sprintf("fake@s%d", i)] = true
		} else {
			allOK = false
		}
		spec = append(spec, fmt.Sprintf("s%d:%d:%d", i, k, i+1))
	}
	line := fmt.Sprintf("fan %s %s", op, strings.Join(spec, ","))
	rp := map[string]any{"case": line, "err": fmt.Sprint(res.err), "slow_close_of_broken_clients": slow}
	if withDeadline {
		var sl []int
		for i, x := range vec {
			if x == foSlow {
				sl = append(sl, i)
			}
		}
		rp["servers_that_never_answer_before_the_callers_deadline"] = sl
		rp["callers_context_ended_by"] = ending
		o.Count("with-" + ending + "." + op)
	}
	nontrivial := !allOK
	o.Count("op." + op)
	b := func(x bool) string {
		if x {
			return "1"
		}
		return "0"
	}
	switch op {
	case "broadcast":
		o.SpecCase(line, "success="+b(res.err == nil), nontrivial)
		o.Case("fanc"+line[3:], "success="+b(res.err == nil), nontrivial) // the goroutine-level model on this release schedule
		if (res.err == nil) != allOK {
			o.Violate("c17.broadcast.verdict", fmt.Sprintf("Broadcast returned err=%v but all-servers-ok=%v", res.err, allOK), rp)
		}
		if res.err == nil && !okAddrs[reply.Addr] {
			o.Violate("c17.broadcast.reply", "Broadcast succeeded but the caller's reply was not produced by a server that succeeded", rp)
		}
		if res.err == nil && !c17OwnValue(reply) {
			rp["reply_map_field"] = fmt.Sprint(reply.Seen)
			o.Violate("c17.broadcast.reply", "Broadcast succeeded but the caller's reply is not the value one server produced: its map field holds "+fmt.Sprint(reply.Seen), rp)
		}
	case "fork":
		o.SpecCase(line, "success="+b(res.err == nil), nontrivial)
		o.Case("fanc"+line[3:], "success="+b(res.err == nil), nontrivial) // the goroutine-level model on this release schedule
		if (res.err == nil) != someOK {
			o.Violate("c17.fork.verdict", fmt.Sprintf("Fork returned err=%v but some-server-ok=%v", res.err, someOK), rp)
		}
		if res.err == nil && !okAddrs[reply.Addr] {
			o.Violate("c17.fork.reply", "Fork succeeded but the caller's reply was not produced by a server that succeeded", rp)
		}
		if res.err == nil && !c17OwnValue(reply) {
			rp["reply_map_field"] = fmt.Sprint(reply.Seen)
			o.Violate("c17.fork.reply", "Fork succeeded but the caller's reply is not the value one server produced: its map field holds "+fmt.Sprint(reply.Seen), rp)
		}
	default:
		var rs []string
		seen := map[string]int{}
		for _, rc := range res.receipts {
			seen[rc.Address]++
			idx := -1
			fmt.Sscanf(rc.Address, "s%d", &idx)
			want := idx >= 0 && idx < n && vec[idx] == foOK
			rep := 0
			if fr, ok := rc.Reply.(*fakeReply); ok && rc.Error == nil {
				if fr.Addr == "fake@"+rc.Address && !c17OwnValue(fr) {
					o.Violate("c17.inform.reply", fmt.Sprintf("receipt of %s does not carry that server's own reply: its map field holds %v", rc.Address, fr.Seen), rp)
				}
				if fr.Addr == "fake@"+rc.Address {
					rep = idx + 1
				} else {
					o.Violate("c17.inform.reply", fmt.Sprintf("receipt of %s carries the reply of %q", rc.Address, fr.Addr), rp)
				}
			}
			if (rc.Error == nil) != want {
				o.Violate("c17.inform.error", fmt.Sprintf("receipt of %s has Error=%v although that server's call ok=%v", rc.Address, rc.Error, want), rp)
			}
			rs = append(rs, fmt.Sprintf("%s:%s:%d", rc.Address, b(rc.Error == nil), rep))
		}
		if len(res.receipts) != n {
			o.Violate("c17.inform.count", fmt.Sprintf("%d receipts for %d contacted servers", len(res.receipts), n), rp)
		}
		for a, c := range seen {
			if c != 1 {
				o.Violate("c17.inform.count", fmt.Sprintf("%d receipts for server %s", c, a), rp)
			}
		}
		sort.Strings(rs)
		o.SpecCase(line, strings.Join(rs, ","), nontrivial)
		o.Case("fanc"+line[3:], strings.Join(rs, ","), nontrivial)
	}
}

// c17OwnValue: the reply is the value ONE server produced: its map field holds that server's entry
// and nothing else (not the caller's earlier content, not another server's entry)
func c17OwnValue(r *fakeReply) bool {
	return len(r.Seen) == 1 && r.Seen[r.Addr] == 1
}
