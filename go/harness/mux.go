package main

import (
	"context"
	"encoding/binary"
	"errors"
	"fmt"
	"io"
	"math/rand"
	"net"
	"os"
	"runtime"
	"strings"
	"sync"
	"sync/atomic"
	"time"

	"github.com/smallnest/rpcx/client"
	rlog "github.com/smallnest/rpcx/log"
	"github.com/smallnest/rpcx/protocol"
	"github.com/smallnest/rpcx/share"
)

// A deterministic scheduler around one real client.Client: every atomic section of the
// multiplexer (see lean/Rpcx/Model/Mux.lean) is separated from the next by a point the
// harness holds:
//   client.send.enter hook  -> before `register`
//   rig codec Encode        -> between register and the encode result
//   rig conn Write          -> between encode and the write result
//   rig conn Read           -> the reader is parked between frames
//   context cancel + return -> the blocking caller's ctx.Done section
//   trace line of input()   -> INSIDE the dispatch of a response: after the reader took the call out
//                              of the pending table, before it completes it (events G / g)
// A schedule releases one thread at a time and waits until it parks again (or finishes).

const rigSerializeType = protocol.SerializeType(13)

type rigArgs struct{ ID int }
type rigReply struct{ Tag int }

type rigGate struct {
	arrived chan struct{}
	release chan bool // true = proceed normally, false = fail
}

func newGate() *rigGate {
	return &rigGate{arrived: make(chan struct{}, 1), release: make(chan bool, 1)}
}

type muxRig struct {
	mu       sync.Mutex
	sendGate map[int]*rigGate // by args ID
	encGate  map[int]*rigGate
	wrGate   map[int]*rigGate
	readReq  chan struct{} // the reader asked for bytes
	rawIDs   map[int]bool  // ids of the SendRaw calls of this schedule
	// the reader parks at its trace line between taking a call out of the table and completing it
	dispHold    int32
	dispArrived chan struct{}
	dispRelease chan struct{}
	feed        chan []byte
	feedErr     chan error
	closed      bool
	closedCh    chan struct{}
	// a ClientConnectionClose plugin that can be made to block (teardown in progress)
	wdl         int64 // write deadline of the conn (unix nanoseconds, 0 = none)
	plugHold    bool
	plugArrived chan struct{}
	plugRelease chan struct{}
}

type rigClosePlugin struct{ r *muxRig }

func (p rigClosePlugin) ClientConnectionClose(net.Conn) error {
	r := p.r
	r.mu.Lock()
	hold := r.plugHold
	r.plugHold = false
	r.mu.Unlock()
	if hold {
		r.plugArrived <- struct{}{}
		<-r.plugRelease
	}
	return nil
}

// rigLogger: the trace line `client.input received …` of the read loop sits between the removal of
// the answered call from the pending table and its completion – a parking point inside a dispatch
type rigLogger struct{ rlog.Logger }

func (l rigLogger) Debugf(format string, v ...interface{}) {
	if !strings.HasPrefix(format, "client.input received") {
		return
	}
	r := getRig()
	if r == nil || atomic.LoadInt32(&r.dispHold) == 0 {
		return
	}
	atomic.StoreInt32(&r.dispHold, 0)
	r.dispArrived <- struct{}{}
	<-r.dispRelease
}

var curRig *muxRig
var rigMu sync.Mutex

func getRig() *muxRig {
	rigMu.Lock()
	defer rigMu.Unlock()
	return curRig
}

func (r *muxRig) gate(m map[int]*rigGate, id int) *rigGate {
	r.mu.Lock()
	defer r.mu.Unlock()
	g, ok := m[id]
	if !ok {
		g = newGate()
		m[id] = g
	}
	return g
}

// ---- codec ---------------------------------------------------------------------------------

type rigCodec struct{}

var errRigEncode = errors.New("verif: argument cannot be encoded")

func (rigCodec) Encode(i interface{}) ([]byte, error) {
	a, ok := i.(*rigArgs)
	if !ok {
		return nil, fmt.Errorf("verif: unexpected args %T", i)
	}
	if r := getRig(); r != nil {
		g := r.gate(r.encGate, a.ID)
		g.arrived <- struct{}{}
		if !<-g.release {
			return nil, errRigEncode
		}
	}
	b := make([]byte, 8)
	binary.BigEndian.PutUint64(b, uint64(a.ID))
	return b, nil
}

func (rigCodec) Decode(data []byte, i interface{}) error {
	if bp, ok := i.(*[]byte); ok {
		// like codec.ByteCodec: the reply is a VIEW of the response payload, not a copy
		if len(data) != 8 {
			return errors.New("verif: reply does not decode")
		}
		*bp = data
		return nil
	}
	rp, ok := i.(*rigReply)
	if !ok {
		return fmt.Errorf("verif: unexpected reply %T", i)
	}
	if len(data) != 8 {
		return errors.New("verif: reply does not decode")
	}
	rp.Tag = int(binary.BigEndian.Uint64(data))
	return nil
}

// ---- conn ----------------------------------------------------------------------------------

type rigConn struct{ r *muxRig }

type rigAddr struct{}

func (rigAddr) Network() string { return "verif" }
func (rigAddr) String() string  { return "verif-peer" }

func (c rigConn) Read(p []byte) (int, error) {
	r := c.r
	select {
	case r.readReq <- struct{}{}:
	default:
	}
	select {
	case b := <-r.feed:
		if len(b) > len(p) {
			panic("rig: read buffer too small")
		}
		return copy(p, b), nil
	case err := <-r.feedErr:
		return 0, err
	case <-r.closedCh:
		return 0, io.EOF
	}
}

var errRigWrite = &net.OpError{Op: "write", Net: "verif", Err: errors.New("verif: injected write failure")}

func (c rigConn) Write(p []byte) (int, error) {
	r := c.r
	// identify the call by the ID in the payload (last 8 bytes of the frame)
	id := -1
	if len(p) >= 8 {
		id = int(binary.BigEndian.Uint64(p[len(p)-8:]))
	}
	// like a real conn, a write to a closed connection fails at once (only SendRaw ever gets as far
	// as a write after the connection was closed: send() fails fast before)
	r.mu.Lock()
	failNow := r.closed && r.rawIDs[id]
	r.mu.Unlock()
	if failNow {
		return 0, &net.OpError{Op: "write", Net: "verif", Err: net.ErrClosed}
	}
	g := r.gate(r.wrGate, id)
	g.arrived <- struct{}{}
	// parked inside Write: like a real conn, the write fails when the conn's write deadline passes
	for {
		var timer <-chan time.Time
		if dl := atomic.LoadInt64(&r.wdl); dl != 0 {
			d := time.Until(time.Unix(0, dl))
			if d <= 0 {
				return 0, &net.OpError{Op: "write", Net: "verif", Err: os.ErrDeadlineExceeded}
			}
			timer = time.After(d)
		}
		select {
		case ok := <-g.release:
			if !ok {
				return 0, errRigWrite
			}
			return len(p), nil
		case <-timer:
		case <-time.After(2 * time.Millisecond): // the deadline may have been (re)set meanwhile
		}
	}
}

func (c rigConn) Close() error {
	r := c.r
	r.mu.Lock()
	if !r.closed {
		r.closed = true
		close(r.closedCh)
	}
	r.mu.Unlock()
	return nil
}
func (c rigConn) LocalAddr() net.Addr               { return rigAddr{} }
func (c rigConn) RemoteAddr() net.Addr              { return rigAddr{} }
func (c rigConn) SetDeadline(t time.Time) error     { return c.SetWriteDeadline(t) }
func (c rigConn) SetReadDeadline(t time.Time) error { return nil }
func (c rigConn) SetWriteDeadline(t time.Time) error {
	if t.IsZero() {
		atomic.StoreInt64(&c.r.wdl, 0)
	} else {
		atomic.StoreInt64(&c.r.wdl, t.UnixNano())
	}
	return nil
}

func init() {
	share.RegisterCodec(rigSerializeType, rigCodec{})
	client.ConnFactories["verifrig"] = func(c *client.Client, network, address string) (net.Conn, error) {
		return rigConn{getRig()}, nil
	}
	hookHandlers["client.send.enter"] = func(args ...interface{}) {
		if len(args) == 0 {
			return
		}
		call, ok := args[0].(*client.Call)
		if !ok {
			return
		}
		a, ok := call.Args.(*rigArgs)
		if !ok {
			return
		}
		r := getRig()
		if r == nil {
			return
		}
		g := r.gate(r.sendGate, a.ID)
		g.arrived <- struct{}{}
		<-g.release
	}
}

// ---- a scheduled run -------------------------------------------------------------------------

type muxCall struct {
	kind     byte // 'G' Go, 'B' blocking Call, 'O' one-way Go, 'N' Go with a raw []byte reply (aliases the response buffer), 'R' SendRaw
	raw      *[]byte
	goCall   *client.Call
	done     chan *client.Call
	reply    *rigReply
	cancel   context.CancelFunc
	retCh    chan error
	ret      *error
	deadline time.Time
	phase    int // 0 fresh, 1 at-encode, 2 at-write, 3 written, 4 finished
	seq      int
	rawOut   []byte // 'R' (SendRaw): the payload it returned
}

// deadlineCtx: a context with a fixed Deadline whose expiry is triggered by the harness
type deadlineCtx struct {
	deadline time.Time
	done     chan struct{}
	once     sync.Once
}

func (d *deadlineCtx) Deadline() (time.Time, bool) { return d.deadline, true }
func (d *deadlineCtx) Done() <-chan struct{}       { return d.done }
func (d *deadlineCtx) Err() error {
	select {
	case <-d.done:
		return context.DeadlineExceeded
	default:
		return nil
	}
}
func (d *deadlineCtx) Value(key interface{}) interface{} { return nil }
func (d *deadlineCtx) expire()                           { d.once.Do(func() { close(d.done) }) }

const stepWait = 2 * time.Second

// uncompleted: nothing has completed this call so far (no Done signal, the blocking caller not back)
func uncompleted(mc *muxCall) bool {
	switch mc.kind {
	case 'B', 'D', 'R':
		return mc.ret == nil && len(mc.retCh) == 0
	}
	return len(mc.done) == 0
}

// settle waits for the completion a sender's failure step (or a one-way call's write) produces – when
// the call was still uncompleted before the step; a call completed earlier gets nothing more
func settle(mc *muxCall, wasUncompleted bool) {
	if !wasUncompleted {
		time.Sleep(300 * time.Microsecond)
		return
	}
	deadline := time.Now().Add(stepWait)
	for uncompleted(mc) && time.Now().Before(deadline) {
		time.Sleep(50 * time.Microsecond)
	}
}

func waitArr(g *rigGate, what string) error {
	select {
	case <-g.arrived:
		return nil
	case <-time.After(stepWait):
		return fmt.Errorf("thread did not reach %s", what)
	}
}

func buildResp(seq uint64, flags string, tag int) []byte {
	m := protocol.NewMessage()
	if strings.ContainsRune(flags, 'q') {
		m.SetMessageType(protocol.Request)
	} else {
		m.SetMessageType(protocol.Response)
	}
	m.SetHeartbeat(strings.ContainsRune(flags, 'h'))
	m.SetOneway(strings.ContainsRune(flags, 'o'))
	m.SetSerializeType(rigSerializeType)
	if strings.ContainsRune(flags, 'k') {
		m.SetSerializeType(protocol.SerializeType(14)) // a codec the client does not know
	}
	m.SetSeq(seq)
	m.ServicePath, m.ServiceMethod = "Svc", "M"
	if strings.ContainsRune(flags, 'E') {
		m.SetMessageStatusType(protocol.Error)
		m.Metadata = map[string]string{protocol.ServiceError: fmt.Sprintf("E%d", tag)}
	}
	if strings.ContainsRune(flags, 'u') {
		m.Payload = []byte("BAD")
	} else {
		b := make([]byte, 8)
		binary.BigEndian.PutUint64(b, uint64(tag))
		m.Payload = b
	}
	if strings.ContainsRune(flags, 'q') { // server push: the tag travels in the metadata
		if m.Metadata == nil {
			m.Metadata = map[string]string{}
		}
		m.Metadata["push"] = fmt.Sprint(tag)
	}
	return append([]byte(nil), m.Encode()...)
}

func classifyMuxErr(err error, reply *rigReply) string {
	switch {
	case err == nil:
		if reply == nil {
			return "none"
		}
		return fmt.Sprintf("reply:%d", reply.Tag)
	case err == context.Canceled, err == context.DeadlineExceeded:
		return "ctx"
	case err == client.ErrShutdown:
		return "shutdown"
	case err == errRigEncode:
		return "codec"
	}
	if se, ok := err.(client.ServiceError); ok {
		t := se.Error()
		if strings.HasPrefix(t, "E") {
			return "svc:" + t[1:]
		}
		return "decodeErr"
	}
	return "conn"
}

// runMuxSchedule executes the events on a fresh client and returns the observable line.
func runMuxSchedule(kinds string, evs []string) (string, error) {
	r := &muxRig{dispArrived: make(chan struct{}, 1), dispRelease: make(chan struct{}, 1), rawIDs: map[int]bool{}, sendGate: map[int]*rigGate{}, encGate: map[int]*rigGate{}, wrGate: map[int]*rigGate{},
		readReq: make(chan struct{}, 1), feed: make(chan []byte), feedErr: make(chan error), closedCh: make(chan struct{}),
		plugArrived: make(chan struct{}, 1), plugRelease: make(chan struct{}, 1)}
	rigMu.Lock()
	curRig = r
	rigMu.Unlock()
	opt := client.DefaultOption
	opt.SerializeType = rigSerializeType
	opt.Heartbeat = false
	// schedules with an `N` event run with a BLOCKING server-message channel whose consumer the
	// harness can pause: the reader then parks while handing over its "connection lost" notice
	blocking := false
	for _, e := range evs {
		if e[0] == 'N' {
			blocking = true
		}
	}
	opt.BidirectionalBlock = blocking
	// schedules with a `G` event park the reader inside a dispatch (its trace line): tracing on, a
	// logger that parks there, one P so that what a sync.Pool recycles is what the next caller gets
	held := false
	for _, e := range evs {
		if e[0] == 'G' {
			held = true
		}
	}
	if held {
		oldLogger, oldTrace, oldProcs := rlog.GetLogger(), share.Trace, runtime.GOMAXPROCS(1)
		rlog.SetLogger(rigLogger{oldLogger})
		share.Trace = true
		defer func() {
			share.Trace = oldTrace
			rlog.SetLogger(oldLogger)
			runtime.GOMAXPROCS(oldProcs)
		}()
	}
	dispHeld := false
	cl := client.NewClient(opt)
	// IsShutdown / IsClosing take the client's mutex: asked through a goroutine with a time limit, so
	// that a thread parked while HOLDING that mutex fails the schedule instead of hanging the harness
	locked := func(f func() bool) bool {
		ch := make(chan bool, 1)
		go func() { ch <- f() }()
		select {
		case v := <-ch:
			return v
		case <-time.After(stepWait):
			return false
		}
	}
	isShutdown := func() bool { return locked(cl.IsShutdown) }
	isClosing := func() bool { return locked(cl.IsClosing) }
	pc := client.NewPluginContainer()
	pc.Add(rigClosePlugin{r})
	cl.Plugins = pc
	pushCh := make(chan *protocol.Message, 64)
	var paused, pausedAck int32
	var collected []*protocol.Message
	var collMu sync.Mutex
	stopConsumer := make(chan struct{})
	defer close(stopConsumer)
	if blocking {
		pushCh = make(chan *protocol.Message)
		go func() {
			for {
				select {
				case <-stopConsumer:
					return
				default:
				}
				if atomic.LoadInt32(&paused) != 0 {
					atomic.StoreInt32(&pausedAck, 1)
					time.Sleep(50 * time.Microsecond)
					continue
				}
				atomic.StoreInt32(&pausedAck, 0)
				select {
				case m := <-pushCh:
					collMu.Lock()
					collected = append(collected, m)
					collMu.Unlock()
				case <-time.After(100 * time.Microsecond):
				}
			}
		}()
	}
	if !blocking {
		// schedules in which the server pushes nothing run with a registered channel that is FULL for good
		// (unbuffered, nobody receiving – a consumer that is busy elsewhere): in the default non-blocking
		// mode whatever the reader wants to hand over then – its "connection lost" notice – is dropped,
		// and must never hold the reader up
		noPush := true
		for _, e := range evs {
			if strings.HasPrefix(e, "f:") {
				if p := strings.Split(e, ":"); len(p) >= 3 && strings.Contains(p[2], "q") {
					noPush = false
				}
			}
		}
		if noPush {
			pushCh = make(chan *protocol.Message)
		}
	}
	cl.RegisterServerMessageChan(pushCh)
	if err := cl.Connect("verifrig", "x"); err != nil {
		return "", err
	}
	// the reader parks in Read
	select {
	case <-r.readReq:
	case <-time.After(stepWait):
		return "", errors.New("reader did not start")
	}
	idBase := 1000
	calls := make([]*muxCall, len(kinds))
	for i := range kinds {
		mc := &muxCall{kind: kinds[i]}
		id := idBase + i
		args := &rigArgs{ID: id}
		switch kinds[i] {
		case 'G':
			mc.reply = &rigReply{Tag: -1}
			mc.done = make(chan *client.Call, 8)
			mc.goCall = cl.Go(context.Background(), "Svc", "M", args, mc.reply, mc.done)
		case 'N':
			mc.raw = new([]byte)
			mc.done = make(chan *client.Call, 8)
			mc.goCall = cl.Go(context.Background(), "Svc", "M", args, mc.raw, mc.done)
		case 'O':
			mc.done = make(chan *client.Call, 8)
			mc.goCall = cl.Go(context.Background(), "Svc", "M", args, nil, mc.done)
		case 'B', 'D':
			mc.reply = &rigReply{Tag: -1}
			ctx, cancel := context.WithCancel(context.Background())
			if kinds[i] == 'D' {
				// a caller with a deadline.  Its Deadline() is real (150 ms from now: code that
				// looks at it sees a short one) but its Done channel is closed by the schedule's
				// `c` event – after the deadline has really passed – so a slow run cannot make the
				// deadline fire at a point the schedule does not say
				mc.deadline = time.Now().Add(150 * time.Millisecond)
				dctx := &deadlineCtx{deadline: mc.deadline, done: make(chan struct{})}
				ctx, cancel = dctx, dctx.expire
			}
			mc.cancel = cancel
			mc.retCh = make(chan error, 1)
			go func() { mc.retCh <- cl.Call(ctx, "Svc", "M", args, mc.reply) }()
		case 'R':
			// SendRaw runs entirely in its caller's goroutine and has no instrumentation point before
			// its registration: it is started by its `r` event and parks inside Write
			mc.retCh = make(chan error, 1)
			calls[i] = mc
			continue
		}
		calls[i] = mc
		// every sender parks at the hook before registering
		if err := waitArr(r.gate(r.sendGate, id), "send.enter"); err != nil {
			return "", err
		}
	}
	terminated := false
	nextSeq := 0
	// the schedule's sequence numbers are the MODEL's (every registration takes the next one); the
	// client's own counter only counts send() registrations, and a SendRaw call carries a number of
	// the caller's choice, far away from the counter
	seqMap := map[uint64]uint64{}
	realNext := uint64(0)
	realSeq := func(model uint64) uint64 {
		if v, ok := seqMap[model]; ok {
			return v
		}
		return 5000000 + model // a number no call has
	}
	awaitRet := func(mc *muxCall) {
		if (mc.kind != 'B' && mc.kind != 'D' && mc.kind != 'R') || mc.ret != nil {
			return
		}
		select {
		case e := <-mc.retCh:
			mc.ret = &e
		case <-time.After(20 * time.Millisecond):
		}
	}
	for _, ev := range evs {
		switch {
		case ev == "T":
			if terminated {
				continue
			}
			select {
			case r.feedErr <- io.ErrUnexpectedEOF:
			case <-time.After(stepWait):
				return "", errors.New("reader not reading at T")
			}
			deadline := time.Now().Add(stepWait)
			for !isShutdown() {
				if time.Now().After(deadline) {
					return "", errors.New("reader did not terminate")
				}
				time.Sleep(50 * time.Microsecond)
			}
			terminated = true
		case strings.HasPrefix(ev, "p:"):
			// the connection breaks in the MIDDLE of a response frame: a prefix of the frame for
			// <seq> arrives (cut inside the header / the length field / the sections), then EOF.
			// For the multiplexer this is a reader termination: the partial response is nobody's.
			if terminated {
				continue
			}
			var seq uint64
			var cls int
			parts := strings.Split(ev, ":")
			fmt.Sscan(parts[1], &seq)
			fmt.Sscan(parts[2], &cls)
			full := buildResp(realSeq(seq), "-", 77)
			k := []int{1, 7, 14, 16 + (len(full)-16)/2, len(full) - 1}[cls%5]
			select {
			case r.feed <- full[:k]:
			case <-time.After(stepWait):
				return "", errors.New("reader not reading at partial frame")
			}
			select {
			case <-r.readReq:
			case <-time.After(stepWait):
				return "", errors.New("reader did not ask for the rest of the frame")
			}
			select {
			case r.feedErr <- io.ErrUnexpectedEOF:
			case <-time.After(stepWait):
				return "", errors.New("reader not reading after partial frame")
			}
			deadline := time.Now().Add(stepWait)
			for !isShutdown() {
				if time.Now().After(deadline) {
					return "", errors.New("reader did not terminate after a partial frame")
				}
				time.Sleep(50 * time.Microsecond)
			}
			terminated = true
		case ev == "C":
			// (a Close that cannot get the client's mutex – a thread parked while holding it – must not
			// take the harness down with it)
			closed := make(chan struct{})
			go func() { cl.Close(); close(closed) }()
			select {
			case <-closed:
			case <-time.After(stepWait):
				return "", errors.New("Close did not return")
			}
			// Close closes the conn: the reader's Read fails and it terminates
			deadline := time.Now().Add(stepWait)
			for !isShutdown() {
				if time.Now().After(deadline) {
					return "", errors.New("reader did not terminate after Close")
				}
				time.Sleep(50 * time.Microsecond)
			}
			terminated = true
		case ev[0] == 'G':
			// `G<i>:<q>:<tag>`: the response to call i (model sequence number q) arrives; the reader takes
			// the call out of the pending table and is held BEFORE it completes it; meanwhile the
			// caller's context ends (it finds nothing to remove and returns).  Model: `c<i>` now, and
			// the frame – addressed to nobody any more – at `g:<q>:<tag>`.
			var ci, tag int
			var q uint64
			parts := strings.Split(ev[1:], ":")
			fmt.Sscan(parts[0], &ci)
			fmt.Sscan(parts[1], &q)
			fmt.Sscan(parts[2], &tag)
			mc := calls[ci]
			if terminated || dispHeld || mc.phase != 3 || mc.ret != nil || (mc.kind != 'B' && mc.kind != 'R') {
				return "", errors.New("dispatch-hold event not enabled here")
			}
			atomic.StoreInt32(&r.dispHold, 1)
			select {
			case r.feed <- buildResp(realSeq(q), "-", tag):
			case <-time.After(stepWait):
				return "", errors.New("reader not reading at G")
			}
			select {
			case <-r.dispArrived:
			case <-time.After(stepWait):
				return "", errors.New("reader did not reach its trace line inside the dispatch")
			}
			dispHeld = true
			mc.cancel()
			select {
			case e := <-mc.retCh:
				mc.ret = &e
			case <-time.After(stepWait):
				return "", errors.New("caller did not return after cancel (dispatch held)")
			}
		case ev[0] == 'g':
			// `g:<q>:<tag>`: the held dispatch goes on (the model sees the frame, addressed to nobody, now)
			if !dispHeld {
				continue
			}
			r.dispRelease <- struct{}{}
			dispHeld = false
			select {
			case <-r.readReq:
			case <-time.After(stepWait):
				return "", errors.New("reader did not come back after the held dispatch")
			}
			time.Sleep(300 * time.Microsecond)
		case strings.HasPrefix(ev, "f:"):
			if terminated {
				continue
			}
			if dispHeld {
				return "", errors.New("a frame while the reader is held inside a dispatch")
			}
			var seq uint64
			var tag int
			parts := strings.Split(ev, ":")
			fmt.Sscan(parts[1], &seq)
			fmt.Sscan(parts[3], &tag)
			select {
			case r.feed <- buildResp(realSeq(seq), parts[2], tag):
			case <-time.After(stepWait):
				return "", errors.New("reader not reading at frame")
			}
			// dispatch finished when the reader asks for more bytes (or terminated on its own)
			deadline := time.After(stepWait)
		waitRead:
			for {
				select {
				case <-r.readReq:
					break waitRead
				case <-deadline:
					return "", errors.New("reader did not come back after a frame")
				case <-time.After(200 * time.Microsecond):
					if isShutdown() {
						terminated = true // the reader tore the connection down by itself
						break waitRead
					}
				}
			}
		case ev[0] == 'N':
			// the peer closes; the reader, on its way out, parks handing its "connection lost"
			// notice to a server-message consumer that is not listening; meanwhile a fresh call
			// enters send(), registers and is written (the connection is not torn down yet); then the
			// consumer takes the notice and the teardown runs.  Model: `r<i> w<i> T`.
			var ci int
			fmt.Sscan(ev[1:], &ci)
			mc := calls[ci]
			id := idBase + ci
			if terminated || mc.phase != 0 || !blocking {
				return "", errors.New("notice-hold event not enabled here")
			}
			atomic.StoreInt32(&paused, 1)
			for w := 0; atomic.LoadInt32(&pausedAck) == 0; w++ { // the consumer has left its receive
				if w > 20000 {
					return "", errors.New("the server-message consumer did not pause")
				}
				time.Sleep(100 * time.Microsecond)
			}
			select {
			case r.feedErr <- io.ErrUnexpectedEOF:
			case <-time.After(stepWait):
				return "", errors.New("reader not reading at N")
			}
			time.Sleep(3 * time.Millisecond)
			r.gate(r.sendGate, id).release <- true
			if err := waitArr(r.gate(r.encGate, id), "encode (during the notice hand-over)"); err != nil {
				return "", err
			}
			mc.seq = nextSeq
			seqMap[uint64(nextSeq)] = realNext
			realNext++
			nextSeq++
			r.gate(r.encGate, id).release <- true
			if err := waitArr(r.gate(r.wrGate, id), "write (during the notice hand-over)"); err != nil {
				return "", err
			}
			r.gate(r.wrGate, id).release <- true
			mc.phase = 3
			time.Sleep(300 * time.Microsecond)
			atomic.StoreInt32(&paused, 0)
			deadline := time.Now().Add(stepWait)
			for !isShutdown() {
				if time.Now().After(deadline) {
					return "", errors.New("reader did not terminate after the notice was taken")
				}
				time.Sleep(50 * time.Microsecond)
			}
			terminated = true
			for w := 0; w < 200; w++ {
				if mc.kind == 'B' || mc.kind == 'D' {
					awaitRet(mc)
					if mc.ret != nil {
						break
					}
				} else if len(mc.done) > 0 {
					break
				} else {
					time.Sleep(100 * time.Microsecond)
				}
			}
		case ev[0] == 'H' || ev[0] == 'K':
			// the connection is torn down (H: the peer closed and the reader winds up; K: a local
			// Close) and, WHILE the teardown is in progress – parked inside the ClientConnectionClose
			// plugin – a fresh call enters send().  The teardown is one atomic step of the model
			// ("T r<i>" / "C r<i>"): the call must fail promptly with ErrShutdown.
			var ci int
			fmt.Sscan(ev[1:], &ci)
			mc := calls[ci]
			id := idBase + ci
			if terminated || mc.phase != 0 || (ev[0] == 'K' && isClosing()) {
				return "", errors.New("overlapped teardown event not enabled here")
			}
			r.mu.Lock()
			r.plugHold = true
			r.mu.Unlock()
			closeRet := make(chan struct{})
			if ev[0] == 'H' {
				select {
				case r.feedErr <- io.ErrUnexpectedEOF:
				case <-time.After(stepWait):
					return "", errors.New("reader not reading at H")
				}
			} else {
				go func() { cl.Close(); close(closeRet) }()
			}
			select {
			case <-r.plugArrived:
			case <-time.After(stepWait):
				return "", errors.New("the connection-close plugin was not called during teardown")
			}
			r.gate(r.sendGate, id).release <- true
			// does the sender get past registration although the teardown has begun?
			select {
			case <-r.gate(r.encGate, id).arrived:
				r.gate(r.encGate, id).release <- true
				if err := waitArr(r.gate(r.wrGate, id), "write"); err != nil {
					return "", err
				}
				r.gate(r.wrGate, id).release <- true
				time.Sleep(300 * time.Microsecond)
			case <-time.After(3 * time.Millisecond):
			}
			mc.phase = 4
			r.plugRelease <- struct{}{}
			if ev[0] == 'K' {
				select {
				case <-closeRet:
				case <-time.After(stepWait):
					return "", errors.New("Close did not return")
				}
			}
			deadline := time.Now().Add(stepWait)
			for !isShutdown() {
				if time.Now().After(deadline) {
					return "", errors.New("reader did not terminate")
				}
				time.Sleep(50 * time.Microsecond)
			}
			terminated = true
			// give the call time to complete; whether it did is the observation
			for w := 0; w < 200; w++ {
				if mc.kind == 'B' || mc.kind == 'D' {
					awaitRet(mc)
					if mc.ret != nil {
						break
					}
				} else if len(mc.done) > 0 {
					break
				} else {
					time.Sleep(100 * time.Microsecond)
				}
			}
		default:
			k := ev[0]
			var ci int
			fmt.Sscan(ev[1:], &ci)
			mc := calls[ci]
			id := idBase + ci
			if mc.kind == 'R' {
				// SendRaw: registration, write and wait all happen in the caller's goroutine
				switch k {
				case 'r':
					if mc.phase != 0 {
						continue
					}
					failFast := isShutdown() || isClosing()
					real := uint64(1000000 + ci)
					r.mu.Lock()
					r.rawIDs[id] = true
					r.mu.Unlock()
					ctx, cancel := context.WithCancel(context.Background())
					mc.cancel = cancel
					msg := protocol.NewMessage()
					msg.SetMessageType(protocol.Request)
					msg.SetSerializeType(rigSerializeType)
					msg.SetSeq(real)
					msg.ServicePath, msg.ServiceMethod = "Svc", "M"
					msg.Payload = make([]byte, 8)
					binary.BigEndian.PutUint64(msg.Payload, uint64(id))
					go func() {
						_, payload, err := cl.SendRaw(ctx, msg)
						mc.rawOut = payload
						mc.retCh <- err
					}()
					if !failFast {
						// registered under its own number, parked inside Write
						if err := waitArr(r.gate(r.wrGate, id), "write (SendRaw)"); err != nil {
							return "", err
						}
						mc.phase = 2
						mc.seq = nextSeq
						seqMap[uint64(nextSeq)] = real
						nextSeq++
					} else {
						// no shutdown test in SendRaw: its write to the closed connection fails
						select {
						case e := <-mc.retCh:
							mc.ret = &e
						case <-time.After(stepWait):
							return "", errors.New("SendRaw did not return after the connection was closed")
						}
						mc.phase = 4
					}
					continue
				case 'e', 'y':
					continue // no such step in SendRaw
				case 'c':
					if mc.ret != nil {
						continue
					}
					select {
					case e := <-mc.retCh:
						mc.ret = &e
						continue
					default:
					}
					if mc.phase != 3 {
						return "", errors.New("the context of a SendRaw caller is only looked at after its write")
					}
					mc.cancel()
					select {
					case e := <-mc.retCh:
						mc.ret = &e
					case <-time.After(stepWait):
						return "", errors.New("SendRaw did not return after cancel")
					}
					continue
				}
			}
			switch k {
			case 'r':
				if mc.phase != 0 {
					continue
				}
				// which way will the sender go?  (flags only change in steps of this schedule)
				failFast := isShutdown() || isClosing()
				r.gate(r.sendGate, id).release <- true
				if !failFast {
					// registered: the sender parks at Encode
					if err := waitArr(r.gate(r.encGate, id), "encode"); err != nil {
						return "", err
					}
					mc.phase = 1
					mc.seq = nextSeq
					seqMap[uint64(nextSeq)] = realNext
					realNext++
					nextSeq++
				} else {
					// fails fast with ErrShutdown and completes the call at once
					mc.phase = 4
					deadline := time.Now().Add(stepWait)
					for {
						completed := false
						switch mc.kind {
						case 'B', 'D':
							if mc.ret == nil {
								select {
								case e := <-mc.retCh:
									mc.ret = &e
								default:
								}
								completed = mc.ret != nil
							} else {
								time.Sleep(400 * time.Microsecond) // caller already gone: nothing to observe
								completed = true
							}
						default:
							completed = len(mc.done) > 0
						}
						if completed {
							break
						}
						if time.Now().After(deadline) {
							return "", errors.New("sender did not fail fast")
						}
						time.Sleep(20 * time.Microsecond)
					}
				}
			case 'e':
				if mc.phase != 1 {
					continue
				}
				fresh := uncompleted(mc)
				r.gate(r.encGate, id).release <- false
				mc.phase = 4
				settle(mc, fresh)
			case 'y': // leave the call parked INSIDE its Write (no step of the model)
				if mc.phase == 1 {
					r.gate(r.encGate, id).release <- true
					if err := waitArr(r.gate(r.wrGate, id), "write"); err != nil {
						return "", err
					}
					mc.phase = 2
				}
			case 'x', 'w':
				if mc.phase == 1 {
					r.gate(r.encGate, id).release <- true
					if err := waitArr(r.gate(r.wrGate, id), "write"); err != nil {
						return "", err
					}
					mc.phase = 2
				}
				if mc.phase != 2 {
					continue
				}
				fresh := uncompleted(mc)
				r.gate(r.wrGate, id).release <- (k == 'w')
				if k == 'w' {
					mc.phase = 3
				} else {
					mc.phase = 4
				}
				// the sender's own follow-up (a failed write, or a one-way call once written: look up, delete,
				// signal) belongs to this step: wait for it instead of hoping that 300 µs are enough
				if k == 'x' || mc.kind == 'O' {
					settle(mc, fresh)
				} else {
					time.Sleep(300 * time.Microsecond)
				}
			case 'c':
				if (mc.kind != 'B' && mc.kind != 'D') || mc.ret != nil {
					continue
				}
				// has the call already returned?
				select {
				case e := <-mc.retCh:
					mc.ret = &e
					continue
				default:
				}
				if mc.kind == 'D' {
					if d := time.Until(mc.deadline); d > 0 {
						time.Sleep(d + 2*time.Millisecond)
					}
				}
				mc.cancel()
				select {
				case e := <-mc.retCh:
					mc.ret = &e
				case <-time.After(stepWait):
					return "", errors.New("blocking call did not return after cancel")
				}
			}
			awaitRet(mc)
		}
		// completions may have released blocking callers
		for _, mc := range calls {
			if (mc.kind == 'B' || mc.kind == 'D' || mc.kind == 'R') && mc.ret == nil {
				select {
				case e := <-mc.retCh:
					mc.ret = &e
				default:
				}
			}
		}
	}
	time.Sleep(2 * time.Millisecond)
	var per []string
	for _, mc := range calls {
		switch mc.kind {
		case 'B', 'D':
			awaitRet(mc)
			if mc.ret == nil {
				per = append(per, "ret=-")
			} else {
				per = append(per, "ret="+classifyMuxErr(*mc.ret, mc.reply))
			}
		case 'R':
			awaitRet(mc)
			if mc.ret == nil {
				per = append(per, "ret=-")
			} else {
				rp := &rigReply{Tag: -1}
				if len(mc.rawOut) == 8 {
					rp.Tag = int(binary.BigEndian.Uint64(mc.rawOut))
				}
				per = append(per, "ret="+classifyMuxErr(*mc.ret, rp))
			}
		default:
			n := len(mc.done)
			out := "-"
			if n > 0 {
				var last *client.Call
				for i := 0; i < n; i++ {
					last = <-mc.done
				}
				rp := mc.reply
				if mc.kind == 'N' && mc.raw != nil {
					rp = &rigReply{Tag: -1}
					if len(*mc.raw) == 8 {
						rp.Tag = int(binary.BigEndian.Uint64(*mc.raw))
					}
				}
				out = classifyMuxErr(last.Error, rp)
			}
			per = append(per, fmt.Sprintf("%d:%s", n, out))
		}
	}
	var pushes []string
	if blocking {
		time.Sleep(500 * time.Microsecond)
		collMu.Lock()
		for _, m := range collected {
			if t, ok := m.Metadata["push"]; ok {
				pushes = append(pushes, t)
			} else if m.MessageStatusType() != protocol.Error {
				pushes = append(pushes, "?")
			}
		}
		collMu.Unlock()
	}
	for !blocking && len(pushCh) > 0 {
		m := <-pushCh
		if t, ok := m.Metadata["push"]; ok {
			pushes = append(pushes, t)
		} else if m.MessageStatusType() == protocol.Error {
			// the reader's "connection lost" notification to the message channel: not a server push
			continue
		} else {
			pushes = append(pushes, "?")
		}
	}
	ch := "-"
	if len(pushes) > 0 {
		ch = strings.Join(pushes, ",")
	}
	sd := "0"
	if isShutdown() {
		sd = "1"
	}
	line := strings.Join(per, " ") + fmt.Sprintf(" | sd=%s chan=%s", sd, ch)
	// tear down: release everything so that no goroutine stays parked
	if dispHeld {
		r.dispRelease <- struct{}{}
	}
	closedAll := make(chan struct{})
	go func() { cl.Close(); close(closedAll) }()
	select {
	case <-closedAll:
	case <-time.After(stepWait): // a thread is parked while holding the client's mutex: release it below
	}
	r.mu.Lock()
	for _, m := range []map[int]*rigGate{r.sendGate, r.encGate, r.wrGate} {
		for _, g := range m {
			select {
			case g.release <- false:
			default:
			}
		}
	}
	r.mu.Unlock()
	for _, mc := range calls {
		if mc.cancel != nil {
			mc.cancel()
		}
	}
	return line, nil
}

// ---- schedule generation ---------------------------------------------------------------------

func genMuxSchedule(r *rand.Rand, focus string) (string, []string) {
	n := 1 + r.Intn(4)
	kinds := make([]byte, n)
	for i := range kinds {
		kinds[i] = "GGNNBBOR"[r.Intn(8)]
	}
	if r.Intn(12) == 0 { // a caller with a context deadline (each costs up to 150 ms)
		kinds[r.Intn(n)] = 'D'
	}
	if focus == "c06" { // a victim that is the first call on the connection, and aggressors
		kinds[0] = "GB"[r.Intn(2)]
	}
	phase := make([]int, n) // 0 fresh 1 registered 3 written 4 finished
	seqOf := make([]int, n)
	cancelled := make([]bool, n)
	answered := make([]bool, n) // a response to the call's sequence number was generated after its registration
	nextSeq := 0
	terminated, closed := false, false
	var evs []string
	steps := 3 + r.Intn(12)
	tag := 1
	for s := 0; s < steps; s++ {
		switch x := r.Intn(20); {
		case x < 9: // advance a sender
			c := r.Intn(n)
			switch phase[c] {
			case 0:
				evs = append(evs, fmt.Sprintf("r%d", c))
				if terminated || closed {
					phase[c] = 4
				} else {
					phase[c] = 1
					seqOf[c] = nextSeq
					nextSeq++
				}
			case 1:
				y := r.Intn(10)
				if r.Intn(6) == 0 {
					evs = append(evs, fmt.Sprintf("y%d", c)) // park it inside Write first
					if y == 0 {
						y = 2 // it has been encoded already: no encode failure any more
					}
				}
				if kinds[c] == 'R' && y == 0 {
					y = 2 // SendRaw has no encode step
				}
				switch {
				case y == 0:
					evs = append(evs, fmt.Sprintf("e%d", c))
					phase[c] = 4
				case y == 1 || terminated || closed:
					evs = append(evs, fmt.Sprintf("x%d", c))
					phase[c] = 4
				default:
					evs = append(evs, fmt.Sprintf("w%d", c))
					phase[c] = 3
				}
			}
		case x < 15: // a frame
			if terminated {
				continue
			}
			flags := "-"
			seq := r.Intn(nextSeq + 2)
			// prefer answering a written call
			var written []int
			for c := range phase {
				if phase[c] == 3 {
					written = append(written, c)
				}
			}
			if len(written) > 0 && r.Intn(4) != 0 {
				seq = seqOf[written[r.Intn(len(written))]]
			}
			toRaw := false
			for c := range phase {
				if kinds[c] == 'R' && phase[c] >= 1 && seqOf[c] == seq {
					toRaw = true
				}
			}
			switch r.Intn(10) {
			case 9:
				flags = "k" // response in a serialize type unknown to the client
			case 0:
				flags = "E"
			case 1:
				flags = "u"
				if toRaw {
					flags = "-" // a raw call takes any payload as it is: nothing to mis-decode
				}
			case 2:
				flags = "qo" // server push, possibly with a colliding seq
			case 3:
				flags = "qoE"
			case 4:
				flags = "h" // heartbeat response
			}
			evs = append(evs, fmt.Sprintf("f:%d:%s:%d", seq, flags, tag))
			tag++
			if !strings.Contains(flags, "q") {
				for c := range phase {
					if phase[c] >= 1 && phase[c] <= 3 && seqOf[c] == seq {
						answered[c] = true
					}
				}
			}
		case x < 17 && !terminated && r.Intn(4) == 0: // a response held inside its dispatch while its caller gives up
			var ws []int
			for c := range kinds {
				if (kinds[c] == 'B' || kinds[c] == 'R') && phase[c] == 3 && !cancelled[c] && !answered[c] {
					ws = append(ws, c)
				}
			}
			if len(ws) > 0 {
				c := ws[r.Intn(len(ws))]
				evs = append(evs, fmt.Sprintf("G%d:%d:%d", c, seqOf[c], tag))
				cancelled[c] = true
				// meanwhile other senders move (no frames, no teardown: the reader is held)
				for k := r.Intn(3); k > 0; k-- {
					o := r.Intn(n)
					switch phase[o] {
					case 0:
						if !closed {
							evs = append(evs, fmt.Sprintf("r%d", o))
							phase[o] = 1
							seqOf[o] = nextSeq
							nextSeq++
						}
					case 1:
						evs = append(evs, fmt.Sprintf("w%d", o))
						phase[o] = 3
					}
				}
				evs = append(evs, fmt.Sprintf("g:%d:%d", seqOf[c], tag))
				tag++
			}
		case x < 17: // cancel a blocking caller
			var bs []int
			for c := range kinds {
				if kinds[c] == 'B' || kinds[c] == 'D' || (kinds[c] == 'R' && phase[c] == 3) {
					bs = append(bs, c)
				}
			}
			if len(bs) > 0 {
				c := bs[r.Intn(len(bs))]
				evs = append(evs, fmt.Sprintf("c%d", c))
				cancelled[c] = true
			}
		case x == 17:
			if !terminated {
				// plain termination, or termination overlapped with a fresh call entering send()
				var fresh []int
				for c := range phase {
					if phase[c] == 0 && kinds[c] != 'R' {
						fresh = append(fresh, c)
					}
				}
				if len(fresh) > 0 && r.Intn(2) == 0 {
					c := fresh[r.Intn(len(fresh))]
					if !closed && r.Intn(4) == 0 {
						evs = append(evs, fmt.Sprintf("N%d", c))
					} else if closed || r.Intn(3) != 0 {
						evs = append(evs, fmt.Sprintf("H%d", c))
					} else {
						evs = append(evs, fmt.Sprintf("K%d", c))
						closed = true
					}
					phase[c] = 4
				} else if r.Intn(2) == 0 {
					// … or in the middle of a response frame, at every class of byte offset
					evs = append(evs, fmt.Sprintf("p:%d:%d", r.Intn(nextSeq+1), r.Intn(5)))
				} else {
					evs = append(evs, "T")
				}
				terminated = true
			}
		case x == 18:
			// Close closes the conn, which makes the reader's Read fail: C is followed by T
			evs = append(evs, "C")
			closed = true
			if !terminated {
				evs = append(evs, "T")
				terminated = true
			}
		}
	}
	return string(kinds), evs
}
