package main

import "github.com/smallnest/rpcx/client"

// One process-wide instrumentation callback (internal/verifhook has a single slot, shared by
// the client and the server package): dispatch by point name.
var hookHandlers = map[string]func(args ...interface{}){}

func init() {
	client.VerifSetHook(func(point string, args ...interface{}) {
		if h := hookHandlers[point]; h != nil {
			h(args...)
		}
	})
}
