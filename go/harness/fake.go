package main

import (
	"context"
	"errors"
	"net"
	"reflect"
	"sync"
	"time"

	"github.com/smallnest/rpcx/client"
	"github.com/smallnest/rpcx/protocol"
)

// Scripted RPCClient fakes, installed through the existing extension point
// client.RegisterCacheClientBuilder for the network name "fake": every dial
// (GenerateClient) and every delivery (Call / SendRaw / Go) consults the current scenario.

type fakeOutcome int

const (
	foOK fakeOutcome = iota
	foSvcErr
	foLost
	foCancelled
	foDeadline
	foSlow // does not answer: the call ends, with the context's error, when the caller's context does
)

var errFakeLost = errors.New("verif: connection lost")
var errFakeDial = errors.New("verif: dial refused")

type fakeScenario struct {
	mu         sync.Mutex
	dials      []bool
	calls      []fakeOutcome
	deliveries []string // addresses that received a request, in order
	dialCount  int
	clients    map[string]*fakeClient
	// per-address behaviour for fan-out tests (overrides `calls` when set)
	perAddr map[string]fakeOutcome
	gates   map[string]chan struct{} // a delivery to addr blocks until its gate is closed
	onCall  func(addr string)
	// per-dial behaviour (Failbackup tests): keyed by the dial sequence number of the client
	perDial     map[int]fakeOutcome
	gatesByDial map[int]chan struct{}
	// closing a broken client takes this long (a TLS/kcp close, a lock held elsewhere)
	slowClose time.Duration
	// a call abandoned because its context ended takes this long to wind up (a PostCall plugin, say)
	slowWindUp time.Duration
}

var curScenario *fakeScenario
var scenarioMu sync.Mutex

func setScenario(s *fakeScenario) {
	scenarioMu.Lock()
	if s != nil && s.clients == nil {
		s.clients = map[string]*fakeClient{}
	}
	curScenario = s
	scenarioMu.Unlock()
}

func scenario() *fakeScenario {
	scenarioMu.Lock()
	defer scenarioMu.Unlock()
	return curScenario
}

type fakeClient struct {
	dialSeq int
	addr    string
	sc      *fakeScenario
	mu      sync.Mutex
	dead    bool
}

type fakeBuilder struct{}

func (fakeBuilder) SetCachedClient(c client.RPCClient, k, servicePath, serviceMethod string) {
	sc := scenario()
	sc.mu.Lock()
	sc.clients[k] = c.(*fakeClient)
	sc.mu.Unlock()
}

func (fakeBuilder) FindCachedClient(k, servicePath, serviceMethod string) client.RPCClient {
	sc := scenario()
	sc.mu.Lock()
	defer sc.mu.Unlock()
	if c, ok := sc.clients[k]; ok {
		return c
	}
	return nil
}

func (fakeBuilder) DeleteCachedClient(c client.RPCClient, k, servicePath, serviceMethod string) {
	sc := scenario()
	sc.mu.Lock()
	if cur, ok := sc.clients[k]; ok && client.RPCClient(cur) == c {
		delete(sc.clients, k)
	}
	sc.mu.Unlock()
}

func (fakeBuilder) GenerateClient(k, servicePath, serviceMethod string) (client.RPCClient, error) {
	sc := scenario()
	sc.mu.Lock()
	defer sc.mu.Unlock()
	sc.dialCount++
	ok := false
	if len(sc.dials) > 0 {
		ok = sc.dials[0]
		sc.dials = sc.dials[1:]
	}
	if !ok {
		return nil, errFakeDial
	}
	return &fakeClient{addr: k, sc: sc, dialSeq: sc.dialCount}, nil
}

func init() {
	client.RegisterCacheClientBuilder("fake", fakeBuilder{})
}

func (f *fakeClient) next(ctx context.Context) (fakeOutcome, int) {
	sc := f.sc
	sc.mu.Lock()
	idx := len(sc.deliveries)
	sc.deliveries = append(sc.deliveries, f.addr)
	var o fakeOutcome = foLost
	if sc.perAddr != nil {
		o = sc.perAddr[f.addr]
	} else if len(sc.calls) > 0 {
		o = sc.calls[0]
		sc.calls = sc.calls[1:]
	}
	gate := sc.gates[f.addr]
	if sc.perDial != nil {
		if x, ok := sc.perDial[f.dialSeq]; ok {
			o = x
		}
		if g, ok := sc.gatesByDial[f.dialSeq]; ok {
			gate = g
		}
	}
	cb := sc.onCall
	sc.mu.Unlock()
	if cb != nil {
		cb(f.addr)
	}
	if gate != nil {
		<-gate
	}
	if o == foSlow {
		<-ctx.Done()
		if sc.slowWindUp > 0 {
			time.Sleep(sc.slowWindUp)
		}
	}
	if o == foLost {
		f.mu.Lock()
		f.dead = true
		f.mu.Unlock()
	}
	return o, idx
}

// outcomeErrCtx: a server that never answered ends the call with whatever ended the caller's context
// (deadline exceeded or cancelled), as a real client does
func outcomeErrCtx(ctx context.Context, o fakeOutcome) error {
	if o == foSlow && ctx != nil && ctx.Err() != nil {
		return ctx.Err()
	}
	return outcomeErr(o)
}

func outcomeErr(o fakeOutcome) error {
	switch o {
	case foSvcErr:
		return client.NewServiceError("verif: service failed")
	case foLost:
		return errFakeLost
	case foCancelled:
		return context.Canceled
	case foDeadline, foSlow:
		return context.DeadlineExceeded
	}
	return nil
}

// fakeReply is the reply type used with the fakes: which delivery and which server answered.
type fakeReply struct {
	Delivery int
	Addr     string
	// a reference-typed field: like a codec decoding into a reply that already holds a map, every
	// server that sends a payload (a reply, or the payload that accompanies a service error) INSERTS
	// into it
	Seen map[string]int
}

func (r *fakeReply) mark(addr string) {
	if r.Seen == nil {
		r.Seen = map[string]int{}
	}
	r.Seen[addr]++
}

func (f *fakeClient) Call(ctx context.Context, servicePath, serviceMethod string, args interface{}, reply interface{}) error {
	o, idx := f.next(ctx)
	if r, ok := reply.(*fakeReply); ok && r != nil && (o == foOK || o == foSvcErr) {
		f.sc.mu.Lock() // (a map shared by mistake must not crash the harness with a concurrent-write fault)
		r.mark(f.addr)
		f.sc.mu.Unlock()
	}
	if o == foOK && reply != nil {
		if r, ok := reply.(*fakeReply); ok {
			r.Delivery = idx
			r.Addr = f.addr
		}
	}
	return outcomeErrCtx(ctx, o)
}

func (f *fakeClient) Go(ctx context.Context, servicePath, serviceMethod string, args interface{}, reply interface{}, done chan *client.Call) *client.Call {
	call := &client.Call{ServicePath: servicePath, ServiceMethod: serviceMethod, Args: args, Reply: reply, Done: done}
	if call.Done == nil {
		call.Done = make(chan *client.Call, 10)
	}
	go func() {
		o, idx := f.next(ctx)
		if o == foOK && reply != nil {
			if r, ok := reply.(*fakeReply); ok {
				r.Delivery = idx
				r.Addr = f.addr
			} else {
				_ = reflect.TypeOf(reply)
			}
		}
		call.Error = outcomeErrCtx(ctx, o)
		call.Done <- call
	}()
	return call
}

func (f *fakeClient) SendRaw(ctx context.Context, r *protocol.Message) (map[string]string, []byte, error) {
	o, idx := f.next(ctx)
	if o == foOK {
		return map[string]string{"addr": f.addr}, []byte{byte(idx)}, nil
	}
	return nil, nil, outcomeErrCtx(ctx, o)
}

func (f *fakeClient) Connect(network, address string) error { return nil }
func (f *fakeClient) Close() error {
	if d := f.sc.slowClose; d > 0 {
		time.Sleep(d)
	}
	f.mu.Lock()
	f.dead = true
	f.mu.Unlock()
	return nil
}
func (f *fakeClient) RemoteAddr() string                                    { return f.addr }
func (f *fakeClient) RegisterServerMessageChan(ch chan<- *protocol.Message) {}
func (f *fakeClient) UnregisterServerMessageChan()                          {}
func (f *fakeClient) IsClosing() bool                                       { return false }
func (f *fakeClient) IsShutdown() bool {
	f.mu.Lock()
	defer f.mu.Unlock()
	return f.dead
}
func (f *fakeClient) GetConn() net.Conn { return nil }
