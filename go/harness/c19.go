package main

import (
	"bytes"
	"encoding/hex"
	"encoding/json"
	"fmt"
	"math/rand"
	"net/http"
	"net/url"
	"reflect"
	"runtime"
	"sort"
	"strconv"
	"strings"
	"time"

	"github.com/smallnest/rpcx/protocol"
	"github.com/smallnest/rpcx/server"
	"github.com/smallnest/rpcx/share"
)

func init() {
	register("c19", "three ingresses of one real server (native protocol, HTTP gateway, JSON-RPC 2.0), one fresh connection per request: services/methods existing or not "+
		"(incl. a dotted service path), JSON and MessagePack bodies, unknown serialize types, metadata maps with binary-safe keys/values (URL-escaped transport), message ids over "+
		"the whole uint64 range, handler success and failure with header-safe texts; handler-observed arguments and metadata, reply payload, response metadata and error text "+
		"compared between gateway / JSON-RPC and native; malformed gateway requests (missing service path / method / serialize type, non-numeric id / types, unparsable "+
		"metadata) must be rejected without a handler invocation (also replayed on the Lean gateway model); the Lean models of url.QueryEscape / QueryUnescape / ParseQuery / "+
		"Values.Encode, strconv.ParseUint / Atoi and HTTPRequest2RpcxRequest are diffed against the real functions on generated strings; "+
		"JSON-RPC notifications held in a slow post-read stage while other calls are served must be executed as themselves, once; "+
		"non-trivial = request with metadata, failure or malformation; distinct = distinct input line",
		runC19)
}

func hxs(s string) string { return hx([]byte(s)) }

var qAtoms = []string{"", "a", "b=c", "&", "=", ";", "%", "+", " ", "%41", "%zz", "%4", "\x00", "\xff\xfe", "k", "日本", "~-_.", "a&b", "x=1&y=2", "%26", "%3D", "1", "A"}

func genQString(r *rand.Rand) string {
	var sb strings.Builder
	for i := r.Intn(6); i > 0; i-- {
		sb.WriteString(qAtoms[r.Intn(len(qAtoms))])
		switch r.Intn(5) {
		case 0:
			sb.WriteByte('&')
		case 1:
			sb.WriteByte('=')
		}
	}
	return sb.String()
}

func kvCanon(v url.Values) string {
	var ks []string
	for k := range v {
		ks = append(ks, k)
	}
	sort.Strings(ks)
	var parts []string
	for _, k := range ks {
		for _, x := range v[k] {
			parts = append(parts, hxs(k)+"="+hxs(x))
		}
	}
	if len(parts) == 0 {
		return "-"
	}
	return strings.Join(parts, ";")
}

func mapCanon(m map[string]string) string {
	v := url.Values{}
	for k, x := range m {
		v[k] = []string{x}
	}
	return kvCanon(v)
}

var numAtoms = []string{"", "0", "7", "42", "007", "-1", "+5", "-", "+", "1x", "x", " 1", "1 ", "18446744073709551615", "18446744073709551616", "9223372036854775807",
	"9223372036854775808", "-9223372036854775808", "-9223372036854775809", "1_000", "0x10", "１２", "99999999999999999999999", "15", "3"}

func c19Pure(o *Out, r *rand.Rand) {
	n := 600
	if thorough() {
		n = 8000
	}
	for i := 0; i < n; i++ {
		s := genQString(r)
		o.Case("q esc "+hxs(s), hxs(url.QueryEscape(s)), len(s) > 0)
		if u, err := url.QueryUnescape(s); err != nil {
			o.Case("q unesc "+hxs(s), "error", true)
		} else {
			o.Case("q unesc "+hxs(s), "ok "+hxs(u), len(s) > 0)
		}
		v, err := url.ParseQuery(s)
		e := "0"
		if err != nil {
			e = "1"
		}
		o.Case("q parse "+hxs(s), "err="+e+" "+kvCanon(v), len(s) > 0)
		o.Count("pure.query")
		// Values.Encode of a generated map, and the round trip through the real ParseQuery
		m := url.Values{}
		for j := r.Intn(4); j > 0; j-- {
			m.Set(qAtoms[r.Intn(len(qAtoms))], qAtoms[r.Intn(len(qAtoms))])
		}
		enc := m.Encode()
		o.Case("q enc "+kvCanon(m), hxs(enc), len(m) > 0)
		back, err := url.ParseQuery(enc)
		if err != nil || !reflect.DeepEqual(map[string][]string(back), map[string][]string(m)) {
			if !(len(m) == 0 && len(back) == 0) {
				o.Violate("c19.url-roundtrip", "url.ParseQuery(Values.Encode(m)) differs from m", map[string]any{"m": kvCanon(m)})
			}
		}
	}
	for _, s := range numAtoms {
		for _, t := range []string{s, s + "0", "1" + s} {
			if u, err := strconv.ParseUint(t, 10, 64); err != nil {
				o.Case("q uint "+hxs(t), "error", true)
			} else {
				o.Case("q uint "+hxs(t), fmt.Sprint(u), true)
			}
			if u, err := strconv.Atoi(t); err != nil {
				o.Case("q atoi "+hxs(t), "error", true)
			} else {
				o.Case("q atoi "+hxs(t), fmt.Sprint(u), true)
			}
			o.Count("pure.numbers")
		}
	}
	for i := 0; i < n/4; i++ {
		t := fmt.Sprint(r.Uint64())
		if r.Intn(3) == 0 {
			t = "-" + fmt.Sprint(r.Int63())
		}
		if u, err := strconv.ParseUint(t, 10, 64); err != nil {
			o.Case("q uint "+hxs(t), "error", true)
		} else {
			o.Case("q uint "+hxs(t), fmt.Sprint(u), true)
		}
		if u, err := strconv.Atoi(t); err != nil {
			o.Case("q atoi "+hxs(t), "error", true)
		} else {
			o.Case("q atoi "+hxs(t), fmt.Sprint(u), true)
		}
	}
}

type convIn struct {
	id, hb, ow, st, ct, meta, auth, path, method, body string
}

func (c convIn) line() string {
	return fmt.Sprintf("q conv id=%s hb=%s ow=%s st=%s ct=%s meta=%s auth=%s path=%s method=%s body=%s",
		hxs(c.id), hxs(c.hb), hxs(c.ow), hxs(c.st), hxs(c.ct), hxs(c.meta), hxs(c.auth), hxs(c.path), hxs(c.method), hxs(c.body))
}

func (c convIn) request() *http.Request {
	req, _ := http.NewRequest("POST", "http://x/", bytes.NewReader([]byte(c.body)))
	set := func(k, v string) {
		if v != "" {
			req.Header.Set(k, v)
		}
	}
	set(server.XMessageID, c.id)
	set(server.XHeartbeat, c.hb)
	set(server.XOneway, c.ow)
	set(server.XSerializeType, c.st)
	set(server.XCompressType, c.ct)
	set(server.XMeta, c.meta)
	set("Authorization", c.auth)
	set(server.XServicePath, c.path)
	set(server.XServiceMethod, c.method)
	return req
}

func c19Conv(o *Out, r *rand.Rand) {
	n := 500
	if thorough() {
		n = 6000
	}
	pick := func(xs []string) string { return xs[r.Intn(len(xs))] }
	for i := 0; i < n; i++ {
		c := convIn{
			id:     pick([]string{"", "0", "42", "18446744073709551615", "18446744073709551616", "x", "-1", fmt.Sprint(r.Uint64())}),
			hb:     pick([]string{"", "", "true", "0"}),
			ow:     pick([]string{"", "", "true", "false"}),
			st:     pick([]string{"", "1", "3", "15", "16", "255", "-1", "x", "2", "0"}),
			ct:     pick([]string{"", "", "0", "1", "7", "9", "zip"}),
			auth:   pick([]string{"", "", "tok", "Bearer a b"}),
			path:   pick([]string{"", "Svc", "dotted.path.Svc", "日本"}),
			method: pick([]string{"", "Do", "M"}),
			body:   pick([]string{"", "{}", "\x00\x01binary"}),
		}
		switch r.Intn(3) {
		case 0:
			c.meta = genQString(r)
		case 1:
			m := url.Values{}
			for j := r.Intn(4); j > 0; j-- {
				m.Set(pick(qAtoms), pick(qAtoms))
			}
			if r.Intn(3) == 0 {
				m.Set(share.AuthKey, "from-meta")
			}
			c.meta = m.Encode()
		}
		m, err := server.HTTPRequest2RpcxRequest(c.request())
		out := "error"
		if err == nil {
			out = fmt.Sprintf("ok hdr=%s path=%s method=%s md=%s body=%s", hex.EncodeToString(m.Header[:]), hxs(m.ServicePath), hxs(m.ServiceMethod), mapCanon(m.Metadata), hxs(string(m.Payload)))
		}
		o.Case(c.line(), out, c.meta != "" || err != nil)
		o.Count("conv.cases")
		if err != nil {
			o.Count("conv.errors")
		}
	}
}

// ---- end to end -------------------------------------------------------------------------------

// header-safe: no CR/LF, and no leading/trailing whitespace (HTTP trims field values)
var headerSafeTexts = []string{"boom", "failed: a=b&c=d %zz", "inner  spaces kept", "日本語のエラー ✓", strings.Repeat("long-", 100), "tab\tinside", "colon: value"}

type c19Req struct {
	id     int
	target string // refl func dotted nosvc nomethod
	mode   string // ok err
	text   string
	ser    protocol.SerializeType
	meta   map[string]string
	msgID  uint64
}

func (q *c19Req) pathMethod() (string, string) {
	switch q.target {
	case "refl":
		return "Svc", "Do"
	case "func":
		return "Fn", "Do"
	case "dotted":
		return "dotted.path.Svc", "Do"
	case "nosvc":
		return "No.Such", "Do"
	}
	return "Svc", "Nope"
}

type c19Obs struct {
	kind    string // result error closed
	payload []byte
	errText string
	resMeta map[string]string
	idEcho  string
}

func runC19(o *Out, r *rand.Rand) {
	c19Pure(o, r)
	c19Conv(o, r)
	rig, err := newSrvRig(srvOpts{})
	if err != nil {
		o.Violate("srv.rig", "cannot start the server: "+err.Error(), nil)
		return
	}
	defer rig.close()
	n := 120
	if thorough() {
		n = 1500
	}
	id := 700000
	for i := 0; i < n; i++ {
		id += 10
		q := &c19Req{id: id, target: []string{"refl", "refl", "func", "dotted", "nosvc", "nomethod"}[r.Intn(6)], mode: []string{"ok", "ok", "err"}[r.Intn(3)],
			ser: []protocol.SerializeType{protocol.JSON, protocol.JSON, protocol.MsgPack, protocol.SerializeType(15), protocol.ProtoBuffer}[r.Intn(5)]}
		q.text = fmt.Sprintf("E%d:", id) + headerSafeTexts[r.Intn(len(headerSafeTexts))]
		q.msgID = []uint64{0, 1, 42, 1 << 63, ^uint64(0), r.Uint64()}[r.Intn(6)]
		q.meta = map[string]string{}
		for j := r.Intn(4); j > 0; j-- {
			k := metaAtoms[r.Intn(len(metaAtoms))]
			if r.Intn(2) == 0 {
				k = "e:" + k
			}
			q.meta[k] = metaAtoms[r.Intn(len(metaAtoms))]
		}
		c19Equivalence(o, rig, q)
	}
	c19Malformed(o, rig, r, &id)
	c19Notification(o, rig, r, &id)
}

func c19Args(q *c19Req, id int) *SArgs {
	return &SArgs{ID: id, Mode: q.mode, Text: q.text, Size: 3}
}

func c19Native(rig *srvRig, q *c19Req, id int) c19Obs {
	p, err := dialRaw(rig.addr)
	if err != nil {
		return c19Obs{kind: "closed"}
	}
	defer p.c.Close()
	path, method := q.pathMethod()
	meta := map[string]string{"ing": "native"}
	for k, v := range q.meta {
		meta[k] = v
	}
	rq := rawReq{id: id, seq: q.msgID, path: path, method: method, ser: q.ser, meta: meta, args: c19Args(q, id)}
	if share.Codecs[q.ser] == nil || q.ser == protocol.ProtoBuffer {
		b, _ := json.Marshal(c19Args(q, id))
		rq.rawBody = b
	}
	if p.send(rq) != nil {
		return c19Obs{kind: "closed"}
	}
	msgs, _ := p.readAll(1, 500*time.Millisecond)
	if len(msgs) == 0 {
		return c19Obs{kind: "closed"}
	}
	m := msgs[0]
	ob := c19Obs{kind: "result", payload: m.Payload, resMeta: m.Metadata, idEcho: fmt.Sprint(m.Seq())}
	if m.MessageStatusType() == protocol.Error {
		ob.kind = "error"
		ob.errText = m.Metadata[protocol.ServiceError]
	}
	return ob
}

func c19Body(q *c19Req, id int) []byte {
	if codec := share.Codecs[q.ser]; codec != nil && q.ser != protocol.ProtoBuffer {
		b, _ := codec.Encode(c19Args(q, id))
		return b
	}
	b, _ := json.Marshal(c19Args(q, id))
	return b
}

func c19Gateway(rig *srvRig, q *c19Req, id int) c19Obs {
	path, method := q.pathMethod()
	meta := map[string]string{"ing": "gateway"}
	for k, v := range q.meta {
		meta[k] = v
	}
	res := gatewayCall(rig.addr, ingReq{id: id, path: path, method: method, meta: meta, ser: fmt.Sprint(int(q.ser)), msgID: fmt.Sprint(q.msgID)}, c19Body(q, id))
	if res.connErr != nil {
		return c19Obs{kind: "closed"}
	}
	ob := c19Obs{kind: "result", payload: res.body, idEcho: res.hdr.Get(server.XMessageID), resMeta: map[string]string{}}
	if v, err := url.ParseQuery(res.hdr.Get(server.XMeta)); err == nil {
		for k, x := range v {
			if len(x) > 0 {
				ob.resMeta[k] = x[0]
			}
		}
	}
	if res.hdr.Get(server.XMessageStatusType) == "Error" || res.status >= 400 {
		ob.kind = "error"
		ob.errText = res.hdr.Get(server.XErrorMessage)
	}
	return ob
}

// how the harness spells the "id" member of its JSON-RPC requests ("" = the plain number)
var jsonrpcIDSpellings = []string{
	"", "", `"req-%d"`, "", `"\u0007bell-%d"`, "", `"tab\tquote\"back\\slash-%d"`, `-%d`, `"\u007fdel-%d"`, "",
	`"\udbff\udfff-%d"`, `"日本-%d"`, "", `"<html>&amp;-%d"`, `"\u000b\u0001-%d"`, `"%d"`, "",
}

func c19JSONRPC(rig *srvRig, q *c19Req, id int) c19Obs {
	path, method := q.pathMethod()
	meta := map[string]string{"ing": "jsonrpc"}
	for k, v := range q.meta {
		meta[k] = v
	}
	iq := ingReq{id: id, path: path, method: method, meta: meta, args: c19Args(q, id)}
	// JSON-RPC ids are numbers or strings – any string JSON can spell (the id only travels back in the
	// response envelope; it must never change what the call yields)
	if sp := jsonrpcIDSpellings[id%len(jsonrpcIDSpellings)]; sp != "" {
		iq.idJSON = fmt.Sprintf(sp, id)
	}
	res, out := jsonrpcCall(rig.addr, iq)
	if res.connErr != nil {
		return c19Obs{kind: "closed"}
	}
	kind, msg := jsonrpcOutcome(res, out)
	ob := c19Obs{kind: kind, errText: msg}
	if iq.idJSON != "" && kind == "result" {
		var sent, got interface{}
		json.Unmarshal([]byte(iq.idJSON), &sent)
		json.Unmarshal(out["id"], &got)
		if !reflect.DeepEqual(sent, got) {
			return c19Obs{kind: "result-with-another-id", errText: fmt.Sprintf("sent id %s, response id %s", iq.idJSON, string(out["id"]))}
		}
	}
	if kind == "result" {
		ob.payload = []byte(out["result"])
	}
	return ob
}

func nonReservedNoIng(m map[string]string) map[string]string {
	out := map[string]string{}
	for k, v := range m {
		if !strings.HasPrefix(k, "__") && k != "ing" {
			out[k] = v
		}
	}
	return out
}

func c19Equivalence(o *Out, rig *srvRig, q *c19Req) {
	path, method := q.pathMethod()
	rp := map[string]any{"service": path, "method": method, "mode": q.mode, "serialize_type": int(q.ser), "metadata": metaStr(q.meta), "message_id": fmt.Sprint(q.msgID), "text": q.text}
	nat := c19Native(rig, q, q.id)
	gw := c19Gateway(rig, q, q.id+1)
	o.Eval(fmt.Sprintf("c19 equiv %v", rp), len(q.meta) > 0 || q.mode != "ok" || q.target == "nosvc" || q.target == "nomethod")
	o.Count("equiv.target." + q.target)
	o.Count(fmt.Sprintf("equiv.ser.%d", q.ser))
	time.Sleep(time.Millisecond)
	norm := func(s string, id int) string { return s }
	cmp := func(name string, other c19Obs, otherID int, withMeta bool) bool {
		if nat.kind != other.kind {
			o.Violate("c19."+name+".outcome", fmt.Sprintf("native ingress: %s, %s ingress: %s (%q vs %q)", nat.kind, name, other.kind, trunc(nat.errText, 80), trunc(other.errText, 80)), rp)
			return false
		}
		if nat.kind == "error" && norm(nat.errText, q.id) != norm(other.errText, otherID) {
			o.Violate("c19."+name+".error-text", fmt.Sprintf("error text differs: native %q, %s %q", trunc(nat.errText, 120), name, trunc(other.errText, 120)), rp)
			return false
		}
		if nat.kind == "result" {
			var a, b SReply
			codec := share.Codecs[q.ser]
			if name == "jsonrpc" {
				codec = share.Codecs[protocol.JSON]
			}
			if codec == nil || codec.Decode(nat.payload, &a) != nil || codec.Decode(other.payload, &b) != nil || a.ID != q.id || b.ID != otherID || a.Data[:3] != b.Data[:3] {
				o.Violate("c19."+name+".reply", fmt.Sprintf("reply payload differs: native %q, %s %q", trunc(string(nat.payload), 80), name, trunc(string(other.payload), 80)), rp)
				return false
			}
			if withMeta {
				na, ot := nonReservedNoIng(nat.resMeta), nonReservedNoIng(other.resMeta)
				for k, v := range na {
					na[k] = strings.TrimSuffix(v, fmt.Sprintf("|%d", q.id))
				}
				for k, v := range ot {
					ot[k] = strings.TrimSuffix(v, fmt.Sprintf("|%d", otherID))
				}
				if !reflect.DeepEqual(na, ot) {
					rp["native_res_meta"] = metaStr(na)
					rp[name+"_res_meta"] = metaStr(ot)
					o.Violate("c19."+name+".response-metadata", "response metadata differs between the ingresses", rp)
					return false
				}
			}
		}
		// what the handler saw
		sn, so := rig.seenFor(q.id), rig.seenFor(otherID)
		if len(sn) != len(so) {
			o.Violate("c19."+name+".invocations", fmt.Sprintf("handler ran %d times for the native request and %d times for the %s request", len(sn), len(so), name), rp)
			return false
		}
		if len(sn) == 1 {
			a, b := sn[0], so[0]
			if a.args.Mode != b.args.Mode || a.args.Text != b.args.Text || a.args.Size != b.args.Size {
				o.Violate("c19."+name+".args", "the handler was given different arguments", rp)
				return false
			}
			// (the property claims metadata equivalence for the gateway; for JSON-RPC it speaks of
			// service, method and JSON arguments only)
			if ma, mb := nonReservedNoIng(a.meta), nonReservedNoIng(b.meta); withMeta && !reflect.DeepEqual(ma, mb) {
				rp["native_handler_meta"] = metaStr(ma)
				rp[name+"_handler_meta"] = metaStr(mb)
				o.Violate("c19."+name+".request-metadata", "the handler saw different request metadata", rp)
				return false
			}
		}
		return true
	}
	if !cmp("gateway", gw, q.id+1, true) {
		return
	}
	if gw.idEcho != fmt.Sprint(q.msgID) {
		o.Violate("c19.gateway.message-id", fmt.Sprintf("gateway echoed message id %q for %d", gw.idEcho, q.msgID), rp)
		return
	}
	if q.ser == protocol.JSON {
		jr := c19JSONRPC(rig, q, q.id+2)
		time.Sleep(time.Millisecond)
		o.Count("equiv.jsonrpc")
		cmp("jsonrpc", jr, q.id+2, false)
	}
}

func c19Malformed(o *Out, rig *srvRig, r *rand.Rand, id *int) {
	n := 60
	if thorough() {
		n = 600
	}
	kinds := []string{"none", "no-path", "no-method", "no-sertype", "bad-id", "bad-sertype", "bad-comptype", "bad-meta", "path-in-url"}
	for i := 0; i < n; i++ {
		*id += 10
		kind := kinds[i%len(kinds)]
		c := convIn{id: fmt.Sprint(*id), st: "1", path: "Svc", method: "Do"}
		body, _ := json.Marshal(&SArgs{ID: *id, Mode: "ok"})
		c.body = string(body)
		urlPath := "/"
		switch kind {
		case "no-path":
			c.path = ""
		case "path-in-url":
			c.path = ""
			urlPath = "/Svc"
		case "no-method":
			c.method = ""
		case "no-sertype":
			c.st = ""
		case "bad-id":
			c.id = []string{"x12", "-1", "18446744073709551616", "1.5"}[r.Intn(4)]
		case "bad-sertype":
			c.st = []string{"json", "1.0", "0x1", "1 2"}[r.Intn(4)]
		case "bad-comptype":
			c.ct = []string{"gzip", "1z"}[r.Intn(2)]
		case "bad-meta":
			c.meta = []string{"a=%zz", "a;b=1", "%"}[r.Intn(3)]
		}
		req := c.request()
		req.URL, _ = url.Parse("http://" + rig.addr + urlPath)
		res := httpDo(req)
		time.Sleep(time.Millisecond)
		invoked := rig.invocations(*id)
		obs := "other"
		isErr := res.connErr == nil && (res.hdr.Get(server.XMessageStatusType) == "Error" || res.status >= 400)
		switch {
		case res.connErr != nil:
			obs = "closed"
		case invoked == 0 && isErr:
			obs = "rejected"
		case invoked == 1 && !isErr:
			obs = "served"
		}
		line := fmt.Sprintf("q gw url=%s id=%s hb=- ow=- st=%s ct=%s meta=%s auth=- path=%s method=%s body=%s", hxs(strings.TrimPrefix(urlPath, "/")), hxs(c.id), hxs(c.st), hxs(c.ct), hxs(c.meta), hxs(c.path), hxs(c.method), hxs(c.body))
		o.SpecCase(line, obs, kind != "none")
		o.Count("malformed." + kind)
		rp := map[string]any{"malformation": kind, "headers": fmt.Sprintf("%v", req.Header), "url_path": urlPath, "status": res.status}
		if kind != "none" && kind != "path-in-url" {
			if invoked > 0 {
				o.Violate("c19.malformed-reached-handler."+kind, "a malformed gateway request ("+kind+") reached the handler", rp)
			} else if !isErr {
				o.Violate("c19.malformed-not-rejected."+kind, "a malformed gateway request ("+kind+") was not answered with an error", rp)
			}
		}
	}
}

// c19Notification: a JSON-RPC notification (no id) is executed after the endpoint has already
// answered the HTTP request.  While it waits in a slow post-read stage, other JSON-RPC calls are
// served; when it goes on it must be executed as ITSELF – the same service, method and arguments the
// native protocol would execute for the identical one-way request.
func c19Notification(o *Out, rig *srvRig, r *rand.Rand, id *int) {
	rounds := 6
	if thorough() {
		rounds = 40
	}
	old := runtime.GOMAXPROCS(1) // what a sync.Pool recycles is what the next request gets
	defer runtime.GOMAXPROCS(old)
	for round := 0; round < rounds; round++ {
		*id += 3
		nid, cid := *id-2, *id-1
		for len(holdArrived) > 0 {
			<-holdArrived
		}
		// the notification: no "id" member
		params, _ := json.Marshal(&SArgs{ID: nid, Mode: "ok"})
		body := fmt.Sprintf(`{"jsonrpc":"2.0","method":"Svc.Do","params":%s}`, params)
		req, _ := http.NewRequest("POST", "http://"+rig.addr+"/", strings.NewReader(body))
		req.Header.Set("X-JSONRPC-2.0", "true")
		req.Header.Set("Content-Type", "application/json")
		req.Header.Set(server.XMeta, metaHeader(map[string]string{"hold": "1", "rid": fmt.Sprint(nid)}))
		res := httpDo(req)
		held := false
		select {
		case <-holdArrived:
			held = true
		case <-time.After(2 * time.Second):
		}
		// other calls on fresh connections while the notification waits
		k := 1 + r.Intn(3)
		var others []int
		for j := 0; j < k; j++ {
			*id++
			others = append(others, *id)
			jsonrpcCall(rig.addr, ingReq{id: *id, path: "Svc", method: "Do", args: &SArgs{ID: *id, Mode: "ok"}, meta: map[string]string{"rid": fmt.Sprint(*id)}})
		}
		_ = cid
		if held {
			holdRelease <- struct{}{}
		}
		// the notification runs in the background: wait for it
		ran := 0
		for w := 0; w < 200; w++ {
			if ran = rig.invocations(nid); ran > 0 {
				break
			}
			time.Sleep(5 * time.Millisecond)
		}
		o.Eval(fmt.Sprintf("jsonrpc notification round=%d held=%v others=%d", round, held, k), held)
		o.Count("jsonrpc.notifications")
		rp := map[string]any{"notification": map[string]any{"method": "Svc.Do", "args_id": nid}, "held_in_post_read_stage": held, "http_status_of_the_notification": res.status,
			"calls_served_meanwhile": others}
		for _, oid := range others {
			if n := rig.invocations(oid); n != 1 {
				rp["invocations_of_call"] = map[string]int{fmt.Sprint(oid): n}
				o.Violate("c19.jsonrpc.notification-executed-as-another-request", fmt.Sprintf("JSON-RPC call %d was executed %d times while a notification was pending: the notification ran with another request's content", oid, n), rp)
				return
			}
		}
		if ran != 1 {
			o.Violate("c19.jsonrpc.notification-lost", fmt.Sprintf("the JSON-RPC notification (args id %d) was executed %d times; the identical one-way request on the native protocol is executed once", nid, ran), rp)
			return
		}
		if seen := rig.seenFor(nid); len(seen) == 1 && seen[0].args.ID != nid {
			o.Violate("c19.jsonrpc.notification-args", "the notification's handler saw another request's arguments", rp)
			return
		}
	}
}
