package main

import (
	"bytes"
	"context"
	"errors"
	"fmt"
	"io"
	"math/rand"
	"net"
	"runtime"
	"runtime/debug"
	"sync"
	"time"
	"unsafe"

	"github.com/smallnest/rpcx/client"
	"github.com/smallnest/rpcx/protocol"
	"github.com/smallnest/rpcx/util"
)

func init() {
	register("c20", "byte pools: for a family of (min,max) configurations every request size 0..max+2 (Get: length exactly as requested, capacity, level) and "+
		"every foreign-buffer capacity 0..max+2 (Put: which level receives it, then a Get from that level still has the requested length) – exhaustive, "+
		"replayed on the Lean model of findPool/findPutPool; aliasing: sequences and concurrent mixes of Zip / Unzip / Encode whose results are held and "+
		"re-checked after later calls; pooled Reset-able argument and reply objects of a real server under concurrent pipelined two-way / one-way / failing requests (ownership checked inside the handler and on the responses); "+
		"non-trivial = size or capacity not a level boundary minus/plus zero of a trivial config; distinct = distinct input line",
		runC20)
}

var poolConfigs = [][2]int{{512, 4096}, {1, 1}, {1, 8}, {2, 2}, {3, 10}, {4, 64}, {5, 5}, {100, 1000}, {512, 3000}, {7, 100}, {64, 64 * 33}}

func levelSizes(min, max int) []int {
	var out []int
	for c := min; c < max; c *= 2 {
		out = append(out, c)
	}
	return append(out, max)
}

func runC20(o *Out, r *rand.Rand) {
	// deterministic sync.Pool behaviour for the level probing: one thread, no GC
	runtime.LockOSThread()
	oldProcs := runtime.GOMAXPROCS(1)
	old := debug.SetGCPercent(-1)
	for _, cfg := range poolConfigs {
		min, max := cfg[0], cfg[1]
		if !thorough() && max > 4096 {
			continue
		}
		c20Pool(o, min, max)
	}
	debug.SetGCPercent(old)
	runtime.GOMAXPROCS(oldProcs)
	runtime.UnlockOSThread()
	c20Alias(o, r)
	// pooled Reset-able argument/reply objects of the server: no object is handed to two requests
	// in flight (two-way, one-way and failing requests all take and return pooled objects)
	rounds := 3
	if thorough() {
		rounds = 12
	}
	id := 900000
	// (AsyncWrite hands the encoded frame buffer to another goroutine: it must stay that writer's
	// until the write is done)
	for _, so := range []srvOpts{{}, {pool: true}, {async: true}, {async: true, pool: true}} {
		rig, err := newSrvRig(so)
		if err != nil {
			o.Violate("srv.rig", "cannot start the server: "+err.Error(), nil)
			return
		}
		for i := 0; i < rounds; i++ {
			srvPooled(o, rig, r, &id, "c20")
		}
		rig.close()
	}
}

func c20Pool(o *Out, min, max int) {
	lv := levelSizes(min, max)
	for size := 0; size <= max+2; size++ {
		p := util.NewLimitedPool(min, max)
		var buf *[]byte
		var pv interface{}
		func() {
			defer func() { pv = recover() }()
			buf = p.Get(size)
		}()
		rp := map[string]any{"min": min, "max": max, "get": size}
		if pv != nil {
			o.Violate("c20.pool.get.panic", fmt.Sprintf("Get(%d) on pool(%d,%d) panicked: %v", size, min, max, pv), rp)
			o.SpecCase(fmt.Sprintf("pool %d %d get %d", min, max, size), "panic", true)
			continue
		}
		if len(*buf) != size {
			o.Violate("c20.pool.get.length", fmt.Sprintf("Get(%d) on pool(%d,%d) returned a buffer of length %d", size, min, max, len(*buf)), rp)
		}
		o.SpecCase(fmt.Sprintf("pool %d %d get %d", min, max, size), fmt.Sprintf("len=%d cap=%d", len(*buf), cap(*buf)), size > 0)
		o.Count("pool.get")
	}
	for c := 0; c <= max+2; c++ {
		found := "none"
		// sync.Pool may (rarely) drop an item; a miss is re-probed, never judged on one attempt
		for attempt := 0; attempt < 4 && found == "none" && c > 0; attempt++ {
			p := util.NewLimitedPool(min, max)
			b := make([]byte, c/2, c)
			tag := unsafe.SliceData(b)
			p.Put(&b)
			for _, L := range lv {
				x := safeGet(o, p, min, max, L)
				if x == nil {
					break
				}
				if cap(*x) > 0 && unsafe.SliceData(*x) == tag {
					found = fmt.Sprint(L)
					if len(*x) != L {
						o.Violate("c20.pool.put-then-get.length", fmt.Sprintf("pool(%d,%d): foreign buffer of capacity %d came back from Get(%d) with length %d", min, max, c, L, len(*x)),
							map[string]any{"min": min, "max": max, "put_cap": c, "get": L})
					}
					break
				}
			}
		}
		// whatever level took it: a later Get of any size must still have the right length / not panic
		func() {
			defer func() {
				if pv := recover(); pv != nil {
					o.Violate("c20.pool.put-then-get.panic", fmt.Sprintf("pool(%d,%d): after Put of a capacity-%d buffer, Get panicked: %v", min, max, c, pv),
						map[string]any{"min": min, "max": max, "put_cap": c})
				}
			}()
			p2 := util.NewLimitedPool(min, max)
			b2 := make([]byte, 0, c)
			p2.Put(&b2)
			for _, L := range lv {
				x := p2.Get(L)
				if len(*x) != L {
					o.Violate("c20.pool.put-then-get.length", fmt.Sprintf("pool(%d,%d): after Put(cap %d), Get(%d) has length %d", min, max, c, L, len(*x)),
						map[string]any{"min": min, "max": max, "put_cap": c, "get": L})
				}
			}
		}()
		o.SpecCase(fmt.Sprintf("pool %d %d put %d", min, max, c), "level="+found, c > 0)
		o.Count("pool.put")
	}
}

func c20Alias(o *Out, r *rand.Rand) {
	// sequential: hold every result, re-check after each later call
	type held struct {
		what string
		got  []byte
		want []byte
	}
	n := 300
	if thorough() {
		n = 3000
	}
	var hs []held
	check := func(after string) bool {
		for _, h := range hs {
			if !bytes.Equal(h.got, h.want) {
				o.Violate("c20.alias."+h.what, fmt.Sprintf("bytes returned by %s were modified by a later %s", h.what, after), map[string]any{"held": h.what, "after": after, "len": len(h.want)})
				return false
			}
		}
		return true
	}
	for i := 0; i < n; i++ {
		data := randBytes(r, []int{0, 1, 10, 100, 1000, 1100, 5000, 70000}[r.Intn(8)])
		var what string
		var got []byte
		switch r.Intn(5) {
		case 4:
			// other library activity between the holds: a client sends a request of about this size – over a
			// connection that takes it, or one whose Write fails (the request frame goes back to the pool on
			// both paths, exactly once)
			fail := r.Intn(3) != 0
			what = "ClientSend.ok"
			if fail {
				what = "ClientSend.write-fails"
			}
			c20ClientSend(o, data, fail)
			o.Eval(fmt.Sprintf("alias %s %d", what, len(data)), true)
			o.Count("alias." + what)
			if !check(what) {
				return
			}
			continue
		case 0:
			what = "Zip"
			z, err := util.Zip(data)
			if err != nil {
				continue
			}
			got = z
		case 1:
			what = "Unzip"
			z, err := util.Zip(data)
			if err != nil {
				continue
			}
			z = append([]byte(nil), z...)
			u, err := util.Unzip(z)
			if err != nil {
				o.Violate("c20.unzip.error", "Unzip(Zip(x)) failed: "+err.Error(), map[string]any{"len": len(data)})
				continue
			}
			if !bytes.Equal(u, data) {
				o.Violate("c20.unzip.differs", "Unzip(Zip(x)) != x", map[string]any{"len": len(data)})
			}
			got = u
		case 2:
			what = "Encode"
			m := protocol.NewMessage()
			m.ServicePath, m.ServiceMethod = "S", "M"
			m.Payload = data
			got = m.Encode() // not released: the caller still owns it
		default:
			what = "EncodeGzip"
			m := protocol.NewMessage()
			m.SetCompressType(protocol.Gzip)
			m.ServicePath, m.ServiceMethod = "S", "M"
			m.Payload = data
			got = m.Encode()
			// and an encode/release cycle in between, as the client and server do
			dp := m.EncodeSlicePointer()
			protocol.PutData(dp)
		}
		o.Eval(fmt.Sprintf("alias %s %d", what, len(data)), len(data) > 0)
		o.Count("alias." + what)
		hs = append(hs, held{what, got, append([]byte(nil), got...)})
		if len(hs) > 12 {
			hs = hs[1:]
		}
		if !check(what) {
			return
		}
	}
	// concurrent: each goroutine zips its own data, yields, and expects the result to still unzip to it
	workers := 8
	iters := 200
	if thorough() {
		workers, iters = 32, 1500
	}
	var wg sync.WaitGroup
	var bad int32
	var mu sync.Mutex
	for w := 0; w < workers; w++ {
		wg.Add(1)
		seed := r.Int63()
		go func(w int) {
			defer wg.Done()
			rr := rand.New(rand.NewSource(seed))
			for i := 0; i < iters; i++ {
				data := bytes.Repeat([]byte{byte(w), byte(i)}, 600+rr.Intn(600))
				z, err := util.Zip(data)
				if err != nil {
					continue
				}
				runtime.Gosched()
				u, err := util.Unzip(z)
				if err != nil || !bytes.Equal(u, data) {
					mu.Lock()
					if bad == 0 {
						o.Violate("c20.alias.concurrent-zip", "under concurrent use a Zip result held by its caller no longer unzips to the caller's data (overwritten by another Zip)",
							map[string]any{"workers": workers})
					}
					bad++
					mu.Unlock()
					return
				}
			}
		}(w)
	}
	wg.Wait()
	o.Eval(fmt.Sprintf("alias concurrent zip %dx%d", workers, iters), true)
}

func safeGet(o *Out, p *util.LimitedPool, min, max, n int) (buf *[]byte) {
	defer func() {
		if pv := recover(); pv != nil {
			o.Violate("c20.pool.get.panic", fmt.Sprintf("Get(%d) on pool(%d,%d) panicked: %v", n, min, max, pv), map[string]any{"min": min, "max": max, "get": n})
			buf = nil
		}
	}()
	return p.Get(n)
}

// sinkConn: a connection that never delivers anything and either swallows every write or fails it
type sinkConn struct {
	fail   bool
	closed chan struct{}
	once   sync.Once
}

func (c *sinkConn) Read(b []byte) (int, error) { <-c.closed; return 0, io.EOF }
func (c *sinkConn) Write(b []byte) (int, error) {
	if c.fail {
		return 0, errors.New("verif: broken pipe")
	}
	return len(b), nil
}
func (c *sinkConn) Close() error                       { c.once.Do(func() { close(c.closed) }); return nil }
func (c *sinkConn) LocalAddr() net.Addr                { return &net.TCPAddr{} }
func (c *sinkConn) RemoteAddr() net.Addr               { return &net.TCPAddr{} }
func (c *sinkConn) SetDeadline(t time.Time) error      { return nil }
func (c *sinkConn) SetReadDeadline(t time.Time) error  { return nil }
func (c *sinkConn) SetWriteDeadline(t time.Time) error { return nil }

func init() {
	client.ConnFactories["verifsink"] = func(c *client.Client, network, address string) (net.Conn, error) {
		return &sinkConn{fail: address == "fail", closed: make(chan struct{})}, nil
	}
}

// c20ClientSend: one Go call (and, sometimes, one SendRaw) of a real client over a sinkConn
func c20ClientSend(o *Out, data []byte, fail bool) {
	opt := client.DefaultOption
	opt.SerializeType = protocol.SerializeNone
	c := client.NewClient(opt)
	addr := "ok"
	if fail {
		addr = "fail"
	}
	if err := c.Connect("verifsink", addr); err != nil {
		o.Note("c20: sink client did not connect: %v", err)
		return
	}
	done := make(chan *client.Call, 1)
	var reply []byte
	c.Go(context.Background(), "S", "M", data, &reply, done)
	if fail {
		select {
		case <-done:
		case <-time.After(2 * time.Second):
			o.Note("c20: a call whose write failed did not complete within 2 s")
		}
		if len(data)%2 == 0 {
			m := protocol.NewMessage()
			m.SetMessageType(protocol.Request)
			m.SetSeq(uint64(len(data)) + 7)
			m.ServicePath, m.ServiceMethod = "S", "M"
			m.Payload = data
			ctx, cancel := context.WithTimeout(context.Background(), 2*time.Second)
			c.SendRaw(ctx, m)
			cancel()
		}
	}
	c.Close()
}
