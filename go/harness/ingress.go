package main

import (
	"bytes"
	"encoding/json"
	"fmt"
	"io"
	"math/rand"
	"net"
	"net/http"
	"net/url"
	"strings"
	"sync/atomic"
	"time"

	"github.com/smallnest/rpcx/protocol"
	"github.com/smallnest/rpcx/server"
	"github.com/smallnest/rpcx/share"
)

// HTTP gateway and JSON-RPC front ends of the same server, one fresh connection per request
// (the port multiplexer classifies connections, not requests).

type httpRes struct {
	status  int
	hdr     http.Header
	body    []byte
	connErr error
}

func httpDo(req *http.Request) httpRes {
	tr := &http.Transport{DisableKeepAlives: true, DialContext: (&net.Dialer{Timeout: time.Second}).DialContext}
	cl := &http.Client{Transport: tr, Timeout: 2 * time.Second}
	resp, err := cl.Do(req)
	if err != nil {
		return httpRes{connErr: err}
	}
	defer resp.Body.Close()
	b, _ := io.ReadAll(resp.Body)
	return httpRes{status: resp.StatusCode, hdr: resp.Header, body: b}
}

func metaHeader(m map[string]string) string {
	v := url.Values{}
	for k, x := range m {
		v.Set(k, x)
	}
	return v.Encode()
}

type ingReq struct {
	id     int
	path   string
	method string
	args   *SArgs
	meta   map[string]string
	token  string
	hb, ow bool
	ser    string // header value for X-RPCX-SerializeType ("" = omit)
	msgID  string // header value for X-RPCX-MessageID
	idJSON string // JSON-RPC: the JSON text of the "id" member ("" = the number id)
}

func gatewayCall(addr string, q ingReq, body []byte) httpRes {
	if body == nil {
		body, _ = json.Marshal(q.args)
	}
	req, _ := http.NewRequest("POST", "http://"+addr+"/", bytes.NewReader(body))
	if q.path != "" {
		req.Header.Set(server.XServicePath, q.path)
	}
	if q.method != "" {
		req.Header.Set(server.XServiceMethod, q.method)
	}
	if q.ser != "" {
		req.Header.Set(server.XSerializeType, q.ser)
	}
	if q.msgID != "" {
		req.Header.Set(server.XMessageID, q.msgID)
	}
	if len(q.meta) > 0 {
		req.Header.Set(server.XMeta, metaHeader(q.meta))
	}
	if q.token != "" {
		req.Header.Set("Authorization", q.token)
	}
	if q.hb {
		req.Header.Set(server.XHeartbeat, "true")
	}
	if q.ow {
		req.Header.Set(server.XOneway, "true")
	}
	return httpDo(req)
}

func jsonrpcCall(addr string, q ingReq) (httpRes, map[string]json.RawMessage) {
	params, _ := json.Marshal(q.args)
	idJSON := q.idJSON
	if idJSON == "" {
		idJSON = fmt.Sprint(q.id)
	}
	body := fmt.Sprintf(`{"jsonrpc":"2.0","id":%s,"method":"%s.%s","params":%s}`, idJSON, q.path, q.method, params)
	req, _ := http.NewRequest("POST", "http://"+addr+"/", strings.NewReader(body))
	req.Header.Set("X-JSONRPC-2.0", "true")
	req.Header.Set("Content-Type", "application/json")
	if len(q.meta) > 0 {
		req.Header.Set(server.XMeta, metaHeader(q.meta))
	}
	if q.token != "" {
		req.Header.Set("Authorization", q.token)
	}
	r := httpDo(req)
	var out map[string]json.RawMessage
	if r.connErr == nil {
		json.Unmarshal(r.body, &out)
	}
	return r, out
}

// outcome of an HTTP-ingress call in the model's vocabulary
func gatewayOutcome(r httpRes) (string, string) {
	if r.connErr != nil {
		return "closed", ""
	}
	if r.hdr.Get(server.XMessageStatusType) == "Error" || r.status >= 400 {
		msg := r.hdr.Get(server.XErrorMessage)
		if msg == "" {
			msg = strings.TrimRight(string(r.body), "\n")
		}
		return "error", msg
	}
	return "result", ""
}

func jsonrpcOutcome(r httpRes, out map[string]json.RawMessage) (string, string) {
	if r.connErr != nil {
		return "closed", ""
	}
	if e, ok := out["error"]; ok && string(e) != "null" {
		var je struct {
			Message string `json:"message"`
		}
		json.Unmarshal(e, &je)
		return "error", je.Message
	}
	if r.status >= 400 {
		return "error", strings.TrimRight(string(r.body), "\n")
	}
	return "result", ""
}

// c15OtherNetworks: the accept stage on a network that does not go through the port multiplexer
// (unix socket): a connection the accept plugin rejects is not served there either.
func c15OtherNetworks(o *Out, r *rand.Rand) {
	for _, auth := range []bool{false, true} {
		rig, err := newSrvRig(srvOpts{auth: auth, unix: true})
		if err != nil {
			o.Note("unix socket server could not be started: %v", err)
			return
		}
		id := 660000
		if auth {
			id = 670000
		}
		for round := 0; round < 6; round++ {
			accept := round%2 == 1
			if !accept {
				atomic.StoreInt32(&rejectAccept, 1)
			}
			id++
			p, err := dialRaw(rig.addr)
			if err != nil {
				atomic.StoreInt32(&rejectAccept, 0)
				o.Violate("srv.rig", "cannot connect to the unix socket: "+err.Error(), nil)
				rig.close()
				return
			}
			ow := round >= 4
			meta := map[string]string{"rid": fmt.Sprint(id)}
			if auth {
				meta[share.AuthKey] = "good"
			}
			p.send(rawReq{id: id, seq: uint64(id), path: "Svc", method: "Do", ser: protocol.JSON, oneway: ow, meta: meta, args: &SArgs{ID: id, Mode: "ok"}})
			wait := 400 * time.Millisecond
			if accept && !ow {
				wait = 3 * time.Second // (returns as soon as the response is there)
			}
			msgs, closed := p.readAll(1, wait)
			if accept && ow {
				for w := 0; w < 600 && rig.invocations(id) == 0; w++ { // a one-way request: wait for the handler itself
					time.Sleep(5 * time.Millisecond)
				}
			}
			p.c.Close()
			atomic.StoreInt32(&rejectAccept, 0)
			invoked := rig.invocations(id)
			o.Eval(fmt.Sprintf("unix accept=%v auth=%v oneway=%v", accept, auth, ow), !accept)
			o.Count("other-networks.unix")
			rp := map[string]any{"network": "unix", "accept_plugin_accepts": accept, "auth": auth, "oneway": ow, "handler_invocations": invoked, "responses": len(msgs), "connection_closed": closed}
			if !accept && invoked > 0 {
				o.Violate("c15.rejected-but-invoked.native.accept", fmt.Sprintf("unix socket: a connection rejected by the accept plugin reached the handler (%d invocations)", invoked), rp)
				rig.close()
				return
			}
			if !accept && len(msgs) > 0 && msgs[0].MessageStatusType() != protocol.Error {
				o.Violate("c15.rejected-but-result.native.accept", "unix socket: a connection rejected by the accept plugin got a result", rp)
				rig.close()
				return
			}
			if accept && invoked != 1 {
				o.Violate("c15.accepted-not-served", fmt.Sprintf("unix socket: an accepted, authenticated request ran %d times", invoked), rp)
				rig.close()
				return
			}
		}
		rig.close()
	}
}

func runC15Ingress(o *Out, r *rand.Rand) {
	c15OtherNetworks(o, r)
	n := 150
	if thorough() {
		n = 1200
	}
	id := 500000
	for _, auth := range []bool{false, true} {
		rig, err := newSrvRig(srvOpts{auth: auth})
		if err != nil {
			o.Violate("srv.rig", "cannot start the server: "+err.Error(), nil)
			return
		}
		for i := 0; i < n; i++ {
			id++
			ing := []string{"gateway", "jsonrpc", "native"}[r.Intn(3)]
			accept := r.Intn(5) != 0
			stage := []string{"", "", "postread", "reachlimit", "precall"}[r.Intn(5)]
			token := ""
			if auth {
				token = []string{"", "wrong", "good", "good"}[r.Intn(4)]
			}
			mode := []string{"ok", "ok", "err"}[r.Intn(3)]
			target := []string{"refl", "refl", "func", "nosvc"}[r.Intn(4)]
			hb, ow := r.Intn(3) == 0, r.Intn(3) == 0
			if ing == "jsonrpc" {
				hb, ow = false, false
			}
			q := ingReq{id: id, token: token, hb: hb, ow: ow, ser: "1", msgID: fmt.Sprint(id)}
			switch target {
			case "refl":
				q.path, q.method = "Svc", "Do"
			case "func":
				q.path, q.method = "Fn", "Do"
			default:
				q.path, q.method = "Nope", "Do"
			}
			q.args = &SArgs{ID: id, Mode: mode, Text: fmt.Sprintf("E%d:failed", id)}
			q.meta = map[string]string{"rid": fmt.Sprint(id)}
			if stage == "postread" || stage == "reachlimit" {
				q.meta["reject"] = stage
			}
			if stage == "precall" {
				q.args.Reject = "precall"
			}
			if !accept {
				atomic.StoreInt32(&rejectAccept, 1)
			}
			var outKind, outMsg string
			switch ing {
			case "gateway":
				outKind, outMsg = gatewayOutcome(gatewayCall(rig.addr, q, nil))
			case "jsonrpc":
				res, out := jsonrpcCall(rig.addr, q)
				outKind, outMsg = jsonrpcOutcome(res, out)
			default:
				p, err := dialRaw(rig.addr)
				if err == nil {
					meta := map[string]string{"rid": fmt.Sprint(id)}
					for k, v := range q.meta {
						meta[k] = v
					}
					if token != "" {
						meta[share.AuthKey] = token
					}
					rq := rawReq{id: id, seq: uint64(id), path: q.path, method: q.method, ser: protocol.JSON, heartbeat: hb, oneway: ow, meta: meta, args: q.args}
					p.send(rq)
					p.readAll(1, 150*time.Millisecond)
					p.c.Close()
				}
			}
			atomic.StoreInt32(&rejectAccept, 0)
			time.Sleep(time.Millisecond)
			invoked := rig.invocations(id)
			// model line
			authErr := "-"
			if auth && token != "good" {
				authErr = hx([]byte(errRigAuth.Error()))
			}
			postread := "ok"
			if stage == "postread" {
				postread = "reject"
			} else if stage == "reachlimit" {
				postread = "limit"
			}
			precall := "-"
			if stage == "precall" {
				precall = hx([]byte(errRigPreCall.Error()))
			}
			beh := "ok"
			if mode == "err" {
				beh = "err:" + hx([]byte(q.args.Text))
			}
			b := func(x bool) string {
				if x {
					return "1"
				}
				return "0"
			}
			line := fmt.Sprintf("ing %s %s %s%s %s %s %s 1 - %s %s path=%s method=%s", ing, b(accept), b(hb), b(ow), target, postread, authErr, precall, beh, hx([]byte(q.path)), hx([]byte(q.method)))
			obs := fmt.Sprintf("invoked=%d", invoked)
			if ing != "native" {
				oo := outKind
				if outKind == "error" {
					oo = "error:" + hx([]byte(outMsg))
					if stage == "postread" || stage == "reachlimit" {
						oo = "error:*" // the plugin's own message: only "an error" is compared
					}
				}
				obs += " out=" + oo
			}
			o.SpecCase(line, obs, !accept || stage != "" || authErr != "-")
			o.Count("ingress." + ing)
			// direct oracle
			rejected := !accept || stage == "postread" || stage == "reachlimit" || (auth && token != "good" && !(ing == "native" && hb)) ||
				(stage == "precall" && target != "nosvc")
			rp := map[string]any{"case": line, "observed": obs}
			if rejected && invoked > 0 {
				o.Violate("c15.rejected-but-invoked."+ing+"."+rejectStage(accept, stage, auth && token != "good"), fmt.Sprintf("a %s request rejected at stage %q reached the handler (%d invocations)", ing, rejectStage(accept, stage, auth && token != "good"), invoked), rp)
			}
			if rejected && ing != "native" && outKind == "result" {
				o.Violate("c15.rejected-but-result."+ing+"."+rejectStage(accept, stage, auth && token != "good"), fmt.Sprintf("a %s request rejected at stage %q got a result instead of an error", ing, rejectStage(accept, stage, auth && token != "good")), rp)
			}
			if ing == "native" && hb && invoked > 0 {
				o.Violate("c15.heartbeat-invoked", "a heartbeat request reached a handler", rp)
			}
		}
		rig.close()
	}
}

func rejectStage(accept bool, stage string, authFail bool) string {
	switch {
	case !accept:
		return "accept"
	case stage == "postread" || stage == "reachlimit":
		return stage
	case authFail:
		return "auth"
	}
	return stage
}
