package main

import (
	"context"
	"encoding/binary"
	"errors"
	"fmt"
	"math/rand"
	"net"
	"strings"
	"sync"
	"sync/atomic"
	"time"

	"github.com/smallnest/rpcx/protocol"
	"github.com/smallnest/rpcx/server"
)

func init() {
	register("c16", "forced schedules on a real server with raw peers (goroutine-per-request and worker-pool dispatch): 1..3 requests, each parked at one of "+
		"{read but not yet counted: hook server.process.enter; inside its handler; inside its response write: a conn wrapper that blocks Write; already answered}, "+
		"Shutdown started with every request parked, the parked requests released while Shutdown waits or after it returned, with and without expiry of Shutdown's "+
		"own deadline; then: a second Shutdown, a Close, a new dial, a request on an old connection; observed per request: response received / handler ran, "+
		"return values of Shutdown and of the serve loop, handler starts after completion, panics; every schedule is replayed on the Lean shutdown model; "+
		"plus concurrent Shutdown x3 + Close storms, Close arriving while Shutdown waits (slow connection-close plugin) and a second Shutdown called while the first waits for a running request (its response must still arrive); non-trivial = at least one request parked when Shutdown begins; distinct = distinct schedule line",
		runC16)
	hookHandlers["server.process.enter"] = sdHook
}

// ---- rig ------------------------------------------------------------------------------------------

type sdGate struct {
	arrived chan struct{}
	release chan struct{}
}

func newSdGate() *sdGate {
	return &sdGate{arrived: make(chan struct{}, 1), release: make(chan struct{})}
}

var sdMu sync.Mutex
var sdHookGates = map[uint64]*sdGate{}  // by request seq: parked before the in-progress count is incremented
var sdWriteGates = map[uint64]*sdGate{} // by response seq: parked inside conn.Write

func sdHook(args ...interface{}) {
	if len(args) == 0 {
		return
	}
	req, ok := args[0].(*protocol.Message)
	if !ok {
		return
	}
	sdMu.Lock()
	g := sdHookGates[req.Seq()]
	sdMu.Unlock()
	if g != nil {
		g.arrived <- struct{}{}
		<-g.release
	}
}

type sdConn struct{ net.Conn }

func (c sdConn) Write(p []byte) (int, error) {
	if len(p) >= 12 {
		seq := binary.BigEndian.Uint64(p[4:12])
		sdMu.Lock()
		g := sdWriteGates[seq]
		sdMu.Unlock()
		if g != nil {
			g.arrived <- struct{}{}
			<-g.release
		}
	}
	return c.Conn.Write(p)
}

type sdPlugin struct{ slowClose *int64 }

func (sdPlugin) HandleConnAccept(conn net.Conn) (net.Conn, bool) { return sdConn{conn}, true }

// HandleConnClose: a connection-close plugin that can be slow (the server calls it while it
// holds its own mutex, in Close and in Shutdown)
func (p sdPlugin) HandleConnClose(net.Conn) bool {
	if d := atomic.LoadInt64(p.slowClose); d > 0 {
		time.Sleep(time.Duration(d))
	}
	return true
}

type sdRig struct {
	*srvRig
	serveRet    chan error
	slowClose   int64 // nanoseconds the connection-close plugin takes
	holdArrived chan struct{}
	holdRelease chan struct{}
}

// sdHoldPlugin: a slow post-read stage – a request whose metadata says so waits there until released
type sdHoldPlugin struct{ r *sdRig }

func (p sdHoldPlugin) PostReadRequest(ctx context.Context, r *protocol.Message, e error) error {
	if r != nil && e == nil && r.Metadata["sdhold"] == "1" {
		p.r.holdArrived <- struct{}{}
		<-p.r.holdRelease
	}
	return nil
}

func newSdRig(pool bool) (*sdRig, error) {
	var opts []server.OptionFn
	if pool {
		opts = append(opts, server.WithPool(4, 100))
	}
	s := server.NewServer(opts...)
	r := &srvRig{s: s, invoked: map[int]int{}, gates: map[int]chan struct{}{}, started: map[int]chan struct{}{}}
	if err := s.RegisterName("Svc", &rigSvc{r}, ""); err != nil {
		return nil, err
	}
	sr := &sdRig{srvRig: r, serveRet: make(chan error, 1), holdArrived: make(chan struct{}, 8), holdRelease: make(chan struct{}, 8)}
	s.Plugins.Add(sdPlugin{&sr.slowClose})
	s.Plugins.Add(sdHoldPlugin{sr})
	// an application's shutdown / restart callbacks that look at the server they are handed (whether,
	// when and how often the server runs them is its business; they must never make Shutdown hang)
	s.RegisterOnShutdown(func(s *server.Server) { _ = s.ActiveClientConn(); _ = s.Address() })
	s.RegisterOnRestart(func(s *server.Server) { _ = s.ActiveClientConn(); _ = s.Address() })
	ln, err := net.Listen("tcp", "127.0.0.1:0")
	if err != nil {
		return nil, err
	}
	r.ln = ln
	r.addr = ln.Addr().String()
	go func() { sr.serveRet <- s.ServeListener("tcp", ln) }()
	select {
	case <-s.Started:
	case <-time.After(2 * time.Second):
		return nil, errors.New("server did not start")
	}
	return sr, nil
}

// ---- one schedule -------------------------------------------------------------------------------------

type sdPlan struct {
	hold    string // hook handler write none
	release string // during after
}

var sdIDs int64 = 1600000
var sdIDMu sync.Mutex

func nextSdID() int {
	sdIDMu.Lock()
	defer sdIDMu.Unlock()
	sdIDs++
	return int(sdIDs)
}

var sdViolMu sync.Mutex
var sdViol = map[*sdRig][]Violation{}

type sdResult struct {
	line, obs string
	viol      []Violation
	nontriv   bool
	err       error
}

// safelyWithin: like safely, but a call that does not come back within the limit is reported as a hang and
// left behind (its goroutine stays parked) instead of holding up the whole run
func safelyWithin(limit time.Duration, what string, viol *[]Violation, rp map[string]any, f func()) {
	done := make(chan []Violation, 1)
	go func() {
		var v []Violation
		safely(what, &v, rp, f)
		done <- v
	}()
	select {
	case v := <-done:
		*viol = append(*viol, v...)
	case <-time.After(limit):
		*viol = append(*viol, Violation{"c16.hang", fmt.Sprintf("%s did not return within %v", what, limit), rp})
	}
}

func safely(what string, viol *[]Violation, rp map[string]any, f func()) {
	defer func() {
		if r := recover(); r != nil {
			*viol = append(*viol, Violation{"c16.panic." + what, fmt.Sprintf("%s panicked: %v", what, r), rp})
		}
	}()
	f()
}

func runSdSchedule(pool bool, plans []sdPlan, expire bool, oneConn bool) (res sdResult) {
	mode := "goroutine"
	if pool {
		mode = "pool"
	}
	rig, err := newSdRig(pool)
	if err != nil {
		res.err = err
		return
	}
	n := len(plans)
	ids := make([]int, n)
	peers := make([]*rawPeer, n)
	hookG := make([]*sdGate, n)
	writeG := make([]*sdGate, n)
	handlerG := make([]chan struct{}, n)
	var desc []string
	for i, p := range plans {
		desc = append(desc, p.hold+"/"+p.release)
		ids[i] = nextSdID()
		if i == 0 || !oneConn {
			peers[i], err = dialRaw(rig.addr)
			if err != nil {
				res.err = err
				return
			}
		} else {
			peers[i] = peers[0]
		}
		switch p.hold {
		case "hook":
			hookG[i] = newSdGate()
			sdMu.Lock()
			sdHookGates[uint64(ids[i])] = hookG[i]
			sdMu.Unlock()
		case "write":
			writeG[i] = newSdGate()
			sdMu.Lock()
			sdWriteGates[uint64(ids[i])] = writeG[i]
			sdMu.Unlock()
		case "handler":
			handlerG[i], _ = rig.gate(ids[i])
		}
	}
	rp := map[string]any{"dispatch": mode, "requests": strings.Join(desc, " "), "shutdown_deadline_expires": expire, "one_connection": oneConn}
	defer func() {
		sdMu.Lock()
		for _, id := range ids {
			delete(sdHookGates, uint64(id))
			delete(sdWriteGates, uint64(id))
		}
		sdMu.Unlock()
	}()
	var evs []string
	released := make([]bool, n)
	release := func(i int) {
		if released[i] {
			return
		}
		released[i] = true
		switch plans[i].hold {
		case "hook":
			close(hookG[i].release)
		case "write":
			close(writeG[i].release)
		case "handler":
			close(handlerG[i])
		}
	}
	defer func() {
		for i := range plans {
			release(i)
		}
		// (a Close that cannot get the server's mutex must not hold the whole run up: it has been, or will be,
		// reported by the steps that look at Shutdown and Close)
		closed := make(chan struct{})
		go func() { rig.s.Close(); close(closed) }()
		select {
		case <-closed:
		case <-time.After(3 * time.Second):
		}
	}()
	got := make([]bool, n)
	readOne := func(i int, wait time.Duration) {
		// responses on a shared connection are told apart by their sequence number
		deadline := time.Now().Add(wait)
		for time.Now().Before(deadline) && !got[i] {
			peers[i].c.SetReadDeadline(deadline)
			m, err := protocol.Read(peers[i].c)
			if err != nil {
				return
			}
			for j := range ids {
				if m.Seq() == uint64(ids[j]) {
					got[j] = true
				}
			}
		}
	}
	// 1. send every request and wait until it is parked where the plan says
	for i, p := range plans {
		q := rawReq{id: ids[i], seq: uint64(ids[i]), path: "Svc", method: "Do", ser: protocol.JSON, meta: map[string]string{"rid": fmt.Sprint(ids[i])},
			args: &SArgs{ID: ids[i], Mode: "ok", Size: 5}}
		if err := peers[i].send(q); err != nil {
			res.err = err
			return
		}
		evs = append(evs, fmt.Sprintf("r%d", i))
		var arrived chan struct{}
		switch p.hold {
		case "hook":
			arrived = hookG[i].arrived
		case "write":
			arrived = writeG[i].arrived
		case "handler":
			rig.mu.Lock()
			arrived = rig.started[ids[i]]
			rig.mu.Unlock()
		}
		if arrived != nil {
			select {
			case <-arrived:
			case <-time.After(2 * time.Second):
				res.err = fmt.Errorf("request %d did not reach its hold point %q", i, p.hold)
				return
			}
		} else {
			readOne(i, 2*time.Second)
			if !got[i] {
				res.err = fmt.Errorf("request %d was not answered before shutdown", i)
				return
			}
		}
		switch p.hold {
		case "handler", "write":
			evs = append(evs, fmt.Sprintf("s%d", i))
		case "none":
			evs = append(evs, fmt.Sprintf("s%d w%d f%d", i, i, i))
		}
	}
	counted := false
	for _, p := range plans {
		if p.hold == "handler" || p.hold == "write" {
			counted = true
		}
	}
	// 2. Shutdown
	ctx, cancel := context.WithTimeout(context.Background(), 6*time.Second)
	if expire {
		cancel()
		ctx, cancel = context.WithTimeout(context.Background(), 120*time.Millisecond)
	}
	defer cancel()
	type sdOut struct {
		err  error
		viol []Violation
	}
	sdRetC := make(chan sdOut, 1)
	sdRet := make(chan error, 1)
	go func() {
		var out sdOut
		safely("Shutdown", &out.viol, rp, func() { out.err = rig.s.Shutdown(ctx) })
		sdRetC <- out
	}()
	go func() {
		out := <-sdRetC
		sdViolMu.Lock()
		sdViol[rig] = out.viol
		sdViolMu.Unlock()
		sdRet <- out.err
	}()
	defer func() {
		sdViolMu.Lock()
		res.viol = append(res.viol, sdViol[rig]...)
		delete(sdViol, rig)
		sdViolMu.Unlock()
	}()
	evs = append(evs, "B", "P")
	time.Sleep(40 * time.Millisecond)
	var sdErr error
	returned := false
	waitSd := func(d time.Duration) {
		if returned {
			return
		}
		select {
		case sdErr = <-sdRet:
			returned = true
		case <-time.After(d):
		}
	}
	finishEv := func(i int) {
		switch plans[i].hold {
		case "hook":
			evs = append(evs, fmt.Sprintf("s%d w%d f%d", i, i, i))
		case "handler", "write":
			evs = append(evs, fmt.Sprintf("w%d f%d", i, i))
		}
	}
	if counted && !expire {
		// Shutdown must be waiting now
		waitSd(0)
		if returned {
			res.viol = append(res.viol, Violation{"c16.shutdown-did-not-wait", "Shutdown returned while a request that had been read and counted was still running", rp})
		}
		for i, p := range plans {
			if p.release == "during" || p.hold != "hook" {
				release(i)
				readOne(i, time.Second)
				finishEv(i)
			}
		}
		evs = append(evs, "P", "C", "D")
		waitSd(3 * time.Second)
	} else if counted && expire {
		waitSd(2 * time.Second)
		evs = append(evs, "X", "C", "D")
	} else {
		waitSd(2 * time.Second)
		evs = append(evs, "C", "D")
	}
	if !returned {
		res.viol = append(res.viol, Violation{"c16.shutdown-hangs", "Shutdown did not return", rp})
		waitSd(4 * time.Second)
	}
	// 3. whatever is still parked is released after Shutdown returned
	for i := range plans {
		if !released[i] {
			release(i)
			readOne(i, 150*time.Millisecond)
			finishEv(i)
		}
	}
	time.Sleep(10 * time.Millisecond)
	for i := range plans {
		if !got[i] {
			readOne(i, 30*time.Millisecond)
		}
	}
	// 4. the serve loop
	serve := "-"
	select {
	case e := <-rig.serveRet:
		if errors.Is(e, server.ErrServerClosed) {
			serve = "closed"
		} else {
			serve = "other"
			res.viol = append(res.viol, Violation{"c16.serve-return", fmt.Sprintf("the serve loop returned %v, not ErrServerClosed", e), rp})
		}
	case <-time.After(2 * time.Second):
		res.viol = append(res.viol, Violation{"c16.serve-did-not-return", "the serve loop did not return after Shutdown", rp})
	}
	evs = append(evs, "A")
	// 5. after completion: no new connection, no handler for a request on an old connection
	lateID := nextSdID()
	if c, err := net.DialTimeout("tcp", rig.addr, 200*time.Millisecond); err == nil {
		p := &rawPeer{c}
		p.send(rawReq{id: lateID, seq: uint64(lateID), path: "Svc", method: "Do", ser: protocol.JSON, args: &SArgs{ID: lateID, Mode: "ok"}})
		p.readAll(1, 60*time.Millisecond)
		c.Close()
	}
	late2 := nextSdID()
	peers[0].send(rawReq{id: late2, seq: uint64(late2), path: "Svc", method: "Do", ser: protocol.JSON, args: &SArgs{ID: late2, Mode: "ok"}})
	time.Sleep(20 * time.Millisecond)
	if rig.invocations(lateID) > 0 || rig.invocations(late2) > 0 {
		res.viol = append(res.viol, Violation{"c16.handler-after-shutdown", "a handler was started for a request that arrived after Shutdown had returned", rp})
	}
	// 6. again, and together with Close
	var e2 error
	t0 := time.Now()
	safelyWithin(5*time.Second, "second Shutdown", &res.viol, rp, func() { e2 = rig.s.Shutdown(context.Background()) })
	if e2 != nil || time.Since(t0) > 500*time.Millisecond {
		res.viol = append(res.viol, Violation{"c16.second-shutdown", fmt.Sprintf("a second Shutdown returned %v after %v", e2, time.Since(t0)), rp})
	}
	safelyWithin(5*time.Second, "Close after Shutdown", &res.viol, rp, func() { rig.s.Close() })
	// observation line
	var per []string
	for i := range plans {
		ran := rig.invocations(ids[i]) > 0
		d, l := "0", "0"
		if got[i] {
			d = "1"
		} else if ran {
			l = "1"
		}
		per = append(per, d+":"+l)
		// the property, directly: without expiry every request read before Shutdown began gets its response
		if !expire && !got[i] {
			kind := "c16.lost-response.counted." + mode
			what := "was running (counted) when Shutdown began"
			if plans[i].hold == "hook" {
				kind = "c16.lost-response.read-not-counted." + mode
				what = "had been read but its in-progress count not yet incremented when Shutdown polled"
			}
			res.viol = append(res.viol, Violation{kind, fmt.Sprintf("request %d %s; Shutdown returned %v without its deadline expiring and the response never arrived (handler ran: %v)", i, what, sdErr, ran), rp})
		}
	}
	if !expire && sdErr != nil {
		res.viol = append(res.viol, Violation{"c16.shutdown-error", fmt.Sprintf("Shutdown returned %v although its deadline did not expire", sdErr), rp})
	}
	if expire && counted && sdErr == nil {
		res.viol = append(res.viol, Violation{"c16.shutdown-expiry-not-reported", "Shutdown's deadline expired with a request still running but it returned nil", rp})
	}
	comp := "0"
	if returned {
		comp = "1"
	}
	res.line = fmt.Sprintf("sdo %d %s", n, strings.Join(evs, " "))
	res.obs = strings.Join(per, " ") + fmt.Sprintf(" | completed=%s serve=%s", comp, serve)
	for _, p := range plans {
		if p.hold != "none" {
			res.nontriv = true
		}
	}
	return
}

func runC16(o *Out, r *rand.Rand) {
	type job struct {
		pool    bool
		plans   []sdPlan
		expire  bool
		oneConn bool
	}
	var jobs []job
	// the corpus: every hold point alone, in both dispatch modes
	for _, pool := range []bool{false, true} {
		for _, h := range []string{"hook", "handler", "write", "none"} {
			jobs = append(jobs, job{pool, []sdPlan{{h, "after"}}, false, false})
		}
		jobs = append(jobs, job{pool, []sdPlan{{"handler", "after"}}, true, false})
		jobs = append(jobs, job{pool, []sdPlan{{"handler", "during"}, {"hook", "during"}}, false, true})
	}
	n := 30
	if thorough() {
		n = 400
	}
	for i := 0; i < n; i++ {
		k := 1 + r.Intn(3)
		pl := make([]sdPlan, k)
		for j := range pl {
			pl[j] = sdPlan{[]string{"hook", "handler", "handler", "write", "none"}[r.Intn(5)], []string{"during", "after"}[r.Intn(2)]}
		}
		jobs = append(jobs, job{r.Intn(2) == 0, pl, r.Intn(5) == 0, r.Intn(2) == 0})
	}
	results := make([]sdResult, len(jobs))
	sem := make(chan struct{}, 12)
	var wg sync.WaitGroup
	for i, j := range jobs {
		wg.Add(1)
		sem <- struct{}{}
		go func(i int, j job) {
			defer wg.Done()
			defer func() { <-sem }()
			results[i] = runSdSchedule(j.pool, j.plans, j.expire, j.oneConn)
		}(i, j)
	}
	wg.Wait()
	for i, res := range results {
		if res.err != nil {
			o.Violate("srv.rig", "the schedule could not be forced: "+res.err.Error(), map[string]any{"job": fmt.Sprintf("%+v", jobs[i])})
			continue
		}
		o.Case(res.line, res.obs, res.nontriv)
		mode := "goroutine"
		if jobs[i].pool {
			mode = "pool"
		}
		o.Count("dispatch." + mode)
		for _, p := range jobs[i].plans {
			o.Count("hold." + p.hold)
		}
		if jobs[i].expire {
			o.Count("deadline-expires")
		}
		for _, v := range res.viol {
			o.Violate(v.Kind, v.Detail, v.Replay)
		}
	}
	// a Shutdown that hangs has been reported with its schedule: every further scenario would only wait for
	// the same hang again (each until its own time limit)
	if o.violationsOf("c16.hang")+o.violationsOf("c16.shutdown-hangs") > 0 {
		o.Note("Shutdown hangs: the storm and overlap scenarios are skipped")
		return
	}
	// storms: Shutdown x3 and Close concurrently, with a request in flight
	storms := 6
	if thorough() {
		storms = 60
	}
	for i := 0; i < storms; i++ {
		c16Storm(o, r.Intn(2) == 0)
	}
	// Close arriving while Shutdown waits for a running request, with a slow connection-close
	// plugin: the two calls overlap for a long time inside their critical sections
	overl := 2
	if thorough() {
		overl = 12
	}
	var wg2 sync.WaitGroup
	for i := 0; i < overl; i++ {
		wg2.Add(1)
		go func(pool bool) {
			defer wg2.Done()
			c16CloseDuringShutdown(o, pool)
			c16ShutdownDuringShutdown(o, pool)
			c16ReadHeld(o, pool)
		}(i%2 == 0)
	}
	wg2.Wait()
}

func c16CloseDuringShutdown(o *Out, pool bool) {
	rig, err := newSdRig(pool)
	if err != nil {
		o.Violate("srv.rig", "cannot start: "+err.Error(), nil)
		return
	}
	rp := map[string]any{"scenario": "Shutdown waits for a running request; Close is called meanwhile; the connection-close plugin takes 1.4 s; the request finishes 0.3 s after Shutdown began", "pool": pool}
	id := nextSdID()
	gate, started := rig.gate(id)
	p, err := dialRaw(rig.addr)
	if err != nil {
		o.Violate("srv.rig", "cannot connect: "+err.Error(), nil)
		return
	}
	defer p.c.Close()
	p.send(rawReq{id: id, seq: uint64(id), path: "Svc", method: "Do", ser: protocol.JSON, args: &SArgs{ID: id, Mode: "ok"}})
	select {
	case <-started:
	case <-time.After(2 * time.Second):
		o.Violate("srv.rig", "handler did not start", nil)
		return
	}
	atomic.StoreInt64(&rig.slowClose, int64(1400*time.Millisecond))
	var viol []Violation
	var mu sync.Mutex
	sdDone, clDone := make(chan struct{}), make(chan struct{})
	go func() {
		var v []Violation
		ctx, cancel := context.WithTimeout(context.Background(), 8*time.Second)
		defer cancel()
		safely("Shutdown (with Close)", &v, rp, func() { rig.s.Shutdown(ctx) })
		mu.Lock()
		viol = append(viol, v...)
		mu.Unlock()
		close(sdDone)
	}()
	time.Sleep(100 * time.Millisecond)
	go func() {
		var v []Violation
		safely("Close (during Shutdown)", &v, rp, func() { rig.s.Close() })
		mu.Lock()
		viol = append(viol, v...)
		mu.Unlock()
		close(clDone)
	}()
	time.Sleep(200 * time.Millisecond)
	close(gate)
	for name, ch := range map[string]chan struct{}{"Shutdown": sdDone, "Close": clDone} {
		select {
		case <-ch:
		case <-time.After(9 * time.Second):
			o.Violate("c16.shutdown-with-close-hangs", name+" did not return when Shutdown and Close overlapped", rp)
		}
	}
	select {
	case <-rig.serveRet:
	case <-time.After(3 * time.Second):
		o.Violate("c16.serve-did-not-return", "the serve loop did not return after overlapping Shutdown and Close", rp)
	}
	atomic.StoreInt64(&rig.slowClose, 0)
	mu.Lock()
	for _, v := range viol {
		o.Violate(v.Kind, v.Detail, v.Replay)
	}
	mu.Unlock()
	o.Eval(fmt.Sprintf("close-during-shutdown pool=%v", pool), true)
	o.Count("close-during-shutdown")
}

// c16ShutdownDuringShutdown: a second Shutdown is called while the first one is still waiting for a
// request that was read before it began.  The second call must not disturb the drain: the request
// runs to completion and its response reaches the peer before the connection is closed.
// c16ReadHeld: request B has been READ and waits in a slow post-read stage (a rate limiter, a tracing
// plugin) when Shutdown begins, while request A – running in its handler on another connection – keeps
// the drain open.  B was read before the shutdown: once the stage lets it go it runs to completion and its
// response is delivered; then A finishes and Shutdown returns nil.
func c16ReadHeld(o *Out, pool bool) {
	rig, err := newSdRig(pool)
	if err != nil {
		o.Violate("srv.rig", "cannot start: "+err.Error(), nil)
		return
	}
	rp := map[string]any{"scenario": "A runs in its handler; B (other connection) is read and parked in a post-read plugin; Shutdown starts; B is let go; then A", "pool": pool}
	idA, idB := nextSdID(), nextSdID()
	gateA, startedA := rig.gate(idA)
	pa, err := dialRaw(rig.addr)
	if err != nil {
		o.Violate("srv.rig", "cannot connect: "+err.Error(), nil)
		return
	}
	defer pa.c.Close()
	pb, err := dialRaw(rig.addr)
	if err != nil {
		o.Violate("srv.rig", "cannot connect: "+err.Error(), nil)
		return
	}
	defer pb.c.Close()
	pa.send(rawReq{id: idA, seq: uint64(idA), path: "Svc", method: "Do", ser: protocol.JSON, args: &SArgs{ID: idA, Mode: "ok"}})
	select {
	case <-startedA:
	case <-time.After(2 * time.Second):
		o.Violate("srv.rig", "handler did not start", nil)
		return
	}
	pb.send(rawReq{id: idB, seq: uint64(idB), path: "Svc", method: "Do", ser: protocol.JSON, args: &SArgs{ID: idB, Mode: "ok"}, meta: map[string]string{"sdhold": "1"}})
	select {
	case <-rig.holdArrived:
	case <-time.After(2 * time.Second):
		o.Violate("srv.rig", "the held request did not reach the post-read stage", nil)
		return
	}
	var viol []Violation
	var sdErr error
	done := make(chan struct{})
	go func() {
		ctx, cancel := context.WithTimeout(context.Background(), 10*time.Second)
		defer cancel()
		safely("Shutdown", &viol, rp, func() { sdErr = rig.s.Shutdown(ctx) })
		close(done)
	}()
	time.Sleep(80 * time.Millisecond)
	rig.holdRelease <- struct{}{}
	msgsB, _ := pb.readAll(1, 2*time.Second)
	o.Eval(fmt.Sprintf("read-held pool=%v", pool), true)
	o.Count("read-held.schedules")
	earlyReturn := false
	select {
	case <-done:
		earlyReturn = true
	default:
	}
	close(gateA)
	msgsA, _ := pa.readAll(1, 2*time.Second)
	select {
	case <-done:
	case <-time.After(11 * time.Second):
		o.Violate("c16.shutdown-hangs", "Shutdown did not return", rp)
		return
	}
	select {
	case <-rig.serveRet:
	case <-time.After(3 * time.Second):
		o.Violate("c16.serve-did-not-return", "the serve loop did not return after Shutdown", rp)
	}
	for _, v := range viol {
		o.Violate(v.Kind, v.Detail, v.Replay)
	}
	rp["shutdown_returned"] = fmt.Sprint(sdErr)
	rp["handler_invocations_of_B"] = rig.invocations(idB)
	if earlyReturn {
		o.Violate("c16.shutdown-did-not-wait", "Shutdown returned while request A was still running in its handler", rp)
		return
	}
	if len(msgsB) != 1 || msgsB[0].Seq() != uint64(idB) || msgsB[0].MessageStatusType() == protocol.Error {
		o.Violate("c16.lost-response.read-before-shutdown", fmt.Sprintf("request B, read before Shutdown began and parked in a post-read plugin, got %d responses (its handler ran %d times) although the drain was still open", len(msgsB), rig.invocations(idB)), rp)
		return
	}
	if len(msgsA) != 1 {
		o.Violate("c16.lost-response.counted."+map[bool]string{false: "goroutine", true: "pool"}[pool], "request A, running when Shutdown began, got no response", rp)
		return
	}
	if sdErr != nil {
		o.Violate("c16.shutdown-error", "Shutdown returned "+sdErr.Error()+" although its deadline had not expired", rp)
	}
}

func c16ShutdownDuringShutdown(o *Out, pool bool) {
	rig, err := newSdRig(pool)
	if err != nil {
		o.Violate("srv.rig", "cannot start: "+err.Error(), nil)
		return
	}
	rp := map[string]any{"scenario": "Shutdown waits for a running request; a second Shutdown is called meanwhile (and returns); then the request finishes", "pool": pool}
	id := nextSdID()
	gate, started := rig.gate(id)
	p, err := dialRaw(rig.addr)
	if err != nil {
		o.Violate("srv.rig", "cannot connect: "+err.Error(), nil)
		return
	}
	defer p.c.Close()
	p.send(rawReq{id: id, seq: uint64(id), path: "Svc", method: "Do", ser: protocol.JSON, args: &SArgs{ID: id, Mode: "ok"}})
	select {
	case <-started:
	case <-time.After(2 * time.Second):
		o.Violate("srv.rig", "handler did not start", nil)
		return
	}
	var viol []Violation
	var mu sync.Mutex
	var firstErr error
	firstDone, secondDone := make(chan struct{}), make(chan struct{})
	go func() {
		var v []Violation
		ctx, cancel := context.WithTimeout(context.Background(), 8*time.Second)
		defer cancel()
		safely("Shutdown (first)", &v, rp, func() { firstErr = rig.s.Shutdown(ctx) })
		mu.Lock()
		viol = append(viol, v...)
		mu.Unlock()
		close(firstDone)
	}()
	time.Sleep(60 * time.Millisecond)
	go func() {
		var v []Violation
		ctx, cancel := context.WithTimeout(context.Background(), 8*time.Second)
		defer cancel()
		safely("Shutdown (second, during the first)", &v, rp, func() { rig.s.Shutdown(ctx) })
		mu.Lock()
		viol = append(viol, v...)
		mu.Unlock()
		close(secondDone)
	}()
	// give the second call time to do whatever it does, then let the request finish
	select {
	case <-secondDone:
	case <-time.After(150 * time.Millisecond):
	}
	firstReturnedEarly := false
	select {
	case <-firstDone:
		firstReturnedEarly = true
	default:
	}
	close(gate)
	msgs, _ := p.readAll(1, 2*time.Second)
	for name, ch := range map[string]chan struct{}{"the first Shutdown": firstDone, "the second Shutdown": secondDone} {
		select {
		case <-ch:
		case <-time.After(9 * time.Second):
			o.Violate("c16.shutdown-twice-hangs", name+" did not return when two Shutdown calls overlapped", rp)
		}
	}
	select {
	case <-rig.serveRet:
	case <-time.After(3 * time.Second):
		o.Violate("c16.serve-did-not-return", "the serve loop did not return after two overlapping Shutdown calls", rp)
	}
	mu.Lock()
	for _, v := range viol {
		o.Violate(v.Kind, v.Detail, v.Replay)
	}
	mu.Unlock()
	got := false
	for _, m := range msgs {
		if m.Seq() == uint64(id) && m.MessageStatusType() != protocol.Error {
			got = true
		}
	}
	rp["first_shutdown_returned"] = fmt.Sprint(firstErr)
	if firstReturnedEarly {
		o.Violate("c16.shutdown-twice.drain-abandoned", "the first Shutdown returned while the request it was waiting for was still running (a second Shutdown had been called meanwhile)", rp)
	} else if !got && firstErr == nil {
		o.Violate("c16.shutdown-twice.lost-response", "a second Shutdown called while the first was draining cost the in-flight request its response: the peer received nothing although Shutdown returned nil", rp)
	}
	o.Eval(fmt.Sprintf("shutdown-during-shutdown pool=%v", pool), true)
	o.Count("shutdown-during-shutdown")
}

func c16Storm(o *Out, pool bool) {
	rig, err := newSdRig(pool)
	if err != nil {
		o.Violate("srv.rig", "cannot start: "+err.Error(), nil)
		return
	}
	rp := map[string]any{"storm": "3 x Shutdown + Close, concurrently", "pool": pool}
	id := nextSdID()
	if p, err := dialRaw(rig.addr); err == nil {
		p.send(rawReq{id: id, seq: uint64(id), path: "Svc", method: "Do", ser: protocol.JSON, args: &SArgs{ID: id, Mode: "ok"}})
		defer p.c.Close()
	}
	var viol []Violation
	var mu sync.Mutex
	var wg sync.WaitGroup
	for k := 0; k < 4; k++ {
		wg.Add(1)
		go func(k int) {
			defer wg.Done()
			var v []Violation
			if k == 3 {
				safely("Close (concurrent)", &v, rp, func() { rig.s.Close() })
			} else {
				ctx, cancel := context.WithTimeout(context.Background(), 3*time.Second)
				defer cancel()
				safely("Shutdown (concurrent)", &v, rp, func() { rig.s.Shutdown(ctx) })
			}
			mu.Lock()
			viol = append(viol, v...)
			mu.Unlock()
		}(k)
	}
	doneCh := make(chan struct{})
	go func() { wg.Wait(); close(doneCh) }()
	select {
	case <-doneCh:
	case <-time.After(8 * time.Second):
		o.Violate("c16.storm-deadlock", "concurrent Shutdown and Close did not return", rp)
	}
	select {
	case <-rig.serveRet:
	case <-time.After(3 * time.Second):
		o.Violate("c16.serve-did-not-return", "the serve loop did not return after concurrent Shutdown and Close", rp)
	}
	for _, v := range viol {
		o.Violate(v.Kind, v.Detail, v.Replay)
	}
	o.Eval(fmt.Sprintf("storm pool=%v", pool), true)
	o.Count("storms")
}
