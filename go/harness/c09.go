package main

import (
	"bytes"
	"compress/gzip"
	"context"
	"encoding/hex"
	"fmt"
	"io"
	"math/rand"
	"net"
	"os"
	"path/filepath"
	"reflect"
	"sort"
	"strings"
	"sync"
	"sync/atomic"
	"time"

	"github.com/smallnest/rpcx/client"
	"github.com/smallnest/rpcx/codec/testdata"
	"github.com/smallnest/rpcx/protocol"
	"github.com/smallnest/rpcx/server"
	"github.com/smallnest/rpcx/share"
)

func init() {
	register("c09", "end to end through real clients and real servers: codecs {raw bytes, JSON, MessagePack, Protobuf, Thrift} x client compression {None, Gzip} x "+
		"encoded argument and reply sizes {0, 1, 1023, 1024, 1025, 4 Ki, 64 Ki (1 Mi thorough)} chosen independently x metadata maps with binary-safe keys and values "+
		"(empty, NUL, high bytes, '=', '&', long) x transports {tcp, unix, http-connect, websocket, in-memory} x 1..32 concurrent callers on shared and separate clients; "+
		"the handler records the arguments and metadata it was given, the caller checks its reply and response metadata; on the tcp transport a recording proxy captures "+
		"both byte streams and every request / success-response header is compared with the Lean pipeline model (client.send flagging, server response skeleton and flagging); "+
		"plus 2..16 concurrent callers sharing ONE *share.Context: the response metadata of every call must be in the shared map once all have returned; "+
		"non-trivial = payload above the compression threshold on either leg, or non-empty metadata; distinct = distinct case key",
		runC09)
}

// ---- service -----------------------------------------------------------------------------------

type Blob struct {
	ID   int
	S    string
	Data []byte
	N    int64
	L    []string
	M    map[string]string
}

type c09Seen struct {
	args interface{}
	meta map[string]string
}

type c09Rig struct {
	mu   sync.Mutex
	seen map[string]*c09Seen
	dup  int32
}

func (r *c09Rig) record(ctx context.Context, args interface{}) (cid string, rs int, meta map[string]string) {
	m, _ := ctx.Value(share.ReqMetaDataKey).(map[string]string)
	meta = map[string]string{}
	for k, v := range m {
		meta[k] = v
	}
	cid = m["cid"]
	fmt.Sscan(m["rs"], &rs)
	r.mu.Lock()
	if _, ok := r.seen[cid]; ok {
		atomic.AddInt32(&r.dup, 1)
	}
	r.seen[cid] = &c09Seen{args: args, meta: meta}
	r.mu.Unlock()
	// response metadata: derived from the request's "e:" entries, binary-safe
	if rm, ok := ctx.Value(share.ResMetaDataKey).(map[string]string); ok {
		for k, v := range m {
			if strings.HasPrefix(k, "e:") {
				rm["r:"+k[2:]] = v + "\x00\xff|" + cid
			}
		}
	}
	return
}

func (r *c09Rig) take(cid string) *c09Seen {
	r.mu.Lock()
	defer r.mu.Unlock()
	s := r.seen[cid]
	delete(r.seen, cid)
	return s
}

func expectedResMeta(meta map[string]string, cid string) map[string]string {
	out := map[string]string{}
	for k, v := range meta {
		if strings.HasPrefix(k, "e:") {
			out["r:"+k[2:]] = v + "\x00\xff|" + cid
		}
	}
	return out
}

// deterministic content of (about) a given size, in one of four shapes chosen by the seed:
// pseudo-random (incompressible), repetitive (compressible), pseudo-random behind the gzip magic
// bytes (looks like a gzip file, is not one), and a real gzip stream of pseudo-random data (an
// already-compressed file: incompressible AND a valid gzip stream)
func pattern(seed string, n int) []byte {
	x := uint32(2166136261)
	for _, c := range []byte(seed) {
		x = (x ^ uint32(c)) * 16777619
	}
	shape := (x >> 7) % 4
	fill := func(b []byte) {
		for i := range b {
			x = x*1664525 + 1013904223
			b[i] = byte(x >> 24)
		}
	}
	b := make([]byte, n)
	switch {
	case shape == 1:
		for i := range b {
			b[i] = "rpcx metadata "[i%14]
		}
	case shape == 2 && n >= 4:
		fill(b)
		copy(b, []byte{0x1f, 0x8b, 0x08, 0x00})
	case shape == 3 && n >= 64:
		raw := make([]byte, n-40)
		fill(raw)
		var zb bytes.Buffer
		zw := gzip.NewWriter(&zb)
		zw.Write(raw)
		zw.Close()
		return zb.Bytes()
	default:
		fill(b)
	}
	return b
}

func asciiPattern(seed string, n int) string {
	b := pattern(seed, n)
	for i := range b {
		b[i] = 'a' + b[i]%26
	}
	return string(b)
}

type EchoSvc struct{ r *c09Rig }

// Tag: response metadata that depends on the ARGUMENT only (callers that share one context share
// its request metadata)
func (s *EchoSvc) Tag(ctx context.Context, a *int, rp *int) error {
	if rm, ok := ctx.Value(share.ResMetaDataKey).(map[string]string); ok {
		rm[fmt.Sprintf("tag:%d", *a)] = fmt.Sprintf("v%d\x00\xff", *a)
	}
	*rp = *a * 3
	return nil
}

func (s *EchoSvc) Bytes(ctx context.Context, a *[]byte, rp *[]byte) error {
	cp := append([]byte(nil), (*a)...)
	cid, rs, _ := s.r.record(ctx, cp)
	*rp = pattern("reply"+cid, rs)
	return nil
}

func mkBlob(seed string, size int) *Blob {
	return &Blob{ID: len(seed) * 7, S: asciiPattern(seed, size), Data: pattern(seed, 9), N: -1 << 40, L: []string{"x", "", "日本"}, M: map[string]string{"k": seed, "": "empty-key"}}
}

func (s *EchoSvc) Blob(ctx context.Context, a *Blob, rp *Blob) error {
	cp := *a
	cp.Data = append([]byte(nil), a.Data...)
	cid, rs, _ := s.r.record(ctx, &cp)
	*rp = *mkBlob("reply"+cid, rs)
	return nil
}

func mkPB(seed string, size int) *testdata.ProtoColorGroup {
	return &testdata.ProtoColorGroup{Id: int32(len(seed)), Name: asciiPattern(seed, size), Colors: []string{"red", "", seed}}
}

func (s *EchoSvc) PB(ctx context.Context, a *testdata.ProtoColorGroup, rp *testdata.ProtoColorGroup) error {
	cp := &testdata.ProtoColorGroup{Id: a.Id, Name: a.Name, Colors: append([]string(nil), a.Colors...)}
	cid, rs, _ := s.r.record(ctx, cp)
	x := mkPB("reply"+cid, rs)
	rp.Id, rp.Name, rp.Colors = x.Id, x.Name, x.Colors
	return nil
}

func mkThrift(seed string, size int) *testdata.ThriftColorGroup {
	return &testdata.ThriftColorGroup{ID: int32(len(seed)), Name: asciiPattern(seed, size), Colors: []string{"red", "", seed}}
}

func (s *EchoSvc) Thrift(ctx context.Context, a *testdata.ThriftColorGroup, rp *testdata.ThriftColorGroup) error {
	cp := &testdata.ThriftColorGroup{ID: a.ID, Name: a.Name, Colors: append([]string(nil), a.Colors...)}
	cid, rs, _ := s.r.record(ctx, cp)
	x := mkThrift("reply"+cid, rs)
	rp.ID, rp.Name, rp.Colors = x.ID, x.Name, x.Colors
	return nil
}

// ---- recording proxy -----------------------------------------------------------------------------

type recProxy struct {
	ln     net.Listener
	target string
	mu     sync.Mutex
	c2s    []*bytes.Buffer
	s2c    []*bytes.Buffer
}

func newRecProxy(target string) (*recProxy, error) {
	ln, err := net.Listen("tcp", "127.0.0.1:0")
	if err != nil {
		return nil, err
	}
	p := &recProxy{ln: ln, target: target}
	go func() {
		for {
			c, err := ln.Accept()
			if err != nil {
				return
			}
			s, err := net.Dial("tcp", target)
			if err != nil {
				c.Close()
				continue
			}
			a, b := &bytes.Buffer{}, &bytes.Buffer{}
			p.mu.Lock()
			p.c2s = append(p.c2s, a)
			p.s2c = append(p.s2c, b)
			p.mu.Unlock()
			pipe := func(dst, src net.Conn, rec *bytes.Buffer) {
				buf := make([]byte, 32<<10)
				for {
					n, err := src.Read(buf)
					if n > 0 {
						p.mu.Lock()
						rec.Write(buf[:n])
						p.mu.Unlock()
						dst.Write(buf[:n])
					}
					if err != nil {
						dst.Close()
						return
					}
				}
			}
			go pipe(s, c, a)
			go pipe(c, s, b)
		}
	}()
	return p, nil
}

func framesOf(b []byte) []*protocol.Message {
	var out []*protocol.Message
	rd := bytes.NewReader(b)
	for rd.Len() > 0 {
		m, err := protocol.Read(rd)
		if err != nil {
			break
		}
		out = append(out, m)
	}
	return out
}

// ---- servers -------------------------------------------------------------------------------------

type c09Server struct {
	network, addr string
	s             *server.Server
}

func startC09Servers(rig *c09Rig, dir string) ([]*c09Server, error) {
	var out []*c09Server
	for _, nw := range []string{"tcp", "unix", "http", "ws", "memu"} {
		s := server.NewServer()
		if err := s.RegisterName("Echo", &EchoSvc{rig}, ""); err != nil {
			return nil, err
		}
		addr := ""
		switch nw {
		case "unix":
			addr = filepath.Join(dir, "c09.sock")
		case "memu":
			addr = fmt.Sprintf("verif-c09-%d", time.Now().UnixNano())
		default:
			ln, err := net.Listen("tcp", "127.0.0.1:0")
			if err != nil {
				return nil, err
			}
			addr = ln.Addr().String()
			ln.Close()
		}
		go s.Serve(nw, addr)
		// wait until it accepts
		ok := false
		for i := 0; i < 200 && !ok; i++ {
			time.Sleep(5 * time.Millisecond)
			switch nw {
			case "memu":
				c := client.NewClient(client.DefaultOption)
				if err := c.Connect(nw, addr); err == nil {
					c.Close()
					ok = true
				}
			case "unix":
				if c, err := net.Dial("unix", addr); err == nil {
					c.Close()
					ok = true
				}
			default:
				if c, err := net.Dial("tcp", addr); err == nil {
					c.Close()
					ok = true
				}
			}
		}
		if !ok {
			return nil, fmt.Errorf("%s server did not start", nw)
		}
		out = append(out, &c09Server{nw, addr, s})
	}
	return out, nil
}

// ---- cases -----------------------------------------------------------------------------------------

var c09Codecs = []struct {
	name   string
	ser    protocol.SerializeType
	method string
}{
	{"bytes", protocol.SerializeNone, "Bytes"},
	{"json", protocol.JSON, "Blob"},
	{"msgpack", protocol.MsgPack, "Blob"},
	{"protobuf", protocol.ProtoBuffer, "PB"},
	{"thrift", protocol.Thrift, "Thrift"},
}

var metaAtoms = []string{"", "v", "\x00", "\x00\x01\xfe\xff", "a=b&c=d", "ключ", strings.Repeat("m", 300), " lead", "trail ", "%zz", "\r\n"}

func genMeta(r *rand.Rand) map[string]string {
	m := map[string]string{}
	for i := r.Intn(5); i > 0; i-- {
		k := metaAtoms[r.Intn(len(metaAtoms))]
		if strings.HasPrefix(k, "__") {
			continue
		}
		if r.Intn(2) == 0 {
			k = "e:" + k // echoed into the response metadata by the handler
		}
		m[k] = metaAtoms[r.Intn(len(metaAtoms))]
	}
	return m
}

// sizeArg builds an argument whose ENCODED length is (as near as the codec allows) target.
func sizeArg(ci int, seed string, target int) (interface{}, int) {
	codec := share.Codecs[c09Codecs[ci].ser]
	mk := func(k int) interface{} {
		switch c09Codecs[ci].name {
		case "bytes":
			return pattern(seed, k)
		case "json", "msgpack":
			return mkBlob(seed, k)
		case "protobuf":
			return mkPB(seed, k)
		default:
			return mkThrift(seed, k)
		}
	}
	k := target
	var v interface{}
	var n int
	for it := 0; it < 6; it++ {
		if k < 0 {
			k = 0
		}
		v = mk(k)
		b, err := codec.Encode(v)
		if err != nil {
			return v, -1
		}
		n = len(b)
		if n == target || (k == 0 && n > target) {
			break
		}
		k += target - n
	}
	return v, n
}

func newReplyFor(ci int) interface{} {
	switch c09Codecs[ci].name {
	case "bytes":
		return new([]byte)
	case "json", "msgpack":
		return &Blob{}
	case "protobuf":
		return &testdata.ProtoColorGroup{}
	default:
		return &testdata.ThriftColorGroup{}
	}
}

func expectedReply(ci int, cid string, rs int) interface{} {
	switch c09Codecs[ci].name {
	case "bytes":
		b := pattern("reply"+cid, rs)
		return &b
	case "json", "msgpack":
		return mkBlob("reply"+cid, rs)
	case "protobuf":
		return mkPB("reply"+cid, rs)
	default:
		return mkThrift("reply"+cid, rs)
	}
}

func c09Equal(ci int, a, b interface{}) bool {
	switch c09Codecs[ci].name {
	case "bytes":
		var x, y []byte
		switch t := a.(type) {
		case []byte:
			x = t
		case *[]byte:
			x = *t
		}
		switch t := b.(type) {
		case []byte:
			y = t
		case *[]byte:
			y = *t
		}
		return bytes.Equal(x, y)
	case "protobuf":
		x, y := a.(*testdata.ProtoColorGroup), b.(*testdata.ProtoColorGroup)
		return x.Id == y.Id && x.Name == y.Name && strSliceEq(x.Colors, y.Colors)
	case "thrift":
		x, y := a.(*testdata.ThriftColorGroup), b.(*testdata.ThriftColorGroup)
		return x.ID == y.ID && x.Name == y.Name && strSliceEq(x.Colors, y.Colors)
	default:
		x, y := a.(*Blob), b.(*Blob)
		return x.ID == y.ID && x.S == y.S && bytes.Equal(x.Data, y.Data) && x.N == y.N && strSliceEq(x.L, y.L) && reflect.DeepEqual(x.M, y.M)
	}
}

func strSliceEq(a, b []string) bool {
	if len(a) != len(b) {
		return false
	}
	for i := range a {
		if a[i] != b[i] {
			return false
		}
	}
	return true
}

func nonReserved(m map[string]string) map[string]string {
	out := map[string]string{}
	for k, v := range m {
		if !strings.HasPrefix(k, "__") {
			out[k] = v
		}
	}
	return out
}

func metaStr(m map[string]string) string {
	var ks []string
	for k := range m {
		ks = append(ks, k)
	}
	sort.Strings(ks)
	var sb strings.Builder
	for _, k := range ks {
		fmt.Fprintf(&sb, "%s=%s;", hex.EncodeToString([]byte(k)), hex.EncodeToString([]byte(trunc(m[k], 40))))
	}
	return sb.String()
}

type c09Call struct {
	ci        int
	ct        protocol.CompressType
	argSize   int
	replySize int
	meta      map[string]string
	cid       string
	reply     interface{} // kept by the caller: must still hold the same value after later calls
}

var c09Counter int64

func (c *c09Call) describe(nw string, conc int) map[string]any {
	return map[string]any{"transport": nw, "codec": c09Codecs[c.ci].name, "client_compress": int(c.ct), "arg_size": c.argSize, "reply_size": c.replySize,
		"metadata": metaStr(c.meta), "concurrent_callers": conc}
}

// doCall performs one call on cl and judges it; returns false after a violation.
func c09DoCall(o *Out, rig *c09Rig, cl *client.Client, nw string, c *c09Call, conc int) bool {
	c.cid = fmt.Sprintf("c%d", atomic.AddInt64(&c09Counter, 1))
	args, encLen := sizeArg(c.ci, "arg"+c.cid, c.argSize)
	meta := map[string]string{"cid": c.cid, "rs": fmt.Sprint(c.replySize)}
	for k, v := range c.meta {
		meta[k] = v
	}
	sent := map[string]string{}
	for k, v := range meta {
		sent[k] = v
	}
	resMeta := map[string]string{}
	ctx := context.WithValue(context.Background(), share.ReqMetaDataKey, meta)
	ctx = context.WithValue(ctx, share.ResMetaDataKey, resMeta)
	ctx, cancel := context.WithTimeout(ctx, 20*time.Second)
	defer cancel()
	reply := newReplyFor(c.ci)
	err := cl.Call(ctx, "Echo", c09Codecs[c.ci].method, args, reply)
	rp := c.describe(nw, conc)
	rp["encoded_arg_len"] = encLen
	nontrivial := encLen > 1024 || c.replySize > 1024 || len(c.meta) > 0
	o.Eval(fmt.Sprintf("c09 %s %s ct=%d a=%d r=%d m=%s conc=%d", nw, c09Codecs[c.ci].name, c.ct, c.argSize, c.replySize, metaStr(c.meta), conc), nontrivial)
	o.Count("transport." + nw)
	o.Count("codec." + c09Codecs[c.ci].name)
	o.Count(fmt.Sprintf("compress.%d", c.ct))
	if encLen > 1024 {
		o.Count("arg.above-threshold")
	} else {
		o.Count("arg.at-or-below-threshold")
	}
	if err != nil {
		o.Violate("c09.call-failed", fmt.Sprintf("a well-formed call failed: %v", err), rp)
		return false
	}
	seen := rig.take(c.cid)
	if seen == nil {
		o.Violate("c09.handler-not-reached", "the call returned success but the handler never saw it", rp)
		return false
	}
	if !c09Equal(c.ci, seen.args, args) {
		o.Violate("c09.args-changed", "the arguments the handler was given differ from the arguments sent", rp)
		return false
	}
	if got, want := nonReserved(seen.meta), nonReserved(sent); !reflect.DeepEqual(got, want) {
		rp["handler_meta"] = metaStr(got)
		rp["sent_meta"] = metaStr(want)
		o.Violate("c09.request-metadata-changed", "the request metadata the handler saw differs from the metadata sent", rp)
		return false
	}
	if !c09Equal(c.ci, reply, expectedReply(c.ci, c.cid, c.replySize)) {
		o.Violate("c09.reply-changed", "the reply the caller received differs from the reply the handler produced", rp)
		return false
	}
	c.reply = reply
	if got, want := nonReserved(resMeta), expectedResMeta(sent, c.cid); !reflect.DeepEqual(got, want) {
		rp["caller_res_meta"] = metaStr(got)
		rp["handler_res_meta"] = metaStr(want)
		o.Violate("c09.response-metadata-changed", "the response metadata the caller received differs from what the handler set", rp)
		return false
	}
	return true
}

func runC09(o *Out, r *rand.Rand) {
	dir, err := os.MkdirTemp("", "verif-c09-")
	if err != nil {
		o.Violate("srv.rig", "no temp dir: "+err.Error(), nil)
		return
	}
	defer os.RemoveAll(dir)
	rig := &c09Rig{seen: map[string]*c09Seen{}}
	servers, err := startC09Servers(rig, dir)
	if err != nil {
		o.Violate("srv.rig", "cannot start the servers: "+err.Error(), nil)
		return
	}
	defer func() {
		for _, s := range servers {
			s.s.Close()
		}
	}()
	sizes := []int{0, 1, 1023, 1024, 1025, 4096, 65536}
	if thorough() {
		sizes = append(sizes, 1<<20)
	}
	connect := func(nw, addr string, ci int, ct protocol.CompressType) (*client.Client, error) {
		opt := client.DefaultOption
		opt.SerializeType = c09Codecs[ci].ser
		opt.CompressType = ct
		opt.Heartbeat = false
		cl := client.NewClient(opt)
		return cl, cl.Connect(nw, addr)
	}
	// --- 1. the grid, sequentially, on every transport -------------------------------------------
	for _, sv := range servers {
		var proxy *recProxy
		addr := sv.addr
		if sv.network == "tcp" {
			proxy, err = newRecProxy(sv.addr)
			if err != nil {
				o.Violate("srv.rig", "proxy: "+err.Error(), nil)
				return
			}
			addr = proxy.ln.Addr().String()
		}
		type sentInfo struct {
			ci int
			ct protocol.CompressType
		}
		var order []sentInfo // one entry per proxied connection, in connection order
		for ci := range c09Codecs {
			for _, ct := range []protocol.CompressType{protocol.None, protocol.Gzip} {
				cl, err := connect(sv.network, addr, ci, ct)
				if err != nil {
					o.Violate("c09.connect", fmt.Sprintf("cannot connect over %s: %v", sv.network, err), map[string]any{"transport": sv.network})
					return
				}
				order = append(order, sentInfo{ci, ct})
				var kept []*c09Call
				for _, as := range sizes {
					rss := sizes
					if !thorough() || sv.network != "tcp" {
						// every argument size with a sample of reply sizes (and vice versa below)
						rss = []int{sizes[r.Intn(len(sizes))], sizes[r.Intn(5)]}
					}
					if as >= 1<<20 && sv.network != "tcp" {
						continue
					}
					for _, rs := range rss {
						c := &c09Call{ci: ci, ct: ct, argSize: as, replySize: rs, meta: genMeta(r)}
						if !c09DoCall(o, rig, cl, sv.network, c, 1) {
							cl.Close()
							return
						}
						// replies handed out earlier on this connection still hold their values
						for _, old := range kept {
							if !c09Equal(old.ci, old.reply, expectedReply(old.ci, old.cid, old.replySize)) {
								rp := old.describe(sv.network, 1)
								rp["later_call"] = c.describe(sv.network, 1)
								o.Violate("c09.reply-changed-later", "a reply the caller still holds changed when a later response arrived on the same connection", rp)
								cl.Close()
								return
							}
						}
						kept = append(kept, c)
						if len(kept) > 3 {
							kept = kept[1:]
						}
					}
				}
				cl.Close()
			}
		}
		if proxy != nil {
			time.Sleep(20 * time.Millisecond)
			proxy.ln.Close()
			proxy.mu.Lock()
			for i := range proxy.c2s {
				if i >= len(order) {
					break
				}
				reqs := framesOf(proxy.c2s[i].Bytes())
				ress := framesOf(proxy.s2c[i].Bytes())
				bySeq := map[uint64]*protocol.Message{}
				for _, q := range reqs {
					bySeq[q.Seq()] = q
					ow := "0"
					if q.IsOneway() {
						ow = "1"
					}
					o.Case(fmt.Sprintf("pipe req %d %d %d %s %d", c09Codecs[order[i].ci].ser, order[i].ct, q.Seq(), ow, len(q.Payload)),
						"hdr="+hex.EncodeToString(q.Header[:]), len(q.Payload) > 1024)
					o.Count("model.request-headers")
				}
				for _, s := range ress {
					q := bySeq[s.Seq()]
					if q == nil || s.MessageStatusType() == protocol.Error {
						continue
					}
					o.Case(fmt.Sprintf("pipe res %s %d", hex.EncodeToString(q.Header[:]), len(s.Payload)), "hdr="+hex.EncodeToString(s.Header[:]), len(s.Payload) > 1024)
					o.Count("model.response-headers")
				}
			}
			proxy.mu.Unlock()
		}
	}
	// --- 2. concurrent callers: shared client (multiplexed) and one client per caller ------------
	rounds := 6
	if thorough() {
		rounds = 40
	}
	for round := 0; round < rounds; round++ {
		sv := servers[r.Intn(len(servers))]
		ci := r.Intn(len(c09Codecs))
		ct := []protocol.CompressType{protocol.None, protocol.Gzip, protocol.Gzip}[r.Intn(3)]
		conc := []int{2, 4, 8, 16, 32}[r.Intn(5)]
		shared := r.Intn(2) == 0
		// every third round: replies well above 64 KiB to concurrent callers multiplexed on ONE connection
		// (several big response frames written back to back on the same conn)
		big := round%3 == 2
		if big {
			shared = true
			if conc < 8 {
				conc = 8
			}
			if r.Intn(2) == 0 {
				ct = protocol.None
			}
		}
		var sharedCl *client.Client
		if shared {
			sharedCl, err = connect(sv.network, sv.addr, ci, ct)
			if err != nil {
				o.Violate("c09.connect", fmt.Sprintf("cannot connect over %s: %v", sv.network, err), map[string]any{"transport": sv.network})
				return
			}
		}
		var wg sync.WaitGroup
		var failed int32
		seeds := make([]int64, conc)
		for i := range seeds {
			seeds[i] = r.Int63()
		}
		for g := 0; g < conc; g++ {
			wg.Add(1)
			go func(g int) {
				defer wg.Done()
				lr := rand.New(rand.NewSource(seeds[g]))
				cl := sharedCl
				if cl == nil {
					var err error
					cl, err = connect(sv.network, sv.addr, ci, ct)
					if err != nil {
						o.Violate("c09.connect", fmt.Sprintf("cannot connect over %s: %v", sv.network, err), map[string]any{"transport": sv.network})
						atomic.StoreInt32(&failed, 1)
						return
					}
					defer cl.Close()
				}
				for k := 0; k < 6; k++ {
					if atomic.LoadInt32(&failed) != 0 {
						return
					}
					c := &c09Call{ci: ci, ct: ct, argSize: sizes[lr.Intn(6)], replySize: sizes[lr.Intn(6)], meta: genMeta(lr)}
					if big {
						c.replySize = []int{65536, 70000, 150000, 262144}[lr.Intn(4)]
						o.Count("concurrent.big-replies")
					}
					if !c09DoCall(o, rig, cl, sv.network, c, conc) {
						atomic.StoreInt32(&failed, 1)
						return
					}
				}
			}(g)
		}
		wg.Wait()
		if sharedCl != nil {
			sharedCl.Close()
		}
		o.Count(fmt.Sprintf("concurrent.callers=%d", conc))
		if atomic.LoadInt32(&failed) != 0 {
			return
		}
	}
	// --- 3. concurrent callers sharing ONE context (a *share.Context: the client serialises its
	// writes to the context's response-metadata map): what the server sent for each call must be
	// there once all calls have returned – one call's completion must not undo another's
	for round := 0; round < rounds; round++ {
		sv := servers[r.Intn(len(servers))]
		ct := []protocol.CompressType{protocol.None, protocol.Gzip}[r.Intn(2)]
		cl, err := connect(sv.network, sv.addr, 1, ct) // c09Codecs[1] = JSON
		if err != nil {
			o.Violate("c09.connect", fmt.Sprintf("cannot connect over %s: %v", sv.network, err), map[string]any{"transport": sv.network})
			return
		}
		conc := []int{2, 4, 8, 16}[r.Intn(4)]
		resMeta := map[string]string{}
		base := context.WithValue(context.Background(), share.ReqMetaDataKey, map[string]string{"shared": "1"})
		base = context.WithValue(base, share.ResMetaDataKey, resMeta)
		sctx := share.NewContext(base)
		var wg sync.WaitGroup
		errs := make([]error, conc)
		replies := make([]int, conc)
		tagBase := round * 100
		for g := 0; g < conc; g++ {
			wg.Add(1)
			go func(g int) {
				defer wg.Done()
				a := tagBase + g
				errs[g] = cl.Call(sctx, "Echo", "Tag", &a, &replies[g])
			}(g)
		}
		wg.Wait()
		cl.Close()
		o.Eval(fmt.Sprintf("c09 shared-context %s conc=%d ct=%d", sv.network, conc, ct), true)
		o.Count("shared-context.rounds")
		rp := map[string]any{"transport": sv.network, "concurrent_callers_sharing_one_context": conc, "compress": int(ct)}
		for g := 0; g < conc; g++ {
			a := tagBase + g
			if errs[g] != nil || replies[g] != a*3 {
				o.Violate("c09.shared-context.call", fmt.Sprintf("caller %d: err=%v reply=%d (want %d)", g, errs[g], replies[g], a*3), rp)
				return
			}
			if got, want := resMeta[fmt.Sprintf("tag:%d", a)], fmt.Sprintf("v%d\x00\xff", a); got != want {
				rp["response_metadata_now"] = metaStr(nonReserved(resMeta))
				o.Violate("c09.shared-context.response-metadata", fmt.Sprintf("the response metadata the server sent for caller %d's call (tag:%d) is not in the callers' shared response-metadata map after all calls returned (got %q)", g, a, got), rp)
				return
			}
		}
	}
	if n := atomic.LoadInt32(&rig.dup); n > 0 {
		o.Violate("c09.handler-ran-twice", fmt.Sprintf("%d calls reached the handler more than once", n), nil)
	}
	_ = io.EOF
}
