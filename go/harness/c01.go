package main

import (
	"bytes"
	"encoding/binary"
	"fmt"
	"math/rand"

	"github.com/smallnest/rpcx/protocol"
)

func init() {
	register("c01", "header sweep: every setter x every value of the byte it touches x every argument value "+
		"(in-range arguments checked by the direct oracle: getter returns the value set, every other getter and byte unchanged); "+
		"messages: structured generator (empty/non-UTF8/long strings, 0..64 metadata entries, payload sizes around the pool classes, payloads that look compressed already (gzip magic, header stub, real short gzip stream, magic + noise), "+
		"compress types None/Gzip/toy/failing/unregistered), encoded by Encode and by WriteTo, decoded by Read; "+
		"a case is non-trivial if it is a setter application or a message with at least one non-empty section; distinct = distinct input line",
		runC01)
}

func viewStr(h protocol.Header) string {
	b := func(x bool) string {
		if x {
			return "1"
		}
		return "0"
	}
	return fmt.Sprintf("magic=%s ver=%02x mt=%02x hb=%s ow=%s ct=%02x st=%02x ser=%02x seq=%d",
		b(h.CheckMagicNumber()), h.Version(), byte(h.MessageType()), b(h.IsHeartbeat()), b(h.IsOneway()),
		byte(h.CompressType()), byte(h.MessageStatusType()), byte(h.SerializeType()), h.Seq())
}

type hview struct {
	magic             bool
	ver, mt           byte
	hb, ow            bool
	ct, st, ser, resv byte
	b0                byte
	seq               uint64
}

func viewOf(h protocol.Header) hview {
	return hview{h.CheckMagicNumber(), h.Version(), byte(h.MessageType()), h.IsHeartbeat(), h.IsOneway(),
		byte(h.CompressType()), byte(h.MessageStatusType()), byte(h.SerializeType()), h[3] & 0x0F, h[0], h.Seq()}
}

type setterSpec struct {
	name   string
	byteIx int // header byte the setter touches (for the exhaustive sweep); -1 = seq
	limit  int // arguments below limit are in the field's range
	apply  func(h *protocol.Header, arg uint64)
	expect func(v hview, arg uint64) hview
}

var setters = []setterSpec{
	{"setVersion", 1, 256, func(h *protocol.Header, a uint64) { h.SetVersion(byte(a)) }, func(v hview, a uint64) hview { v.ver = byte(a); return v }},
	{"setMessageType", 2, 2, func(h *protocol.Header, a uint64) { h.SetMessageType(protocol.MessageType(a)) }, func(v hview, a uint64) hview { v.mt = byte(a); return v }},
	{"setHeartbeat", 2, 2, func(h *protocol.Header, a uint64) { h.SetHeartbeat(a != 0) }, func(v hview, a uint64) hview { v.hb = a != 0; return v }},
	{"setOneway", 2, 2, func(h *protocol.Header, a uint64) { h.SetOneway(a != 0) }, func(v hview, a uint64) hview { v.ow = a != 0; return v }},
	{"setCompressType", 2, 8, func(h *protocol.Header, a uint64) { h.SetCompressType(protocol.CompressType(a)) }, func(v hview, a uint64) hview { v.ct = byte(a); return v }},
	{"setMessageStatusType", 2, 4, func(h *protocol.Header, a uint64) { h.SetMessageStatusType(protocol.MessageStatusType(a)) }, func(v hview, a uint64) hview { v.st = byte(a); return v }},
	{"setSerializeType", 3, 16, func(h *protocol.Header, a uint64) { h.SetSerializeType(protocol.SerializeType(a)) }, func(v hview, a uint64) hview { v.ser = byte(a); return v }},
	{"setSeq", -1, 0, func(h *protocol.Header, a uint64) { h.SetSeq(a) }, func(v hview, a uint64) hview { v.seq = a; return v }},
}

func headerSweep(o *Out, r *rand.Rand) {
	for _, s := range setters {
		if s.byteIx < 0 {
			n := 2000
			if thorough() {
				n = 50000
			}
			for i := 0; i < n; i++ {
				var h protocol.Header
				for j := range h {
					h[j] = byte(r.Intn(256))
				}
				var a uint64
				switch r.Intn(5) {
				case 0:
					a = 0
				case 1:
					a = ^uint64(0)
				case 2:
					a = uint64(1) << uint(r.Intn(64))
				default:
					a = r.Uint64()
				}
				before := viewOf(h)
				h0 := h
				hh := h
				s.apply(&hh, a)
				o.Case(fmt.Sprintf("hdr %s %s %d", s.name, hx(h0[:]), a), hx(hh[:]), true)
				o.Count("hdr." + s.name)
				if viewOf(hh) != s.expect(before, a) {
					o.Violate("c01.header."+s.name, fmt.Sprintf("%s(%d) on %x gave %x: some field other than the one set changed, or the getter does not return the value set", s.name, a, h0, hh),
						map[string]any{"op": s.name, "header": hx(h0[:]), "arg": a})
				}
			}
			continue
		}
		args := 256
		for bv := 0; bv < 256; bv++ {
			var h protocol.Header
			for j := range h {
				h[j] = byte(r.Intn(256))
			}
			h[s.byteIx] = byte(bv)
			for a := 0; a < args; a++ {
				if !thorough() && a >= s.limit && a >= 16 && r.Intn(16) != 0 {
					continue
				}
				before := viewOf(h)
				hh := h
				s.apply(&hh, uint64(a))
				o.Case(fmt.Sprintf("hdr %s %s %02x", s.name, hx(h[:]), a), hx(hh[:]), a < s.limit)
				o.Count("hdr." + s.name)
				if a < s.limit {
					if viewOf(hh) != s.expect(before, uint64(a)) {
						o.Violate("c01.header."+s.name, fmt.Sprintf("%s(%d) on byte %#02x gave %#02x: getter does not return the value set, or another field changed", s.name, a, h[s.byteIx], hh[s.byteIx]),
							map[string]any{"op": s.name, "header": hx(h[:]), "arg": a})
					}
				}
			}
			o.Case(fmt.Sprintf("hdr view %s 0", hx(h[:])), viewStr(h), true)
		}
	}
}

func runC01(o *Out, r *rand.Rand) {
	headerSweep(o, r)
	n := 1500
	if thorough() {
		n = 5000
	}
	for i := 0; i < n; i++ {
		g := genMessage(r, thorough())
		c01Message(o, g)
	}
	// payloads of several MiB that compress extremely well (zero pages, one short record repeated), with
	// and without compression: both encoders, round trip – no model line, the frames are long
	for i, sz := range []int{1<<20 + 1, 3 << 20, 5<<20 + 7} {
		for kind := 0; kind < 2; kind++ {
			g := genMessage(r, false)
			ct := byte(1) // gzip
			if i == 0 && kind == 1 {
				ct = 0
			}
			g.hdr[2] = (g.hdr[2] &^ 0x1C) | (ct << 2)
			g.payload = make([]byte, sz)
			if kind == 1 {
				rec := []byte(fmt.Sprintf("record-%d;", r.Intn(1000)))
				for j := range g.payload {
					g.payload[j] = rec[j%len(rec)]
				}
			}
			o.Count("msg.huge-compressible")
			c01Message(o, g)
		}
	}
	// every total frame length in a range covering all levels of the encoder's buffer pool (and
	// beyond its largest level): both encoders, round trip – no model line, the frames are long
	hi := 4700
	if thorough() {
		hi = 9000
	}
	for L := 34; L <= hi; L++ {
		g := genMsg{path: "p", method: "m", payload: make([]byte, L-12-4-(4+1)-(4+1)-4-4)}
		g.hdr[0] = protocol.MagicNumber()
		g.hdr[3] = byte(L%5) << 4
		for i := range g.payload {
			g.payload[i] = byte(L + i)
		}
		c01Lengths(o, g, L)
	}
}

func c01Lengths(o *Out, g genMsg, L int) {
	o.Eval(fmt.Sprintf("frame length %d", L), true)
	o.Count("frame-length-sweep")
	var frame []byte
	func() {
		defer func() {
			if p := recover(); p != nil {
				o.Violate("c01.encode.panic", fmt.Sprintf("Encode of a %d-byte frame panicked: %v", L, p), g.replay())
			}
		}()
		dp := g.toMessage().EncodeSlicePointer()
		frame = append([]byte(nil), (*dp)...)
		protocol.PutData(dp)
	}()
	var buf bytes.Buffer
	if _, err := g.toMessage().WriteTo(&buf); err != nil {
		o.Violate("c01.writeto.error", "WriteTo failed: "+err.Error(), g.replay())
		return
	}
	if frame == nil {
		return
	}
	if len(frame) != L || !bytes.Equal(frame, buf.Bytes()) {
		o.Violate("c01.encoders-disagree", fmt.Sprintf("the two encoders produce different bytes for a %d-byte frame (pooled: %d bytes)", L, len(frame)), g.replay())
		return
	}
	m := protocol.NewMessage()
	if err := m.Decode(bytes.NewReader(frame)); err != nil || !bytes.Equal(m.Payload, g.payload) || m.ServicePath != g.path || m.ServiceMethod != g.method || *m.Header != protocol.Header(g.hdr) {
		o.Violate("c01.roundtrip.error", fmt.Sprintf("a %d-byte frame does not decode back to the message (err=%v)", L, err), g.replay())
	}
}

func c01Message(o *Out, g genMsg) {
	ct := protocol.CompressType((g.hdr[2] & 0x1C) >> 2)
	zo := zipOracle(ct, g.payload)
	small := len(g.payload) <= 64*1024
	nontrivial := len(g.path)+len(g.method)+len(g.meta)+len(g.payload) > 0
	o.Count(fmt.Sprintf("msg.ct=%d", ct))
	o.Count(fmt.Sprintf("msg.meta=%d", len(g.meta)))

	// --- pooled-buffer encoder -------------------------------------------------------
	m := g.toMessage()
	var frame []byte
	func() {
		defer func() {
			if p := recover(); p != nil {
				o.Violate("c01.encode.panic", fmt.Sprintf("Encode panicked: %v", p), g.replay())
			}
		}()
		dp := m.EncodeSlicePointer()
		frame = append([]byte(nil), (*dp)...)
		protocol.PutData(dp)
	}()
	if frame != nil {
		// expected header after the lenient fallback: compress flag cleared when the
		// compressor is missing or fails
		want := g.hdr
		supported := zo != "NONE" && zo != "FAIL"
		if !supported {
			want[2] &^= 0x1C
		}
		order, ok := metaOrderOf(frame)
		if !ok {
			o.Violate("c01.encode.unparsable", "Encode produced a frame whose metadata section cannot be walked", g.replay())
		} else if small {
			o.Case(fmt.Sprintf("enc buf %s %s %s %s %s %s", hx(g.hdr[:]), hx([]byte(g.path)), hx([]byte(g.method)), metaListStr(order), hx(g.payload), zo),
				"ok "+hx(frame), nontrivial)
		}
		c01RoundTrip(o, g, frame, want, "Encode", small, nontrivial)
	}

	// --- streaming encoder -----------------------------------------------------------
	m2 := g.toMessage()
	var buf bytes.Buffer
	_, err := m2.WriteTo(&buf)
	switch {
	case err != nil:
		cls := "zipFailed"
		if err == protocol.ErrUnsupportedCompressor {
			cls = "unsupportedCompressor"
		}
		if zo != "NONE" && zo != "FAIL" {
			o.Violate("c01.writeto.error", "WriteTo failed for a supported compression type: "+err.Error(), g.replay())
		}
		if small {
			o.Case(fmt.Sprintf("enc stream %s %s %s %s %s %s", hx(g.hdr[:]), hx([]byte(g.path)), hx([]byte(g.method)), metaMapStr(g.meta), hx(g.payload), zo),
				"err "+cls, nontrivial)
		}
	default:
		sframe := buf.Bytes()
		order, ok := metaOrderOf(sframe)
		if !ok {
			o.Violate("c01.writeto.unparsable", "WriteTo produced a frame whose metadata section cannot be walked", g.replay())
		} else if small {
			o.Case(fmt.Sprintf("enc stream %s %s %s %s %s %s", hx(g.hdr[:]), hx([]byte(g.path)), hx([]byte(g.method)), metaListStr(order), hx(g.payload), zo),
				"ok "+hx(sframe), nontrivial)
		}
		if zo == "NONE" || zo == "FAIL" {
			o.Violate("c01.writeto.noerror", "WriteTo succeeded although the compressor is missing or failed", g.replay())
		}
		c01RoundTrip(o, g, sframe, g.hdr, "WriteTo", small, nontrivial)
	}
}

func (g genMsg) replay() map[string]any {
	return map[string]any{"header": hx(g.hdr[:]), "path": hx([]byte(g.path)), "method": hx([]byte(g.method)),
		"meta": metaMapStr(g.meta), "payload": hx(g.payload)}
}

func c01RoundTrip(o *Out, g genMsg, frame []byte, hdrWant [12]byte, enc string, small, nontrivial bool) {
	// frame length field consistency (cheap structural check on the bytes themselves)
	if len(frame) >= 16 && int(binary.BigEndian.Uint32(frame[12:16]))+16 != len(frame) {
		o.Violate("c01.frame.length", enc+": total-length field does not match the number of bytes produced", g.replay())
	}
	rd := &chunkReader{chunks: [][]byte{append([]byte(nil), frame...)}}
	msg := protocol.NewMessage()
	err, pv := decodeOutcome(msg, rd)
	if pv != nil {
		o.Violate("c01.roundtrip.panic", fmt.Sprintf("%s then Decode panicked: %v", enc, pv), g.replay())
		return
	}
	if err != nil {
		o.Violate("c01.roundtrip.error", fmt.Sprintf("%s then Decode returned error: %v", enc, err), g.replay())
		return
	}
	if d := messagesEqual(g, msg, hdrWant); d != "" {
		o.Violate("c01.roundtrip.differs", enc+" then Decode: "+d, g.replay())
	}
	if rd.n != len(frame) {
		o.Violate("c01.roundtrip.consumed", fmt.Sprintf("%s then Decode consumed %d of %d bytes", enc, rd.n, len(frame)), g.replay())
	}
	if small {
		gz := ""
		if (frame[2]&0x1C)>>2 == 1 {
			if z, ok := payloadSection(frame); ok {
				gz = " gz=" + hx(z) + ":" + hx(g.payload)
			}
		}
		o.Case(fmt.Sprintf("dec 0 %s%s", hx(frame), gz), decodedStr(msg, rd.n), nontrivial)
	}
	o.Eval("roundtrip "+enc+" "+hx(g.hdr[:])+fmt.Sprint(len(g.payload)), nontrivial)
}
