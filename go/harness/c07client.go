package main

import (
	"context"
	"fmt"
	"math/rand"
	"strings"
	"time"

	"github.com/smallnest/rpcx/client"
	"github.com/smallnest/rpcx/protocol"
	"github.com/smallnest/rpcx/share"
)

// C07 on the caller's side: a real client.Client against the real server.  Sequences of
// sequential and pipelined calls with every failure kind at every position; the errors (and the
// replies) are KEPT and judged only after the whole sequence – and once more after further
// traffic on the same connection – so that an error object which aliases connection state is
// seen for what it holds later, not only at the instant the call returned.

type c07Call struct {
	id    int
	kind  string // ok err panic nosvc nomethod
	text  string
	size  int
	reply SReply
	err   error
	call  *client.Call
}

func c07Client(o *Out, rig *srvRig, r *rand.Rand, id *int, cfg srvOpts) {
	seqs := 12
	if thorough() {
		seqs = 150
	}
	for s := 0; s < seqs; s++ {
		ser := []protocol.SerializeType{protocol.JSON, protocol.MsgPack}[r.Intn(2)]
		opt := client.DefaultOption
		opt.SerializeType = ser
		opt.Heartbeat = false
		cl := client.NewClient(opt)
		if err := cl.Connect("tcp", rig.addr); err != nil {
			o.Violate("srv.rig", "client cannot connect: "+err.Error(), nil)
			return
		}
		n := 2 + r.Intn(7)
		pipelined := r.Intn(2) == 0
		calls := make([]*c07Call, n)
		// error texts of equal length make a stale buffer indistinguishable by length alone
		sameLen := r.Intn(2) == 0
		for i := range calls {
			*id++
			c := &c07Call{id: *id, kind: []string{"ok", "err", "err", "err", "panic", "nosvc", "nomethod"}[r.Intn(7)], size: []int{0, 0, 10, 600}[r.Intn(4)]}
			c.text = fmt.Sprintf("E%d:", c.id) + errTexts[r.Intn(len(errTexts))]
			if sameLen {
				c.text = fmt.Sprintf("E%07d:%s", c.id, strings.Repeat(string(rune('a'+i)), 24))
			} else if r.Intn(6) == 0 {
				c.text = "" // an error whose message is empty is still that request's service error
			}
			calls[i] = c
		}
		ctx := context.Background()
		if cfg.auth {
			ctx = context.WithValue(ctx, share.ReqMetaDataKey, map[string]string{share.AuthKey: "good"})
		}
		issue := func(c *c07Call) (string, string, *SArgs) {
			args := &SArgs{ID: c.id, Mode: "ok", Text: c.text, Size: c.size}
			path, method := "Svc", "Do"
			switch c.kind {
			case "err", "panic":
				args.Mode = c.kind
			case "nosvc":
				path = "Nope"
			case "nomethod":
				method = "Nope"
			}
			return path, method, args
		}
		if pipelined {
			for _, c := range calls {
				p, m, a := issue(c)
				c.call = cl.Go(ctx, p, m, a, &c.reply, make(chan *client.Call, 2))
			}
			for _, c := range calls {
				select {
				case <-c.call.Done:
					c.err = c.call.Error
				case <-time.After(3 * time.Second):
					o.Violate("c07.client.hang", "a call did not complete", map[string]any{"id": c.id, "kind": c.kind})
					cl.Close()
					return
				}
			}
		} else {
			for _, c := range calls {
				p, m, a := issue(c)
				c.err = cl.Call(ctx, p, m, a, &c.reply)
			}
		}
		// more traffic on the same connection after the errors were handed out
		for k := 0; k < 3; k++ {
			*id++
			var rp SReply
			mode := []string{"ok", "err"}[k%2]
			cl.Call(ctx, "Svc", "Do", &SArgs{ID: *id, Mode: mode, Text: fmt.Sprintf("E%07d:%s", *id, strings.Repeat("z", 24)), Size: 40}, &rp)
		}
		var desc []string
		for _, c := range calls {
			desc = append(desc, c.kind)
		}
		rp := map[string]any{"codec": fmt.Sprint(ser), "pipelined": pipelined, "calls": strings.Join(desc, ","), "equal_length_texts": sameLen, "pool": cfg.pool, "auth": cfg.auth}
		bad := false
		for i, c := range calls {
			o.Eval(fmt.Sprintf("c07client %v %d %s", rp, i, c.kind), c.kind != "ok")
			o.Count("client." + c.kind)
			if c.kind == "ok" {
				if c.err != nil {
					o.Violate("c07.client.ok-failed", fmt.Sprintf("call %d (ok) on a connection with failing neighbours returned %v", i, c.err), rp)
					bad = true
				} else if c.reply.ID != c.id {
					o.Violate("c07.client.reply", fmt.Sprintf("call %d got the reply of request %d", i, c.reply.ID), rp)
					bad = true
				}
				continue
			}
			se, ok := c.err.(client.ServiceError)
			if !ok {
				o.Violate("c07.client.not-service-error", fmt.Sprintf("call %d (%s) returned %T %v, not a ServiceError", i, c.kind, c.err, c.err), rp)
				bad = true
				continue
			}
			got := se.Error()
			var okText bool
			var want string
			switch c.kind {
			case "err":
				want = c.text
				okText = got == want
			case "panic":
				want = "…" + c.text + "…"
				okText = strings.Contains(got, c.text)
			case "nosvc":
				want = "rpcx: can't find service Nope"
				okText = got == want
			case "nomethod":
				want = "rpcx: can't find method Nope"
				okText = got == want
			}
			if !okText {
				o.Violate("c07.client.error-text", fmt.Sprintf("the caller of request %d (%s, position %d of %d) holds the error text %q after the sequence; the server-side message was %q", c.id, c.kind, i, n, trunc(got, 120), trunc(want, 120)), rp)
				bad = true
			}
		}
		cl.Close()
		if bad {
			return
		}
	}
}

func trunc(s string, n int) string {
	if len(s) > n {
		return s[:n] + "…"
	}
	return s
}
