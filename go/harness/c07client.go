package main

import (
	"bytes"
	"context"
	"errors"
	"fmt"
	"math/rand"
	"os"
	"os/exec"
	"path/filepath"
	"strings"
	"sync/atomic"
	"time"

	"github.com/smallnest/rpcx/client"
	"github.com/smallnest/rpcx/protocol"
	"github.com/smallnest/rpcx/share"
)

// C07 on the caller's side: a real client.Client against the real server.  Sequences of
// sequential and pipelined calls with every failure kind at every position; the errors (and the
// replies) are KEPT and judged only after the whole sequence – and once more after further
// traffic on the same connection – so that an error object which aliases connection state is
// seen for what it holds later, not only at the instant the call returned.

type c07Call struct {
	id    int
	kind  string // ok err panic nosvc nomethod
	text  string
	size  int
	reply SReply
	err   error
	call  *client.Call
}

func c07Client(o *Out, rig *srvRig, r *rand.Rand, id *int, cfg srvOpts) {
	seqs := 12
	if thorough() {
		seqs = 150
	}
	for s := 0; s < seqs; s++ {
		ser := []protocol.SerializeType{protocol.JSON, protocol.MsgPack}[r.Intn(2)]
		opt := client.DefaultOption
		opt.SerializeType = ser
		opt.Heartbeat = false
		cl := client.NewClient(opt)
		if err := cl.Connect("tcp", rig.addr); err != nil {
			o.Violate("srv.rig", "client cannot connect: "+err.Error(), nil)
			return
		}
		n := 2 + r.Intn(7)
		pipelined := r.Intn(2) == 0
		calls := make([]*c07Call, n)
		// error texts of equal length make a stale buffer indistinguishable by length alone
		sameLen := r.Intn(2) == 0
		for i := range calls {
			*id++
			c := &c07Call{id: *id, kind: []string{"ok", "err", "err", "err", "panic", "nosvc", "nomethod"}[r.Intn(7)], size: []int{0, 0, 10, 600}[r.Intn(4)]}
			c.text = fmt.Sprintf("E%d:", c.id) + errTexts[r.Intn(len(errTexts))]
			if sameLen {
				c.text = fmt.Sprintf("E%07d:%s", c.id, strings.Repeat(string(rune('a'+i)), 24))
			} else if r.Intn(6) == 0 {
				c.text = "" // an error whose message is empty is still that request's service error
			}
			calls[i] = c
		}
		ctx := context.Background()
		if cfg.auth {
			ctx = context.WithValue(ctx, share.ReqMetaDataKey, map[string]string{share.AuthKey: "good"})
		}
		issue := func(c *c07Call) (string, string, *SArgs) {
			args := &SArgs{ID: c.id, Mode: "ok", Text: c.text, Size: c.size}
			path, method := "Svc", "Do"
			switch c.kind {
			case "err", "panic":
				args.Mode = c.kind
			case "nosvc":
				path = "Nope"
			case "nomethod":
				method = "Nope"
			}
			return path, method, args
		}
		if pipelined {
			for _, c := range calls {
				p, m, a := issue(c)
				c.call = cl.Go(ctx, p, m, a, &c.reply, make(chan *client.Call, 2))
			}
			for _, c := range calls {
				select {
				case <-c.call.Done:
					c.err = c.call.Error
				case <-time.After(3 * time.Second):
					o.Violate("c07.client.hang", "a call did not complete", map[string]any{"id": c.id, "kind": c.kind})
					cl.Close()
					return
				}
			}
		} else {
			for _, c := range calls {
				p, m, a := issue(c)
				c.err = cl.Call(ctx, p, m, a, &c.reply)
			}
		}
		// more traffic on the same connection after the errors were handed out
		for k := 0; k < 3; k++ {
			*id++
			var rp SReply
			mode := []string{"ok", "err"}[k%2]
			cl.Call(ctx, "Svc", "Do", &SArgs{ID: *id, Mode: mode, Text: fmt.Sprintf("E%07d:%s", *id, strings.Repeat("z", 24)), Size: 40}, &rp)
		}
		var desc []string
		for _, c := range calls {
			desc = append(desc, c.kind)
		}
		rp := map[string]any{"codec": fmt.Sprint(ser), "pipelined": pipelined, "calls": strings.Join(desc, ","), "equal_length_texts": sameLen, "pool": cfg.pool, "auth": cfg.auth}
		bad := false
		for i, c := range calls {
			o.Eval(fmt.Sprintf("c07client %v %d %s", rp, i, c.kind), c.kind != "ok")
			o.Count("client." + c.kind)
			if c.kind == "ok" {
				if c.err != nil {
					o.Violate("c07.client.ok-failed", fmt.Sprintf("call %d (ok) on a connection with failing neighbours returned %v", i, c.err), rp)
					bad = true
				} else if c.reply.ID != c.id {
					o.Violate("c07.client.reply", fmt.Sprintf("call %d got the reply of request %d", i, c.reply.ID), rp)
					bad = true
				}
				continue
			}
			se, ok := c.err.(client.ServiceError)
			if !ok {
				o.Violate("c07.client.not-service-error", fmt.Sprintf("call %d (%s) returned %T %v, not a ServiceError", i, c.kind, c.err, c.err), rp)
				bad = true
				continue
			}
			got := se.Error()
			var okText bool
			var want string
			switch c.kind {
			case "err":
				want = c.text
				okText = got == want
			case "panic":
				want = "…" + c.text + "…"
				okText = strings.Contains(got, c.text)
			case "nosvc":
				want = "rpcx: can't find service Nope"
				okText = got == want
			case "nomethod":
				want = "rpcx: can't find method Nope"
				okText = got == want
			}
			if !okText {
				o.Violate("c07.client.error-text", fmt.Sprintf("the caller of request %d (%s, position %d of %d) holds the error text %q after the sequence; the server-side message was %q", c.id, c.kind, i, n, trunc(got, 120), trunc(want, 120)), rp)
				bad = true
			}
		}
		cl.Close()
		if bad {
			return
		}
	}
}

func trunc(s string, n int) string {
	if len(s) > n {
		return s[:n] + "…"
	}
	return s
}

// c07PanicHold: a router handler panics; while the server is still REPORTING that panic (the
// server's HandleServiceError callback is held by the harness – a slow error reporter) further
// requests are read and answered on other connections.  The caller of the panicking request must
// still get exactly its own service error (its sequence number, the panic value), and nobody else
// may get it.
func c07PanicHold(o *Out, rig *srvRig, r *rand.Rand, id *int, cfg srvOpts) {
	rounds := 3
	if thorough() {
		rounds = 25
	}
	arrived := make(chan struct{}, 16)
	release := make(chan struct{})
	var holding int32
	rig.s.HandleServiceError = func(err error) {
		if atomic.LoadInt32(&holding) == 1 {
			arrived <- struct{}{}
			<-release
		}
	}
	defer func() { rig.s.HandleServiceError = nil }()
	token := func(m map[string]string) map[string]string {
		if cfg.auth {
			m[share.AuthKey] = "good"
		}
		return m
	}
	for round := 0; round < rounds; round++ {
		*id++
		pid := *id
		pseq := uint64(500000 + r.Intn(1000))
		text := fmt.Sprintf("P%d:boom", pid)
		victim, err := dialRaw(rig.addr)
		if err != nil {
			o.Violate("srv.rig", "cannot connect: "+err.Error(), nil)
			return
		}
		release = make(chan struct{})
		atomic.StoreInt32(&holding, 1)
		victim.send(rawReq{id: pid, seq: pseq, path: "Rt", method: "Do", ser: protocol.JSON, meta: token(map[string]string{"rid": fmt.Sprint(pid)}),
			args: &SArgs{ID: pid, Mode: "panic", Text: text}})
		held := false
		select {
		case <-arrived:
			held = true
		case <-time.After(2 * time.Second):
		}
		atomic.StoreInt32(&holding, 0)
		// traffic on other connections while the panic is being reported
		nPeers, per := 2+r.Intn(3), 2+r.Intn(4)
		stray := ""
		for k := 0; k < nPeers; k++ {
			p, err := dialRaw(rig.addr)
			if err != nil {
				continue
			}
			want := map[uint64]int{}
			for j := 0; j < per; j++ {
				*id++
				sq := uint64(r.Intn(1 << 20))
				for sq == pseq || want[sq] != 0 {
					sq++
				}
				want[sq] = *id
				p.send(rawReq{id: *id, seq: sq, path: "Svc", method: "Do", ser: protocol.JSON, meta: token(map[string]string{"rid": fmt.Sprint(*id)}), args: &SArgs{ID: *id, Mode: "ok"}})
			}
			msgs, _ := p.readAll(per, 2*time.Second)
			for _, m := range msgs {
				if _, ok := want[m.Seq()]; !ok || m.MessageStatusType() == protocol.Error {
					stray = fmt.Sprintf("a bystander connection received seq=%d status=%v error=%q", m.Seq(), m.MessageStatusType(), m.Metadata[protocol.ServiceError])
				}
			}
			if len(msgs) != per && stray == "" {
				stray = fmt.Sprintf("a bystander connection got %d responses to %d requests", len(msgs), per)
			}
			p.c.Close()
		}
		close(release)
		msgs, _ := victim.readAll(1, 2*time.Second)
		victim.c.Close()
		o.Eval(fmt.Sprintf("panic-hold round=%d pool=%v auth=%v held=%v peers=%d per=%d", round, cfg.pool, cfg.auth, held, nPeers, per), held)
		o.Count("panic-hold.rounds")
		rp := map[string]any{"panicking_request": map[string]any{"seq": pseq, "path": "Rt", "method": "Do", "panic": text}, "error_reporting_held": held,
			"bystander_connections": nPeers, "requests_each": per, "pool": cfg.pool, "auth": cfg.auth}
		bad := ""
		switch {
		case len(msgs) != 1:
			bad = fmt.Sprintf("the caller of the panicking request received %d responses", len(msgs))
		case msgs[0].Seq() != pseq:
			bad = fmt.Sprintf("the caller of the panicking request (seq %d) received a response with seq %d", pseq, msgs[0].Seq())
		case msgs[0].MessageStatusType() != protocol.Error || !strings.Contains(msgs[0].Metadata[protocol.ServiceError], text):
			bad = fmt.Sprintf("the response to the panicking request has status %v and error text %q (panic value %q)", msgs[0].MessageStatusType(), msgs[0].Metadata[protocol.ServiceError], text)
		}
		if bad == "" {
			bad = stray
		}
		if bad != "" {
			o.Violate("c07.panic-hold", "requests were served on other connections while the server was reporting a handler panic: "+bad, rp)
			return
		}
	}
}

// ---- panics with awkward values, in a child process ---------------------------------------------
//
// "…and never kill the server": a handler may panic with any value – an error value, a typed-nil
// error whose Error() faults.  If reporting such a panic takes the server process down, the harness
// would go down with it; so the scenario runs in a child process (`harness c07child`) and the
// parent judges the child's fate.

func init() {
	register("c07child", "child process of c07 (not a check of its own)", func(o *Out, r *rand.Rand) { c07Child() })
}

func c07Child() {
	rig, err := newSrvRig(srvOpts{})
	if err != nil {
		fmt.Println("RIG-ERROR", err)
		return
	}
	defer rig.close()
	id := 8800000
	for _, target := range [][2]string{{"Rt", "Do"}, {"Svc", "Do"}, {"Fn", "Do"}} {
		for _, mode := range []string{"panic-error", "panic-nil-error"} {
			p, err := dialRaw(rig.addr)
			if err != nil {
				fmt.Println("DIAL-ERROR", err)
				return
			}
			id++
			text := fmt.Sprintf("boom-%d", id)
			p.send(rawReq{id: id, seq: uint64(id), path: target[0], method: target[1], ser: protocol.JSON, args: &SArgs{ID: id, Mode: mode, Text: text}})
			msgs, _ := p.readAll(1, 2*time.Second)
			if len(msgs) != 1 || msgs[0].Seq() != uint64(id) || msgs[0].MessageStatusType() != protocol.Error {
				fmt.Printf("BAD %s.%s %s: %d responses\n", target[0], target[1], mode, len(msgs))
				p.c.Close()
				continue
			}
			if mode == "panic-error" && !strings.Contains(msgs[0].Metadata[protocol.ServiceError], text) {
				fmt.Printf("BAD %s.%s %s: error text %q does not contain the panic value %q\n", target[0], target[1], mode, msgs[0].Metadata[protocol.ServiceError], text)
			}
			// the same connection and a new one are still served
			id++
			p.send(rawReq{id: id, seq: uint64(id), path: "Svc", method: "Do", ser: protocol.JSON, args: &SArgs{ID: id, Mode: "ok"}})
			more, _ := p.readAll(1, 2*time.Second)
			if len(more) != 1 || more[0].MessageStatusType() == protocol.Error {
				fmt.Printf("BAD %s.%s %s: the connection was not served afterwards\n", target[0], target[1], mode)
			}
			p.c.Close()
		}
	}
	fmt.Println("CHILD-DONE")
}

func c07AwkwardPanics(o *Out) {
	cmd := exec.Command(os.Args[0], "c07child", "-out", filepath.Join(os.TempDir(), fmt.Sprintf("verif-c07child-%d", os.Getpid())))
	var buf bytes.Buffer
	cmd.Stdout = &buf
	cmd.Stderr = &buf
	done := make(chan error, 1)
	if err := cmd.Start(); err != nil {
		o.Note("c07child could not be started: %v", err)
		return
	}
	go func() { done <- cmd.Wait() }()
	var err error
	select {
	case err = <-done:
	case <-time.After(60 * time.Second):
		cmd.Process.Kill()
		err = errors.New("timeout")
	}
	os.RemoveAll(filepath.Join(os.TempDir(), fmt.Sprintf("verif-c07child-%d", os.Getpid())))
	out := buf.String()
	o.Eval("awkward-panics child", true)
	o.Count("awkward-panics.child-runs")
	tail := out
	if len(tail) > 3000 {
		tail = tail[len(tail)-3000:]
	}
	rp := map[string]any{"scenario": "handlers (router, reflected method, registered function) panic with an error value and with a typed-nil error whose Error() faults; then the same connection and a new one are used again", "child_output_tail": tail}
	if err != nil || !strings.Contains(out, "CHILD-DONE") {
		o.Violate("c07.server-died", fmt.Sprintf("the server process did not survive a handler panic with an awkward value (child: %v)", err), rp)
		return
	}
	for _, l := range strings.Split(out, "\n") {
		if strings.HasPrefix(l, "BAD ") {
			o.Violate("c07.awkward-panic", "a handler panic with an error value was not reported to its caller, or the server stopped serving: "+l[4:], rp)
			return
		}
	}
}
