package main

import (
	"bytes"
	"encoding/binary"
	"fmt"
	"math/rand"
	"strings"

	"github.com/smallnest/rpcx/protocol"
)

func init() {
	register("c02", "byte streams from six families – valid frames, every truncation point of a valid frame, every length field "+
		"(total, path, method, metadata, payload, inner key/value lengths) replaced by each boundary value, bit flips, garbage, multi-frame streams – "+
		"each decoded with a fresh and with a reused message object (stale bytes and metadata left by a longer frame), under MaxMessageLength in "+
		"{0, small, exact, exact-1, large}, and under chunkings {whole, 1-byte, random, section boundaries}; every case is a specification case "+
		"(the Lean decoder's answer is the property's answer); non-trivial = stream of at least 16 bytes starting with the magic byte; distinct = distinct input line",
		runC02)
}

var boundaryVals = func(orig uint32) []uint32 {
	return []uint32{0, 1, 2, 3, 4, 5, 7, 8, orig - 1, orig, orig + 1, orig + 4, 1 << 31, 1<<32 - 4, 1<<32 - 1}
}

// smallMessage: messages whose frames stay small enough for exhaustive truncation.
func smallMessage(r *rand.Rand) genMsg {
	var g genMsg
	g.hdr[0] = protocol.MagicNumber()
	for i := 1; i < 12; i++ {
		g.hdr[i] = byte(r.Intn(256))
	}
	ct := []byte{0, 0, 0, 0, 2, 2, 3, byte(r.Intn(8))}[r.Intn(8)]
	if ct == 1 {
		ct = 2 // gzip itself is exercised by c01 (the Lean side has no gzip; it mirrors the toy compressors)
	}
	g.hdr[2] = (g.hdr[2] &^ 0x1C) | (ct << 2)
	s := func() string {
		n := []int{0, 1, 2, 5, 9}[r.Intn(5)]
		b := make([]byte, n)
		for i := range b {
			b[i] = byte('a' + r.Intn(26))
		}
		return string(b)
	}
	g.path, g.method = s(), s()
	n := []int{0, 0, 1, 2, 3}[r.Intn(5)]
	if n > 0 {
		g.meta = map[string]string{}
		for i := 0; i < n; i++ {
			g.meta[s()] = s()
		}
	}
	g.payload = randBytes(r, []int{0, 1, 4, 11, 30}[r.Intn(5)])
	return g
}

func encodeFrame(g genMsg) []byte {
	m := g.toMessage()
	// encode with compression handled by the harness so that the frame is exactly what
	// we intend (the encoder under test is exercised by c01)
	ct := m.CompressType()
	if c := protocol.Compressors[ct]; ct != protocol.None && c != nil {
		if z, err := c.Zip(m.Payload); err == nil {
			m.Payload = z
		}
	}
	h := *m.Header
	m.SetCompressType(protocol.None)
	b := append([]byte(nil), m.Encode()...)
	copy(b[:12], h[:])
	return b
}

// offsets of the five length fields of a well-formed frame: total, path, method, meta, payload
func lengthFieldOffsets(f []byte) []int {
	offs := []int{12}
	p := 16
	for i := 0; i < 4; i++ {
		if p+4 > len(f) {
			break
		}
		offs = append(offs, p)
		p += 4 + int(binary.BigEndian.Uint32(f[p:]))
	}
	return offs
}

// offsets of the inner metadata key/value length fields
func metaFieldOffsets(f []byte) []int {
	offs := lengthFieldOffsets(f)
	if len(offs) < 4 {
		return nil
	}
	mo := offs[3]
	ml := int(binary.BigEndian.Uint32(f[mo:]))
	p := mo + 4
	end := p + ml
	var out []int
	for p+4 <= end && p+4 <= len(f) {
		out = append(out, p)
		p += 4 + int(binary.BigEndian.Uint32(f[p:]))
	}
	return out
}

func chunkings(r *rand.Rand, b []byte, f []byte) [][][]byte {
	var out [][][]byte
	out = append(out, [][]byte{b})
	// 1-byte
	if len(b) <= 200 {
		var one [][]byte
		for i := range b {
			one = append(one, b[i:i+1])
		}
		out = append(out, one)
	}
	// random
	var rc [][]byte
	for p := 0; p < len(b); {
		n := 1 + r.Intn(9)
		if r.Intn(4) == 0 {
			n = 1 + r.Intn(len(b))
		}
		if p+n > len(b) {
			n = len(b) - p
		}
		rc = append(rc, b[p:p+n])
		p += n
	}
	out = append(out, rc)
	// section boundaries of the original frame
	cuts := append([]int{1, 12, 16}, lengthFieldOffsets(f)...)
	var sc [][]byte
	prev := 0
	for _, c := range cuts {
		if c > prev && c < len(b) {
			sc = append(sc, b[prev:c])
			prev = c
		}
	}
	if prev < len(b) {
		sc = append(sc, b[prev:])
	}
	out = append(out, sc)
	return out
}

func chunksStr(cs [][]byte) string {
	if len(cs) == 0 {
		return "-"
	}
	parts := make([]string, 0, len(cs))
	for _, c := range cs {
		if len(c) > 0 {
			parts = append(parts, hx(c))
		}
	}
	if len(parts) == 0 {
		return "-"
	}
	return strings.Join(parts, ",")
}

// the reused object: it has decoded a long frame full of recognisable bytes and metadata
func staleObject() (*protocol.Message, []byte) {
	var g genMsg
	g.hdr[0] = protocol.MagicNumber()
	g.path = strings.Repeat("SECRETPATH", 20)
	g.method = strings.Repeat("SECRETMETHOD", 20)
	g.meta = map[string]string{"stale-key": "stale-value", "__auth": "SECRETTOKEN"}
	g.payload = bytes.Repeat([]byte("SECRETPAYLOAD"), 400)
	f := encodeFrame(g)
	m := protocol.NewMessage()
	if err := m.Decode(bytes.NewReader(f)); err != nil {
		panic(err)
	}
	return m, f
}

type decResult struct {
	s        string // canonical line
	cls      string
	consumed int
	ok       bool
	panicked any
}

func decodeCase(obj *protocol.Message, chunks [][]byte, maxLen int, fail bool) decResult {
	cp := make([][]byte, len(chunks))
	for i, c := range chunks {
		cp[i] = append([]byte(nil), c...)
	}
	rd := &chunkReader{chunks: cp}
	if fail {
		rd.failErr = errInjected
	}
	protocol.MaxMessageLength = maxLen
	err, pv := decodeOutcome(obj, rd)
	protocol.MaxMessageLength = 0
	if pv != nil {
		return decResult{s: "panic", cls: "panic", consumed: rd.n, panicked: pv}
	}
	cls := classifyDecodeErr(err)
	switch cls {
	case "ok":
		return decResult{s: decodedStr(obj, rd.n), cls: cls, consumed: rd.n, ok: true}
	case "tooLong":
		return decResult{s: fmt.Sprintf("err tooLong consumed=%d", rd.n), cls: cls, consumed: rd.n}
	}
	return decResult{s: "err", cls: cls, consumed: rd.n}
}

func c02Stream(o *Out, r *rand.Rand, family string, b []byte, frame []byte, maxLens []int, allChunkings bool) {
	nontrivial := len(b) >= 16 && b[0] == protocol.MagicNumber()
	cks := chunkings(r, b, frame)
	if !allChunkings {
		cks = cks[:1+r.Intn(len(cks))]
		cks = cks[len(cks)-1:]
	}
	for _, maxLen := range maxLens {
		var first *decResult
		for ci, ck := range cks {
			for reuse := 0; reuse < 2; reuse++ {
				obj := protocol.NewMessage()
				prev := ""
				if reuse == 1 {
					var pf []byte
					obj, pf = staleObject()
					_ = pf
					prev = " prev=stale"
				}
				res := decodeCase(obj, ck, maxLen, r.Intn(2) == 0)
				o.Count("family." + family)
				o.Count("result." + res.cls)
				o.Count(fmt.Sprintf("maxLen.%v", maxLen != 0))
				line := fmt.Sprintf("dec %d %s%s", maxLen, chunksStr(ck), prev)
				o.SpecCase(line, res.s, nontrivial)
				rp := map[string]any{"family": family, "stream": hx(b), "chunks": chunksStr(ck), "maxLen": maxLen, "reused_object": reuse == 1}
				if res.panicked != nil {
					o.Violate("c02.panic", fmt.Sprintf("Decode panicked: %v", res.panicked), rp)
				}
				if res.ok && len(b) >= 16 && res.consumed != 16+int(binary.BigEndian.Uint32(b[12:16])) {
					o.Violate("c02.consumed", fmt.Sprintf("successful decode consumed %d bytes, frame is %d", res.consumed, 16+int(binary.BigEndian.Uint32(b[12:16]))), rp)
				}
				if res.cls == "tooLong" && res.consumed != 16 {
					o.Violate("c02.toolong.consumed", fmt.Sprintf("too-long frame rejected after consuming %d bytes (must be 16)", res.consumed), rp)
				}
				if maxLen > 0 && len(b) >= 16 && b[0] == protocol.MagicNumber() && int(binary.BigEndian.Uint32(b[12:16])) > maxLen && res.cls != "tooLong" {
					o.Violate("c02.toolong.missed", "frame longer than MaxMessageLength was not rejected with ErrMessageTooLong: "+res.s[:min(len(res.s), 80)], rp)
				}
				if res.ok && strings.Contains(res.s, hx([]byte("SECRET"))) && !bytes.Contains(b, []byte("SECRET")) {
					o.Violate("c02.stale.bytes", "decoded message exposes bytes left in the reused object by an earlier decode", rp)
				}
				if res.ok && strings.Contains(res.s, hx([]byte("stale-key"))) && !bytes.Contains(b, []byte("stale-key")) {
					o.Violate("c02.stale.metadata", "decoded message shows metadata left in the reused object by an earlier decode", rp)
				}
				if first == nil {
					f := res
					first = &f
				} else if first.s != res.s {
					o.Violate("c02.object-or-chunking-dependence", fmt.Sprintf("same bytes, different result depending on chunking (#%d) or on fresh/reused object (%d): %q vs %q", ci, reuse, first.s[:min(len(first.s), 120)], res.s[:min(len(res.s), 120)]), rp)
				}
			}
		}
	}
}

func runC02(o *Out, r *rand.Rand) {
	nmsg := 40
	if thorough() {
		nmsg = 400
	}
	for i := 0; i < nmsg; i++ {
		g := smallMessage(r)
		f := encodeFrame(g)
		total := int(binary.BigEndian.Uint32(f[12:16]))
		maxLens := []int{0, total, total - 1, 8, 1 << 20}
		// (a) the valid frame, all chunkings, all max lengths
		c02Stream(o, r, "valid", f, f, maxLens, true)
		// valid frame followed by extra bytes (must not be consumed)
		c02Stream(o, r, "valid+tail", append(append([]byte(nil), f...), randBytes(r, 1+r.Intn(20))...), f, []int{0}, false)
		// (b) every truncation point
		for k := 0; k < len(f); k++ {
			if !thorough() && len(f) > 60 && k > 20 && k < len(f)-8 && r.Intn(4) != 0 {
				continue
			}
			c02Stream(o, r, "truncated", f[:k], f, []int{0}, false)
		}
		// (c) every length field x every boundary value
		offs := append(lengthFieldOffsets(f), metaFieldOffsets(f)...)
		for _, off := range offs {
			orig := binary.BigEndian.Uint32(f[off:])
			for _, v := range boundaryVals(orig) {
				if v == orig {
					continue
				}
				m := append([]byte(nil), f...)
				binary.BigEndian.PutUint32(m[off:], v)
				mls := []int{0, 64}
				if off == 12 && v > 1<<20 {
					// with no limit configured the decoder legitimately allocates the announced
					// size; keep the harness within memory by testing huge totals only under a limit
					mls = []int{64, 1 << 16}
				}
				c02Stream(o, r, "lengthfield", m, f, mls, false)
			}
		}
		// slack: total length larger than the sections need, with trailing bytes present
		{
			m := append([]byte(nil), f...)
			extra := 1 + r.Intn(6)
			binary.BigEndian.PutUint32(m[12:], uint32(total+extra))
			m = append(m, randBytes(r, extra)...)
			c02SlackCase(o, m, f)
		}
		// (d) bit flips
		nf := 12
		if thorough() {
			nf = 60
		}
		for j := 0; j < nf; j++ {
			m := append([]byte(nil), f...)
			p := r.Intn(len(m))
			if r.Intn(2) == 0 && len(m) > 16 {
				p = 12 + r.Intn(min(len(m)-12, 40))
			}
			m[p] ^= 1 << uint(r.Intn(8))
			c02Stream(o, r, "bitflip", m, f, []int{1 << 20}, false)
		}
	}
	// (e) garbage
	ng := 300
	if thorough() {
		ng = 5000
	}
	for i := 0; i < ng; i++ {
		b := randBytes(r, r.Intn(80))
		if len(b) > 0 && r.Intn(3) != 0 {
			b[0] = protocol.MagicNumber()
		}
		if len(b) >= 16 && r.Intn(2) == 0 {
			binary.BigEndian.PutUint32(b[12:], uint32(len(b)-16))
		}
		if len(b) >= 20 && r.Intn(2) == 0 {
			binary.BigEndian.PutUint32(b[16:], uint32(r.Intn(8)))
		}
		c02Stream(o, r, "garbage", b, b, []int{1 << 20}, false)
	}
	// (f) multi-frame streams under arbitrary chunkings
	nm := 60
	if thorough() {
		nm = 800
	}
	for i := 0; i < nm; i++ {
		c02Multi(o, r)
	}
	c02Gzip(o, r)
}

// c02Gzip: frames whose payload section is a REAL gzip stream (the Lean side has no gzip: direct oracle
// only).  A frame whose lengths are all consistent but whose gzip stream is damaged (a flipped bit in
// the trailer or in the deflate data, a stream cut short inside a correctly delimited section) is
// an error – and must leave nothing behind: the valid frames decoded after it, with fresh and with
// reused message objects, yield exactly the bytes their own payload sections inflate to.
func c02Gzip(o *Out, r *rand.Rand) {
	rounds := 40
	if thorough() {
		rounds = 400
	}
	mk := func(plain []byte) []byte {
		m := protocol.NewMessage()
		m.SetMessageType(protocol.Request)
		m.SetCompressType(protocol.Gzip)
		m.SetSeq(uint64(r.Intn(1 << 30)))
		m.ServicePath, m.ServiceMethod = "Svc", "M"
		m.Payload = plain
		return append([]byte(nil), m.Encode()...)
	}
	plainOf := func(tag byte, n int) []byte {
		b := make([]byte, n)
		for i := range b {
			b[i] = tag + byte(i%7)
		}
		return b
	}
	reused := protocol.NewMessage()
	for round := 0; round < rounds; round++ {
		// gzip is applied to payloads above 1 KiB only
		p1 := plainOf(byte('a'+round%20), 1100+r.Intn(3000))
		f1 := mk(p1)
		z, ok := payloadSection(f1)
		if !ok || len(z) < 20 || f1[2]&0x1C == 0 {
			continue
		}
		bad := append([]byte(nil), f1...)
		zb, _ := payloadSection(bad)
		how := ""
		switch r.Intn(3) {
		case 0: // the CRC32 / ISIZE trailer
			zb[len(zb)-1-r.Intn(8)] ^= 1 << uint(r.Intn(8))
			how = "bit flipped in the gzip trailer"
		case 1: // the deflate data
			zb[10+r.Intn(len(zb)-18)] ^= 1 << uint(r.Intn(8))
			how = "bit flipped in the deflate data"
		default: // the stream ends early although the section is delimited correctly: the tail is overwritten with zeros
			for i := len(zb) - 8 - r.Intn(len(zb)/2); i < len(zb); i++ {
				zb[i] = 0
			}
			how = "tail of the gzip stream overwritten"
		}
		obj := protocol.NewMessage()
		if r.Intn(2) == 0 {
			obj = reused
		}
		err, pv := decodeOutcome(obj, &chunkReader{chunks: [][]byte{bad}})
		o.Eval(fmt.Sprintf("gzip damaged %s %d", how, len(p1)), true)
		o.Count("family.gzip-damaged")
		rp := map[string]any{"damage": how, "plain_len": len(p1)}
		if pv != nil {
			o.Violate("c02.gzip.panic", fmt.Sprintf("Decode of a frame with a damaged gzip payload panicked: %v", pv), rp)
			return
		}
		if err == nil && !bytes.Equal(obj.Payload, p1) {
			o.Violate("c02.gzip.damaged-accepted", "Decode reported success for a frame whose gzip payload is damaged, with a payload that is not what was compressed", rp)
			return
		}
		// the frames that follow
		for k := 0; k < 2; k++ {
			p2 := plainOf(byte('A'+(round+k)%20), 1100+r.Intn(3000))
			f2 := mk(p2)
			obj2 := protocol.NewMessage()
			if k == 1 {
				obj2 = reused
			}
			err2, pv2 := decodeOutcome(obj2, &chunkReader{chunks: [][]byte{f2}})
			o.Eval(fmt.Sprintf("gzip valid-after-damaged %d %d", k, len(p2)), true)
			o.Count("family.gzip-after-damaged")
			rp2 := map[string]any{"earlier_frame": rp, "plain_len": len(p2), "reused_object": k == 1}
			if pv2 != nil || err2 != nil {
				o.Violate("c02.gzip.valid-rejected", fmt.Sprintf("a valid gzip frame decoded after a damaged one failed: %v %v", err2, pv2), rp2)
				return
			}
			if !bytes.Equal(obj2.Payload, p2) {
				rp2["got_len"] = len(obj2.Payload)
				rp2["starts_with_earlier_frames_plaintext"] = bytes.HasPrefix(obj2.Payload, p1[:16])
				o.Violate("c02.gzip.bytes-from-another-frame", fmt.Sprintf("a valid gzip frame decoded after a damaged one yields %d payload bytes instead of the %d its own payload section inflates to", len(obj2.Payload), len(p2)), rp2)
				return
			}
		}
	}
}

// A frame whose total length leaves slack after the declared payload: the property allows
// either rejection or a payload of exactly the declared bytes; never more than declared.
func c02SlackCase(o *Out, m []byte, f []byte) {
	obj := protocol.NewMessage()
	res := decodeCase(obj, [][]byte{m}, 0, false)
	o.Count("family.slack")
	o.Count("result." + res.cls)
	o.Eval("slack "+hx(m), true)
	if res.panicked != nil {
		o.Violate("c02.panic", fmt.Sprintf("Decode panicked: %v", res.panicked), map[string]any{"stream": hx(m)})
		return
	}
	if res.ok {
		ref := protocol.NewMessage()
		r2 := decodeCase(ref, [][]byte{f}, 0, false)
		if r2.ok && (obj.CompressType() == protocol.None) && !bytes.Equal(obj.Payload, ref.Payload) {
			o.Violate("c02.payload.beyond-declared", "payload returned is not the bytes delimited by the declared payload length (slack after the payload leaked into it)", map[string]any{"stream": hx(m)})
		}
	}
}

func c02Multi(o *Out, r *rand.Rand) {
	k := 1 + r.Intn(5)
	var stream []byte
	var frames [][]byte
	for i := 0; i < k; i++ {
		g := smallMessage(r)
		// keep compressions decodable so that the whole stream is consumed
		if ct := (g.hdr[2] & 0x1C) >> 2; ct != 0 && ct != 2 {
			g.hdr[2] &^= 0x1C
		}
		f := encodeFrame(g)
		frames = append(frames, f)
		stream = append(stream, f...)
	}
	// optionally end with a truncated frame
	tail := ""
	if r.Intn(3) == 0 {
		g := smallMessage(r)
		f := encodeFrame(g)
		stream = append(stream, f[:r.Intn(len(f))]...)
		tail = "+trunc"
	}
	cks := chunkings(r, stream, frames[0])
	var first string
	for _, ck := range cks {
		cp := make([][]byte, len(ck))
		for i, c := range ck {
			cp[i] = append([]byte(nil), c...)
		}
		rd := &chunkReader{chunks: cp}
		var outs []string
		obj := protocol.NewMessage() // one object reused for the whole stream, like a pooled reader would
		for {
			before := rd.n
			err, pv := decodeOutcome(obj, rd)
			if pv != nil {
				outs = append(outs, "panic")
				o.Violate("c02.panic", fmt.Sprintf("Decode panicked in a multi-frame stream: %v", pv), map[string]any{"stream": hx(stream), "chunks": chunksStr(ck)})
				break
			}
			if err != nil {
				if rd.n == before && len(rd.chunks) == 0 {
					outs = append(outs, "end")
				} else {
					outs = append(outs, "err")
				}
				break
			}
			outs = append(outs, decodedStr(obj, rd.n-before))
		}
		res := strings.Join(outs, " | ")
		o.Count("family.multi" + tail)
		o.SpecCase(fmt.Sprintf("decall 0 %s", chunksStr(ck)), res, true)
		if first == "" {
			first = res
		} else if first != res {
			o.Violate("c02.chunking-dependence", "a multi-frame stream decodes differently under a different chunking", map[string]any{"stream": hx(stream), "chunks": chunksStr(ck)})
		}
		if n := strings.Count(res, "ok consumed="); n != k {
			o.Violate("c02.resync", fmt.Sprintf("stream of %d valid frames decoded to %d messages", k, n), map[string]any{"stream": hx(stream), "chunks": chunksStr(ck)})
		}
	}
}
