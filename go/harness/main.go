// Command harness drives the real rpcx code (built from /repo's working tree, with the
// `verif` build tag) on generated inputs, operation sequences and forced schedules.
// For every case it writes one input line (cases.txt) and the implementation's
// canonical answer (impl.txt); ./check pipes cases.txt through the Lean driver and
// diffs.  Independently it evaluates each property's predicate directly on the
// implementation's outputs (the "direct oracle") and records violations with a replay.
package main

import (
	"bufio"
	"crypto/sha256"
	"encoding/hex"
	"encoding/json"
	"flag"
	"fmt"
	"math/rand"
	"os"
	"path/filepath"
	"runtime"
	"sort"
	"strconv"
	"strings"
	"sync"
	"time"

	rlog "github.com/smallnest/rpcx/log"
)

type Violation struct {
	Kind   string `json:"kind"`   // stable identifier of what failed (matched against known_findings.json)
	Detail string `json:"detail"` // human-readable description
	Replay any    `json:"replay"` // concrete input / op sequence / schedule
}

type Out struct {
	mu         sync.Mutex
	dir        string
	cases      *bufio.Writer
	impl       *bufio.Writer
	kinds      *bufio.Writer
	fc, fi, fk *os.File
	n          int
	distinct   map[[8]byte]struct{}
	nontrivial int
	counters   map[string]int
	samples    []string
	violations []Violation
	notes      []string
	start      time.Time
	raised     map[string]int
	closed     bool // set by Close: a sub-command abandoned by the hang watchdog must not write any more
}

func newOut(dir string) *Out {
	os.MkdirAll(dir, 0o755)
	fc, err := os.Create(filepath.Join(dir, "cases.txt"))
	if err != nil {
		panic(err)
	}
	fi, err := os.Create(filepath.Join(dir, "impl.txt"))
	if err != nil {
		panic(err)
	}
	fk, err := os.Create(filepath.Join(dir, "kinds.txt"))
	if err != nil {
		panic(err)
	}
	return &Out{dir: dir, fc: fc, fi: fi, fk: fk, cases: bufio.NewWriterSize(fc, 1<<20), impl: bufio.NewWriterSize(fi, 1<<20), kinds: bufio.NewWriterSize(fk, 1<<16),
		distinct: map[[8]byte]struct{}{}, counters: map[string]int{}, start: time.Now()}
}

// Case records one differential case. nontrivial says whether the case is non-trivial
// by the sub-command's rule (documented in its evidence "rule").
func (o *Out) Case(line, implOut string, nontrivial bool) { o.caseK("M", line, implOut, nontrivial) }

// SpecCase is a differential case in which the model's answer IS the property's
// specification for that input: a disagreement is a concrete failing input, not merely a
// broken correspondence.
func (o *Out) SpecCase(line, implOut string, nontrivial bool) {
	o.caseK("S", line, implOut, nontrivial)
}

func (o *Out) caseK(k0, line, implOut string, nontrivial bool) {
	o.mu.Lock()
	defer o.mu.Unlock()
	if strings.ContainsAny(line, "\n\r") || strings.ContainsAny(implOut, "\n\r") {
		panic("newline in case line")
	}
	if o.closed {
		return
	}
	o.cases.WriteString(line)
	o.cases.WriteByte('\n')
	o.impl.WriteString(implOut)
	o.impl.WriteByte('\n')
	o.kinds.WriteString(k0)
	o.kinds.WriteByte('\n')
	o.n++
	h := sha256.Sum256([]byte(line))
	var k [8]byte
	copy(k[:], h[:8])
	if _, seen := o.distinct[k]; !seen {
		o.distinct[k] = struct{}{}
		if nontrivial {
			o.nontrivial++
		}
	}
	if len(o.samples) < 6 && (o.n%97 == 1 || o.n < 3) {
		s := line + " => " + implOut
		if len(s) > 400 {
			s = s[:400] + "…"
		}
		o.samples = append(o.samples, s)
	}
}

// Eval counts an evaluation of the direct oracle that has no model line.
func (o *Out) Eval(key string, nontrivial bool) {
	o.mu.Lock()
	defer o.mu.Unlock()
	o.n++
	h := sha256.Sum256([]byte(key))
	var k [8]byte
	copy(k[:], h[:8])
	if _, seen := o.distinct[k]; !seen {
		o.distinct[k] = struct{}{}
		if nontrivial {
			o.nontrivial++
		}
	}
	if len(o.samples) < 6 && (o.n%97 == 1 || o.n < 3) {
		s := key
		if len(s) > 400 {
			s = s[:400] + "…"
		}
		o.samples = append(o.samples, s)
	}
}

func (o *Out) Count(key string) {
	o.mu.Lock()
	o.counters[key]++
	o.mu.Unlock()
}

func (o *Out) Note(f string, a ...any) {
	o.mu.Lock()
	o.notes = append(o.notes, fmt.Sprintf(f, a...))
	o.mu.Unlock()
}

// violationsOf: how often Violate was called for this kind (including suppressed repeats)
func (o *Out) violationsOf(kind string) int {
	o.mu.Lock()
	defer o.mu.Unlock()
	return o.raised[kind]
}

func (o *Out) Violate(kind, detail string, replay any) {
	o.mu.Lock()
	defer o.mu.Unlock()
	if o.raised == nil {
		o.raised = map[string]int{}
	}
	o.raised[kind]++
	same := 0
	for _, v := range o.violations {
		if v.Kind == kind {
			same++
		}
	}
	if same >= 3 || len(o.violations) >= 60 {
		o.counters["violations.suppressed"]++
		return
	}
	o.violations = append(o.violations, Violation{kind, detail, replay})
}

func (o *Out) Close(rule string) {
	o.mu.Lock()
	defer o.mu.Unlock()
	o.closed = true
	o.cases.Flush()
	o.impl.Flush()
	o.kinds.Flush()
	o.fc.Close()
	o.fi.Close()
	o.fk.Close()
	keys := make([]string, 0, len(o.counters))
	for k := range o.counters {
		keys = append(keys, k)
	}
	sort.Strings(keys)
	st := map[string]any{
		"evaluations":         o.n,
		"distinct":            len(o.distinct),
		"distinct_nontrivial": o.nontrivial,
		"rule":                rule,
		"counters":            o.counters,
		"samples":             o.samples,
		"violations":          o.violations,
		"notes":               o.notes,
		"wall_s":              time.Since(o.start).Seconds(),
	}
	b, _ := json.MarshalIndent(st, "", " ")
	os.WriteFile(filepath.Join(o.dir, "stats.json"), b, 0o644)
}

// ---------------------------------------------------------------------------------

func hx(b []byte) string {
	if len(b) == 0 {
		return "-"
	}
	return hex.EncodeToString(b)
}

func unhx(s string) []byte {
	if s == "-" {
		return nil
	}
	b, err := hex.DecodeString(s)
	if err != nil {
		panic(err)
	}
	return b
}

var (
	tier   string
	seed   int64
	outDir string
	replay string
)

type subcmd func(o *Out, r *rand.Rand)

var subcmds = map[string]subcmd{}
var rules = map[string]string{}

func register(name, rule string, f subcmd) { subcmds[name] = f; rules[name] = rule }

func main() {
	if len(os.Args) < 2 {
		fmt.Fprintln(os.Stderr, "usage: harness <property> [-tier quick|thorough] [-seed N] [-out DIR]")
		os.Exit(2)
	}
	name := os.Args[1]
	fs := flag.NewFlagSet(name, flag.ExitOnError)
	fs.StringVar(&tier, "tier", "quick", "quick|thorough")
	fs.Int64Var(&seed, "seed", 1, "PRNG seed")
	fs.StringVar(&outDir, "out", "", "output directory")
	fs.StringVar(&replay, "replay", "", "replay file")
	fs.Parse(os.Args[2:])
	if s := os.Getenv("VERIF_SEED"); s != "" && seed == 1 {
		if v, err := strconv.ParseInt(s, 10, 64); err == nil {
			seed = v
		}
	}
	f, ok := subcmds[name]
	if !ok {
		fmt.Fprintf(os.Stderr, "harness: unknown sub-command %s\n", name)
		os.Exit(2)
	}
	if outDir == "" {
		outDir = filepath.Join(os.TempDir(), "verif-"+name)
	}
	rlog.SetDummyLogger()
	o := newOut(outDir)
	r := rand.New(rand.NewSource(seed))
	finished := make(chan struct{})
	go func() {
		defer close(finished)
		// a panic that escapes the sub-command (the implementation panicked where the harness did
		// not expect it) is a finding with its stack as the replay, not a crashed check
		defer func() {
			if pv := recover(); pv != nil {
				buf := make([]byte, 16<<10)
				buf = buf[:runtime.Stack(buf, false)]
				o.Violate(name+".panic", fmt.Sprintf("the implementation panicked under the harness: %v", pv), map[string]any{"stack": string(buf)})
			}
		}()
		f(o, r)
	}()
	// a sub-command that does not come back (the implementation blocked somewhere no per-step
	// watchdog of the harness covers) is reported with the goroutine dump as the replay, instead of
	// sitting there until ./check's outer timeout.  The limit is far above any observed run time
	// (quick tiers finish in seconds, the longest thorough tier in about three minutes).
	limit := 300 * time.Second
	if thorough() {
		limit = 2400 * time.Second
	}
	if s := os.Getenv("VERIF_HANG_S"); s != "" {
		if v, err := strconv.Atoi(s); err == nil && v > 0 {
			limit = time.Duration(v) * time.Second
		}
	}
	select {
	case <-finished:
	case <-time.After(limit):
		buf := make([]byte, 256<<10)
		buf = buf[:runtime.Stack(buf, true)]
		o.Violate(name+".hang", fmt.Sprintf("the sub-command did not finish within %v: the implementation blocked under the harness", limit), map[string]any{"goroutines": string(buf)})
	}
	o.Close(rules[name])
}

func thorough() bool { return tier == "thorough" }

// replayField extracts a string field from the replay file written by ./check
// (either at top level or inside "replay").
func replayField(names ...string) string {
	b, err := os.ReadFile(replay)
	if err != nil {
		return ""
	}
	var top map[string]any
	if json.Unmarshal(b, &top) != nil {
		return ""
	}
	look := func(m map[string]any) string {
		for _, n := range names {
			if v, ok := m[n].(string); ok {
				return v
			}
		}
		return ""
	}
	if v := look(top); v != "" {
		return v
	}
	if inner, ok := top["replay"].(map[string]any); ok {
		return look(inner)
	}
	return ""
}
