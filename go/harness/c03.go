package main

import (
	"fmt"
	"math/rand"
	"strings"
)

func init() {
	rule := "forced schedules on one real client.Client (harness-owned conn, gated codec, client.send.enter hook): 1..4 calls of kinds {Go, blocking Call (cancellable or with a deadline), one-way Go, Go with a raw-bytes reply}, " +
		"calls issued with Go, Call (also with a deadline) and SendRaw; events {register, encode failure, write failure/success, cancel, response frames (normal / error / undecodable / heartbeat-flagged / duplicate / unknown seq), " +
		"a response held INSIDE its dispatch (reader parked at its trace line between taking the call out of the table and completing it) while the caller gives up, " +
		"server pushes with colliding seq, peer-close (reader termination) between frames and in the middle of a response frame (five byte-offset classes), Close, and a fresh call entering send() while a teardown (peer-close or Close) is parked inside the ClientConnectionClose plugin} in random enabled orders; each schedule is executed step by step on the implementation " +
		"and replayed on the Lean multiplexer model; observables: per call number of Done signals and final outcome (or the blocking caller's return), " +
		"push channel contents in order, IsShutdown; every case a specification case; non-trivial = schedule with at least one frame or fault; distinct = distinct schedule"
	register("c03", "C03 focus (response routing, pushes, permutations): "+rule, func(o *Out, r *rand.Rand) { runMux(o, r, "c03") })
	register("c05", "C05 focus (faults and Close at every position, signal counts): "+rule, func(o *Out, r *rand.Rand) { runMux(o, r, "c05") })
	register("c06", "C06 focus (victim + aggressors: cancel before/after registration, unencodable argument, undecodable reply; plus, against a real server, pipelined calls on shared connections "+
		"some of whose handlers fail or are one-way, with pooled Reset-able argument/reply types: every other call's result must be its own): "+rule, func(o *Out, r *rand.Rand) {
		runMux(o, r, "c06")
		// the server side of isolation: a failing (or one-way) handler must not change what the
		// other calls in flight on the same connection get back
		rounds := 3
		if thorough() {
			rounds = 15
		}
		id := 950000
		for _, so := range []srvOpts{{}, {pool: true}} {
			rig, err := newSrvRig(so)
			if err != nil {
				o.Violate("srv.rig", "cannot start the server: "+err.Error(), nil)
				return
			}
			for i := 0; i < rounds; i++ {
				srvPooled(o, rig, r, &id, "c06")
			}
			rig.close()
		}
	})
}

func runMux(o *Out, r *rand.Rand, focus string) {
	if replay != "" {
		if line := replayField("schedule", "case"); line != "" {
			f := strings.Fields(line)
			if len(f) >= 2 && f[0] == "mux" {
				for i := 0; i < 5; i++ {
					res, err := runMuxSchedule(f[1], f[2:])
					fmt.Printf("replay run %d: %s => %s %v\n", i, line, res, err)
				}
				muxCase(o, f[1], f[2:])
			}
		}
		return
	}
	// a different stream of schedules per focus
	r = rand.New(rand.NewSource(seed*7919 + int64(len(focus))*104729 + int64(focus[2])))
	n := 400
	if thorough() {
		n = 5000
	}
	// fixed witnesses first (the corpus): schedules that exposed defects
	corpus := [][2]string{
		{"GG", "r0 w0 r1 w1 T C"},                // reader termination then Close: one signal each
		{"G", "r0 C T e0"},                       // Close wins the race against an encode failure
		{"GB", "r0 w0 c1 f:0:-:5"},               // cancel before registration must not touch call 0
		{"GG", "r0 w0 r1 w1 f:1:u:3 f:0:-:4"},    // an undecodable reply must not tear the connection down
		{"BG", "r1 w1 c0 r0 w0 f:0:-:7 f:1:-:8"}, // cancelled-before-register caller; others unaffected
		{"GGG", "r0 r1 r2 w0 w1 w2 f:2:-:1 f:0:E:2 f:1:-:3 f:1:-:4 f:9:-:5 f:0:qo:6"},
		{"G", "r0 w0 T r0"},
		{"GO", "r0 r1 w1 w0 f:0:-:1"},
		{"NNN", "r0 r1 r2 w0 w1 w2 f:1:-:11 f:0:-:12 f:2:-:13 f:7:-:14 f:1:qo:15"}, // replies must survive later frames
		{"GG", "r0 r1 w0 w1 f:0:E:21 f:1:E:22 f:5:E:23"},
		{"GG", "r0 w0 H1"}, // a call entering send() while the reader winds the connection up
		{"GB", "r0 w0 K1"}, // … or while Close is in progress
		{"BGG", "r1 w1 H0 r2"},
		{"GG", "r0 r1 w0 w1 f:0:k:5 f:1:-:6"}, // a response in an unknown serialize type fails its own call only
		{"GD", "r0 y0 r1 y1 c1 w0 f:0:-:4"},   // the deadline of one caller passes while it and another call are inside Write
		{"GD", "r0 y0 r1 w1 c1 w0 f:0:-:5"},
		{"GG", "r0 w0 N1"}, // a call sent while the reader hands its connection-lost notice to a slow consumer
		{"GBG", "r0 w0 f:0:qo:3 N1 r2"},
		{"GG", "r0 w0 r1 w1 p:0:3 C"}, // the peer dies in the middle of the response to call 0
		{"GB", "r0 w0 r1 w1 f:1:-:9 p:0:1"},
		{"GGG", "r0 r1 w1 e0 r2 w2 f:1:-:5 f:2:-:6"}, // a call that fails after a later one was registered: its sequence number is spent
		{"GGB", "r0 r1 w1 x0 r2 w2 f:2:-:6 f:1:-:5"},
		{"BGG", "r0 r1 w1 c0 e0 r2 w2 f:1:-:7 f:2:-:8"},
		{"RG", "r0 r1 w0 w1 f:1:-:5 f:0:-:6"}, // SendRaw and Go on one connection: each its own reply
		{"GRG", "r0 w0 r1 w1 r2 w2 f:1:E:4 f:2:-:5 f:0:-:6"},
		{"RB", "r0 w0 c0 r1 w1 f:1:-:3 f:0:-:4"}, // a raw caller gives up after its write; its late reply is nobody's
		{"RR", "r0 r1 x0 w1 f:1:k:7"},            // a failed write of one raw call; the other takes any payload as it is
		{"GR", "r0 w0 T r1"},                     // SendRaw after the connection was lost: fails at its write
		{"RG", "r0 w0 r1 w1 C T"},
		{"RGB", "r0 w0 r1 w1 f:0:qo:2 p:1:3 r2"},
		{"BB", "r0 w0 G0:0:5 r1 w1 g:0:5 f:1:-:6"}, // a reply held inside its dispatch while its caller gives up: the late completion is nobody's
		{"RR", "r0 w0 G0:0:5 r1 w1 g:0:5 f:1:-:6"},
		{"BR", "r0 w0 r1 G0:0:7 w1 g:0:7 f:1:E:8"},
		{"RBG", "r2 w2 r0 w0 G0:1:3 r1 w1 g:1:3 f:0:-:4 f:2:-:5"},
	}
	for _, c := range corpus {
		muxCase(o, c[0], strings.Fields(c[1]))
	}
	for i := 0; i < n; i++ {
		kinds, evs := genMuxSchedule(r, focus)
		muxCase(o, kinds, evs)
		// schedules that cannot be executed step by step each cost a watchdog period: once there are
		// plenty of them the verdict is settled and the remaining schedules add nothing
		if o.violationsOf("mux.rig") >= 12 {
			o.Note("stopped after %d schedules: %d of them could not be executed step by step", i+1, o.violationsOf("mux.rig"))
			break
		}
	}
}

func muxCase(o *Out, kinds string, evs []string) {
	line := "mux " + kinds + " " + strings.Join(evs, " ")
	res, err := runMuxSchedule(kinds, evs)
	if err != nil {
		o.Violate("mux.rig", "the schedule could not be executed step by step: "+err.Error(), map[string]any{"schedule": line})
		o.SpecCase(line, "rig-error: "+err.Error(), true)
		return
	}
	nontrivial := false
	for _, e := range evs {
		if e == "T" || e == "C" || e[0] == 'G' || e[0] == 'y' || e[0] == 'p' || e[0] == 'N' || e[0] == 'H' || e[0] == 'K' || e[0] == 'f' || e[0] == 'e' || e[0] == 'x' || e[0] == 'c' {
			nontrivial = true
		}
		o.Count("ev." + e[:1])
	}
	o.SpecCase(line, res, nontrivial)
	// direct oracle on the observables alone
	for i, f := range strings.Fields(strings.SplitN(res, " | ", 2)[0]) {
		if strings.HasPrefix(f, "ret=") {
			continue
		}
		var n int
		fmt.Sscanf(f, "%d:", &n)
		if n > 1 {
			o.Violate("mux.double-signal", fmt.Sprintf("call %d was signalled %d times on its Done channel", i, n), map[string]any{"schedule": line, "observed": res})
		}
	}
}
