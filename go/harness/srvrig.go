package main

import (
	"context"
	"errors"
	"fmt"
	"math"
	"net"
	"os"
	"path/filepath"
	"runtime"
	"strings"
	"sync"
	"sync/atomic"
	"time"

	"github.com/smallnest/rpcx/protocol"
	"github.com/smallnest/rpcx/server"
	"github.com/smallnest/rpcx/share"
)

// A real rpcx server with instrumented services, plugins and AuthFunc, and raw protocol peers.

type SArgs struct {
	ID     int
	Mode   string // ok | err | panic | gate
	Text   string // error / panic text
	Size   int    // reply padding
	Reject string // "precall": the PreCall plugin rejects it
}

type SReply struct {
	ID   int
	Data string
}

// pooled (Reset-able) variants: the server keeps them in reflectTypePools
type PArgs struct {
	ID    int
	A, B  int
	Check int // must equal A*31+B while the handler runs
	Mode  string
}

func (p *PArgs) Reset() { *p = PArgs{} }

type PReply struct {
	ID  int
	Sum int
	F   float64 // NaN makes the JSON codec fail to encode the reply
}

func (p *PReply) Reset() { *p = PReply{} }

type srvRig struct {
	opts           srvOpts
	s              *server.Server
	ln             net.Listener
	addr           string
	mu             sync.Mutex
	invoked        map[int]int
	gates          map[int]chan struct{}
	started        map[int]chan struct{}
	accepted       int32
	seen           map[int][]seenRec
	pooledBad      int32
	pooledReplyBad int32
}

type seenRec struct {
	args SArgs
	meta map[string]string
}

// observe records what the handler was given and derives response metadata from the request's
// "e:" entries (binary-safe echo), so that every ingress can be compared on what the handler saw
// and on what comes back.
func (r *srvRig) observe(ctx context.Context, a *SArgs) {
	m, _ := ctx.Value(share.ReqMetaDataKey).(map[string]string)
	cp := map[string]string{}
	for k, v := range m {
		cp[k] = v
	}
	r.mu.Lock()
	if r.seen == nil {
		r.seen = map[int][]seenRec{}
	}
	r.seen[a.ID] = append(r.seen[a.ID], seenRec{args: *a, meta: cp})
	r.mu.Unlock()
	if rm, ok := ctx.Value(share.ResMetaDataKey).(map[string]string); ok {
		for k, v := range m {
			if strings.HasPrefix(k, "e:") {
				rm["r:"+k[2:]] = v + "|" + fmt.Sprint(a.ID)
			}
		}
	}
}

func (r *srvRig) seenFor(id int) []seenRec {
	r.mu.Lock()
	defer r.mu.Unlock()
	return append([]seenRec(nil), r.seen[id]...)
}

func (r *srvRig) markInvoked(id int) {
	r.mu.Lock()
	r.invoked[id]++
	st := r.started[id]
	g := r.gates[id]
	r.mu.Unlock()
	if st != nil {
		select {
		case st <- struct{}{}:
		default:
		}
	}
	if g != nil {
		<-g
	}
}

func (r *srvRig) invocations(id int) int {
	r.mu.Lock()
	defer r.mu.Unlock()
	return r.invoked[id]
}

func (r *srvRig) gate(id int) (chan struct{}, chan struct{}) {
	r.mu.Lock()
	defer r.mu.Unlock()
	g := make(chan struct{})
	st := make(chan struct{}, 1)
	r.gates[id] = g
	r.started[id] = st
	return g, st
}

// rigNilErr: an error type whose Error method dereferences its receiver
type rigNilErr struct{ text string }

func (e *rigNilErr) Error() string { return e.text }

type rigSvc struct{ r *srvRig }

func (s *rigSvc) body(a *SArgs, rp *SReply) error {
	s.r.markInvoked(a.ID)
	switch a.Mode {
	case "err":
		return errors.New(a.Text)
	case "panic":
		panic(a.Text)
	case "panic-error": // the handler panics with an error VALUE
		panic(errors.New(a.Text))
	case "panic-nil-error": // … with a typed-nil error (`var e *myErr; panic(error(e))`): its Error() faults
		var e *rigNilErr
		panic(error(e))
	}
	rp.ID = a.ID
	rp.Data = strings.Repeat("x", a.Size) + fmt.Sprint(a.ID)
	return nil
}

func (s *rigSvc) Do(ctx context.Context, a *SArgs, rp *SReply) error {
	if a.Mode == "push" {
		// a server-initiated message on the same connection, concurrently with other writers
		if conn, ok := ctx.Value(server.RemoteConnContextKey).(net.Conn); ok {
			s.r.s.SendMessage(conn, "push", "p", nil, pushPayload(a.ID, a.Size))
		}
	}
	s.r.observe(ctx, a)
	return s.body(a, rp)
}

func pushPayload(id, size int) []byte {
	return []byte(strings.Repeat("p", size) + fmt.Sprint(id))
}

func (s *rigSvc) Pooled(ctx context.Context, a *PArgs, rp *PReply) error {
	s.r.markInvoked(a.ID)
	// the argument and the reply object must stay ours for the whole call
	id := a.ID
	rp.ID = id
	rp.Sum = -id
	for i := 0; i < 3; i++ {
		if a.Check != a.A*31+a.B {
			atomic.AddInt32(&s.r.pooledBad, 1)
		}
		if rp.ID != id || rp.Sum != -id {
			atomic.AddInt32(&s.r.pooledReplyBad, 1)
		}
		time.Sleep(200 * time.Microsecond)
	}
	rp.ID = id
	rp.Sum = a.A + a.B
	if a.Mode == "err" {
		return errors.New("pooled failed")
	}
	if a.Mode == "nan" {
		rp.F = math.NaN() // the handler succeeds, the reply cannot be encoded
	}
	return nil
}

type rigPlugin struct{ r *srvRig }

var holdArrived = make(chan struct{}, 4)
var holdRelease = make(chan struct{})

var errRigPostRead = errors.New("verif: request rejected after read")
var errRigPreCall = errors.New("verif: rejected by pre-call plugin")
var errRigAuth = errors.New("verif: bad token")

func (p *rigPlugin) PostReadRequest(ctx context.Context, r *protocol.Message, e error) error {
	if r == nil || e != nil {
		return nil
	}
	if r.Metadata["hold"] == "1" {
		// a slow post-read stage (rate limiter, tracing): the request waits here until released
		select {
		case holdArrived <- struct{}{}:
		default:
		}
		<-holdRelease
	}
	switch r.Metadata["reject"] {
	case "postread":
		return errRigPostRead
	case "reachlimit":
		return server.ErrReqReachLimit
	}
	return nil
}

func (p *rigPlugin) PreCall(ctx context.Context, serviceName, methodName string, args interface{}) (interface{}, error) {
	if a, ok := args.(*SArgs); ok && a.Reject == "precall" {
		if a.ID%2 == 1 {
			return nil, errRigPreCall // a rejection has no arguments to hand on
		}
		return args, errRigPreCall
	}
	return args, nil
}

var errRigPostCall = errors.New("verif: vetoed after the call")

// PostCall: a plugin that fails an otherwise successful call (an audit / quota plugin) and, like most,
// hands back the reply it was given
func (p *rigPlugin) PostCall(ctx context.Context, serviceName, methodName string, args, reply interface{}, err error) (interface{}, error) {
	if a, ok := args.(*PArgs); ok && a.Mode == "veto" {
		return reply, errRigPostCall
	}
	return reply, nil
}

func (p *rigPlugin) HandleConnAccept(conn net.Conn) (net.Conn, bool) {
	m := atomic.LoadInt32(&wrapChunky) // read before the acceptance becomes visible to the harness
	n := atomic.AddInt32(&p.r.accepted, 1)
	if m != 0 {
		conn = &chunkyConn{Conn: conn, seed: int64(n), pause: m == 2}
	}
	return conn, atomic.LoadInt32(&rejectAccept) == 0
}

type rigObserver struct{ seen int64 }

func (p *rigObserver) PostReadRequest(ctx context.Context, r *protocol.Message, e error) error {
	atomic.AddInt64(&p.seen, 1)
	return nil
}

func (p *rigObserver) PreCall(ctx context.Context, serviceName, methodName string, args interface{}) (interface{}, error) {
	return args, nil
}

func (p *rigObserver) HandleConnAccept(conn net.Conn) (net.Conn, bool) { return conn, true }

var wrapChunky int32

// chunkyConn models a transport that splits one Write into several pieces and delays
// BETWEEN Write calls, never letting another Write in while one is in progress (as the fd
// write lock of a real net.Conn does).
type chunkyConn struct {
	net.Conn
	mu     sync.Mutex
	seed   int64
	writes int64
	pause  bool // always pause after a Write call (between calls, never inside one)
}

func (c *chunkyConn) Write(p []byte) (int, error) {
	c.mu.Lock()
	n := atomic.AddInt64(&c.writes, 1)
	x := uint64(c.seed*7919+n*104729) | 1
	total := 0
	for len(p) > 0 {
		x ^= x << 13
		x ^= x >> 7
		x ^= x << 17
		k := 1 + int(x%4096)
		if x%5 == 0 {
			k = 1 + int(x%7)
		}
		if k > len(p) {
			k = len(p)
		}
		m, err := c.Conn.Write(p[:k])
		total += m
		if err != nil {
			c.mu.Unlock()
			return total, err
		}
		p = p[k:]
		if x%3 == 0 {
			runtime.Gosched()
		}
	}
	c.mu.Unlock()
	// a scheduling delay between this write and the next one
	if c.pause {
		time.Sleep(time.Millisecond)
	} else if x%4 == 0 {
		time.Sleep(time.Duration(x%300) * time.Microsecond)
	} else {
		runtime.Gosched()
	}
	return total, nil
}

var rejectAccept int32

type srvOpts struct {
	pool   bool
	async  bool
	auth   bool
	custom server.WorkerPool
	unix   bool // listen on a unix socket (a network the port multiplexer does not handle)
}

func newSrvRig(o srvOpts) (*srvRig, error) {
	var opts []server.OptionFn
	if o.custom != nil {
		opts = append(opts, server.WithCustomPool(o.custom))
	} else if o.pool {
		opts = append(opts, server.WithPool(8, 1000))
	}
	if o.async {
		opts = append(opts, server.WithAsyncWrite())
	}
	s := server.NewServer(opts...)
	r := &srvRig{opts: o, s: s, invoked: map[int]int{}, gates: map[int]chan struct{}{}, started: map[int]chan struct{}{}}
	svc := &rigSvc{r}
	if err := s.RegisterName("Svc", svc, ""); err != nil {
		return nil, err
	}
	if err := s.RegisterName("dotted.path.Svc", svc, ""); err != nil {
		return nil, err
	}
	if err := s.RegisterFunctionName("Fn", "Do", func(ctx context.Context, a *SArgs, rp *SReply) error { r.observe(ctx, a); return svc.body(a, rp) }, ""); err != nil {
		return nil, err
	}
	// the registered-function dispatch style with pooled (Reset-able) argument and reply types
	if err := s.RegisterFunctionName("Fn", "Pooled", func(ctx context.Context, a *PArgs, rp *PReply) error { return svc.Pooled(ctx, a, rp) }, ""); err != nil {
		return nil, err
	}
	s.AddHandler("Rt", "Do", func(ctx *server.Context) error {
		var a SArgs
		if err := ctx.Bind(&a); err != nil {
			return err
		}
		var rp SReply
		if err := svc.body(&a, &rp); err != nil {
			return err
		}
		return ctx.Write(&rp)
	})
	s.Plugins.Add(&rigPlugin{r})
	// an observer registered BEHIND the rejecting plugin (metrics, tracing, access log): it accepts
	// everything and must not be able to undo a rejection
	s.Plugins.Add(&rigObserver{})
	if o.auth {
		s.AuthFunc = func(ctx context.Context, req *protocol.Message, token string) error {
			if token == "good" {
				return nil
			}
			return errRigAuth
		}
	}
	network, laddr := "tcp", "127.0.0.1:0"
	if o.unix {
		dir, err := os.MkdirTemp("", "verif-unix-")
		if err != nil {
			return nil, err
		}
		network, laddr = "unix", filepath.Join(dir, "s.sock")
	}
	ln, err := net.Listen(network, laddr)
	if err != nil {
		return nil, err
	}
	r.ln = ln
	r.addr = ln.Addr().String()
	go s.ServeListener(network, ln)
	select {
	case <-s.Started:
	case <-time.After(2 * time.Second):
		return nil, errors.New("server did not start")
	}
	return r, nil
}

func (r *srvRig) close() {
	r.s.Close()
	if r.opts.unix {
		os.RemoveAll(filepath.Dir(r.addr))
	}
}

// ---- raw peer --------------------------------------------------------------------------------

type rawPeer struct {
	c net.Conn
}

func dialRaw(addr string) (*rawPeer, error) {
	network := "tcp"
	if strings.HasPrefix(addr, "/") {
		network = "unix"
	}
	c, err := net.DialTimeout(network, addr, time.Second)
	if err != nil {
		return nil, err
	}
	return &rawPeer{c}, nil
}

type rawReq struct {
	id        int
	seq       uint64
	path      string
	method    string
	ser       protocol.SerializeType
	heartbeat bool
	oneway    bool
	compress  protocol.CompressType
	meta      map[string]string
	args      interface{}
	rawBody   []byte // when set, sent instead of the encoded args
}

func (q rawReq) frame() ([]byte, error) {
	m := protocol.NewMessage()
	m.SetMessageType(protocol.Request)
	m.SetSeq(q.seq)
	m.SetSerializeType(q.ser)
	m.SetHeartbeat(q.heartbeat)
	m.SetOneway(q.oneway)
	m.ServicePath, m.ServiceMethod = q.path, q.method
	if q.meta != nil {
		m.Metadata = q.meta
	}
	if q.rawBody != nil {
		m.Payload = q.rawBody
	} else if q.args != nil {
		codec := share.Codecs[q.ser]
		if codec == nil {
			codec = share.Codecs[protocol.JSON]
		}
		b, err := codec.Encode(q.args)
		if err != nil {
			return nil, err
		}
		m.Payload = b
	}
	if q.compress != protocol.None && len(m.Payload) > 0 {
		m.SetCompressType(q.compress)
	}
	return append([]byte(nil), m.Encode()...), nil
}

func (p *rawPeer) send(q rawReq) error {
	b, err := q.frame()
	if err != nil {
		return err
	}
	_, err = p.c.Write(b)
	return err
}

// readAll reads responses until the deadline passes or the connection closes.
func (p *rawPeer) readAll(want int, wait time.Duration) (msgs []*protocol.Message, closed bool) {
	deadline := time.Now().Add(wait)
	for {
		p.c.SetReadDeadline(deadline)
		m, err := protocol.Read(p.c)
		if err != nil {
			if ne, ok := err.(net.Error); ok && ne.Timeout() {
				return msgs, false
			}
			return msgs, true
		}
		msgs = append(msgs, m)
		if want > 0 && len(msgs) >= want {
			// a short grace period to catch surplus responses
			deadline = time.Now().Add(15 * time.Millisecond)
		}
	}
}
