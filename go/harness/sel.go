package main

import (
	"context"
	"fmt"
	jump "github.com/dgryski/go-jump"
	"math/rand"
	"net/url"
	"sort"
	"strconv"
	"strings"

	"github.com/smallnest/rpcx/client"
)

func init() {
	register("c11", "selector histories: for each strategy {random, round-robin, weighted, consistent-hash, closest} a random history of construct / "+
		"UpdateServer (sets of size 0..6, membership and metadata changing) / Select, with metadata from a grammar of valid, zero, negative, large, "+
		"non-numeric, empty, repeated, badly escaped and semicolon-separated weight values and valid, missing, malformed, NaN and Inf coordinates; "+
		"direct oracle after every Select: no panic, result is an eligible address of the latest set, empty exactly when none is eligible; "+
		"round-robin / weighted / hash histories are also replayed on the Lean model (using the selector's internal slice order); "+
		"non-trivial = history with at least one update after construction and a non-empty eligible set at some point; distinct = distinct history line",
		runC11)
	register("c12", "round-robin and weighted round-robin: all weight vectors n<=4, weights<=6 (thorough; sampled in quick) plus random larger vectors; "+
		"weights embedded among keys whose names end in or start with 'weight'; 3*T selections per selector, every window offset checked for exact counts and periodicity; equal weights compared with plain round-robin; "+
		"updates changing membership or weights (also a second update that passes the same map instance, edited in place), windows checked from the first selection after the update; every run replayed on the Lean model; "+
		"non-trivial = at least two servers; distinct = distinct weight history",
		runC12)
	register("c13", "consistent hash: server sets of size 1..8, 200 keys each; repeated selection, re-announcement of the identical set, "+
		"pairs of independently constructed selectors (different map iteration orders), add-only update sequences (key keeps its server or moves to a new one), "+
		"mixed add/remove histories replayed on the Lean doublejump model; the jump-hash contract (bucket < n; n+1 keeps the bucket or moves to the new one) checked on the real jump.Hash; non-trivial = set of at least 2 servers; distinct = distinct history line",
		runC13)
}

// specWeight: the eligibility rule of the weighted strategy as the property states it:
// the parsed weight, 1 when the metadata carries no usable weight.
func specWeight(meta string) int {
	v, err := url.ParseQuery(meta)
	if err != nil {
		return 1
	}
	ww := v.Get("weight")
	if ww == "" {
		return 1
	}
	n, err := strconv.Atoi(ww)
	if err != nil {
		return 1
	}
	return n
}

func specGeoEligible(meta string) bool {
	v, err := url.ParseQuery(meta)
	if err != nil {
		return false
	}
	la, lo := v.Get("latitude"), v.Get("longitude")
	if la == "" || lo == "" {
		return false
	}
	if _, err := strconv.ParseFloat(la, 64); err != nil {
		return false
	}
	if _, err := strconv.ParseFloat(lo, 64); err != nil {
		return false
	}
	return true
}

var weightMetas = []string{
	"", "weight=1", "weight=2", "weight=3", "weight=5", "weight=7", "weight=0", "weight=-1", "weight=-3", "weight=40",
	"weight=abc", "weight=", "weight=3&weight=9", "weight=+4", "weight= 5", "weight=2;x=1", "weight=%zz", "state=active&weight=6",
	"group=a&weight=2&group=b", "weight=1.5", "weight=0x10", "weight=00002", "Weight=9", "tps=5",
	"icmp_weight=0&weight=3", "xweight=-1&weight=2", "lowweight=7", "weight_class=4&weight=0", "myweight=5&weight=abc",
	// metadata url.ParseQuery rejects as a whole (a `;`, a bad escape) although one pair in it would decode
	"weight=0&tags=a;b", "note=%zz&weight=-3", "weight=0;x=1", "weight=-2&x=%", "tags=a;b&weight=4",
}

var geoMetas = []string{
	"", "latitude=30.1&longitude=120.2", "latitude=-33.9&longitude=151.2", "latitude=0&longitude=0", "latitude=90&longitude=180",
	"latitude=30", "longitude=120", "latitude=abc&longitude=1", "latitude=1&longitude=", "latitude=NaN&longitude=1", "latitude=NaN&longitude=NaN",
	"latitude=Inf&longitude=3", "latitude=1e400&longitude=3", "latitude=30.1&longitude=120.2;x", "latitude=-30&longitude=-60&weight=2",
	"latitude=0&longitude=180",
}

func randServerSet(r *rand.Rand, metas []string, maxN int) map[string]string {
	n := r.Intn(maxN + 1)
	m := map[string]string{}
	for len(m) < n {
		m[fmt.Sprintf("tcp@h%d:%d", r.Intn(9), 8000+r.Intn(3))] = metas[r.Intn(len(metas))]
	}
	return m
}

func safeSelect(s client.Selector, path, method string, args interface{}) (res string, panicked interface{}) {
	defer func() {
		if p := recover(); p != nil {
			panicked = p
		}
	}()
	res = s.Select(context.Background(), path, method, args)
	return
}

func safeConstruct(f func() client.Selector) (s client.Selector, panicked interface{}) {
	defer func() {
		if p := recover(); p != nil {
			panicked = p
		}
	}()
	return f(), nil
}

func setStr(m map[string]string) string {
	ks := make([]string, 0, len(m))
	for k := range m {
		ks = append(ks, k+"{"+m[k]+"}")
	}
	sort.Strings(ks)
	return strings.Join(ks, " ")
}

// updateOp renders an update for the model: entries in the selector's internal order.
func updateOp(sel client.Selector, m map[string]string, weighted bool) string {
	order := client.VerifSelectorOrder(sel)
	if !weighted {
		// the internal slice holds every key
		parts := []string{"U"}
		for _, k := range order {
			parts = append(parts, k+"=0")
		}
		return strings.Join(parts, "/") + "/"
	}
	// weighted: the internal slice holds the eligible servers only (after the fix) or all of
	// them; give the model every server of the set, internal ones first in internal order
	parts := []string{"U"}
	seen := map[string]bool{}
	for _, k := range order {
		parts = append(parts, fmt.Sprintf("%s=%d", k, specWeight(m[k])))
		seen[k] = true
	}
	rest := []string{}
	for k := range m {
		if !seen[k] {
			rest = append(rest, k)
		}
	}
	sort.Strings(rest)
	for _, k := range rest {
		parts = append(parts, fmt.Sprintf("%s=%d", k, specWeight(m[k])))
	}
	return strings.Join(parts, "/") + "/"
}

type selMode struct {
	name     string
	mode     client.SelectMode
	model    string // "", "rr", "wrr", "hash"
	metas    []string
	eligible func(meta string) bool
}

var selModes = []selMode{
	{"random", client.RandomSelect, "", weightMetas, func(string) bool { return true }},
	{"roundrobin", client.RoundRobin, "rr", weightMetas, func(string) bool { return true }},
	{"weighted", client.WeightedRoundRobin, "wrr", weightMetas, func(m string) bool { return specWeight(m) > 0 }},
	{"hash", client.ConsistentHash, "hash", weightMetas, func(string) bool { return true }},
	{"closest", client.Closest, "", geoMetas, specGeoEligible},
}

func hashKey(path, method string, args interface{}) uint64 {
	return client.HashString(fmt.Sprintf("/%s/%s/%v", path, method, args))
}

func runC11(o *Out, r *rand.Rand) {
	n := 1500
	if thorough() {
		n = 12000
	}
	for _, sm := range selModes {
		for it := 0; it < n; it++ {
			c11History(o, r, sm)
		}
	}
}

func c11History(o *Out, r *rand.Rand, sm selMode) {
	cur := randServerSet(r, sm.metas, 6)
	var hist []string
	var ops []string
	var outs []string
	mk := func(m map[string]string) func() client.Selector {
		cp := map[string]string{}
		for k, v := range m {
			cp[k] = v
		}
		if sm.mode == client.Closest {
			return func() client.Selector { return client.VerifNewGeoSelector(cp, 31.2, 121.4) }
		}
		return func() client.Selector { return client.VerifNewSelector(sm.mode, cp) }
	}
	hist = append(hist, "new["+setStr(cur)+"]")
	sel, pv := safeConstruct(mk(cur))
	rp := func() map[string]any { return map[string]any{"strategy": sm.name, "history": hist} }
	if pv != nil {
		o.Violate("c11."+sm.name+".panic.construct", fmt.Sprintf("constructing the %s selector panicked: %v", sm.name, pv), rp())
		return
	}
	ops = append(ops, updateOp(sel, cur, sm.model == "wrr"))
	updates := 0
	everEligible := false
	var passed map[string]string
	steps := 3 + r.Intn(10)
	for st := 0; st < steps; st++ {
		if r.Intn(3) == 0 {
			// update: mutate the set
			next := map[string]string{}
			switch r.Intn(5) {
			case 0:
				next = randServerSet(r, sm.metas, 6)
			case 1: // empty
			default:
				for k, v := range cur {
					if r.Intn(4) != 0 {
						next[k] = v
						if r.Intn(4) == 0 {
							next[k] = sm.metas[r.Intn(len(sm.metas))]
						}
					}
				}
				for i := r.Intn(3); i > 0; i-- {
					next[fmt.Sprintf("tcp@h%d:%d", r.Intn(9), 8000+r.Intn(3))] = sm.metas[r.Intn(len(sm.metas))]
				}
			}
			cur = next
			hist = append(hist, "update["+setStr(cur)+"]")
			// the map handed to the selector: a fresh one, or (a caller that keeps ONE map and edits it)
			// the very map it was given last time, changed in place
			cp := map[string]string{}
			if passed != nil && r.Intn(3) == 0 {
				cp = passed
				for k := range cp {
					delete(cp, k)
				}
				hist[len(hist)-1] += "(same map instance, edited in place)"
			}
			for k, v := range cur {
				cp[k] = v
			}
			passed = cp
			var upv interface{}
			func() {
				defer func() {
					if p := recover(); p != nil {
						upv = p
					}
				}()
				sel.UpdateServer(cp)
			}()
			if upv != nil {
				o.Violate("c11."+sm.name+".panic.update", fmt.Sprintf("UpdateServer of the %s selector panicked: %v", sm.name, upv), rp())
				return
			}
			ops = append(ops, updateOp(sel, cur, sm.model == "wrr"))
			updates++
			continue
		}
		k := 1 + r.Intn(4)
		for j := 0; j < k; j++ {
			args := r.Intn(50)
			hist = append(hist, fmt.Sprintf("select(%d)", args))
			res, pv := safeSelect(sel, "Svc", "M", args)
			if pv != nil {
				o.Violate("c11."+sm.name+".panic.select", fmt.Sprintf("%s selector: Select panicked: %v", sm.name, pv), rp())
				return
			}
			elig := 0
			for _, meta := range cur {
				if sm.eligible(meta) {
					elig++
				}
			}
			if elig > 0 {
				everEligible = true
			}
			o.Count("c11." + sm.name + ".select")
			if res == "" {
				o.Count("c11." + sm.name + ".empty")
				if elig > 0 {
					o.Violate("c11."+sm.name+".empty-with-eligible", fmt.Sprintf("%s selector returned the empty result although %d servers are eligible", sm.name, elig), rp())
					return
				}
			} else {
				meta, ok := cur[res]
				if !ok {
					o.Violate("c11."+sm.name+".not-in-latest-set", fmt.Sprintf("%s selector returned %q which is not in the most recently supplied set", sm.name, res), rp())
					return
				}
				if !sm.eligible(meta) {
					o.Violate("c11."+sm.name+".ineligible", fmt.Sprintf("%s selector returned %q whose metadata %q makes it ineligible", sm.name, res, meta), rp())
					return
				}
			}
			if sm.model == "hash" {
				ops = append(ops, fmt.Sprintf("S/%d", hashKey("Svc", "M", args)))
			} else {
				ops = append(ops, "S/0")
			}
			if res == "" {
				outs = append(outs, "-")
			} else {
				outs = append(outs, res)
			}
		}
	}
	nt := updates > 0 && everEligible
	if sm.model != "" {
		o.Case("sel "+sm.model+" "+strings.Join(ops, " "), strings.Join(outs, ","), nt)
	} else {
		o.Eval(sm.name+" "+strings.Join(hist, " "), nt)
	}
}

// ---------------------------------------------------------------------------------------

func weightsMap(ws []int) map[string]string {
	m := map[string]string{}
	for i, w := range ws {
		// the weight sits among other keys, some of whose NAMES end in "weight" or start with it
		meta := fmt.Sprintf("weight=%d", w)
		switch (i + len(ws)) % 4 {
		case 1:
			meta = fmt.Sprintf("group=g1&icmp_weight=%d&weight=%d&weight_class=7", w+3, w)
		case 2:
			meta = fmt.Sprintf("lowweight=9&state=active&weight=%d", w)
		case 3:
			meta = fmt.Sprintf("weight=%d&xweight=%d", w, w+5)
		}
		if w == 1 {
			// weight 1 is also what a server gets that announces no usable weight at all
			switch (i*3 + len(ws)) % 5 {
			case 1:
				meta = ""
			case 2:
				meta = "group=g1&state=active"
			case 3:
				meta = "weight=x"
			case 4:
				meta = "weight=&tps=5"
			}
		}
		m[fmt.Sprintf("tcp@s%d:1", i)] = meta
	}
	return m
}

func checkWindows(seq []string, want map[string]int, T int) string {
	if T == 0 {
		return ""
	}
	for off := 0; off+T <= len(seq); off++ {
		cnt := map[string]int{}
		for _, s := range seq[off : off+T] {
			cnt[s]++
		}
		for k, w := range want {
			if cnt[k] != w {
				return fmt.Sprintf("window at offset %d of %d selections: %s chosen %d times, want %d", off, T, k, cnt[k], w)
			}
		}
		if len(cnt) != len(want) {
			return fmt.Sprintf("window at offset %d contains an unexpected server", off)
		}
	}
	return ""
}

func c12Run(o *Out, ws []int, upd []int) {
	m := weightsMap(ws)
	sel, pv := safeConstruct(func() client.Selector { return client.VerifNewSelector(client.WeightedRoundRobin, m) })
	rp := map[string]any{"weights": ws, "update": upd}
	if pv != nil {
		o.Violate("c12.wrr.panic", fmt.Sprint("weighted selector construction panicked: ", pv), rp)
		return
	}
	ops := []string{updateOp(sel, m, true)}
	var outs []string
	run := func(m map[string]string, ws []int, label string) bool {
		T := 0
		want := map[string]int{}
		for i, w := range ws {
			T += w
			want[fmt.Sprintf("tcp@s%d:1", i)] = w
		}
		var seq []string
		for i := 0; i < 3*T; i++ {
			res, pv := safeSelect(sel, "Svc", "M", i)
			if pv != nil {
				o.Violate("c12.wrr.panic", fmt.Sprint("weighted Select panicked: ", pv), rp)
				return false
			}
			seq = append(seq, res)
			ops = append(ops, "S/0")
			outs = append(outs, res)
		}
		if msg := checkWindows(seq, want, T); msg != "" {
			o.Violate("c12.wrr.proportion", label+": "+msg, rp)
			return false
		}
		// equal weights behave as plain round robin: period n, each server once per n
		eq := true
		for _, w := range ws {
			if w != ws[0] {
				eq = false
			}
		}
		if eq && len(ws) > 0 {
			one := map[string]int{}
			for k := range want {
				one[k] = 1
			}
			if msg := checkWindows(seq, one, len(ws)); msg != "" {
				o.Violate("c12.wrr.equal-weights", label+": equal weights do not behave as round-robin: "+msg, rp)
				return false
			}
		}
		return true
	}
	if !run(m, ws, "initial") {
		return
	}
	if upd != nil {
		// desynchronise: a few extra selections so that the update lands mid-window
		for i := 0; i < 1+len(ws); i++ {
			res, _ := safeSelect(sel, "Svc", "M", i)
			ops = append(ops, "S/0")
			outs = append(outs, res)
		}
		m2 := weightsMap(upd)
		sel.UpdateServer(m2)
		ops = append(ops, updateOp(sel, m2, true))
		if !run(m2, upd, "after update") {
			return
		}
		// a caller that keeps one map and edits it: the same instance again, with the weights rotated
		// and the last server dropped
		if len(upd) >= 2 {
			upd3 := append(append([]int{}, upd[1:len(upd)-1]...), upd[0])
			for k := range m2 {
				delete(m2, k)
			}
			for k, v := range weightsMap(upd3) {
				m2[k] = v
			}
			for i := 0; i < 1+len(upd)/2; i++ {
				res, _ := safeSelect(sel, "Svc", "M", i)
				ops = append(ops, "S/0")
				outs = append(outs, res)
			}
			sel.UpdateServer(m2)
			ops = append(ops, updateOp(sel, m2, true))
			rp["second_update_same_map_instance"] = upd3
			if !run(m2, upd3, "after a second update that passes the same map instance, edited in place") {
				return
			}
		}
	}
	o.Case("sel wrr "+strings.Join(ops, " "), strings.Join(outs, ","), len(ws) >= 2)
	o.Count(fmt.Sprintf("c12.wrr.n=%d", len(ws)))
}

func c12RR(o *Out, r *rand.Rand, n int) {
	m := map[string]string{}
	for i := 0; i < n; i++ {
		m[fmt.Sprintf("tcp@r%d:1", i)] = ""
	}
	sel := client.VerifNewSelector(client.RoundRobin, m)
	ops := []string{updateOp(sel, m, false)}
	var outs []string
	rp := map[string]any{"n": n}
	check := func(m map[string]string, label string) bool {
		want := map[string]int{}
		for k := range m {
			want[k] = 1
		}
		var seq []string
		for i := 0; i < 3*len(m)+2; i++ {
			res, pv := safeSelect(sel, "Svc", "M", i)
			if pv != nil {
				o.Violate("c12.rr.panic", fmt.Sprint("round-robin Select panicked: ", pv), rp)
				return false
			}
			seq = append(seq, res)
			ops = append(ops, "S/0")
			outs = append(outs, res)
		}
		if msg := checkWindows(seq, want, len(m)); msg != "" {
			o.Violate("c12.rr.exact", label+": "+msg, rp)
			return false
		}
		return true
	}
	if !check(m, "initial") {
		return
	}
	// membership change
	m2 := map[string]string{}
	for k := range m {
		if r.Intn(3) != 0 {
			m2[k] = ""
		}
	}
	for i := 0; i < r.Intn(3); i++ {
		m2[fmt.Sprintf("tcp@x%d:1", r.Intn(5))] = ""
	}
	sel.UpdateServer(m2)
	ops = append(ops, updateOp(sel, m2, false))
	if len(m2) > 0 && !check(m2, "after update") {
		return
	}
	o.Case("sel rr "+strings.Join(ops, " "), strings.Join(outs, ","), n >= 2)
	o.Count(fmt.Sprintf("c12.rr.n=%d", n))
}

func runC12(o *Out, r *rand.Rand) {
	for n := 1; n <= 8; n++ {
		reps := 5
		if thorough() {
			reps = 60
		}
		for i := 0; i < reps; i++ {
			c12RR(o, r, n)
		}
	}
	var vec []int
	var rec func(n int)
	maxW := 6
	rec = func(n int) {
		if n == 0 {
			ws := append([]int(nil), vec...)
			if !thorough() && len(ws) >= 3 && r.Intn(len(ws)*len(ws)) != 0 {
				return
			}
			var upd []int
			if r.Intn(2) == 0 {
				upd = make([]int, 1+r.Intn(4))
				for i := range upd {
					upd[i] = 1 + r.Intn(maxW)
				}
				// same membership, different weights with the same sum is the interesting update
				if r.Intn(2) == 0 && len(ws) >= 2 {
					upd = append([]int(nil), ws...)
					upd[0], upd[len(upd)-1] = upd[len(upd)-1], upd[0]
					if r.Intn(2) == 0 {
						r.Shuffle(len(upd), func(i, j int) { upd[i], upd[j] = upd[j], upd[i] })
					}
				}
			}
			c12Run(o, ws, upd)
			return
		}
		for w := 1; w <= maxW; w++ {
			vec = append(vec, w)
			rec(n - 1)
			vec = vec[:len(vec)-1]
		}
	}
	for n := 1; n <= 4; n++ {
		rec(n)
	}
	nr := 40
	if thorough() {
		nr = 600
	}
	for i := 0; i < nr; i++ {
		ws := make([]int, 2+r.Intn(7))
		for j := range ws {
			ws[j] = 1 + r.Intn(25)
		}
		upd := make([]int, len(ws))
		copy(upd, ws)
		r.Shuffle(len(upd), func(i, j int) { upd[i], upd[j] = upd[j], upd[i] })
		c12Run(o, ws, upd)
	}
}

// ---------------------------------------------------------------------------------------

func runC13(o *Out, r *rand.Rand) {
	n := 300
	if thorough() {
		n = 3000
	}
	for it := 0; it < n; it++ {
		c13History(o, r)
	}
	c13JumpContract(o, r)
}

// c13JumpContract: the one hypothesis of the monotonicity theorems (Sel.JumpOK) checked on the
// real jump consistent hash the doublejump holder calls: the bucket is below n, and one more
// bucket keeps a key where it is or moves it to the new bucket.
func c13JumpContract(o *Out, r *rand.Rand) {
	keys := 400
	if thorough() {
		keys = 6000
	}
	for i := 0; i < keys; i++ {
		key := r.Uint64()
		if i < 8 {
			key = []uint64{0, 1, 2, ^uint64(0), 1 << 63, 1<<63 - 1, 0xc6a4a7935bd1e995, 42}[i]
		}
		prev := jump.Hash(key, 1)
		if prev != 0 {
			o.Violate("c13.jump-contract", fmt.Sprintf("jump.Hash(%d, 1) = %d", key, prev), map[string]any{"key": key, "n": 1})
			return
		}
		for n := 1; n <= 96; n++ {
			next := jump.Hash(key, n+1)
			if next < 0 || int(next) > n || (next != prev && int(next) != n) {
				o.Violate("c13.jump-contract", fmt.Sprintf("jump.Hash(%d, %d) = %d but jump.Hash(%d, %d) = %d: neither the same bucket nor the new one", key, n, prev, key, n+1, next),
					map[string]any{"key": key, "n": n})
				return
			}
			prev = next
		}
		o.Eval(fmt.Sprintf("jump-contract key=%d n=1..97", key), true)
	}
	o.Count("c13.jump-contract.keys")
}

func c13History(o *Out, r *rand.Rand) {
	mkSet := func(n int) map[string]string {
		m := map[string]string{}
		for len(m) < n {
			m[c13Addr(r)] = ""
		}
		return m
	}
	copyMap := func(m map[string]string) map[string]string {
		c := map[string]string{}
		for k, v := range m {
			c[k] = v
		}
		return c
	}
	cur := mkSet(1 + r.Intn(8))
	// call arguments of many shapes: the routing key is "/path/method/args" rendered with %v
	type point struct {
		X, Y int
		Tag  string
	}
	keys := make([]interface{}, 200)
	for i := range keys {
		n := r.Intn(1 << 30)
		switch r.Intn(9) {
		case 0:
			keys[i] = fmt.Sprintf("user-%d", n)
		case 1:
			keys[i] = map[string]string{"tenant": fmt.Sprint(n % 97), "region": "eu", "shard": fmt.Sprint(n % 7)}
		case 2:
			keys[i] = &point{n % 1000, n % 77, "p"}
		case 3:
			keys[i] = point{n % 1000, n % 77, "v"}
		case 4:
			keys[i] = []byte(fmt.Sprint(n))
		case 5:
			keys[i] = map[string]int{"a": n % 5, "b": n % 11, "c": 3}
		case 6:
			keys[i] = nil
		case 7:
			keys[i] = []string{fmt.Sprint(n % 13), "x"}
		default:
			keys[i] = n
		}
	}
	selA := client.VerifNewSelector(client.ConsistentHash, copyMap(cur))
	ops := []string{updateOp(selA, cur, false)}
	var outs []string
	rp := func(what string) map[string]any { return map[string]any{"servers": setStr(cur), "what": what} }
	mapping := func(s client.Selector, record bool) []string {
		res := make([]string, len(keys))
		for i, k := range keys {
			res[i] = s.Select(context.Background(), "Svc", "M", k)
			if record {
				ops = append(ops, fmt.Sprintf("S/%d", hashKey("Svc", "M", k)))
				if res[i] == "" {
					outs = append(outs, "-")
				} else {
					outs = append(outs, res[i])
				}
			}
		}
		return res
	}
	m1 := mapping(selA, true)
	// repetition
	m1b := mapping(selA, false)
	for i := range m1 {
		if m1[i] != m1b[i] {
			o.Violate("c13.unstable.repeat", "the same key mapped to two servers while the server set was unchanged", rp("repeat"))
			return
		}
		if _, ok := cur[m1[i]]; !ok {
			o.Violate("c13.not-in-set", fmt.Sprintf("key mapped to %q which is not in the set", m1[i]), rp("membership"))
			return
		}
	}
	// independently constructed selectors (different map iteration orders) agree
	for j := 0; j < 6; j++ {
		selB := client.VerifNewSelector(client.ConsistentHash, copyMap(cur))
		mb := mapping(selB, false)
		for i := range m1 {
			if m1[i] != mb[i] {
				o.Violate("c13.instances-disagree", fmt.Sprintf("two selectors built from the same %d-server set map key %v to %s and %s", len(cur), keys[i], m1[i], mb[i]), rp("two instances"))
				return
			}
		}
	}
	// re-announce the identical set
	selA.UpdateServer(copyMap(cur))
	ops = append(ops, updateOp(selA, cur, false))
	m2 := mapping(selA, true)
	for i := range m1 {
		if m1[i] != m2[i] {
			o.Violate("c13.unstable.reannounce", "re-announcing the identical set moved a key", rp("re-announce"))
			return
		}
	}
	// a history of updates of every kind, in random order: no-op re-announcements and pure
	// additions are judged against the mapping just before them – also after earlier removals
	// (which leave holes in the ring) – removals and mixed updates for membership only.
	prev := m2
	steps := 2 + r.Intn(5)
	for step := 0; step < steps; step++ {
		kind := []string{"noop", "add", "add", "remove-many", "mixed"}[r.Intn(5)]
		added := map[string]bool{}
		switch kind {
		case "add":
			for i := 0; i < 1+r.Intn(3); i++ {
				k := fmt.Sprintf("tcp@10.1.%d.%d:8972", r.Intn(4), r.Intn(40))
				if _, ok := cur[k]; !ok {
					cur[k] = ""
					added[k] = true
				}
			}
		case "remove-many": // more than half of the servers go away
			target := len(cur) / 3
			if target < 1 {
				target = 1
			}
			for k := range cur {
				if len(cur) > target {
					delete(cur, k)
				}
			}
		case "mixed":
			for k := range cur {
				if r.Intn(3) == 0 && len(cur) > 1 {
					delete(cur, k)
				}
			}
			cur[fmt.Sprintf("tcp@10.2.0.%d:8972", r.Intn(40))] = ""
		}
		selA.UpdateServer(copyMap(cur))
		ops = append(ops, updateOp(selA, cur, false))
		m3 := mapping(selA, true)
		o.Count("c13.update." + kind)
		for i := range m3 {
			if _, ok := cur[m3[i]]; !ok {
				o.Violate("c13.removed-server-selected", fmt.Sprintf("key mapped to %q which is not in the current set", m3[i]), rp(kind))
				return
			}
			switch kind {
			case "noop":
				if m3[i] != prev[i] {
					o.Violate("c13.unstable.reannounce", fmt.Sprintf("re-announcing the identical set (update %d of the history) moved key %v from %s to %s", step+2, keys[i], prev[i], m3[i]), rp("re-announce after history"))
					return
				}
			case "add":
				if m3[i] != prev[i] && !added[m3[i]] {
					o.Violate("c13.not-monotone", fmt.Sprintf("after adding servers only (update %d of the history), key %v moved from %s to the old server %s", step+2, keys[i], prev[i], m3[i]), rp("add-only"))
					return
				}
			}
		}
		// a selector built fresh from the final set need not agree with one that lived through
		// removals (doublejump keeps holes); the property does not ask for that.
		prev = m3
	}
	o.Case("sel hash "+strings.Join(ops, " "), strings.Join(outs, ","), len(cur) >= 2)
	o.Count(fmt.Sprintf("c13.n=%d", len(cur)))
}

// c13Addr: a server address; one host:port may be served over several transports (tcp@h:p, quic@h:p,
// kcp@h:p are three different servers), and ports come in several widths
func c13Addr(r *rand.Rand) string {
	net := []string{"tcp", "tcp", "tcp", "quic", "kcp"}[r.Intn(5)]
	port := []string{"8972", "8972", "8972", "972", "10972"}[r.Intn(5)]
	return fmt.Sprintf("%s@10.0.%d.%d:%s", net, r.Intn(4), r.Intn(12), port)
}
