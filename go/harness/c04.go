package main

import (
	"fmt"
	"math/rand"
	"sort"
	"strings"
	"sync/atomic"
	"time"

	"github.com/smallnest/rpcx/protocol"
	"github.com/smallnest/rpcx/share"
)

func init() {
	rule := "raw protocol peers against a real server (reflected service, registered function, router handler; goroutine-per-request and worker-pool modes): " +
		"pipelined sequences of 1..6 requests over the full flag space (heartbeat x one-way), arbitrary and repeated sequence numbers, " +
		"codecs {JSON, MsgPack, unknown, undecodable body}, handler behaviours {ok, error, panic} with error texts {empty, multi-line, non-ASCII, long}, " +
		"rejections {post-read plugin, rate limit, pre-call plugin, auth token missing/wrong/right}, request compression and reply sizes on both sides of the threshold; " +
		"per request: responses counted and matched (stamp: response type, seq, path, method, serialize type; result computed from its own arguments), handler invocations counted, " +
		"connection state observed; every request is replayed on the Lean server model; non-trivial = request other than a plain successful call; distinct = distinct input line"
	register("c04", "C04 focus (response count, stamping, dispatch styles, pooled argument and reply objects through reflected methods and registered functions): "+rule, func(o *Out, r *rand.Rand) { runSrv(o, r, "c04") })
	register("c07", "C07 focus (failure kinds, error texts, server keeps serving; plus a real client.Client issuing sequential and pipelined failing calls whose errors are kept and judged after later traffic on the same connection; plus a router-handler panic whose reporting (HandleServiceError) is held while other connections are served; plus, in a child process, handlers of all three dispatch styles that panic with an error value and with a typed-nil error whose Error() faults: the server process must survive and keep serving): "+rule, func(o *Out, r *rand.Rand) { runSrv(o, r, "c07") })
	register("c15", "C15 focus (rejections at every stage, flags, tokens; native ingress + gateway + JSON-RPC ingress; accept-stage rejection also on a unix-socket listener, which bypasses the port multiplexer): "+rule, func(o *Out, r *rand.Rand) { runSrv(o, r, "c15"); runC15Ingress(o, r) })
}

type srvReq struct {
	q        rawReq
	target   string // refl func router nosvc nomethod
	mode     string // ok err panic
	text     string
	serKind  string // json msgpack unknown baddata
	reject   string // "", postread, reachlimit, precall
	token    string // "", wrong, good
	size     int
	expErr   string // the server-side error message (for error outcomes)
	contains bool   // expErr must be contained (panic), not equal
}

var errTexts = []string{"", "boom", "line1\nline2\r\nline3", "日本語のエラー ✓ \x00\x01", strings.Repeat("long-", 300), "a=b&c=d %zz", " leading and trailing "}

func genSrvReq(r *rand.Rand, id int, focus string, auth bool) srvReq {
	var s srvReq
	s.target = []string{"refl", "refl", "func", "router", "nosvc", "nomethod"}[r.Intn(6)]
	s.mode = []string{"ok", "ok", "err", "panic"}[r.Intn(4)]
	if focus == "c07" {
		s.mode = []string{"ok", "err", "err", "panic"}[r.Intn(4)]
	}
	s.text = fmt.Sprintf("E%d:", id) + errTexts[r.Intn(len(errTexts))]
	s.serKind = []string{"json", "json", "msgpack", "msgpack", "unknown", "baddata"}[r.Intn(6)]
	s.size = []int{0, 0, 10, 1500, 3000}[r.Intn(5)]
	if r.Intn(5) == 0 {
		s.reject = []string{"postread", "reachlimit", "precall"}[r.Intn(3)]
	}
	if focus == "c15" && r.Intn(2) == 0 {
		s.reject = []string{"postread", "reachlimit", "precall"}[r.Intn(3)]
	}
	if auth {
		s.token = []string{"", "wrong", "good", "good", "good"}[r.Intn(5)]
		if focus == "c15" {
			s.token = []string{"", "wrong", "good"}[r.Intn(3)]
		}
	}
	q := rawReq{id: id, seq: uint64(r.Intn(1 << 20))}
	switch r.Intn(8) {
	case 0:
		q.seq = 0
	case 1:
		q.seq = ^uint64(0)
	case 2:
		q.seq = 7 // repeated on purpose
	}
	switch s.target {
	case "refl":
		q.path, q.method = "Svc", "Do"
	case "func":
		q.path, q.method = "Fn", "Do"
	case "router":
		q.path, q.method = "Rt", "Do"
	case "nosvc":
		q.path, q.method = "Nope", "Do"
	case "nomethod":
		q.path, q.method = "Svc", "Nope"
	}
	q.heartbeat = r.Intn(8) == 0
	q.oneway = r.Intn(5) == 0
	if focus == "c15" {
		q.heartbeat = r.Intn(3) == 0
		q.oneway = r.Intn(3) == 0
	}
	q.meta = map[string]string{"rid": fmt.Sprint(id)}
	if s.reject == "postread" || s.reject == "reachlimit" {
		q.meta["reject"] = s.reject
	}
	if s.token != "" {
		q.meta[share.AuthKey] = s.token
	}
	args := &SArgs{ID: id, Mode: s.mode, Text: s.text, Size: s.size}
	if s.reject == "precall" {
		args.Reject = "precall"
	}
	switch s.serKind {
	case "json":
		q.ser = protocol.JSON
		q.args = args
	case "msgpack":
		q.ser = protocol.MsgPack
		q.args = args
	case "unknown":
		q.ser = protocol.SerializeType(15)
		q.rawBody = []byte(fmt.Sprintf(`{"ID":%d}`, id))
	case "baddata":
		q.ser = protocol.JSON
		q.rawBody = []byte(fmt.Sprintf(`{"ID": %d, "Mode": [broken`, id))
	}
	if r.Intn(4) == 0 {
		q.compress = protocol.Gzip
	}
	s.q = q
	return s
}

// expected describes what the property demands for one request, evaluated by the harness
// from the request alone; the Lean model computes the same from the `srv` line.
func (s *srvReq) describe(auth bool) (line string) {
	hb, ow := "0", "0"
	if s.q.heartbeat {
		hb = "1"
	}
	if s.q.oneway {
		ow = "1"
	}
	authErr := "-"
	if auth && s.token != "good" {
		authErr = hx([]byte(errRigAuth.Error()))
	}
	postread := "ok"
	if s.reject == "postread" {
		postread = "reject"
	} else if s.reject == "reachlimit" {
		postread = "limit"
	}
	codecKnown := "1"
	if s.serKind == "unknown" {
		codecKnown = "0"
	}
	argsErr := "-"
	if s.serKind == "baddata" {
		var a SArgs
		if err := share.Codecs[protocol.JSON].Decode(s.q.rawBody, &a); err != nil {
			argsErr = hx([]byte(err.Error()))
		}
	}
	precall := "-"
	if s.reject == "precall" {
		precall = hx([]byte(errRigPreCall.Error()))
	}
	beh := "ok"
	switch s.mode {
	case "err":
		beh = "err:" + hx([]byte(s.text))
	case "panic":
		beh = "panic:" + hx([]byte(s.text))
	}
	// reply length is only needed relative to the compression threshold
	replyLen := s.size + 30
	return fmt.Sprintf("srv %s%s %s %s %s %s %s %s %s ct=%d ser=%d len=%d path=%s method=%s", hb, ow, s.target, postread, authErr, codecKnown, argsErr, precall, beh,
		s.q.compress, s.q.ser, replyLen, hx([]byte(s.q.path)), hx([]byte(s.q.method)))
}

func runSrv(o *Out, r *rand.Rand, focus string) {
	r = rand.New(rand.NewSource(seed*6151 + int64(focus[2])*17 + int64(focus[1])))
	cases := 60
	if thorough() {
		cases = 700
	}
	id := 1
	// (the experimental AsyncWrite option is not among the modes the properties quantify over: an
	// error response queued for an asynchronous write races with the connection close that follows
	// a failed authentication)
	for _, cfg := range []srvOpts{{}, {pool: true}, {auth: true}, {auth: true, pool: true}} {
		rig, err := newSrvRig(cfg)
		if err != nil {
			o.Violate("srv.rig", "cannot start the server: "+err.Error(), nil)
			return
		}
		for c := 0; c < cases; c++ {
			n := 1 + r.Intn(6)
			reqs := make([]srvReq, n)
			seen := map[uint64]bool{}
			for i := range reqs {
				reqs[i] = genSrvReq(r, id, focus, cfg.auth)
				// responses are matched to requests by (seq, path, method): keep seqs distinct within
				// a sequence here; repeated sequence numbers are exercised below with replies that
				// identify their request by content
				for seen[reqs[i].q.seq] {
					reqs[i].q.seq = uint64(r.Intn(1 << 30))
				}
				seen[reqs[i].q.seq] = true
				id++
			}
			srvCase(o, rig, reqs, cfg)
			if c%10 == 0 {
				// the same sequence number on every request of a pipelined burst
				k := 2 + r.Intn(5)
				same := make([]srvReq, k)
				sq := []uint64{0, 7, ^uint64(0)}[r.Intn(3)]
				for i := range same {
					same[i] = genSrvReq(r, id, focus, cfg.auth)
					same[i].q.seq = sq
					same[i].reject, same[i].serKind, same[i].target, same[i].mode = "", "json", []string{"refl", "func", "router"}[r.Intn(3)], []string{"ok", "err"}[r.Intn(2)]
					same[i].q.heartbeat, same[i].q.oneway = false, false
					same[i].token = "good"
					same[i].q.ser = protocol.JSON
					same[i].q.rawBody = nil
					same[i].q.args = &SArgs{ID: id, Mode: same[i].mode, Text: same[i].text, Size: same[i].size}
					same[i].q.meta = map[string]string{"rid": fmt.Sprint(id), share.AuthKey: "good"}
					switch same[i].target {
					case "refl":
						same[i].q.path, same[i].q.method = "Svc", "Do"
					case "func":
						same[i].q.path, same[i].q.method = "Fn", "Do"
					default:
						same[i].q.path, same[i].q.method = "Rt", "Do"
					}
					id++
				}
				srvCase(o, rig, same, cfg)
			}
		}
		if focus == "c07" {
			c07Client(o, rig, r, &id, cfg)
			c07PanicHold(o, rig, r, &id, cfg)
			if !cfg.auth && !cfg.pool {
				c07AwkwardPanics(o)
			}
		}
		if focus == "c04" && !cfg.auth {
			srvPooled(o, rig, r, &id, "c04")
		}
		if focus == "c04" {
			bursts := 5
			if thorough() {
				bursts = 40
			}
			for b := 0; b < bursts; b++ {
				srvBurst(o, rig, r, &id, cfg)
			}
		}
		rig.close()
	}
}

type obs struct {
	resp    []*protocol.Message
	invoked int
}

func srvCase(o *Out, rig *srvRig, reqs []srvReq, cfg srvOpts) {
	p, err := dialRaw(rig.addr)
	if err != nil {
		o.Violate("srv.rig", "cannot connect: "+err.Error(), nil)
		return
	}
	defer p.c.Close()
	// A request that makes the server close the connection (post-read rejection, failed auth)
	// is sent only after the earlier requests have been answered: closing the connection
	// discards whatever is still in flight on it, which is not what C04/C07 are about.
	closes := func(s *srvReq) bool {
		a := cfg.auth && s.token != "good" && !s.q.heartbeat
		return s.reject == "postread" || (a && s.reject != "reachlimit")
	}
	cut := len(reqs)
	for i := range reqs {
		if closes(&reqs[i]) {
			cut = i
			break
		}
	}
	want := 0
	for i := 0; i < cut; i++ {
		if err := p.send(reqs[i].q); err != nil {
			o.Violate("srv.rig", "send failed: "+err.Error(), nil)
			return
		}
		if reqs[i].q.heartbeat || !reqs[i].q.oneway {
			want++
		}
	}
	var msgs []*protocol.Message
	closed := false
	if cut > 0 {
		msgs, closed = p.readAll(want, 400*time.Millisecond)
	}
	if cut < len(reqs) && !closed {
		reqs = reqs[:cut+1]
		if err := p.send(reqs[cut].q); err == nil {
			w2 := 0
			if !reqs[cut].q.oneway {
				w2 = 1
			}
			m2, c2 := p.readAll(w2, 300*time.Millisecond)
			msgs = append(msgs, m2...)
			closed = c2
		}
	} else {
		reqs = reqs[:cut]
	}
	time.Sleep(2 * time.Millisecond)
	// match responses to requests: by the rid the server echoes in error texts / replies, else by seq+path
	byReq := make([]obs, len(reqs))
	used := make([]bool, len(msgs))
	for i := range reqs {
		byReq[i].invoked = rig.invocations(reqs[i].q.id)
	}
	// match every response to a request: same (seq, path, method); among several candidates
	// prefer the one whose id shows in the content (error text tag, reply ID, echoed rid)
	contentID := func(m *protocol.Message) int {
		if rid, ok := m.Metadata["rid"]; ok {
			var v int
			if _, err := fmt.Sscan(rid, &v); err == nil {
				return v
			}
		}
		if e, ok := m.Metadata[protocol.ServiceError]; ok {
			if k := strings.Index(e, "E"); k >= 0 {
				var v int
				if _, err := fmt.Sscanf(e[k:], "E%d:", &v); err == nil {
					return v
				}
			}
		}
		if m.MessageStatusType() == protocol.Normal && len(m.Payload) > 0 {
			var rp SReply
			if codec := share.Codecs[m.SerializeType()]; codec != nil && codec.Decode(m.Payload, &rp) == nil && rp.ID != 0 {
				return rp.ID
			}
		}
		return 0
	}
	for j, m := range msgs {
		cid := contentID(m)
		best := -1
		for i := range reqs {
			q := reqs[i].q
			if m.Seq() != q.seq || m.ServicePath != q.path || m.ServiceMethod != q.method {
				continue
			}
			if cid != 0 && cid == q.id {
				best = i
				break
			}
			if best < 0 && len(byReq[i].resp) == 0 && cid == 0 {
				best = i
			}
		}
		if best >= 0 {
			used[j] = true
			byReq[best].resp = append(byReq[best].resp, m)
		}
	}
	for j, m := range msgs {
		if !used[j] {
			o.Violate("srv.unmatched-response", fmt.Sprintf("the server sent a response (seq %d, %s.%s) that answers none of the requests", m.Seq(), m.ServicePath, m.ServiceMethod), map[string]any{"requests": srvLines(reqs, cfg.auth)})
		}
	}
	for i := range reqs {
		s := &reqs[i]
		line := s.describe(cfg.auth)
		ob := byReq[i]
		status, etext := "-", "-"
		stamped := "-"
		if len(ob.resp) > 0 {
			m := ob.resp[0]
			status = "N"
			if m.MessageStatusType() == protocol.Error {
				status = "E"
				etext = hx([]byte(m.Metadata[protocol.ServiceError]))
			}
			stamped = "1"
			if m.MessageType() != protocol.Response || m.Seq() != s.q.seq || m.ServicePath != s.q.path || m.ServiceMethod != s.q.method || m.SerializeType() != s.q.ser {
				stamped = "0"
				o.Violate("c04.stamp", fmt.Sprintf("response does not carry the request's identity: type=%v seq=%d path=%q method=%q ser=%d", m.MessageType(), m.Seq(), m.ServicePath, m.ServiceMethod, m.SerializeType()), map[string]any{"request": line})
			}
			if s.q.heartbeat && status == "N" {
				// echo of itself
				if string(m.Payload) != string(payloadOf(s.q)) {
					o.Violate("c04.heartbeat-echo", "the heartbeat answer is not an echo of the request", map[string]any{"request": line})
				}
			} else if status == "N" {
				var rp SReply
				codec := share.Codecs[m.SerializeType()]
				if codec == nil || codec.Decode(m.Payload, &rp) != nil || rp.ID != s.q.id || rp.Data != strings.Repeat("x", s.size)+fmt.Sprint(s.q.id) {
					o.Violate("c04.wrong-result", "the response does not hold the result computed from this request's own arguments", map[string]any{"request": line})
				}
			}
		}
		if s.mode == "panic" && status == "E" && strings.Contains(string(unhx(etext)), s.text) {
			// a panic is reported by a message CONTAINING the panic value: canonicalise
			etext = "contains:" + hx([]byte(s.text))
		}
		after := "next"
		if closed && i == len(reqs)-1 {
			after = "close"
		}
		o.SpecCase(line, fmt.Sprintf("writes=%d status=%s err=%s invoked=%d after=%s stamped=%s", len(ob.resp), status, etext, ob.invoked, after, stamped),
			!(s.mode == "ok" && s.reject == "" && s.target == "refl" && s.serKind == "json" && !s.q.heartbeat && !s.q.oneway))
		o.Count("target." + s.target)
		o.Count("mode." + s.mode)
		if len(ob.resp) == 0 && !s.q.oneway && s.reject == "" && (s.target == "func" || s.target == "refl") && s.serKind != "unknown" {
			o.Note("no response for %s in sequence %v (closed=%v, %d msgs)", line, srvLines(reqs, cfg.auth), closed, len(msgs))
		}
		if ob.invoked > 1 {
			o.Violate("c04.invoked-twice", fmt.Sprintf("the handler ran %d times for one request", ob.invoked), map[string]any{"request": line})
		}
	}
}

func payloadOf(q rawReq) []byte {
	if q.rawBody != nil {
		return q.rawBody
	}
	codec := share.Codecs[q.ser]
	if codec == nil || q.args == nil {
		return nil
	}
	b, _ := codec.Encode(q.args)
	return b
}

func srvLines(reqs []srvReq, auth bool) []string {
	var out []string
	for i := range reqs {
		out = append(out, reqs[i].describe(auth))
	}
	return out
}

// pooled Reset-able argument and reply objects under concurrent requests (C04 / C20)
func srvPooled(o *Out, rig *srvRig, r *rand.Rand, id *int, pfx string) {
	conns := 4
	per := 40
	if thorough() {
		conns, per = 8, 300
		if rig.opts.async && rig.opts.pool {
			// AsyncWrite submits the response write to the SAME worker pool (8 workers, queue of 1000)
			// that runs the handlers: with more than a queue-full of pipelined requests outstanding every
			// worker blocks submitting its write behind a queue full of requests and nothing moves any
			// more.  That is a liveness limit of the experimental AsyncWrite+WithPool combination, outside
			// what C04/C20 state; the scenario stays below it.
			per = 100
		}
	}
	atomic.StoreInt32(&rig.pooledBad, 0)
	atomic.StoreInt32(&rig.pooledReplyBad, 0)
	type res struct {
		bad string
	}
	ch := make(chan res, conns)
	base := *id
	*id += conns * per
	for c := 0; c < conns; c++ {
		go func(c int) {
			p, err := dialRaw(rig.addr)
			if err != nil {
				ch <- res{"dial: " + err.Error()}
				return
			}
			defer p.c.Close()
			want := map[int]int{}
			wantErr := map[int]bool{}
			n := 0
			for i := 0; i < per; i++ {
				rid := base + c*per + i
				a, b := rid%97, rid%89
				// reflected service method and registered function take turns, connection by connection
				// and within a connection
				path := "Svc"
				if (c+i/5)%2 == 1 {
					path = "Fn"
				}
				q := rawReq{id: rid, seq: uint64(rid), path: path, method: "Pooled", ser: protocol.JSON,
					args: &PArgs{ID: rid, A: a, B: b, Check: a*31 + b}, meta: map[string]string{"rid": fmt.Sprint(rid)}}
				failing := false
				if i%11 == 5 {
					q.args.(*PArgs).Mode = "err" // a failing handler: the reply object is still returned to the pool
					failing = true
				}
				if i%17 == 9 {
					q.args.(*PArgs).Mode = "veto" // the handler succeeds, a PostCall plugin fails the call afterwards
					failing = true
				}
				unencodable := false
				if i%13 == 7 && !q.oneway && !failing {
					q.args.(*PArgs).Mode = "nan" // the handler succeeds but its reply cannot be encoded
					unencodable = true
				}
				if i%7 == 3 && !unencodable {
					q.oneway = true // one-way requests use (and must return) pooled objects too
				} else if unencodable || failing {
					// answered with a service error (what the payload of an error response holds differs
					// between the dispatch styles and is nobody's concern)
					wantErr[rid] = true
					n++
				} else {
					want[rid] = a + b
					n++
				}
				if err := p.send(q); err != nil {
					ch <- res{"send: " + err.Error()}
					return
				}
			}
			msgs, _ := p.readAll(n, 2*time.Second)
			if len(msgs) != n {
				ch <- res{fmt.Sprintf("%d responses for %d two-way requests", len(msgs), n)}
				return
			}
			for _, m := range msgs {
				var rp PReply
				if wantErr[int(m.Seq())] {
					if m.MessageStatusType() != protocol.Error {
						ch <- res{fmt.Sprintf("request %d (failing handler or unencodable reply) was not answered with an error", m.Seq())}
						return
					}
					continue
				}
				if err := share.Codecs[protocol.JSON].Decode(m.Payload, &rp); err != nil {
					ch <- res{"undecodable reply"}
					return
				}
				if int(m.Seq()) != rp.ID || want[rp.ID] != rp.Sum {
					ch <- res{fmt.Sprintf("response seq %d carries reply {ID:%d Sum:%d}, want Sum %d", m.Seq(), rp.ID, rp.Sum, want[int(m.Seq())])}
					return
				}
			}
			ch <- res{}
		}(c)
	}
	var bads []string
	for c := 0; c < conns; c++ {
		if x := <-ch; x.bad != "" {
			bads = append(bads, x.bad)
		}
	}
	sort.Strings(bads)
	o.Eval(fmt.Sprintf("pooled %dx%d", conns, per), true)
	if len(bads) > 0 {
		o.Violate(pfx+".pooled.cross-wired", "concurrent requests with pooled reply objects: "+bads[0], map[string]any{"connections": conns, "per_connection": per, "worker_pool": rig.opts.pool, "async_write": rig.opts.async, "all": bads})
	}
	if n := atomic.LoadInt32(&rig.pooledBad); n > 0 {
		o.Violate(pfx+".pooled.args-shared", fmt.Sprintf("a pooled argument object changed under a running handler %d times (shared between two requests in flight)", n), map[string]any{"connections": conns})
	}
	if n := atomic.LoadInt32(&rig.pooledReplyBad); n > 0 {
		o.Violate(pfx+".pooled.reply-shared", fmt.Sprintf("a pooled reply object changed under a running handler %d times (the same object handed to two requests in flight)", n), map[string]any{"connections": conns, "per_connection": per, "one_way_every": 7})
	}
}

// srvBurst: several big-reply requests pipelined on ONE connection, their handlers released
// together, so that the responses are produced at the same moment; every request must still get
// exactly one response carrying its own identity and the result computed from its own arguments.
func srvBurst(o *Out, rig *srvRig, r *rand.Rand, id *int, cfg srvOpts) {
	k := 5 + r.Intn(4)
	// the server side of this connection is a transport that may pause between two Write calls
	// (never inside one): responses put on the wire with several writes can then interleave
	// (the connection reaches the accept plugin only once its first bytes have been classified by
	// the port multiplexer, i.e. after the first request has been sent)
	atomic.StoreInt32(&wrapChunky, 2)
	defer atomic.StoreInt32(&wrapChunky, 0)
	before := atomic.LoadInt32(&rig.accepted)
	p, err := dialRaw(rig.addr)
	if err != nil {
		o.Violate("srv.rig", "cannot connect: "+err.Error(), nil)
		return
	}
	defer p.c.Close()
	ids := make([]int, k)
	sizes := make([]int, k)
	gates := make([]chan struct{}, k)
	starts := make([]chan struct{}, k)
	for i := range ids {
		*id++
		ids[i] = *id
		sizes[i] = []int{100, 5000, 5000, 20000, 20000, 20000, 70000}[r.Intn(7)]
		gates[i], starts[i] = rig.gate(ids[i])
		meta := map[string]string{"rid": fmt.Sprint(ids[i])}
		if cfg.auth {
			meta[share.AuthKey] = "good"
		}
		q := rawReq{id: ids[i], seq: uint64(ids[i]), path: "Svc", method: "Do", ser: protocol.JSON, meta: meta, args: &SArgs{ID: ids[i], Mode: "ok", Size: sizes[i]}}
		if err := p.send(q); err != nil {
			o.Violate("srv.rig", "send failed: "+err.Error(), nil)
			return
		}
	}
	for i := 0; i < 2000 && atomic.LoadInt32(&rig.accepted) == before; i++ {
		time.Sleep(100 * time.Microsecond)
	}
	atomic.StoreInt32(&wrapChunky, 0)
	// let the handlers start (they park at their gates), then release them together; a handler
	// that starts later finds its gate open
	deadline := time.Now().Add(30 * time.Millisecond)
	for i := range starts {
		select {
		case <-starts[i]:
		case <-time.After(time.Until(deadline)):
		}
	}
	for i := range gates {
		close(gates[i])
	}
	msgs, _ := p.readAll(k, 3*time.Second)
	rp := map[string]any{"requests_on_one_connection": k, "reply_sizes": fmt.Sprint(sizes), "pool": cfg.pool, "auth": cfg.auth}
	o.Eval(fmt.Sprintf("burst %v", rp), true)
	o.Count("burst")
	seen := map[int]int{}
	for _, m := range msgs {
		var rpv SReply
		if m.MessageType() != protocol.Response || m.ServicePath != "Svc" || m.ServiceMethod != "Do" || m.MessageStatusType() != protocol.Normal ||
			share.Codecs[protocol.JSON].Decode(m.Payload, &rpv) != nil || uint64(rpv.ID) != m.Seq() {
			o.Violate("c04.burst.corrupt-response", fmt.Sprintf("a response of a pipelined burst is not a well-formed answer to one of the requests (seq %d, %d payload bytes)", m.Seq(), len(m.Payload)), rp)
			return
		}
		seen[rpv.ID]++
		for i := range ids {
			if ids[i] == rpv.ID && rpv.Data != strings.Repeat("x", sizes[i])+fmt.Sprint(ids[i]) {
				o.Violate("c04.burst.wrong-result", "a response of a pipelined burst does not hold the result computed from its own request's arguments", rp)
				return
			}
		}
	}
	for _, x := range ids {
		if seen[x] != 1 {
			o.Violate("c04.burst.response-count", fmt.Sprintf("request %d of a pipelined burst got %d responses (%d of %d responses arrived intact)", x, seen[x], len(msgs), k), rp)
			return
		}
	}
}
