package main

import (
	"context"
	"errors"
	"fmt"
	"math/rand"
	"net"
	"runtime"
	"strings"
	"sync"
	"sync/atomic"
	"time"

	"github.com/smallnest/rpcx/client"
)

func init() {
	register("c18", "circuit breaker: every sequence over {ok, failure, timeout} x {window elapsed before the call, not elapsed} up to the tier's length, "+
		"for thresholds 1..5, run against a real ConsecCircuitBreaker with measured clock readings (a sequence whose measured gaps are too close to the window "+
		"to judge is re-run, never judged); the measured times are given to the Lean model; direct oracle: ErrBreakerOpen <=> function not invoked, and the "+
		"refusal pattern equals the consecutive-failure rule; plus dial counting through an XClient configured with a breaker (all fail modes x retries; Failfast runs replayed attempt by attempt on the Lean dial model); "+
		"plus scripts through the exported Breaker interface (Fail x threshold, a late Fail while open, Ready before / after the window of the most recent failure); "+
		"non-trivial = sequence in which the breaker is refused at least once or recovers; distinct = distinct (threshold, step pattern)",
		runC18)
}

const (
	brkWindow  = 300 * time.Millisecond
	brkElapsed = 420 * time.Millisecond
	brkTimeout = 15 * time.Millisecond
	brkSlowFn  = 50 * time.Millisecond
)

type brkStep struct {
	elapsed bool
	kind    int // 0 ok, 1 failure, 2 timeout
}

type brkObs struct {
	t, t2   int64 // ns since base: before Call, after Call
	res     byte  // R K F
	invoked bool
}

var errBrkFail = errors.New("verif: protected function failed")

func runBrkSeq(th int, steps []brkStep) ([]brkObs, bool) {
	cb := client.NewConsecCircuitBreaker(uint64(th), brkWindow)
	base := time.Now()
	obs := make([]brkObs, 0, len(steps))
	judgeable := true
	var lastEnd time.Duration
	for i, st := range steps {
		if st.elapsed {
			time.Sleep(brkElapsed)
		}
		var invoked int32
		var fn func() error
		var d time.Duration
		switch st.kind {
		case 0:
			fn = func() error { atomic.AddInt32(&invoked, 1); return nil }
		case 1:
			fn = func() error { atomic.AddInt32(&invoked, 1); return errBrkFail }
		default:
			fn = func() error { atomic.AddInt32(&invoked, 1); time.Sleep(brkSlowFn); return nil }
			d = brkTimeout
		}
		t := time.Since(base)
		err := cb.Call(fn, d)
		t2 := time.Since(base)
		if st.kind == 2 {
			time.Sleep(brkSlowFn) // let the abandoned goroutine finish before reading `invoked`
		}
		var res byte
		switch {
		case errors.Is(err, client.ErrBreakerOpen):
			res = 'R'
		case err == nil:
			res = 'K'
		default:
			res = 'F'
		}
		obs = append(obs, brkObs{int64(t), int64(t2), res, atomic.LoadInt32(&invoked) > 0})
		// gaps must be clearly on one side of the window
		gap := t - lastEnd
		if i > 0 || st.elapsed {
			if st.elapsed && gap < brkWindow+brkWindow/5 {
				judgeable = false
			}
			if !st.elapsed && i > 0 && gap > brkWindow/3 {
				judgeable = false
			}
		}
		if t2-t > brkWindow/3 {
			judgeable = false
		}
		// a "timeout" step means: the protected function is still running when the breaker's
		// timer fires.  On a starved machine the call may take so long that the function has
		// finished too and the breaker legitimately takes its result: such a run is repeated
		if st.kind == 2 && (res == 'K' || t2-t >= brkSlowFn-brkSlowFn/10) {
			judgeable = false
		}
		lastEnd = t2
		if st.kind == 2 {
			lastEnd = time.Since(base)
		}
	}
	return obs, judgeable
}

// the property's rule, evaluated on the observed history alone (no model)
func brkOracle(th int, steps []brkStep, obs []brkObs) string {
	consec := 0
	for i, st := range steps {
		open := consec >= th && !st.elapsed
		if i == 0 {
			open = false
		}
		if st.elapsed {
			consec = 0
		}
		want := byte('R')
		if !open {
			switch st.kind {
			case 0:
				want = 'K'
				consec = 0
			default:
				want = 'F'
				consec++
			}
		}
		if obs[i].res != want {
			return fmt.Sprintf("call %d: breaker answered %c, the consecutive-failure rule says %c", i, obs[i].res, want)
		}
		if (obs[i].res == 'R') == obs[i].invoked {
			return fmt.Sprintf("call %d: refused=%v but protected function invoked=%v", i, obs[i].res == 'R', obs[i].invoked)
		}
	}
	return ""
}

func stepsStr(steps []brkStep) string {
	var sb strings.Builder
	for _, s := range steps {
		if s.elapsed {
			sb.WriteByte('~')
		}
		sb.WriteByte("kft"[s.kind])
	}
	return sb.String()
}

func runC18(o *Out, r *rand.Rand) {
	type job struct {
		th    int
		steps []brkStep
	}
	var jobs []job
	maxLen := 4
	if thorough() {
		maxLen = 6
	}
	// exhaustive up to maxLen for every threshold (thorough), sampled in quick
	var gen func(prefix []brkStep, n int, f func([]brkStep))
	gen = func(prefix []brkStep, n int, f func([]brkStep)) {
		if n == 0 {
			f(append([]brkStep(nil), prefix...))
			return
		}
		for k := 0; k < 3; k++ {
			for _, e := range []bool{false, true} {
				gen(append(prefix, brkStep{e, k}), n-1, f)
			}
		}
	}
	for th := 1; th <= 5; th++ {
		for l := 1; l <= maxLen; l++ {
			gen(nil, l, func(s []brkStep) {
				if !thorough() && l >= 4 && r.Intn(4) != 0 {
					return
				}
				jobs = append(jobs, job{th, s})
			})
		}
		// longer random sequences
		nr := 60
		if thorough() {
			nr = 1500
		}
		for i := 0; i < nr; i++ {
			l := 7 + r.Intn(4)
			s := make([]brkStep, l)
			for j := range s {
				s[j] = brkStep{r.Intn(4) == 0, []int{0, 1, 1, 1, 2}[r.Intn(5)]}
			}
			jobs = append(jobs, job{th, s})
		}
	}
	const batch = 6000
	unjudged := 0
	for off := 0; off < len(jobs); off += batch {
		end := off + batch
		if end > len(jobs) {
			end = len(jobs)
		}
		var wg sync.WaitGroup
		results := make([][]brkObs, end-off)
		for i := off; i < end; i++ {
			wg.Add(1)
			go func(i int) {
				defer wg.Done()
				for try := 0; try < 4; try++ {
					obs, ok := runBrkSeq(jobs[i].th, jobs[i].steps)
					if ok {
						results[i-off] = obs
						return
					}
				}
			}(i)
		}
		wg.Wait()
		for i := off; i < end; i++ {
			obs := results[i-off]
			if obs == nil {
				unjudged++
				continue
			}
			j := jobs[i]
			var parts []string
			var res []byte
			nontrivial := false
			for k, ob := range obs {
				okb := 0
				if j.steps[k].kind == 0 {
					okb = 1
				}
				parts = append(parts, fmt.Sprintf("%d:%d:%d", ob.t, ob.t2, okb))
				res = append(res, ob.res)
				if ob.res == 'R' {
					nontrivial = true
				}
			}
			o.Case(fmt.Sprintf("brk %d %d %s", j.th, int64(brkWindow), strings.Join(parts, ",")), string(res), nontrivial)
			o.Count(fmt.Sprintf("threshold.%d", j.th))
			o.Count(fmt.Sprintf("len.%d", len(j.steps)))
			if msg := brkOracle(j.th, j.steps, obs); msg != "" {
				o.Violate("c18.breaker.rule", msg, map[string]any{"threshold": j.th, "steps": stepsStr(j.steps), "window_ms": brkWindow.Milliseconds(), "observed": string(res)})
			}
		}
	}
	if unjudged > 0 {
		o.Note("%d sequences could not be judged (machine too slow for the timing margins after 4 tries); they are not counted", unjudged)
		o.counters["unjudged"] = unjudged
	}
	c18Dial(o, r)
	c18Direct(o, r)
	c18Conc(o, r)
}

// ---- XClient wiring: a discovery client with a breaker stops dialling ----------------

var c18Dials int64

func init() {
	client.ConnFactories["verifdead"] = func(c *client.Client, network, address string) (net.Conn, error) {
		atomic.AddInt64(&c18Dials, 1)
		return nil, errors.New("verif: connection refused")
	}
}

func c18Dial(o *Out, r *rand.Rand) {
	type cfg struct {
		mode    client.FailMode
		retries int
	}
	cfgs := []cfg{{client.Failfast, 0}, {client.Failtry, 0}, {client.Failtry, 2}, {client.Failover, 2}, {client.Failover, 0}}
	for ci, th := range []int{1, 2, 3, 5, 3, 4, 2} {
		c := cfgs[ci%len(cfgs)]
		if thorough() {
			c = cfgs[(ci+int(seed))%len(cfgs)]
		}
		c18DialCase(o, th, c.mode, c.retries)
	}
	if thorough() {
		for _, c := range cfgs {
			for _, th := range []int{1, 3} {
				c18DialCase(o, th, c.mode, c.retries)
			}
		}
	}
}

func c18ErrKind(err error) string {
	if err == nil {
		return "nil"
	} else if errors.Is(err, client.ErrBreakerOpen) || strings.Contains(err.Error(), "breaker open") {
		return "open"
	}
	return "dial"
}

func c18DialCase(o *Out, th int, mode client.FailMode, retries int) {
	{
		window := 400 * time.Millisecond
		opt := client.DefaultOption
		opt.Retries = retries
		opt.GenBreaker = func() client.Breaker { return client.NewConsecCircuitBreaker(uint64(th), window) }
		d, _ := client.NewPeer2PeerDiscovery("verifdead@dead-"+fmt.Sprint(th), "")
		xc := client.NewXClient("Svc", mode, client.RandomSelect, d, opt)
		atomic.StoreInt64(&c18Dials, 0)
		start := time.Now()
		var errs []string
		n := th + 4
		for i := 0; i < n; i++ {
			var reply int
			errs = append(errs, c18ErrKind(xc.Call(context.Background(), "M", 1, &reply)))
		}
		took := time.Since(start)
		dials := atomic.LoadInt64(&c18Dials)
		o.Eval(fmt.Sprintf("dial th=%d n=%d mode=%v retries=%d", th, n, mode, retries), true)
		o.Count("dial.cases")
		o.Count(fmt.Sprintf("dial.mode=%v", mode))
		rp := map[string]any{"threshold": th, "calls": n, "dials": dials, "errors": errs, "fail_mode": fmt.Sprint(mode), "retries": retries}
		judged := took < window/2
		if judged {
			if dials != int64(th) {
				o.Violate("c18.xclient.dials", fmt.Sprintf("threshold %d: %d consecutive failing calls inside the window caused %d dials (want exactly %d, then refusals)", th, n, dials, th), rp)
			}
			for i, e := range errs {
				if i >= th && e != "open" {
					o.Violate("c18.xclient.notopen", fmt.Sprintf("threshold %d: call %d after %d dial failures was not refused by the breaker (%s)", th, i, th, e), rp)
					break
				}
			}
		} else {
			o.Note("dial case th=%d took %v: too slow to judge", th, took)
		}
		// after the window the client dials again
		time.Sleep(window + window/3)
		before := atomic.LoadInt64(&c18Dials)
		var reply int
		lastErr := xc.Call(context.Background(), "M", 1, &reply)
		if atomic.LoadInt64(&c18Dials) <= before { // (retrying modes may dial more than once)
			o.Violate("c18.xclient.norecover", fmt.Sprintf("threshold %d: after the window elapsed the client did not dial again", th), rp)
		}
		// model tie (Dial.run, theorem dial_count): with one connection attempt per call (Failfast) the
		// attempt-by-attempt verdicts and the number of dials are the model's; the model gets the same
		// schedule in abstract time (n attempts inside one window, one after it)
		if judged && mode == client.Failfast {
			var steps []string
			for i := 0; i < n; i++ {
				steps = append(steps, fmt.Sprintf("%d:%d:0", i+1, i+1))
			}
			after := int64(window) * 2
			steps = append(steps, fmt.Sprintf("%d:%d:0", after, after))
			letters := ""
			for _, e := range append(append([]string{}, errs...), c18ErrKind(lastErr)) {
				letters += map[string]string{"nil": "K", "open": "O", "dial": "D"}[e]
			}
			o.Case(fmt.Sprintf("brk dial %d %d %s", th, int64(window), strings.Join(steps, ",")),
				fmt.Sprintf("%s dials=%d", letters, atomic.LoadInt64(&c18Dials)), true)
		}
		xc.Close()
	}
}

// c18Direct: the breaker through its exported Breaker interface (Ready / Fail / Success – what the
// discovery client uses, and what concurrent callers of Call amount to): failures reported while the
// breaker is already open are failures too – the window runs from the MOST RECENT one.
func c18Direct(o *Out, r *rand.Rand) {
	window := 120 * time.Millisecond
	ths := []int{1, 2, 3}
	if thorough() {
		ths = []int{1, 2, 3, 4, 5}
	}
	for _, th := range ths {
		for attempt := 0; attempt < 3; attempt++ {
			var b client.Breaker = client.NewConsecCircuitBreaker(uint64(th), window)
			for i := 0; i < th; i++ {
				b.Fail()
			}
			trip := time.Now()
			openAtOnce := !b.Ready()
			time.Sleep(80 * time.Millisecond)
			b.Fail() // a straggler: a caller that had passed Ready() before the breaker opened
			last := time.Now()
			time.Sleep(70 * time.Millisecond)
			t1 := time.Now()
			ready1 := b.Ready()
			t1b := time.Now()
			// judged only when the clock readings are clearly on the intended sides of the window
			if t1.Sub(trip) < window+8*time.Millisecond || t1b.Sub(last) > window-15*time.Millisecond {
				o.Note("direct breaker script th=%d: measured gaps too close to the window to judge (%v, %v)", th, t1.Sub(trip), t1b.Sub(last))
				continue
			}
			time.Sleep(window)
			ready2 := b.Ready()
			o.Eval(fmt.Sprintf("direct th=%d fail*%d wait fail wait ready wait ready", th, th), true)
			o.Count("direct.scripts")
			rp := map[string]any{"threshold": th, "window_ms": window.Milliseconds(), "script": fmt.Sprintf("Fail x%d; +80ms Fail; +70ms Ready; +%dms Ready", th, window.Milliseconds()),
				"since_trip_ms": t1.Sub(trip).Milliseconds(), "since_most_recent_failure_ms": t1b.Sub(last).Milliseconds(), "ready": []bool{ready1, ready2}}
			if !openAtOnce {
				o.Violate("c18.direct.not-open", fmt.Sprintf("threshold %d: Ready() is true right after %d consecutive failures", th, th), rp)
				return
			}
			if ready1 {
				o.Violate("c18.direct.window-from-most-recent-failure", fmt.Sprintf("threshold %d: %v after the most recent failure (window %v) the breaker admits calls again – it measured the window from the failure that tripped it", th, t1b.Sub(last).Round(time.Millisecond), window), rp)
				return
			}
			if !ready2 {
				o.Violate("c18.direct.no-recovery", fmt.Sprintf("threshold %d: the breaker still refuses a full window after the most recent failure", th), rp)
				return
			}
			break
		}
	}
}

// c18Conc: concurrent callers of one breaker.  What every interleaving of the breaker's atomic
// operations guarantees is a theorem over the micro-step model (Props.C18.conc_admission_bound,
// conc_open_admits_nothing, conc_failures_exact); here the same statements are judged on the real
// breaker under real goroutine schedules: with k callers whose protected function always fails, inside
// one window and after a success, the function is started at least `threshold` and at most
// `threshold + k − 1` times, every other call is refused with ErrBreakerOpen, and the breaker is open
// afterwards.  (A lost update of the failure counter, or a readiness check that does not look at it,
// shows as too many starts.)
func c18Conc(o *Out, r *rand.Rand) {
	// no lost failures (Props.C18.conc_failures_exact): k goroutines record N-1 failures in all, against a
	// threshold of exactly N: the breaker must still admit; one more failure must open it.
	for _, k := range []int{4, 16} {
		per := 3000
		n := k * per
		cb := client.NewConsecCircuitBreaker(uint64(n), time.Hour)
		cb.Success()
		var wg sync.WaitGroup
		for i := 0; i < k; i++ {
			wg.Add(1)
			go func(i int) {
				defer wg.Done()
				m := per
				if i == 0 {
					m = per - 1
				}
				for j := 0; j < m; j++ {
					cb.Fail()
				}
			}(i)
		}
		wg.Wait()
		before := cb.Ready()
		cb.Fail()
		after := cb.Ready()
		o.Eval(fmt.Sprintf("conc fail-count k=%d", k), true)
		o.Count("conc.failcount.runs")
		rp := map[string]any{"callers": k, "threshold": n, "failures_recorded_concurrently": n - 1, "ready_before_last": before, "ready_after_last": after,
			"theorem": "Props.C18.conc_failures_exact"}
		if !before {
			o.Violate("c18.conc.count-too-high", fmt.Sprintf("%d failures recorded by %d goroutines, threshold %d: the breaker is already open", n-1, k, n), rp)
			return
		}
		if after {
			o.Violate("c18.conc.lost-failure", fmt.Sprintf("%d failures recorded (all but one concurrently, by %d goroutines) inside one window, threshold %d: the breaker still admits calls – concurrent failures were lost", n, k, n), rp)
			return
		}
	}
	ths := []int{1, 2, 3, 5}
	ks := []int{2, 4, 8, 16}
	rounds := 6
	if thorough() {
		rounds = 40
	}
	for round := 0; round < rounds; round++ {
		for _, th := range ths {
			for _, k := range ks {
				for _, viaCall := range []bool{true, false} {
					cb := client.NewConsecCircuitBreaker(uint64(th), time.Hour)
					cb.Success() // the window runs from now: nobody finds it elapsed
					const perCaller = 40
					var started, refused, other int64
					var wg sync.WaitGroup
					gate := make(chan struct{})
					for i := 0; i < k; i++ {
						wg.Add(1)
						go func(i int) {
							defer wg.Done()
							<-gate
							for j := 0; j < perCaller; j++ {
								if viaCall {
									err := cb.Call(func() error {
										atomic.AddInt64(&started, 1)
										if (i+j)%3 == 0 {
											runtime.Gosched()
										}
										return errors.New("verif: failing")
									}, 0)
									if errors.Is(err, client.ErrBreakerOpen) {
										atomic.AddInt64(&refused, 1)
									} else if err == nil || err.Error() != "verif: failing" {
										atomic.AddInt64(&other, 1)
									}
								} else { // the Breaker interface, as the discovery client uses it
									if !cb.Ready() {
										atomic.AddInt64(&refused, 1)
										continue
									}
									atomic.AddInt64(&started, 1)
									if (i+j)%3 == 0 {
										runtime.Gosched()
									}
									cb.Fail()
								}
							}
						}(i)
					}
					close(gate)
					wg.Wait()
					o.Eval(fmt.Sprintf("conc th=%d k=%d call=%v", th, k, viaCall), true)
					o.Count("conc.runs")
					if started > int64(th) {
						o.Count("conc.overshoot") // more than `threshold` starts: callers really overlapped
					}
					rp := map[string]any{"threshold": th, "callers": k, "calls_per_caller": perCaller, "via_Call": viaCall,
						"started": started, "refused": refused, "other_results": other,
						"theorem": "Props.C18.conc_admission_bound / conc_open_admits_nothing"}
					switch {
					case started > int64(th+k-1):
						o.Violate("c18.conc.too-many-starts", fmt.Sprintf("threshold %d, %d concurrent callers, only failures, one window: the protected function was started %d times – more than threshold+callers-1 = %d", th, k, started, th+k-1), rp)
						return
					case started < int64(th):
						o.Violate("c18.conc.refused-too-early", fmt.Sprintf("threshold %d, %d concurrent callers: only %d failures were ever recorded, yet %d calls were refused", th, k, started, refused), rp)
						return
					case started+refused+other != int64(k*perCaller) || other != 0:
						o.Violate("c18.conc.result", fmt.Sprintf("threshold %d, %d callers: %d calls returned neither the function's error nor ErrBreakerOpen", th, k, other), rp)
						return
					case cb.Ready():
						o.Violate("c18.conc.not-open", fmt.Sprintf("threshold %d: after %d recorded failures inside one window the breaker admits calls", th, started), rp)
						return
					}
				}
			}
		}
	}
}
