package main

import (
	"context"
	"encoding/json"
	"fmt"
	"hash/fnv"
	"math/rand"
	"net"
	"sort"
	"strings"
	"sync"
	"sync/atomic"
	"time"

	"github.com/smallnest/rpcx/client"
	"github.com/smallnest/rpcx/protocol"
	"github.com/smallnest/rpcx/share"
	"github.com/smallnest/rpcx/util"
)

func init() {
	register("c08", "shared-connection stress with a transport wrapper that splits every Write into random pieces and delays between (never inside) writes: "+
		"server side – bursts of 4..48 pipelined requests on one connection whose handlers are released together (reply sizes 0 B .. 300 KiB, "+
		"with handler-initiated server pushes and heartbeat echoes mixed in), goroutine-per-request / worker-pool / async-write modes, compression on and off; "+
		"client side – 2..32 goroutines issuing Go calls with argument sizes 0 B .. 200 KiB on one client connection with heartbeats running; "+
		"the raw byte stream received by the peer is parsed by the LEAN decoder and must be exactly the multiset of frames that were sent (seq, payload length, payload hash); "+
		"non-trivial = burst with at least two concurrent writers; distinct = distinct burst",
		runC08)
}

func fnv32(b []byte) uint32 {
	h := fnv.New32a()
	h.Write(b)
	return h.Sum32()
}

func readUntilQuiet(c net.Conn, quiet time.Duration, wantBytes int, max time.Duration) []byte {
	var out []byte
	buf := make([]byte, 1<<16)
	start := time.Now()
	for time.Since(start) < max {
		d := quiet
		if len(out) < wantBytes {
			d = 2 * time.Second
		}
		c.SetReadDeadline(time.Now().Add(d))
		n, err := c.Read(buf)
		out = append(out, buf[:n]...)
		if err != nil {
			break
		}
	}
	return out
}

func runC08(o *Out, r *rand.Rand) {
	atomic.StoreInt32(&wrapChunky, 1)
	defer atomic.StoreInt32(&wrapChunky, 0)
	bursts := 4
	if thorough() {
		bursts = 8
	}
	id := 800000
	for _, cfg := range []srvOpts{{}, {pool: true}, {async: true}, {async: true, pool: true}} {
		rig, err := newSrvRig(cfg)
		if err != nil {
			o.Violate("srv.rig", "cannot start the server: "+err.Error(), nil)
			return
		}
		for b := 0; b < bursts; b++ {
			c08ServerBurst(o, r, rig, cfg, &id)
		}
		rig.close()
	}
	cb := 3
	if thorough() {
		cb = 8
	}
	for b := 0; b < cb; b++ {
		c08ClientBurst(o, r, &id)
	}
}

var replySizes = []int{0, 3, 100, 1000, 1100, 4000, 4100, 9000, 70000, 300000}

func c08ServerBurst(o *Out, r *rand.Rand, rig *srvRig, cfg srvOpts, id *int) {
	p, err := dialRaw(rig.addr)
	if err != nil {
		o.Violate("srv.rig", "cannot connect: "+err.Error(), nil)
		return
	}
	defer p.c.Close()
	n := 4 + r.Intn(12)
	if thorough() {
		n = 4 + r.Intn(45)
	}
	var expected []string
	wantBytes := 0
	var gates []chan struct{}
	compress := r.Intn(3) == 0
	for i := 0; i < n; i++ {
		*id++
		rid := *id
		size := replySizes[r.Intn(len(replySizes))]
		if size > 9000 && (!thorough() || r.Intn(4) != 0) {
			size = 9000 // a few big replies per burst are enough; the Lean parser reads the whole stream
		}
		q := rawReq{id: rid, seq: uint64(rid), path: "Svc", method: "Do", ser: protocol.JSON, meta: map[string]string{"rid": fmt.Sprint(rid)}}
		mode := "ok"
		switch r.Intn(8) {
		case 0:
			mode = "push"
		case 1:
			q.heartbeat = true
		case 2:
			mode = "err"
		}
		args := &SArgs{ID: rid, Mode: mode, Text: fmt.Sprintf("E%d:%s", rid, strings.Repeat("e", size%2000)), Size: size}
		q.args = args
		if compress && !q.heartbeat {
			q.compress = protocol.Gzip
		}
		if !q.heartbeat {
			g, _ := rig.gate(rid)
			gates = append(gates, g)
		}
		// expected frames
		switch {
		case q.heartbeat:
			body, _ := json.Marshal(args)
			expected = append(expected, fmt.Sprintf("%d:%d:%d", rid, len(body), fnv32(body)))
			wantBytes += len(body)
		case mode == "err":
			// an error response still carries the (zero) reply the codec encoded
			zb, _ := json.Marshal(&SReply{})
			expected = append(expected, fmt.Sprintf("%d:%d:%d:E", rid, len(zb), fnv32(zb)))
		default:
			body, _ := json.Marshal(&SReply{ID: rid, Data: strings.Repeat("x", size) + fmt.Sprint(rid)})
			if compress && len(body) > 1024 {
				// the reply travels compressed: the stream parser hashes it as it travels
				z, _ := util.Zip(body)
				body = append([]byte(nil), z...)
			}
			expected = append(expected, fmt.Sprintf("%d:%d:%d", rid, len(body), fnv32(body)))
			wantBytes += len(body)
			if mode == "push" {
				pp := pushPayload(rid, size)
				expected = append(expected, fmt.Sprintf("*:%d:%d", len(pp), fnv32(pp)))
				wantBytes += len(pp)
			}
		}
		if err := p.send(q); err != nil {
			o.Violate("srv.rig", "send failed: "+err.Error(), nil)
			return
		}
	}
	// let every handler start, then release them together
	time.Sleep(10 * time.Millisecond)
	for _, g := range gates {
		close(g)
	}
	stream := readUntilQuiet(p.c, 150*time.Millisecond, wantBytes, 8*time.Second)
	sort.Strings(expected)
	// (server pushes get their sequence numbers from the server: compared by payload only, "*")
	o.SpecCase("frames pushseq hb "+hx(stream), fmt.Sprintf("end n=%d %s", len(expected), strings.Join(expected, " ")), n >= 2)
	o.Count(fmt.Sprintf("server.burst.async=%v.pool=%v", cfg.async, cfg.pool))
}

type recPlugin struct{}

func (recPlugin) ConnCreated(c net.Conn) (net.Conn, error) {
	return &chunkyConn{Conn: c, seed: 77}, nil
}

func c08ClientBurst(o *Out, r *rand.Rand, id *int) {
	ln, err := net.Listen("tcp", "127.0.0.1:0")
	if err != nil {
		return
	}
	defer ln.Close()
	streamCh := make(chan []byte, 1)
	workers := 2 + r.Intn(7)
	per := 3 + r.Intn(6)
	if thorough() {
		workers = 2 + r.Intn(31)
	}
	sizes := []int{0, 5, 600, 1100, 5000, 20000, 200000}
	var expected []string
	wantBytes := 0
	type job struct{ payload []byte }
	jobs := make([][]job, workers)
	for w := range jobs {
		for j := 0; j < per; j++ {
			*id++
			sz := sizes[r.Intn(len(sizes))]
			if sz > 5000 && (!thorough() || r.Intn(5) != 0) {
				sz = 5000
			}
			pl := []byte(strings.Repeat(string(rune('a'+w%26)), sz) + fmt.Sprint(*id))
			jobs[w] = append(jobs[w], job{pl})
			expected = append(expected, fmt.Sprintf("%d:%d", len(pl), fnv32(pl)))
			wantBytes += len(pl)
		}
	}
	go func() {
		c, err := ln.Accept()
		if err != nil {
			streamCh <- nil
			return
		}
		defer c.Close()
		streamCh <- readUntilQuiet(c, 200*time.Millisecond, wantBytes, 8*time.Second)
	}()
	opt := client.DefaultOption
	opt.SerializeType = protocol.SerializeNone
	opt.Heartbeat = true
	opt.HeartbeatInterval = 3 * time.Millisecond
	cl := client.NewClient(opt)
	pc := client.NewPluginContainer()
	pc.Add(recPlugin{})
	cl.Plugins = pc
	if err := cl.Connect("tcp", ln.Addr().String()); err != nil {
		o.Violate("srv.rig", "client cannot connect: "+err.Error(), nil)
		return
	}
	var wg sync.WaitGroup
	for w := range jobs {
		wg.Add(1)
		go func(w int) {
			defer wg.Done()
			for _, j := range jobs[w] {
				pl := j.payload
				var reply []byte
				cl.Go(context.Background(), "Svc", "M", &pl, &reply, make(chan *client.Call, 1))
				if len(pl)%3 == 0 {
					time.Sleep(50 * time.Microsecond)
				}
			}
		}(w)
	}
	wg.Wait()
	stream := <-streamCh
	cl.Close()
	sort.Strings(expected)
	o.SpecCase("frames noseq nohb "+hx(stream), fmt.Sprintf("end n=%d %s", len(expected), strings.Join(expected, " ")), workers >= 2)
	o.Count("client.burst")
	_ = share.Trace
}
