package main

import (
	"fmt"
	"go/ast"
	"go/token"
	"path/filepath"
	"sort"
	"strings"
)

// genAtomic: the critical sections of the concurrency-relevant functions, as facts.
//
// The hand-written multiplexer and shutdown models treat certain groups of statements as ONE
// atomic step ("the reader's teardown", "registration", "Close").  That is an assumption about
// the code: the statements of the group must execute under one acquisition of the guarding mutex.
// For a fixed list of functions this generator walks the body with a small abstract interpreter
// over the lock state (Lock/RLock open a region, Unlock/RUnlock close it, `defer Unlock` keeps it
// to the end, branches are followed with a copy of the state, a branch that ends in return /
// continue / break does not flow on) and records every statement of interest ("marker") together
// with the lock regions it executes under.  It also derives the lock-ORDER pairs (m1 held while m2
// is acquired, directly or through a call to a method of the same type), for a deadlock-freedom
// fact.  The Lean side states what the models need (`tie_*` theorems, `by decide`).

type lockState map[string]int // mutex -> region id (0 = not held, -1 = differs between paths)

func (s lockState) copy() lockState {
	c := lockState{}
	for k, v := range s {
		c[k] = v
	}
	return c
}

// held: "mutex#acquisition" for every mutex certainly held; a mutex whose state differs between
// the paths reaching this point is reported with acquisition 0
func (s lockState) held() []string {
	var out []string
	for k, v := range s {
		if v > 0 {
			out = append(out, fmt.Sprintf("%s#%d", k, v))
		} else if v < 0 {
			out = append(out, k+"#0")
		}
	}
	sort.Strings(out)
	return out
}

func (s lockState) heldNames() []string {
	var out []string
	for k, v := range s {
		if v != 0 {
			out = append(out, k)
		}
	}
	sort.Strings(out)
	return out
}

type atomMark struct {
	fn   string
	what string
	held []string
}

type atomWalker struct {
	pi       *pkgInfo // when set, calls to methods of the same receiver are followed
	depth    int
	fn       string
	recv     string // receiver variable name
	recvType string
	next     int
	marks    []atomMark
	pairs    map[[2]string]string // (held, acquired) -> where
	acquires map[string]bool      // mutexes this function locks directly
	calls    []struct {
		held   []string
		callee string
	}
}

func (w *atomWalker) mark(st lockState, what string) {
	w.marks = append(w.marks, atomMark{w.fn, w.norm(what), st.held()})
}

// norm replaces the receiver variable's name by `$` so that the facts do not depend on it
func (w *atomWalker) norm(s string) string {
	if w.recv == "" {
		return s
	}
	s = strings.ReplaceAll(s, ":"+w.recv+".", ":$.")
	s = strings.ReplaceAll(s, "("+w.recv+".", "($.")
	if strings.HasPrefix(s, w.recv+".") {
		s = "$." + strings.TrimPrefix(s, w.recv+".")
	}
	return s
}

func lockCall(e ast.Expr) (mutex, op string, ok bool) {
	c, isCall := e.(*ast.CallExpr)
	if !isCall {
		return
	}
	se, isSel := c.Fun.(*ast.SelectorExpr)
	if !isSel {
		return
	}
	switch se.Sel.Name {
	case "Lock", "RLock", "Unlock", "RUnlock":
		return selString(se.X), se.Sel.Name, true
	}
	return
}

// exprMarks records reads that matter inside an expression (conditions, right-hand sides).
func (w *atomWalker) exprMarks(st lockState, e ast.Expr, kind string) {
	if e == nil {
		return
	}
	ast.Inspect(e, func(n ast.Node) bool {
		switch t := n.(type) {
		case *ast.FuncLit:
			return false
		case *ast.IndexExpr:
			if s := selString(t.X); strings.Contains(s, ".") {
				w.mark(st, "get:"+s)
			}
		case *ast.CallExpr:
			w.callMark(st, t)
		case *ast.SelectorExpr:
			if kind == "test" {
				if id, ok := t.X.(*ast.Ident); ok && id.Name == w.recv {
					w.mark(st, "test:"+selString(t))
				}
			}
		}
		return true
	})
}

// atomicOpName: atomic.AddInt32 / AddInt64 / AddUint32 … are all "atomic.Add"
func atomicOpName(name string) string {
	for _, op := range []string{"CompareAndSwap", "Add", "Load", "Store", "Swap"} {
		if strings.HasPrefix(name, "atomic."+op) {
			return "atomic." + op
		}
	}
	return name
}

// isAtomicField: `recv.f` where f is a field of a sync/atomic type in the receiver's struct
func (w *atomWalker) isAtomicField(e ast.Expr) bool {
	se, ok := e.(*ast.SelectorExpr)
	if !ok {
		return false
	}
	if id, ok := se.X.(*ast.Ident); !ok || id.Name != w.recv {
		return false
	}
	if w.pi == nil {
		return false
	}
	return w.pi.atomicFields[w.recvType+"."+se.Sel.Name]
}

func (w *atomWalker) callMark(st lockState, c *ast.CallExpr) {
	name := selString(c.Fun)
	if id, ok := c.Fun.(*ast.Ident); ok && id.Name == "delete" && len(c.Args) > 0 {
		w.mark(st, "delete:"+selString(c.Args[0]))
		return
	}
	if strings.HasPrefix(name, "atomic.") && len(c.Args) > 0 {
		arg := c.Args[0]
		if u, ok := arg.(*ast.UnaryExpr); ok {
			arg = u.X
		}
		sign := ""
		if len(c.Args) > 1 {
			if u, ok := c.Args[1].(*ast.UnaryExpr); ok && u.Op == token.SUB {
				sign = "-"
			} else {
				sign = "+"
			}
		}
		w.mark(st, "call:"+atomicOpName(name)+"("+selString(arg)+sign+")")
		return
	}
	// the typed form of the same operations: `x.count.Add(1)` for `atomic.AddInt32(&x.count, 1)`
	if se, ok := c.Fun.(*ast.SelectorExpr); ok {
		switch se.Sel.Name {
		case "Add", "Load", "Store", "CompareAndSwap", "Swap":
			if base := selString(se.X); strings.Contains(base, ".") && !strings.HasPrefix(base, "atomic.") && w.isAtomicField(se.X) {
				sign := ""
				if se.Sel.Name == "Add" && len(c.Args) == 1 {
					if u, ok := c.Args[0].(*ast.UnaryExpr); ok && u.Op == token.SUB {
						sign = "-"
					} else {
						sign = "+"
					}
				}
				w.mark(st, "call:atomic."+se.Sel.Name+"("+base+sign+")")
				return
			}
		}
	}
	if name == "?" || strings.HasPrefix(name, "log.") || strings.HasPrefix(name, "fmt.") || strings.HasPrefix(name, "errors.") {
		return
	}
	w.mark(st, "call:"+name)
	// a call to a method of the same receiver while locks are held: lock-order bookkeeping
	if se, ok := c.Fun.(*ast.SelectorExpr); ok {
		if id, ok := se.X.(*ast.Ident); ok && id.Name == w.recv {
			w.calls = append(w.calls, struct {
				held   []string
				callee string
			}{st.heldNames(), w.recvType + "." + se.Sel.Name})
		}
	}
}

// sibling: a call `recv.m(...)` to a method of the same type whose body is available
func (w *atomWalker) sibling(e ast.Expr) *ast.FuncDecl {
	if w.pi == nil || w.depth >= 4 {
		return nil
	}
	c, ok := e.(*ast.CallExpr)
	if !ok {
		return nil
	}
	se, ok := c.Fun.(*ast.SelectorExpr)
	if !ok {
		return nil
	}
	id, ok := se.X.(*ast.Ident)
	if !ok || id.Name != w.recv {
		return nil
	}
	fd := w.pi.funcs[w.recvType+"."+se.Sel.Name]
	if fd == nil || fd.Body == nil || fd.Recv == nil || len(fd.Recv.List[0].Names) == 0 {
		return nil
	}
	return fd
}

// follow walks the body of a sibling method as if it were written at the call site: its
// statements run under the caller's locks, and the locks it holds on return are the caller's
func (w *atomWalker) follow(st lockState, fd *ast.FuncDecl) lockState {
	sub := &atomWalker{pi: w.pi, depth: w.depth + 1, fn: w.fn, recv: fd.Recv.List[0].Names[0].Name, recvType: w.recvType,
		next: w.next, pairs: w.pairs, acquires: w.acquires}
	out := sub.block(st, fd.Body.List)
	w.next = sub.next
	w.marks = append(w.marks, sub.marks...)
	w.calls = append(w.calls, sub.calls...)
	return out
}

func terminates(list []ast.Stmt) bool {
	if len(list) == 0 {
		return false
	}
	switch t := list[len(list)-1].(type) {
	case *ast.ReturnStmt:
		return true
	case *ast.BranchStmt:
		return t.Tok == token.CONTINUE || t.Tok == token.BREAK || t.Tok == token.GOTO
	case *ast.ExprStmt:
		if c, ok := t.X.(*ast.CallExpr); ok {
			if id, ok := c.Fun.(*ast.Ident); ok && id.Name == "panic" {
				return true
			}
		}
	}
	return false
}

func mergeStates(a, b lockState) lockState {
	out := lockState{}
	for k, v := range a {
		if b[k] == v {
			out[k] = v
		} else {
			out[k] = -1
		}
	}
	for k, v := range b {
		if _, ok := a[k]; !ok && v != 0 {
			out[k] = -1
		}
	}
	return out
}

func (w *atomWalker) block(st lockState, list []ast.Stmt) lockState {
	for _, s := range list {
		st = w.stmt(st, s)
	}
	return st
}

func (w *atomWalker) stmt(st lockState, s ast.Stmt) lockState {
	switch t := s.(type) {
	case *ast.ExprStmt:
		if m, op, ok := lockCall(t.X); ok {
			m = w.norm(m)
			switch op {
			case "Lock", "RLock":
				for _, h := range st.heldNames() {
					if _, seen := w.pairs[[2]string{h, m}]; !seen {
						w.pairs[[2]string{h, m}] = w.fn
					}
				}
				w.next++
				st = st.copy()
				st[m] = w.next
				w.acquires[m] = true
			default:
				st = st.copy()
				st[m] = 0
			}
			return st
		}
		if fd := w.sibling(t.X); fd != nil {
			for _, a := range t.X.(*ast.CallExpr).Args {
				w.exprMarks(st, a, "")
			}
			w.callMark(st, t.X.(*ast.CallExpr))
			return w.follow(st, fd)
		}
		w.exprMarks(st, t.X, "")
	case *ast.DeferStmt:
		if _, op, ok := lockCall(t.Call); ok && (op == "Unlock" || op == "RUnlock") {
			return st // held to the end of the function
		}
		if _, isLit := t.Call.Fun.(*ast.FuncLit); isLit {
			w.mark(st, "defer:func")
			return st
		}
		// remember what is deferred (the order of defers matters for what runs last)
		sub := &atomWalker{pi: w.pi, fn: w.fn, recv: w.recv, recvType: w.recvType, pairs: map[[2]string]string{}, acquires: map[string]bool{}}
		sub.callMark(lockState{}, t.Call)
		for _, m := range sub.marks {
			w.mark(st, "defer:"+strings.TrimPrefix(m.what, "call:"))
		}
	case *ast.GoStmt:
		w.mark(st, "go:"+selString(t.Call.Fun))
	case *ast.AssignStmt:
		for _, r := range t.Rhs {
			if fd := w.sibling(r); fd != nil {
				w.callMark(st, r.(*ast.CallExpr))
				st = w.follow(st, fd)
				continue
			}
			w.exprMarks(st, r, "")
		}
		for _, l := range t.Lhs {
			switch lt := l.(type) {
			case *ast.SelectorExpr:
				w.mark(st, "set:"+selString(lt))
			case *ast.IndexExpr:
				if sx := selString(lt.X); strings.Contains(sx, ".") {
					w.mark(st, "put:"+sx)
				}
			}
		}
	case *ast.IncDecStmt:
		if se, ok := t.X.(*ast.SelectorExpr); ok {
			w.mark(st, "set:"+selString(se))
		}
	case *ast.IfStmt:
		if t.Init != nil {
			st = w.stmt(st, t.Init)
		}
		w.exprMarks(st, t.Cond, "test")
		bodyEnd := w.block(st.copy(), t.Body.List)
		var outs []lockState
		if !terminates(t.Body.List) {
			outs = append(outs, bodyEnd)
		}
		if t.Else != nil {
			var elseList []ast.Stmt
			switch e := t.Else.(type) {
			case *ast.BlockStmt:
				elseList = e.List
			default:
				elseList = []ast.Stmt{e}
			}
			elseEnd := w.block(st.copy(), elseList)
			if !terminates(elseList) {
				outs = append(outs, elseEnd)
			}
		} else {
			outs = append(outs, st)
		}
		if len(outs) == 0 {
			return st
		}
		res := outs[0]
		for _, o := range outs[1:] {
			res = mergeStates(res, o)
		}
		return res
	case *ast.ForStmt:
		if t.Init != nil {
			st = w.stmt(st, t.Init)
		}
		w.exprMarks(st, t.Cond, "test")
		w.block(st.copy(), t.Body.List)
	case *ast.RangeStmt:
		if sx := selString(t.X); strings.Contains(sx, ".") {
			w.mark(st, "range:"+sx)
		}
		w.block(st.copy(), t.Body.List)
	case *ast.BlockStmt:
		return w.block(st, t.List)
	case *ast.SwitchStmt:
		if t.Init != nil {
			st = w.stmt(st, t.Init)
		}
		w.exprMarks(st, t.Tag, "test")
		for _, c := range t.Body.List {
			cc := c.(*ast.CaseClause)
			for _, e := range cc.List {
				w.exprMarks(st, e, "test")
			}
			w.block(st.copy(), cc.Body)
		}
	case *ast.TypeSwitchStmt:
		for _, c := range t.Body.List {
			w.block(st.copy(), c.(*ast.CaseClause).Body)
		}
	case *ast.SelectStmt:
		for _, c := range t.Body.List {
			cc := c.(*ast.CommClause)
			if cc.Comm != nil {
				w.stmt(st.copy(), cc.Comm)
			}
			w.block(st.copy(), cc.Body)
		}
	case *ast.SendStmt:
		w.mark(st, "send:"+selString(t.Chan))
	case *ast.ReturnStmt:
		for _, r := range t.Results {
			if fd := w.sibling(r); fd != nil {
				w.callMark(st, r.(*ast.CallExpr))
				st = w.follow(st, fd)
				continue
			}
			w.exprMarks(st, r, "")
		}
	case *ast.LabeledStmt:
		return w.stmt(st, t.Stmt)
	case *ast.DeclStmt:
	}
	return st
}

var atomicFuncs = []struct{ pkg, fn string }{
	{"client", "Client.send"}, {"client", "Client.input"}, {"client", "Client.call"}, {"client", "Client.Close"}, {"client", "Client.SendRaw"},
	{"server", "Server.Shutdown"}, {"server", "Server.Close"}, {"server", "Server.processOneRequest"}, {"server", "Server.closeDoneChanLocked"},
}

func leanStrList(xs []string) string {
	q := make([]string, len(xs))
	for i, x := range xs {
		q[i] = fmt.Sprintf("%q", x)
	}
	return "[" + strings.Join(q, ", ") + "]"
}

var atomFnCtor = map[string]string{
	"client.Client.send": ".clientSend", "client.Client.input": ".clientInput", "client.Client.call": ".clientCall", "client.Client.Close": ".clientClose", "client.Client.SendRaw": ".clientSendRaw",
	"server.Server.Shutdown": ".serverShutdown", "server.Server.Close": ".serverClose", "server.Server.processOneRequest": ".serverProcessOne",
}

// markers of interest: (package, normalised marker) -> constructor of Rpcx.Atomic.Mk
var atomMkCtor = map[string]string{
	"client|test:$.shutdown": ".testShutdown", "client|test:$.closing": ".testClosing", "client|set:$.seq": ".setSeq",
	"client|put:$.pending": ".putPending", "client|get:$.pending": ".getPending", "client|delete:$.pending": ".deletePending",
	"client|range:$.pending": ".rangePending", "client|call:call.done": ".callDone", "client|call:$.Conn.Close": ".connClose",
	"client|set:$.shutdown": ".setShutdown", "client|set:$.closing": ".setClosing",
	"client|call:$.Plugins.DoClientConnectionClose": ".pluginClose", "client|call:$.handleServerRequest": ".noticeToChan",
	"server|call:$.ln.Close": ".lnClose", "server|range:$.activeConn": ".rangeActive", "server|delete:$.activeConn": ".deleteActive",
	"server|call:$.closeDoneChanLocked": ".closeDone", "server|call:atomic.Add($.handlerMsgNum+)": ".countInc",
	"server|defer:atomic.Add($.handlerMsgNum-)": ".countDecDeferred", "server|call:$.sendResponse": ".sendResponse",
	"server|call:$.handleRequest": ".handleRequest", "server|call:handler": ".routerHandler", "server|call:sctx.WriteError": ".writeError",
	"server|call:$.closeHTTP1APIGateway": ".gatewayClose",
}

var atomOtherMx = map[string]int{}

func mxCtor(pkg, name string) string {
	switch pkg + "|" + name {
	case "client|$.mutex":
		return ".clientMutex"
	case "server|$.mu":
		return ".serverMu"
	case "server|$.jsonrpcHTTPServerLock":
		return ".serverJsonrpc"
	}
	k := pkg + "|" + name
	if _, ok := atomOtherMx[k]; !ok {
		atomOtherMx[k] = len(atomOtherMx)
	}
	return fmt.Sprintf("(.other %d)", atomOtherMx[k])
}

func genAtomic() string {
	var sb strings.Builder
	sb.WriteString("-- GENERATED by /verif/go/extract from client/client.go and server/server.go — do not edit.\n")
	sb.WriteString("import Rpcx.Model.AtomicBase\nnamespace Rpcx.Gen\nopen Rpcx.Atomic\n\n")
	pkgs := map[string]*pkgInfo{}
	var all []atomMark
	lockPairs := map[string]map[[2]string]string{}
	for _, pkg := range []string{"client", "server"} {
		pi := loadPkg(filepath.Join(*repo, pkg))
		pkgs[pkg] = pi
		// lock order over ALL methods of the package's main type
		recvType := map[string]string{"client": "Client", "server": "Server"}[pkg]
		acq := map[string]map[string]bool{}
		type callUnder struct {
			held   []string
			callee string
		}
		calls := map[string][]callUnder{}
		pairs := map[[2]string]string{}
		var names []string
		for name := range pi.funcs {
			names = append(names, name)
		}
		sort.Strings(names)
		for _, name := range names {
			fd := pi.funcs[name]
			if !strings.HasPrefix(name, recvType+".") || fd.Body == nil || fd.Recv == nil || len(fd.Recv.List[0].Names) == 0 {
				continue
			}
			w := &atomWalker{fn: pkg + "." + name, recv: fd.Recv.List[0].Names[0].Name, recvType: recvType, pairs: map[[2]string]string{}, acquires: map[string]bool{}}
			w.block(lockState{}, fd.Body.List)
			acq[name] = w.acquires
			for _, c := range w.calls {
				calls[name] = append(calls[name], callUnder{c.held, c.callee})
			}
			for k, v := range w.pairs {
				if _, ok := pairs[k]; !ok {
					pairs[k] = v
				}
			}
		}
		// transitive closure of "acquires" through same-type calls
		for changed := true; changed; {
			changed = false
			for _, name := range names {
				for _, c := range calls[name] {
					for m := range acq[c.callee] {
						if acq[name] == nil {
							acq[name] = map[string]bool{}
						}
						if !acq[name][m] {
							acq[name][m] = true
							changed = true
						}
					}
				}
			}
		}
		for _, name := range names {
			for _, c := range calls[name] {
				for _, h := range c.held {
					for m := range acq[c.callee] {
						k := [2]string{h, m}
						if _, ok := pairs[k]; !ok {
							pairs[k] = pkg + "." + name + " -> " + c.callee
						}
					}
				}
			}
		}
		lockPairs[pkg] = pairs
	}
	for _, af := range atomicFuncs {
		pi := pkgs[af.pkg]
		item := "atomic:" + af.pkg + "." + af.fn
		fd := pi.funcs[af.fn]
		ok := fd != nil && fd.Body != nil && fd.Recv != nil && len(fd.Recv.List[0].Names) > 0
		noteTie("Atomic.lean", item, ok)
		if !ok {
			addProblem(item, "function not found")
			continue
		}
		w := &atomWalker{pi: pi, fn: af.pkg + "." + af.fn, recv: fd.Recv.List[0].Names[0].Name, recvType: strings.Split(af.fn, ".")[0], pairs: map[[2]string]string{}, acquires: map[string]bool{}}
		w.block(lockState{}, fd.Body.List)
		all = append(all, w.marks...)
	}
	sb.WriteString("def marks : List Mark := [\n")
	var lines []string
	for _, m := range all {
		pkg := strings.SplitN(m.fn, ".", 2)[0]
		fc, ok1 := atomFnCtor[m.fn]
		mc, ok2 := atomMkCtor[pkg+"|"+m.what]
		if !ok1 || !ok2 {
			continue
		}
		var hs []string
		for _, h := range m.held {
			k := strings.LastIndex(h, "#")
			hs = append(hs, fmt.Sprintf("(%s, %s)", mxCtor(pkg, h[:k]), h[k+1:]))
		}
		lines = append(lines, fmt.Sprintf("  ⟨%s, %s, [%s]⟩", fc, mc, strings.Join(hs, ", ")))
	}
	sb.WriteString(strings.Join(lines, ",\n"))
	sb.WriteString("\n]\n\n")
	sb.WriteString("/-- lock-order pairs: (held, acquired, where) – `acquired` is locked, directly or through a call to a\n    method of the same type, while `held` is held -/\n")
	sb.WriteString("def lockPairs : List (Mx × Mx × String) := [\n")
	var rows []string
	for _, pkg := range []string{"client", "server"} {
		var ks [][2]string
		for k := range lockPairs[pkg] {
			ks = append(ks, k)
		}
		sort.Slice(ks, func(i, j int) bool { return ks[i][0]+ks[i][1] < ks[j][0]+ks[j][1] })
		for _, k := range ks {
			rows = append(rows, fmt.Sprintf("  (%s, %s, %q)", mxCtor(pkg, k[0]), mxCtor(pkg, k[1]), lockPairs[pkg][k]))
		}
	}
	sb.WriteString(strings.Join(rows, ",\n"))
	sb.WriteString("\n]\n\n")
	// ---- in-place sorts of lists that belong to the discovery ------------------------------------
	// A server list obtained from the discovery (GetServices(), or received on a watcher channel) is
	// shared with the publisher and every other watcher; the convergence model treats a delivered
	// list as a VALUE.  Record every function that sorts such a list in place.
	var inPlace []string
	{
		pi := pkgs["client"]
		var names []string
		for n := range pi.funcs {
			names = append(names, n)
		}
		sort.Strings(names)
		for _, name := range names {
			fd := pi.funcs[name]
			if fd.Body == nil {
				continue
			}
			shared := map[string]bool{}
			fromDiscovery := func(e ast.Expr) bool {
				c, ok := e.(*ast.CallExpr)
				return ok && strings.HasSuffix(selString(c.Fun), "GetServices")
			}
			ast.Inspect(fd.Body, func(n ast.Node) bool {
				switch t := n.(type) {
				case *ast.AssignStmt:
					for i, l := range t.Lhs {
						if id, ok := l.(*ast.Ident); ok && i < len(t.Rhs) {
							shared[id.Name] = fromDiscovery(t.Rhs[i])
						}
					}
				case *ast.RangeStmt:
					// `for pairs := range ch` over a channel of server lists
					if id, ok := t.Key.(*ast.Ident); ok && t.Value == nil {
						if x, ok := t.X.(*ast.Ident); ok && x.Name == "ch" {
							shared[id.Name] = true
						}
					}
				case *ast.CallExpr:
					fn := selString(t.Fun)
					if (fn == "sort.Slice" || fn == "sort.SliceStable" || fn == "sort.Sort" || fn == "sort.Stable") && len(t.Args) > 0 {
						if id, ok := t.Args[0].(*ast.Ident); ok && shared[id.Name] {
							inPlace = append(inPlace, "client."+name)
						}
					}
				}
				return true
			})
		}
	}
	fmt.Fprintf(&sb, "/-- functions that sort, in place, a server list that belongs to the discovery (shared with the\n    publisher and every other watcher) -/\ndef inPlaceSortsOfSharedLists : List String := %s\n\n", leanStrList(inPlace))
	sb.WriteString(tieText("Atomic.lean", "atomic"))
	sb.WriteString("end Rpcx.Gen\n")
	return sb.String()
}
