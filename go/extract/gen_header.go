package main

import (
	"fmt"
	"go/ast"
	"go/token"
	"path/filepath"
	"strings"
)

var headerMethods = []string{
	"CheckMagicNumber", "Version", "SetVersion", "MessageType", "SetMessageType",
	"IsHeartbeat", "SetHeartbeat", "IsOneway", "SetOneway", "CompressType", "SetCompressType",
	"MessageStatusType", "SetMessageStatusType", "SerializeType", "SetSerializeType", "Seq", "SetSeq",
}

// headerEnv: receiver indexing h[i] -> h.b<i>; binary.BigEndian.Uint64(h[k:]).
func headerEnv(recv string, consts map[string]binding) *env {
	en := &env{vars: map[string]binding{}}
	for k, v := range consts {
		en.vars[k] = v
	}
	en.special = func(e ast.Expr, want kind) (string, kind, bool) {
		switch t := e.(type) {
		case *ast.IndexExpr:
			if id, ok := t.X.(*ast.Ident); ok && id.Name == recv {
				if bl, ok := t.Index.(*ast.BasicLit); ok && bl.Kind == token.INT {
					i := parseIntLit(bl.Value)
					if i > 11 {
						bail("header index %d out of range", i)
					}
					return fmt.Sprintf("%s.b%d", recv, i), kU8, true
				}
			}
		case *ast.CallExpr:
			if isSel(t.Fun, "binary.BigEndian.Uint64") && len(t.Args) == 1 {
				off, ok := headerTail(t.Args[0], recv)
				if !ok || off+8 > 12 {
					bail("Uint64 argument not h[k:]")
				}
				parts := []string{}
				for i := 0; i < 8; i++ {
					parts = append(parts, fmt.Sprintf("%s.b%d", recv, off+i))
				}
				return "(be64get " + strings.Join(parts, " ") + ")", kU64, true
			}
		}
		return "", kUnknown, false
	}
	return en
}

func selString(e ast.Expr) string {
	switch t := e.(type) {
	case *ast.Ident:
		return t.Name
	case *ast.SelectorExpr:
		return selString(t.X) + "." + t.Sel.Name
	case *ast.ParenExpr:
		return selString(t.X)
	case *ast.StarExpr:
		return "*" + selString(t.X)
	}
	return "?"
}

func isSel(e ast.Expr, s string) bool { return selString(e) == s }

// headerTail recognises h[k:] and returns k.
func headerTail(e ast.Expr, recv string) (int, bool) {
	se, ok := e.(*ast.SliceExpr)
	if !ok || se.High != nil || se.Max != nil {
		return 0, false
	}
	if id, ok := se.X.(*ast.Ident); !ok || id.Name != recv {
		return 0, false
	}
	if se.Low == nil {
		return 0, true
	}
	bl, ok := se.Low.(*ast.BasicLit)
	if !ok {
		return 0, false
	}
	return int(parseIntLit(bl.Value)), true
}

// trHeaderBlock translates a statement list that may assign h[i]; result is a Lean
// expression denoting the final header.
func trHeaderBlock(en *env, recv string, stmts []ast.Stmt, indent string) string {
	var sb strings.Builder
	for _, st := range stmts {
		switch t := st.(type) {
		case *ast.AssignStmt:
			if len(t.Lhs) != 1 || len(t.Rhs) != 1 {
				bail("assignment form not supported")
			}
			// `x op= e` is `x = x op (e)`
			if op, ok := map[token.Token]token.Token{token.OR_ASSIGN: token.OR, token.AND_ASSIGN: token.AND, token.AND_NOT_ASSIGN: token.AND_NOT,
				token.XOR_ASSIGN: token.XOR, token.ADD_ASSIGN: token.ADD, token.SUB_ASSIGN: token.SUB, token.SHL_ASSIGN: token.SHL, token.SHR_ASSIGN: token.SHR}[t.Tok]; ok {
				t = &ast.AssignStmt{Lhs: t.Lhs, Tok: token.ASSIGN, Rhs: []ast.Expr{&ast.BinaryExpr{X: t.Lhs[0], Op: op, Y: &ast.ParenExpr{X: t.Rhs[0]}}}}
			} else if t.Tok != token.ASSIGN {
				bail("assignment form not supported")
			}
			ix, ok := t.Lhs[0].(*ast.IndexExpr)
			if !ok {
				bail("assignment target not h[i]")
			}
			id, ok := ix.X.(*ast.Ident)
			bl, ok2 := ix.Index.(*ast.BasicLit)
			if !ok || !ok2 || id.Name != recv {
				bail("assignment target not h[const]")
			}
			i := parseIntLit(bl.Value)
			if i > 11 {
				bail("header index %d out of range", i)
			}
			rhs, _ := en.tr(t.Rhs[0], kU8)
			fmt.Fprintf(&sb, "%slet %s : Header := { %s with b%d := %s }\n", indent, recv, recv, i, rhs)
		case *ast.IfStmt:
			if t.Init != nil {
				bail("if with init")
			}
			c, _ := en.tr(t.Cond, kBool)
			thenS := trHeaderBlock(en, recv, t.Body.List, indent+"    ")
			elseS := indent + "    " + recv + "\n"
			if t.Else != nil {
				eb, ok := t.Else.(*ast.BlockStmt)
				if !ok {
					bail("else-if not supported")
				}
				elseS = trHeaderBlock(en, recv, eb.List, indent+"    ")
			}
			fmt.Fprintf(&sb, "%slet %s : Header :=\n%s  if %s then\n%s%s  else\n%s", indent, recv, indent, c, thenS, indent, elseS)
		case *ast.ExprStmt:
			call, ok := t.X.(*ast.CallExpr)
			if !ok || !isSel(call.Fun, "binary.BigEndian.PutUint64") || len(call.Args) != 2 {
				bail("statement call not supported: %s", selStringOfCall(t.X))
			}
			off, ok := headerTail(call.Args[0], recv)
			if !ok || off+8 > 12 {
				bail("PutUint64 target not h[k:]")
			}
			v, _ := en.tr(call.Args[1], kU64)
			parts := []string{}
			for i := 0; i < 8; i++ {
				parts = append(parts, fmt.Sprintf("b%d := be64byte %s %d", off+i, v, i))
			}
			fmt.Fprintf(&sb, "%slet %s : Header := { %s with %s }\n", indent, recv, recv, strings.Join(parts, ", "))
		default:
			bail("statement %T not supported", st)
		}
	}
	sb.WriteString(indent + recv + "\n")
	return sb.String()
}

func selStringOfCall(e ast.Expr) string {
	if c, ok := e.(*ast.CallExpr); ok {
		return selString(c.Fun)
	}
	return "?"
}

// protocolConsts collects `const` blocks of byte-like enumerations (iota) and byte constants.
func protocolConsts(pi *pkgInfo) (map[string]binding, string) {
	consts := map[string]binding{}
	var sb strings.Builder
	for _, fname := range sortedKeys(pi.files) {
		f := pi.files[fname]
		for _, d := range f.Decls {
			gd, ok := d.(*ast.GenDecl)
			if !ok || gd.Tok != token.CONST {
				continue
			}
			var curType ast.Expr
			iotaBase := false
			for i, sp := range gd.Specs {
				vs := sp.(*ast.ValueSpec)
				if vs.Type != nil {
					curType = vs.Type
				}
				if len(vs.Values) == 1 {
					if id, ok := vs.Values[0].(*ast.Ident); ok && id.Name == "iota" {
						iotaBase = true
					} else {
						iotaBase = false
					}
				}
				k := kUnknown
				if curType != nil {
					k = kindOfTypeExpr(curType)
				}
				if k != kU8 {
					continue
				}
				for _, nm := range vs.Names {
					var val uint64
					if iotaBase {
						val = uint64(i)
					} else if len(vs.Values) == 1 {
						bl, ok := vs.Values[0].(*ast.BasicLit)
						if !ok || bl.Kind != token.INT {
							continue
						}
						val = parseIntLit(bl.Value)
					} else {
						continue
					}
					tn := selString(curType)
					lean := "C." + tn + "_" + nm.Name
					if tn == "byte" {
						lean = "C." + nm.Name
					}
					consts[nm.Name] = binding{lean, kU8}
					fmt.Fprintf(&sb, "def %s : Byte := %s\n", lean, lit(val, kU8))
				}
			}
		}
	}
	return consts, sb.String()
}

func sortedKeys[V any](m map[string]V) []string {
	ks := make([]string, 0, len(m))
	for k := range m {
		ks = append(ks, k)
	}
	sortStrings(ks)
	return ks
}

func sortStrings(s []string) {
	for i := 1; i < len(s); i++ {
		for j := i; j > 0 && s[j] < s[j-1]; j-- {
			s[j], s[j-1] = s[j-1], s[j]
		}
	}
}

func genHeader() string {
	pi := loadPkg(filepath.Join(*repo, "protocol"))
	usePkg(pi)
	consts, constText := protocolConsts(pi)
	// only the protocol's own enumeration constants keep their names in the generated accessors;
	// any other named constant (a mask, say) is resolved to its value
	canonical := map[string]bool{"magicNumber": true, "Request": true, "Response": true, "Normal": true, "Error": true, "None": true, "Gzip": true,
		"SerializeNone": true, "JSON": true, "ProtoBuffer": true, "MsgPack": true, "Thrift": true}
	for name := range consts {
		if !canonical[name] {
			delete(consts, name)
		}
	}
	var sb strings.Builder
	sb.WriteString("-- GENERATED by /verif/go/extract from protocol/message.go — do not edit.\n")
	sb.WriteString("import Rpcx.Basic\nnamespace Rpcx.Gen\n\n")
	sb.WriteString(constText)
	for _, cn := range []string{"C.magicNumber", "C.MessageType_Request", "C.MessageType_Response", "C.MessageStatusType_Normal", "C.MessageStatusType_Error",
		"C.CompressType_None", "C.CompressType_Gzip", "C.SerializeType_SerializeNone", "C.SerializeType_JSON", "C.SerializeType_ProtoBuffer",
		"C.SerializeType_MsgPack", "C.SerializeType_Thrift"} {
		present := strings.Contains(constText, "def "+cn+" ")
		noteTie("Header.lean", "const "+cn, present)
		if !present {
			addProblem("const "+cn, "constant not found in protocol")
			sb.WriteString(fallbackText("Header.lean", cn))
			short := strings.TrimPrefix(cn, "C.")
			if i := strings.Index(short, "_"); i >= 0 {
				short = short[i+1:]
			}
			consts[short] = binding{cn, kU8}
		}
	}
	sb.WriteString("\n")
	for _, name := range headerMethods {
		item := "Header." + name
		fd := pi.funcs[item]
		lean := "Header." + lowerFirst(name)
		var tmp strings.Builder
		ok := fd != nil && try(item, func() {
			recv := "h"
			if len(fd.Recv.List[0].Names) == 1 {
				recv = fd.Recv.List[0].Names[0].Name
			}
			en := headerEnv(recv, consts)
			params := ""
			if fd.Type.Params != nil {
				for _, p := range fd.Type.Params.List {
					k := kindOfTypeExpr(p.Type)
					if k == kUnknown {
						bail("parameter type %s not supported", selString(p.Type))
					}
					for _, n := range p.Names {
						en.vars[n.Name] = binding{n.Name, k}
						params += fmt.Sprintf(" (%s : %s)", n.Name, leanType(k))
					}
				}
			}
			if fd.Type.Results != nil && len(fd.Type.Results.List) == 1 {
				// getter: single return statement
				if len(fd.Body.List) != 1 {
					bail("getter body is not a single return")
				}
				rs, ok := fd.Body.List[0].(*ast.ReturnStmt)
				if !ok || len(rs.Results) != 1 {
					bail("getter body is not a single return")
				}
				rk := kindOfTypeExpr(fd.Type.Results.List[0].Type)
				s, k := en.tr(rs.Results[0], rk)
				if k != rk {
					bail("result kind mismatch")
				}
				fmt.Fprintf(&tmp, "def %s (%s : Header)%s : %s :=\n  %s\n\n", lean, recv, params, leanType(rk), s)
			} else {
				body := trHeaderBlock(en, recv, fd.Body.List, "  ")
				fmt.Fprintf(&tmp, "def %s (%s : Header)%s : Header :=\n%s\n", lean, recv, params, body)
			}
		})
		if ok {
			sb.WriteString(tmp.String())
		}
		noteTie("Header.lean", item, ok)
		if !ok {
			if fd == nil {
				addProblem(item, "method not found")
			}
			sb.WriteString(fallbackText("Header.lean", lean))
		}
	}
	sb.WriteString(tieText("Header.lean", "header"))
	sb.WriteString("end Rpcx.Gen\n")
	return sb.String()
}

func leanType(k kind) string {
	switch k {
	case kU8:
		return "Byte"
	case kU32:
		return "BitVec 32"
	case kU64:
		return "BitVec 64"
	case kInt:
		return "Int"
	case kNat:
		return "Nat"
	case kBool:
		return "Bool"
	}
	return "?"
}
