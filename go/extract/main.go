// Command extract is the regenerating half of the model/code tie: it re-reads the
// rpcx source tree (go/ast only, std-lib only) and re-emits, as Lean 4 definitions under
// lean/Rpcx/Gen, the parts of the code that are pure byte/integer expressions, constant
// tables or small straight-line state machines.  The property theorems are stated about
// these generated definitions, so they are re-checked against what the code says now.
//
// The subset is deliberately small and explicit.  Anything outside it makes extraction
// of that item fail with a message; the item is then emitted as a Lean `def … : Broken`
// marker so that the dependent proof stops checking (a broken tie, handled by ./check).
package main

import (
	"flag"
	"fmt"
	"go/ast"
	"go/parser"
	"go/token"
	"os"
	"path/filepath"
	"sort"
	"strings"
)

var (
	repo   = flag.String("repo", "/repo", "rpcx source tree")
	outDir = flag.String("out", "/verif/lean/Rpcx/Gen", "output directory for generated Lean files")
)

type pkgInfo struct {
	fset  *token.FileSet
	files map[string]*ast.File
	funcs map[string]*ast.FuncDecl // "Recv.Name" or "Name"
	// "Type.field" for struct fields whose type is one of sync/atomic's typed values
	atomicFields map[string]bool
}

func loadPkg(dir string) *pkgInfo {
	fset := token.NewFileSet()
	pi := &pkgInfo{fset: fset, files: map[string]*ast.File{}, funcs: map[string]*ast.FuncDecl{}, atomicFields: map[string]bool{}}
	ents, err := os.ReadDir(dir)
	if err != nil {
		fatal("read %s: %v", dir, err)
	}
	for _, e := range ents {
		n := e.Name()
		if e.IsDir() || !strings.HasSuffix(n, ".go") || strings.HasSuffix(n, "_test.go") {
			continue
		}
		// hooks guarded by the verif tag are not part of the modelled code
		if strings.HasPrefix(n, "verif_") {
			continue
		}
		f, err := parser.ParseFile(fset, filepath.Join(dir, n), nil, parser.ParseComments)
		if err != nil {
			fatal("parse %s: %v", n, err)
		}
		pi.files[n] = f
		for _, d := range f.Decls {
			if gd, ok := d.(*ast.GenDecl); ok && gd.Tok == token.TYPE {
				for _, sp := range gd.Specs {
					ts := sp.(*ast.TypeSpec)
					st, ok := ts.Type.(*ast.StructType)
					if !ok {
						continue
					}
					for _, fl := range st.Fields.List {
						if se, ok := fl.Type.(*ast.SelectorExpr); ok {
							if id, ok := se.X.(*ast.Ident); ok && id.Name == "atomic" {
								for _, nm := range fl.Names {
									pi.atomicFields[ts.Name.Name+"."+nm.Name] = true
								}
							}
						}
					}
				}
			}
			fd, ok := d.(*ast.FuncDecl)
			if !ok {
				continue
			}
			name := fd.Name.Name
			if fd.Recv != nil && len(fd.Recv.List) == 1 {
				name = recvTypeName(fd.Recv.List[0].Type) + "." + name
			}
			pi.funcs[name] = fd
		}
	}
	return pi
}

func recvTypeName(e ast.Expr) string {
	switch t := e.(type) {
	case *ast.StarExpr:
		return recvTypeName(t.X)
	case *ast.Ident:
		return t.Name
	case *ast.IndexExpr:
		return recvTypeName(t.X)
	}
	return "?"
}

func fatal(f string, a ...any) {
	fmt.Fprintf(os.Stderr, "extract: "+f+"\n", a...)
	os.Exit(2)
}

// ---------------------------------------------------------------------------------
// problems: per generated item; a failed item is still emitted (as a marker) so that
// the Lean build fails exactly in the proofs that depend on it.

type problem struct {
	Item string
	Msg  string
}

var problems []problem

func addProblem(item, f string, a ...any) {
	problems = append(problems, problem{item, fmt.Sprintf(f, a...)})
}

type trErr struct{ msg string }

func bail(f string, a ...any) { panic(trErr{fmt.Sprintf(f, a...)}) }

func try(item string, fn func()) (ok bool) {
	defer func() {
		if r := recover(); r != nil {
			if te, isTr := r.(trErr); isTr {
				addProblem(item, "%s", te.msg)
				ok = false
				return
			}
			panic(r)
		}
	}()
	fn()
	return true
}

// ---------------------------------------------------------------------------------

func writeIfChanged(path, content string) {
	old, err := os.ReadFile(path)
	if err == nil && string(old) == content {
		return
	}
	if err := os.WriteFile(path, []byte(content), 0o644); err != nil {
		fatal("write %s: %v", path, err)
	}
}

func main() {
	flag.Parse()
	os.MkdirAll(*outDir, 0o755)
	gens := map[string]func() string{
		"Header.lean":         genHeader,
		"Layout.lean":         genLayout,
		"Breaker.lean":        genBreaker,
		"Pool.lean":           genPool,
		"Select.lean":         genSelect,
		"Preds.lean":          genPreds,
		"Sites.lean":          genSites,
		"Atomic.lean":         genAtomic,
		"Fanout.lean":         genFanout,
		"Plugins.lean":        genPlugins,
		"DiscoveryFacts.lean": genDiscovery,
	}
	names := make([]string, 0, len(gens))
	for n := range gens {
		names = append(names, n)
	}
	sort.Strings(names)
	for _, n := range names {
		content := gens[n]()
		writeIfChanged(filepath.Join(*outDir, n), content)
	}
	// remove stale generated files
	ents, _ := os.ReadDir(*outDir)
	for _, e := range ents {
		if _, ok := gens[e.Name()]; !ok && strings.HasSuffix(e.Name(), ".lean") {
			os.Remove(filepath.Join(*outDir, e.Name()))
		}
	}
	var sb strings.Builder
	sb.WriteString("{\"problems\":[")
	for i, p := range problems {
		if i > 0 {
			sb.WriteString(",")
		}
		fmt.Fprintf(&sb, "{\"item\":%q,\"msg\":%q}", p.Item, p.Msg)
	}
	sb.WriteString("]}\n")
	writeIfChanged(filepath.Join(*outDir, "problems.json"), sb.String())
	for _, p := range problems {
		fmt.Fprintf(os.Stderr, "extract: PROBLEM %s: %s\n", p.Item, p.Msg)
	}
}
