package main

import (
	"fmt"
	"sort"
	"strings"
)

// per generated file: which items were translated from the source this run (true) and which
// fell back to the canonical definition (false)
var tieFlags = map[string]map[string]bool{}

func noteTie(file, item string, ok bool) {
	if tieFlags[file] == nil {
		tieFlags[file] = map[string]bool{}
	}
	tieFlags[file][item] = ok
}

func fallbackText(file string, defNames ...string) string {
	var sb strings.Builder
	for _, n := range defNames {
		t, ok := fallbackDefs[file+":"+n]
		if !ok {
			fmt.Fprintf(&sb, "-- (no canonical definition recorded for %s)\n", n)
			continue
		}
		sb.WriteString("-- FALLBACK (canonical definition; the source item could not be translated this run)\n")
		sb.WriteString(t)
		sb.WriteString("\n")
	}
	return sb.String()
}

// tieText emits `def <name>Tie : List (String × Bool)` and `def <name>TieOk : Bool`.
func tieText(file, name string) string {
	m := tieFlags[file]
	keys := make([]string, 0, len(m))
	for k := range m {
		keys = append(keys, k)
	}
	sort.Strings(keys)
	var sb strings.Builder
	fmt.Fprintf(&sb, "/-- which items of this file were translated from the current source (false = canonical fallback) -/\ndef %sTie : List (String × Bool) := [", name)
	for i, k := range keys {
		if i > 0 {
			sb.WriteString(", ")
		}
		fmt.Fprintf(&sb, "(%q, %v)", k, m[k])
	}
	fmt.Fprintf(&sb, "]\ndef %sTieOk : Bool := %sTie.all (·.2)\n\n", name, name)
	return sb.String()
}
