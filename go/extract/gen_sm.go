package main

import (
	"fmt"
	"go/ast"
	"go/token"
	"path/filepath"
	"strconv"
	"strings"
)

// A tiny translator for straight-line receiver methods with if/else and early returns:
// the receiver's mutable fields live in a Lean structure threaded as `s`; read-only
// fields and clock reads become parameters.  Used for the circuit breaker, the byte-pool
// index arithmetic and the round-robin cursor.

type smCfg struct {
	recv     string             // receiver identifier in the Go source
	stType   string             // Lean structure type of the mutable state
	mut      map[string]kind    // mutable receiver fields -> kind
	ro       map[string]binding // read-only receiver fields -> Lean parameter
	methods  map[string]string  // receiver methods callable as statements -> Lean function (takes s and extraArgs)
	extraArg string             // e.g. " now" appended to calls of sibling methods
	special  func(en *env, e ast.Expr, want kind) (string, kind, bool)
	loaded   map[string]string        // local variable -> mutable field whose (atomically loaded) value it holds
	leanOf   map[string]string        // source field name -> field name in the generated Lean structure (default: the same)
	pure     map[string]*ast.FuncDecl // receiver methods without effect on the state, usable in expressions
	rmw      []string                 // stores whose value was computed from an earlier load of the same field: not one atomic update
}

func (c *smCfg) env() *env {
	en := &env{vars: map[string]binding{}}
	en.special = func(e ast.Expr, want kind) (string, kind, bool) {
		// receiver field reads
		if se, ok := e.(*ast.SelectorExpr); ok {
			if id, ok := se.X.(*ast.Ident); ok && id.Name == c.recv {
				if k, ok := c.mut[se.Sel.Name]; ok {
					return "s." + c.lean(se.Sel.Name), k, true
				}
				if b, ok := c.ro[se.Sel.Name]; ok {
					return b.lean, b.k, true
				}
			}
		}
		if call, ok := e.(*ast.CallExpr); ok {
			fn := selString(call.Fun)
			switch fn {
			case "atomic.LoadInt64", "atomic.LoadUint64", "atomic.LoadInt32", "atomic.LoadUint32":
				if f, ok := c.addrField(call.Args[0]); ok {
					return "s." + c.lean(f), c.mut[f], true
				}
			}
			// a receiver method that only computes from the state (no stores): a straight-line body
			// `x := e; …; return r` is translated in place
			if se, ok := call.Fun.(*ast.SelectorExpr); ok && len(call.Args) == 0 {
				if id, ok := se.X.(*ast.Ident); ok && id.Name == c.recv {
					if fd := c.pure[se.Sel.Name]; fd != nil && fd.Body != nil && len(fd.Body.List) >= 1 {
						oldRecv := c.recv
						if fd.Recv != nil && len(fd.Recv.List) == 1 && len(fd.Recv.List[0].Names) == 1 {
							c.recv = fd.Recv.List[0].Names[0].Name
						}
						defer func() { c.recv = oldRecv }()
						en2 := c.env()
						for k, v := range en.vars {
							en2.vars[k] = v
						}
						list := fd.Body.List
						for _, st := range list[:len(list)-1] {
							as, ok := st.(*ast.AssignStmt)
							if !ok || as.Tok != token.DEFINE || len(as.Lhs) != 1 || len(as.Rhs) != 1 {
								bail("helper %s is not straight-line", se.Sel.Name)
							}
							lhs, ok := as.Lhs[0].(*ast.Ident)
							if !ok {
								bail("helper %s is not straight-line", se.Sel.Name)
							}
							rhs, k := en2.tr(as.Rhs[0], kUnknown)
							for f := range c.mut {
								if c.readsField(as.Rhs[0], f) {
									if c.loaded == nil {
										c.loaded = map[string]string{}
									}
									c.loaded[lhs.Name] = f
								}
							}
							en2.vars[lhs.Name] = binding{"(" + rhs + ")", k}
						}
						ret, ok := list[len(list)-1].(*ast.ReturnStmt)
						if !ok || len(ret.Results) != 1 {
							bail("helper %s does not end in a single return", se.Sel.Name)
						}
						r, k := en2.tr(ret.Results[0], want)
						return r, k, true
					}
				}
			}
		}
		if c.special != nil {
			return c.special(en, e, want)
		}
		return "", kUnknown, false
	}
	return en
}

// readsField: does the expression read the receiver's mutable field f (directly, through an atomic
// load, or through a local variable that holds an earlier load of it)?
func (c *smCfg) readsField(e ast.Expr, f string) bool {
	found := false
	ast.Inspect(e, func(n ast.Node) bool {
		switch t := n.(type) {
		case *ast.SelectorExpr:
			if id, ok := t.X.(*ast.Ident); ok && id.Name == c.recv && t.Sel.Name == f {
				found = true
			}
		case *ast.Ident:
			if c.loaded[t.Name] == f {
				found = true
			}
		}
		return !found
	})
	return found
}

func (c *smCfg) lean(f string) string {
	if n, ok := c.leanOf[f]; ok {
		return n
	}
	return f
}

// addrField recognises &recv.field
func (c *smCfg) addrField(e ast.Expr) (string, bool) {
	u, ok := e.(*ast.UnaryExpr)
	if !ok || u.Op != token.AND {
		return "", false
	}
	se, ok := u.X.(*ast.SelectorExpr)
	if !ok {
		return "", false
	}
	id, ok := se.X.(*ast.Ident)
	if !ok || id.Name != c.recv {
		return "", false
	}
	if _, ok := c.mut[se.Sel.Name]; !ok {
		return "", false
	}
	return se.Sel.Name, true
}

// trBody translates a statement list. retKind = kUnknown for methods without a result:
// the Lean value is then the final state `s`; otherwise it is the pair (s, result).
// retTr translates a return expression (default: en.tr).
func (c *smCfg) trBody(en *env, stmts []ast.Stmt, retKind kind, indent string, retTr func(en *env, e ast.Expr) string) string {
	var sb strings.Builder
	for i, st := range stmts {
		switch t := st.(type) {
		case *ast.AssignStmt:
			if len(t.Lhs) != 1 || len(t.Rhs) != 1 {
				bail("multi-assignment not supported")
			}
			// receiver field assignment: recv.f = e
			if se, ok := t.Lhs[0].(*ast.SelectorExpr); ok {
				id, ok := se.X.(*ast.Ident)
				if !ok || id.Name != c.recv {
					bail("assignment to %s not supported", selString(t.Lhs[0]))
				}
				k, ok := c.mut[se.Sel.Name]
				if !ok {
					bail("assignment to read-only or unknown field %s", se.Sel.Name)
				}
				rhs, _ := en.tr(t.Rhs[0], k)
				switch t.Tok {
				case token.ASSIGN:
				case token.ADD_ASSIGN:
					rhs = "(s." + se.Sel.Name + " + " + rhs + ")"
				case token.SUB_ASSIGN:
					rhs = "(s." + se.Sel.Name + " - " + rhs + ")"
				default:
					bail("assignment operator %s not supported", t.Tok)
				}
				fmt.Fprintf(&sb, "%slet s : %s := { s with %s := %s }\n", indent, c.stType, se.Sel.Name, rhs)
				continue
			}
			id, ok := t.Lhs[0].(*ast.Ident)
			if !ok {
				bail("assignment target %T not supported", t.Lhs[0])
			}
			var want kind
			if b, ok := en.vars[id.Name]; ok {
				want = b.k
			} else {
				want = en.kindOf(t.Rhs[0])
			}
			if want == kUnknown {
				want = kInt
			}
			rhs, k := en.tr(t.Rhs[0], want)
			for f := range c.mut {
				if c.readsField(t.Rhs[0], f) {
					if c.loaded == nil {
						c.loaded = map[string]string{}
					}
					c.loaded[id.Name] = f
				}
			}
			fmt.Fprintf(&sb, "%slet %s : %s := %s\n", indent, id.Name, leanType(k), rhs)
			en.vars[id.Name] = binding{id.Name, k}
		case *ast.ExprStmt:
			call, ok := t.X.(*ast.CallExpr)
			if !ok {
				bail("expression statement not supported")
			}
			fn := selString(call.Fun)
			switch {
			case fn == "atomic.StoreUint64" || fn == "atomic.StoreInt64":
				f, ok := c.addrField(call.Args[0])
				if !ok {
					bail("atomic store target not a receiver field")
				}
				v, _ := en.tr(call.Args[1], c.mut[f])
				if c.readsField(call.Args[1], f) {
					c.rmw = append(c.rmw, fmt.Sprintf("%s := %s", c.lean(f), v))
				}
				fmt.Fprintf(&sb, "%slet s : %s := { s with %s := %s }\n", indent, c.stType, c.lean(f), v)
			case fn == "atomic.AddUint64" || fn == "atomic.AddInt64":
				f, ok := c.addrField(call.Args[0])
				if !ok {
					bail("atomic add target not a receiver field")
				}
				v, _ := en.tr(call.Args[1], c.mut[f])
				fmt.Fprintf(&sb, "%slet s : %s := { s with %s := (s.%s + %s) }\n", indent, c.stType, c.lean(f), c.lean(f), v)
			case strings.HasPrefix(fn, c.recv+".") && c.methods[strings.TrimPrefix(fn, c.recv+".")] != "" && len(call.Args) == 0:
				fmt.Fprintf(&sb, "%slet s : %s := %s s%s\n", indent, c.stType, c.methods[strings.TrimPrefix(fn, c.recv+".")], c.extraArg)
			default:
				bail("call statement %s not supported", fn)
			}
		case *ast.IfStmt:
			if t.Init != nil {
				bail("if with init not supported")
			}
			cond, _ := en.tr(t.Cond, kBool)
			rest := stmts[i+1:]
			thenEnv := en.clone()
			thenS := c.trBody(thenEnv, append(append([]ast.Stmt{}, t.Body.List...), restIfNoReturn(t.Body.List, rest)...), retKind, indent+"  ", retTr)
			var elseS string
			if t.Else != nil {
				eb, ok := t.Else.(*ast.BlockStmt)
				if !ok {
					bail("else-if not supported")
				}
				elseEnv := en.clone()
				elseS = c.trBody(elseEnv, append(append([]ast.Stmt{}, eb.List...), restIfNoReturn(eb.List, rest)...), retKind, indent+"  ", retTr)
			} else {
				elseS = c.trBody(en.clone(), rest, retKind, indent+"  ", retTr)
			}
			fmt.Fprintf(&sb, "%sif %s then\n%s%selse\n%s", indent, cond, thenS, indent, elseS)
			return sb.String()
		case *ast.ReturnStmt:
			if retKind == kUnknown {
				if len(t.Results) != 0 {
					bail("unexpected return value")
				}
				sb.WriteString(indent + "s\n")
				return sb.String()
			}
			if len(t.Results) != 1 {
				bail("return arity")
			}
			var r string
			if retTr != nil {
				r = retTr(en, t.Results[0])
			} else {
				r, _ = en.tr(t.Results[0], retKind)
			}
			fmt.Fprintf(&sb, "%s(s, %s)\n", indent, r)
			return sb.String()
		default:
			bail("statement %T not supported", st)
		}
	}
	if retKind != kUnknown {
		bail("missing return")
	}
	sb.WriteString(indent + "s\n")
	return sb.String()
}

func endsInReturn(stmts []ast.Stmt) bool {
	if len(stmts) == 0 {
		return false
	}
	_, ok := stmts[len(stmts)-1].(*ast.ReturnStmt)
	return ok
}

func restIfNoReturn(block []ast.Stmt, rest []ast.Stmt) []ast.Stmt {
	if endsInReturn(block) {
		return nil
	}
	return rest
}

// ---------------------------------------------------------------------------------
// circuit breaker

func genBreaker() string {
	pi := loadPkg(filepath.Join(*repo, "client"))
	usePkg(pi)
	var sb strings.Builder
	sb.WriteString("-- GENERATED by /verif/go/extract from client/circuit_breaker.go — do not edit.\n")
	sb.WriteString("import Rpcx.Basic\nset_option linter.unusedVariables false\nnamespace Rpcx.Gen\n\n")
	sb.WriteString("/-- mutable fields of ConsecCircuitBreaker (times in ns; `failures` is a uint64 modelled as Nat) -/\n")
	sb.WriteString("structure BreakerSt where\n  lastFailureTime : Int\n  failures : Nat\nderiving DecidableEq, Repr\n\n")
	cfg := &smCfg{
		recv:   "cb",
		stType: "BreakerSt",
		mut:    map[string]kind{"lastFailureTime": kInt, "failures": kNat},
		ro: map[string]binding{
			"failureThreshold": {"threshold", kNat},
			"window":           {"window", kInt},
		},
		methods:  map[string]string{"reset": "Breaker.reset", "fail": "Breaker.fail", "success": "Breaker.success"},
		extraArg: " now",
	}
	// the fields by ROLE, whatever they are called: the int64 is the time stamp, the uint64 that some
	// atomic.AddUint64 increments is the failure counter, the other uint64 the threshold, the Duration the window
	if roles := breakerFieldRoles(pi); roles != nil {
		cfg.mut = map[string]kind{roles["lastFailureTime"]: kInt, roles["failures"]: kNat}
		cfg.leanOf = map[string]string{roles["lastFailureTime"]: "lastFailureTime", roles["failures"]: "failures"}
		cfg.ro = map[string]binding{roles["threshold"]: {"threshold", kNat}, roles["window"]: {"window", kInt}}
	}
	// receiver methods that store nothing: usable as expressions
	cfg.pure = map[string]*ast.FuncDecl{}
	for name, fd := range pi.funcs {
		if !strings.HasPrefix(name, "ConsecCircuitBreaker.") || fd.Body == nil {
			continue
		}
		m := strings.TrimPrefix(name, "ConsecCircuitBreaker.")
		if cfg.methods[m] != "" || m == "ready" || m == "Ready" || m == "Call" {
			continue
		}
		stores := false
		ast.Inspect(fd.Body, func(n ast.Node) bool {
			if call, ok := n.(*ast.CallExpr); ok {
				fn := selString(call.Fun)
				if strings.HasPrefix(fn, "atomic.Store") || strings.HasPrefix(fn, "atomic.Add") || strings.HasPrefix(fn, "atomic.Swap") || strings.HasPrefix(fn, "atomic.CompareAndSwap") {
					stores = true
				}
			}
			if _, ok := n.(*ast.AssignStmt); ok {
				// an assignment to a receiver field would be a (non-atomic) store
				for _, l := range n.(*ast.AssignStmt).Lhs {
					if se, ok := l.(*ast.SelectorExpr); ok {
						if id, ok := se.X.(*ast.Ident); ok && fd.Recv != nil && len(fd.Recv.List[0].Names) == 1 && id.Name == fd.Recv.List[0].Names[0].Name {
							stores = true
						}
					}
				}
			}
			return true
		})
		if !stores && fd.Type.Results != nil && len(fd.Type.Results.List) == 1 && fd.Type.Params.NumFields() == 0 {
			cfg.pure[m] = fd
		}
	}
	cfg.special = func(en *env, e ast.Expr, want kind) (string, kind, bool) {
		call, ok := e.(*ast.CallExpr)
		if !ok {
			return "", kUnknown, false
		}
		switch selString(call.Fun) {
		case "time.Unix":
			// time.Unix(0, ns): the instant, represented by its ns value
			if len(call.Args) == 2 {
				if bl, ok := call.Args[0].(*ast.BasicLit); ok && bl.Value == "0" {
					s, _ := en.tr(call.Args[1], kInt)
					return s, kInt, true
				}
			}
			bail("time.Unix with non-zero seconds")
		case "time.Since":
			s, _ := en.tr(call.Args[0], kInt)
			return "(now - " + s + ")", kInt, true
		}
		// time.Now().UnixNano()
		if se, ok := call.Fun.(*ast.SelectorExpr); ok && se.Sel.Name == "UnixNano" {
			if inner, ok := se.X.(*ast.CallExpr); ok && selString(inner.Fun) == "time.Now" {
				return "now", kInt, true
			}
		}
		return "", kUnknown, false
	}
	type m struct {
		name   string
		params string
		ret    kind
	}
	for _, mm := range []m{{"reset", " (now : Int)", kUnknown}, {"fail", " (now : Int)", kUnknown}, {"success", " (now : Int)", kUnknown},
		{"ready", " (threshold : Nat) (window : Int) (now : Int)", kBool}} {
		item := "ConsecCircuitBreaker." + mm.name
		fd := pi.funcs[item]
		ok := fd != nil && try(item, func() {
			if len(fd.Recv.List[0].Names) == 1 {
				cfg.recv = fd.Recv.List[0].Names[0].Name
			}
			cfg.loaded = nil
			body := cfg.trBody(cfg.env(), fd.Body.List, mm.ret, "  ", nil)
			rt := "BreakerSt"
			if mm.ret != kUnknown {
				rt = "BreakerSt × " + leanType(mm.ret)
			}
			fmt.Fprintf(&sb, "def Breaker.%s (s : BreakerSt)%s : %s :=\n%s\n", mm.name, mm.params, rt, body)
		})
		noteTie("Breaker.lean", item, ok)
		if !ok {
			if fd == nil {
				addProblem(item, "method not found")
			}
			sb.WriteString(fallbackText("Breaker.lean", "Breaker."+mm.name))
		}
	}
	// the exported wrappers must be the plain delegations the model assumes
	for _, w := range [][2]string{{"Success", "success"}, {"Fail", "fail"}, {"Ready", "ready"}} {
		item := "ConsecCircuitBreaker." + w[0]
		fd := pi.funcs[item]
		good := fd != nil && len(fd.Body.List) == 1
		if good {
			var call *ast.CallExpr
			switch st := fd.Body.List[0].(type) {
			case *ast.ExprStmt:
				call, _ = st.X.(*ast.CallExpr)
			case *ast.ReturnStmt:
				if len(st.Results) == 1 {
					call, _ = st.Results[0].(*ast.CallExpr)
				}
			}
			good = call != nil && strings.HasSuffix(selString(call.Fun), "."+w[1]) && len(call.Args) == 0
		}
		noteTie("Breaker.lean", item, good)
		if !good {
			addProblem(item, "exported wrapper is not a plain delegation to %s", w[1])
		}
		fmt.Fprintf(&sb, "def Breaker.wrapper_%s_delegates : Bool := %v\n", w[0], good)
	}
	sb.WriteString("/-- updates of a field whose new value is computed from an earlier load of the same field (a lost-update\n    window between concurrent callers); the concurrent model takes every update to be ONE atomic operation -/\n")
	fmt.Fprintf(&sb, "def Breaker.nonAtomicUpdates : List String := [%s]\n", strings.Join(quoteAll(cfg.rmw), ", "))
	sb.WriteString(tieText("Breaker.lean", "breaker"))
	sb.WriteString("\nend Rpcx.Gen\n")
	return sb.String()
}

func quoteAll(xs []string) []string {
	out := make([]string, len(xs))
	for i, x := range xs {
		out[i] = strconv.Quote(x)
	}
	return out
}

// breakerFieldRoles finds the four fields of ConsecCircuitBreaker by type and use
func breakerFieldRoles(pi *pkgInfo) map[string]string {
	var st *ast.StructType
	for _, f := range pi.files {
		for _, d := range f.Decls {
			if gd, ok := d.(*ast.GenDecl); ok && gd.Tok == token.TYPE {
				for _, sp := range gd.Specs {
					if ts := sp.(*ast.TypeSpec); ts.Name.Name == "ConsecCircuitBreaker" {
						st, _ = ts.Type.(*ast.StructType)
					}
				}
			}
		}
	}
	if st == nil {
		return nil
	}
	var i64, u64, dur []string
	for _, fl := range st.Fields.List {
		t := selString(fl.Type)
		if id, ok := fl.Type.(*ast.Ident); ok {
			t = id.Name
		}
		for _, n := range fl.Names {
			switch t {
			case "int64":
				i64 = append(i64, n.Name)
			case "uint64":
				u64 = append(u64, n.Name)
			case "time.Duration":
				dur = append(dur, n.Name)
			}
		}
	}
	if len(i64) != 1 || len(u64) != 2 || len(dur) != 1 {
		return nil
	}
	added := ""
	for _, f := range pi.files {
		ast.Inspect(f, func(n ast.Node) bool {
			if call, ok := n.(*ast.CallExpr); ok && selString(call.Fun) == "atomic.AddUint64" && len(call.Args) == 2 {
				if u, ok := call.Args[0].(*ast.UnaryExpr); ok && u.Op == token.AND {
					if se, ok := u.X.(*ast.SelectorExpr); ok && (se.Sel.Name == u64[0] || se.Sel.Name == u64[1]) {
						added = se.Sel.Name
					}
				}
			}
			return true
		})
	}
	if added == "" {
		// no atomic add anywhere: keep the counter's usual name if it is there
		if u64[0] == "failures" || u64[1] == "failures" {
			added = "failures"
		} else {
			return nil
		}
	}
	other := u64[0]
	if other == added {
		other = u64[1]
	}
	return map[string]string{"lastFailureTime": i64[0], "failures": added, "threshold": other, "window": dur[0]}
}
