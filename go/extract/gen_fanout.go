package main

// Fan-out facts (client/xclient.go: Broadcast, Fork, Inform): inside the worker goroutine started for
// every contacted server, everything that RECORDS the outcome (appending the error, copying the reply
// once, appending the receipt) happens before the completion SIGNAL on the done channel, and the signal
// is sent on every path.  The goroutine-level model (lean/Rpcx/Model/FanoutConc.lean) takes that order
// as the program of a worker; Props/C17 proves `tie_fanout_record_before_signal` over these facts.

import (
	"fmt"
	"go/ast"
	"go/token"
	"path/filepath"
	"strings"
)

type fanFact struct {
	fn                 string
	found              bool
	signals            int
	signalDeferred     bool
	records            int
	recordBeforeSignal bool
	signalOnEveryPath  bool
}

// workerBodies returns the bodies of the goroutines a function starts: function literals, or
// same-package functions / methods called by a go statement (one level)
func workerBodies(pi *pkgInfo, fd *ast.FuncDecl) []*ast.BlockStmt {
	var out []*ast.BlockStmt
	ast.Inspect(fd.Body, func(n ast.Node) bool {
		g, ok := n.(*ast.GoStmt)
		if !ok {
			return true
		}
		switch f := g.Call.Fun.(type) {
		case *ast.FuncLit:
			out = append(out, f.Body)
		case *ast.Ident:
			if t := pi.funcs[f.Name]; t != nil && t.Body != nil {
				out = append(out, t.Body)
			} else if lit := localFuncLit(fd, f.Name); lit != nil {
				out = append(out, lit.Body)
			}
		case *ast.SelectorExpr:
			for name, t := range pi.funcs {
				if strings.HasSuffix(name, "."+f.Sel.Name) && t.Body != nil && t.Recv != nil {
					out = append(out, t.Body)
					break
				}
			}
		}
		return false
	})
	return out
}

// localFuncLit: `name := func(…) {…}` (or `var name = func…`) inside fd
func localFuncLit(fd *ast.FuncDecl, name string) *ast.FuncLit {
	var out *ast.FuncLit
	ast.Inspect(fd.Body, func(n ast.Node) bool {
		switch t := n.(type) {
		case *ast.AssignStmt:
			for i, l := range t.Lhs {
				if id, ok := l.(*ast.Ident); ok && id.Name == name && i < len(t.Rhs) {
					if lit, ok := t.Rhs[i].(*ast.FuncLit); ok {
						out = lit
					}
				}
			}
		case *ast.ValueSpec:
			for i, id := range t.Names {
				if id.Name == name && i < len(t.Values) {
					if lit, ok := t.Values[i].(*ast.FuncLit); ok {
						out = lit
					}
				}
			}
		}
		return true
	})
	return out
}

type fanEvent struct {
	pos      token.Pos
	signal   bool
	deferred bool      // inside a deferred function literal
	deferPos token.Pos // where that defer statement stands
	topLevel bool      // a statement of the worker body itself (not nested in an if / for / select)
}

func isRecordCall(call *ast.CallExpr) bool {
	switch f := call.Fun.(type) {
	case *ast.SelectorExpr:
		// err.Append(e) – the shared MultiError; replyOnce.Do(...) – the one-time copy of the reply
		return f.Sel.Name == "Append" || f.Sel.Name == "Do"
	case *ast.Ident:
		return f.Name == "append" // receipts = append(receipts, ...)
	}
	return false
}

func fanEvents(body *ast.BlockStmt) []fanEvent {
	var evs []fanEvent
	top := map[ast.Stmt]bool{}
	for _, st := range body.List {
		top[st] = true
	}
	var walk func(n ast.Node, deferred bool, deferPos token.Pos)
	walk = func(n ast.Node, deferred bool, deferPos token.Pos) {
		ast.Inspect(n, func(m ast.Node) bool {
			switch t := m.(type) {
			case *ast.DeferStmt:
				if lit, ok := t.Call.Fun.(*ast.FuncLit); ok {
					walk(lit.Body, true, t.Pos())
				} else if isRecordCall(t.Call) {
					evs = append(evs, fanEvent{pos: t.Pos(), deferred: true, deferPos: t.Pos()})
				}
				return false
			case *ast.SendStmt:
				evs = append(evs, fanEvent{pos: t.Pos(), signal: true, deferred: deferred, deferPos: deferPos, topLevel: top[t]})
			case *ast.CallExpr:
				if isRecordCall(t) {
					evs = append(evs, fanEvent{pos: t.Pos(), deferred: deferred, deferPos: deferPos})
					// the function literal handed to Do() copies the reply: part of this record, not a new one
					return false
				}
			}
			return true
		})
	}
	walk(body, false, token.NoPos)
	return evs
}

func fanFactOf(pi *pkgInfo, name string) fanFact {
	ff := fanFact{fn: name}
	fd := pi.funcs["xClient."+name]
	if fd == nil || fd.Body == nil {
		addProblem("fanout:xClient."+name, "method not found")
		return ff
	}
	bodies := workerBodies(pi, fd)
	if len(bodies) == 0 {
		addProblem("fanout:xClient."+name, "no worker goroutine found")
		return ff
	}
	ff.found = true
	ff.recordBeforeSignal = true
	ff.signalOnEveryPath = true
	for _, body := range bodies {
		evs := fanEvents(body)
		var sig *fanEvent
		for i := range evs {
			if evs[i].signal {
				ff.signals++
				if sig == nil {
					sig = &evs[i]
				}
			}
		}
		if sig == nil {
			continue
		}
		ff.signalDeferred = ff.signalDeferred || sig.deferred
		if !sig.deferred && !sig.topLevel {
			ff.signalOnEveryPath = false
		}
		if !sig.deferred && sig.topLevel {
			// a plain signal must be the last statement: anything after it, and any return before it, escapes it
			if body.List[len(body.List)-1].Pos() != sig.pos {
				ff.signalOnEveryPath = false
			}
			ast.Inspect(body, func(n ast.Node) bool {
				if _, ok := n.(*ast.FuncLit); ok {
					return false
				}
				if r, ok := n.(*ast.ReturnStmt); ok && r.Pos() < sig.pos {
					ff.signalOnEveryPath = false
				}
				return true
			})
		}
		for _, e := range evs {
			if e.signal {
				continue
			}
			ff.records++
			switch {
			case sig.deferred && !e.deferred:
				// runs before the function returns, hence before the deferred signal – unless it stands
				// before the defer statement only in source order, which is the same thing
			case sig.deferred && e.deferred:
				// deferred calls run last-in first-out: the record must be registered AFTER the signal
				if e.deferPos < sig.deferPos {
					ff.recordBeforeSignal = false
				}
			case !sig.deferred && e.deferred:
				ff.recordBeforeSignal = false
			default:
				if e.pos > sig.pos {
					ff.recordBeforeSignal = false
				}
			}
		}
	}
	return ff
}

func genFanout() string {
	pi := loadPkg(filepath.Join(*repo, "client"))
	var sb strings.Builder
	sb.WriteString("-- GENERATED by /verif/go/extract from client/xclient.go — do not edit.\n")
	sb.WriteString("import Rpcx.Basic\nnamespace Rpcx.Gen\n\n")
	sb.WriteString("/-- the worker goroutine Broadcast / Fork / Inform start for every contacted server -/\n")
	sb.WriteString("structure FanWorker where\n  fn : String\n  found : Bool               -- a worker goroutine was found\n  signals : Nat              -- channel sends in the worker (the completion signal)\n  signalDeferred : Bool\n  records : Nat              -- statements recording the outcome: error append, one-time reply copy, receipt append\n  recordBeforeSignal : Bool  -- every record happens before the signal\n  signalOnEveryPath : Bool   -- deferred, or the last statement with no return before it\nderiving DecidableEq, Repr\n\n")
	sb.WriteString("def fanWorkers : List FanWorker := [\n")
	names := []string{"Broadcast", "Fork", "Inform"}
	for i, n := range names {
		f := fanFactOf(pi, n)
		sep := ","
		if i == len(names)-1 {
			sep = ""
		}
		fmt.Fprintf(&sb, "  ⟨%q, %v, %d, %v, %d, %v, %v⟩%s\n", "xClient."+f.fn, f.found, f.signals, f.signalDeferred, f.records, f.recordBeforeSignal, f.signalOnEveryPath, sep)
	}
	sb.WriteString("]\n\nend Rpcx.Gen\n")
	return sb.String()
}
