package main

// Plugin-stage facts (server/plugin.go): the container methods behind the three rejecting stages –
// DoPostConnAccept, DoPostReadRequest, DoPreCall – walk the registered plugins in order and RETURN THE
// REJECTION of the first plugin that rejects: the plugin's verdict is looked at immediately after the
// plugin was called, a rejection leaves the loop by `return`, and acceptance is what is returned after
// the loop.  (So a later plugin can never undo an earlier rejection.)  Model: lean/Rpcx/Model/Plugins.lean
// (`firstErr`, `allAccept`); Props/C15 proves `tie_plugin_stages_first_rejection_wins` over these facts.

import (
	"fmt"
	"go/ast"
	"go/token"
	"path/filepath"
	"strings"
)

// pluginCallIn returns the call of a plugin method inside n (a call whose receiver is an identifier bound
// by a type assertion or range over the plugin list – here simply: a method call that is not on `p`)
func pluginCallIn(n ast.Node, recv string) *ast.CallExpr {
	var found *ast.CallExpr
	ast.Inspect(n, func(m ast.Node) bool {
		if found != nil {
			return false
		}
		if c, ok := m.(*ast.CallExpr); ok {
			if se, ok := c.Fun.(*ast.SelectorExpr); ok {
				if id, ok := se.X.(*ast.Ident); ok && id.Name != recv && id.Name != "log" && id.Name != "fmt" {
					// conn.Close() and the like are not plugin calls: plugin methods take arguments
					if len(c.Args) > 0 {
						found = c
						return false
					}
				}
			}
		}
		return true
	})
	return found
}

func blockEndsInReturn(b *ast.BlockStmt) bool {
	if b == nil || len(b.List) == 0 {
		return false
	}
	_, ok := b.List[len(b.List)-1].(*ast.ReturnStmt)
	return ok
}

// stageFact: does the method return the first rejection?
func stageFact(pi *pkgInfo, name string) (bool, string) {
	fd := pi.funcs["pluginContainer."+name]
	if fd == nil || fd.Body == nil {
		return false, "method not found"
	}
	recv := "p"
	if fd.Recv != nil && len(fd.Recv.List) == 1 && len(fd.Recv.List[0].Names) == 1 {
		recv = fd.Recv.List[0].Names[0].Name
	}
	// the loop over the plugins
	var loopBody *ast.BlockStmt
	loops := 0
	for _, st := range fd.Body.List {
		switch t := st.(type) {
		case *ast.ForStmt:
			loops++
			loopBody = t.Body
		case *ast.RangeStmt:
			loops++
			loopBody = t.Body
		}
	}
	if loops != 1 {
		return false, fmt.Sprintf("%d loops over the plugins", loops)
	}
	// after the loop: a plain return (acceptance)
	if _, ok := fd.Body.List[len(fd.Body.List)-1].(*ast.ReturnStmt); !ok {
		return false, "no return after the loop"
	}
	// inside the loop: find the block that holds the plugin call
	var verdict string
	ok := false
	var visit func(b *ast.BlockStmt) bool // returns true when the call was found in this block (or below)
	visit = func(b *ast.BlockStmt) bool {
		for i, st := range b.List {
			// descend into `if plugin, ok := …(XPlugin); ok { … }`
			if ifs, isIf := st.(*ast.IfStmt); isIf && pluginCallIn(ifs.Body, recv) != nil && (ifs.Init == nil || pluginCallIn(ifs.Init, recv) == nil) && pluginCallIn(ifs.Cond, recv) == nil {
				return visit(ifs.Body)
			}
			if pluginCallIn(st, recv) == nil {
				// anything that can skip the verdict before the plugin is even called is fine; but nothing
				// may stand between the call and the check – handled below
				continue
			}
			// st calls the plugin
			switch t := st.(type) {
			case *ast.IfStmt:
				// if err := plugin.X(…); err != nil { return err }
				if t.Init != nil && pluginCallIn(t.Init, recv) != nil && blockEndsInReturn(t.Body) && t.Else == nil {
					ok = true
				} else {
					verdict = "the plugin is called inside an if that does not return the rejection"
				}
			case *ast.AssignStmt:
				if i+1 >= len(b.List) {
					verdict = "nothing looks at the plugin's verdict"
					return true
				}
				next, isIf := b.List[i+1].(*ast.IfStmt)
				if !isIf || !blockEndsInReturn(next.Body) {
					verdict = "the statement after the plugin call does not return the rejection"
					return true
				}
				// the condition must mention a variable the call assigned
				assigned := map[string]bool{}
				for _, l := range t.Lhs {
					if id, isId := l.(*ast.Ident); isId {
						assigned[id.Name] = true
					}
				}
				mentions := false
				ast.Inspect(next.Cond, func(n ast.Node) bool {
					if id, isId := n.(*ast.Ident); isId && assigned[id.Name] {
						mentions = true
					}
					return true
				})
				if !mentions {
					verdict = "the check after the plugin call does not look at what the plugin returned"
					return true
				}
				ok = true
			default:
				verdict = "the plugin's result is not kept"
			}
			return true
		}
		return false
	}
	if !visit(loopBody) && verdict == "" {
		verdict = "no plugin call found in the loop"
	}
	// no `continue` / `break` / goto between loop head and the check that could skip a rejection AFTER the call:
	// covered by "the statement after the call returns the rejection".  A loop that never returns inside is caught above.
	_ = token.NoPos
	return ok, verdict
}

func genPlugins() string {
	pi := loadPkg(filepath.Join(*repo, "server"))
	var sb strings.Builder
	sb.WriteString("-- GENERATED by /verif/go/extract from server/plugin.go — do not edit.\n")
	sb.WriteString("import Rpcx.Basic\nnamespace Rpcx.Gen\n\n")
	sb.WriteString("/-- per rejecting stage of the server's plugin container: the loop over the registered plugins returns the\n    rejection of the FIRST plugin that rejects (checked right after the plugin was called) -/\n")
	sb.WriteString("def pluginStages : List (String × Bool) := [\n")
	names := []string{"DoPostConnAccept", "DoPostReadRequest", "DoPreCall"}
	for i, n := range names {
		good, why := stageFact(pi, n)
		if !good {
			addProblem("plugins:"+n, "%s", why)
		}
		sep := ","
		if i == len(names)-1 {
			sep = ""
		}
		fmt.Fprintf(&sb, "  (%q, %v)%s\n", n, good, sep)
	}
	sb.WriteString("]\n\nend Rpcx.Gen\n")
	return sb.String()
}
