package main

import (
	"fmt"
	"go/ast"
	"go/token"
	"strconv"
	"strings"
)

// kinds of values the translator knows
type kind int

const (
	kUnknown kind = iota
	kU8
	kU32
	kU64
	kInt // Go int / int64 / time.Duration: Lean Int
	kNat // lengths and sizes known to be non-negative: Lean Nat
	kBool
)

func (k kind) width() int {
	switch k {
	case kU8:
		return 8
	case kU32:
		return 32
	case kU64:
		return 64
	}
	return 0
}

// typeKinds maps Go type names (as written) to kinds.
var typeKinds = map[string]kind{
	"byte": kU8, "uint8": kU8,
	"MessageType": kU8, "MessageStatusType": kU8, "CompressType": kU8, "SerializeType": kU8,
	"uint32": kU32, "uint64": kU64,
	"int": kInt, "int64": kInt, "Duration": kInt,
	"bool": kBool,
}

func kindOfTypeExpr(e ast.Expr) kind {
	switch t := e.(type) {
	case *ast.Ident:
		return typeKinds[t.Name]
	case *ast.SelectorExpr:
		return typeKinds[t.Sel.Name]
	}
	return kUnknown
}

// env gives the translation of identifiers and special forms.
type env struct {
	vars map[string]binding
	// hook for selector / index / call expressions the generic code does not know
	special func(e ast.Expr, want kind) (string, kind, bool)
}

type binding struct {
	lean string
	k    kind
}

func (en *env) clone() *env {
	n := &env{vars: map[string]binding{}, special: en.special}
	for k, v := range en.vars {
		n.vars[k] = v
	}
	return n
}

func lit(val uint64, k kind) string {
	switch k {
	case kU8, kU32, kU64:
		return fmt.Sprintf("0x%02X#%d", val, k.width())
	default:
		return strconv.FormatUint(val, 10)
	}
}

func parseIntLit(s string) uint64 {
	s = strings.ReplaceAll(s, "_", "")
	v, err := strconv.ParseUint(s, 0, 64)
	if err != nil {
		bail("integer literal %q: %v", s, err)
	}
	return v
}

func isLit(e ast.Expr) bool {
	switch t := e.(type) {
	case *ast.BasicLit:
		return t.Kind == token.INT
	case *ast.ParenExpr:
		return isLit(t.X)
	}
	return false
}

// kindOf infers the kind of an expression without a context (kUnknown for bare literals).
func (en *env) kindOf(e ast.Expr) kind {
	switch t := e.(type) {
	case *ast.ParenExpr:
		return en.kindOf(t.X)
	case *ast.BasicLit:
		return kUnknown
	case *ast.Ident:
		if b, ok := en.vars[t.Name]; ok {
			return b.k
		}
		if t.Name == "true" || t.Name == "false" {
			return kBool
		}
		return kUnknown
	case *ast.UnaryExpr:
		if t.Op == token.NOT {
			return kBool
		}
		return en.kindOf(t.X)
	case *ast.BinaryExpr:
		switch t.Op {
		case token.EQL, token.NEQ, token.LSS, token.LEQ, token.GTR, token.GEQ, token.LAND, token.LOR:
			return kBool
		case token.SHL, token.SHR:
			return en.kindOf(t.X)
		}
		if k := en.kindOf(t.X); k != kUnknown {
			return k
		}
		return en.kindOf(t.Y)
	case *ast.CallExpr:
		if len(t.Args) == 1 {
			if k := kindOfTypeExpr(t.Fun); k != kUnknown {
				return k
			}
		}
		if id, ok := t.Fun.(*ast.Ident); ok && id.Name == "len" {
			return kInt
		}
	}
	if en.special != nil {
		if _, k, ok := en.special(e, kUnknown); ok {
			return k
		}
	}
	return kUnknown
}

// tr translates an expression; want is the kind the context expects (used for literals).
func (en *env) tr(e ast.Expr, want kind) (string, kind) {
	switch t := e.(type) {
	case *ast.ParenExpr:
		s, k := en.tr(t.X, want)
		return s, k
	case *ast.BasicLit:
		if t.Kind != token.INT {
			bail("literal %s not supported", t.Value)
		}
		if want == kUnknown || want == kBool {
			bail("cannot type literal %s", t.Value)
		}
		return lit(parseIntLit(t.Value), want), want
	case *ast.Ident:
		if b, ok := en.vars[t.Name]; ok {
			return b.lean, b.k
		}
		switch t.Name {
		case "true":
			return "true", kBool
		case "false":
			return "false", kBool
		}
		bail("unknown identifier %s", t.Name)
	case *ast.UnaryExpr:
		switch t.Op {
		case token.NOT:
			s, _ := en.tr(t.X, kBool)
			return "(!" + s + ")", kBool
		case token.XOR:
			s, k := en.tr(t.X, want)
			return "(~~~" + s + ")", k
		case token.SUB:
			s, k := en.tr(t.X, want)
			return "(-" + s + ")", k
		}
		bail("unary %s not supported", t.Op)
	case *ast.BinaryExpr:
		return en.trBinary(t, want)
	case *ast.CallExpr:
		// conversions between byte-like types are the identity on the model
		if len(t.Args) == 1 {
			if k := kindOfTypeExpr(t.Fun); k != kUnknown {
				ak := en.kindOf(t.Args[0])
				if ak == kUnknown || ak == k || isLit(t.Args[0]) {
					s, _ := en.tr(t.Args[0], k)
					return s, k
				}
				s, _ := en.tr(t.Args[0], ak)
				return convert(s, ak, k), k
			}
		}
	}
	if en.special != nil {
		if s, k, ok := en.special(e, want); ok {
			return s, k
		}
	}
	bail("expression not in the translated subset: %T", e)
	return "", kUnknown
}

func convert(s string, from, to kind) string {
	if from == to {
		return s
	}
	fw, tw := from.width(), to.width()
	switch {
	case fw > 0 && tw > 0:
		return fmt.Sprintf("(BitVec.setWidth %d %s)", tw, s)
	case fw > 0 && (to == kInt):
		return fmt.Sprintf("(Int.ofNat (BitVec.toNat %s))", s)
	case fw > 0 && (to == kNat):
		return fmt.Sprintf("(BitVec.toNat %s)", s)
	case from == kNat && to == kInt:
		return fmt.Sprintf("(Int.ofNat %s)", s)
	case (from == kInt) && tw > 0:
		return fmt.Sprintf("(BitVec.ofInt %d %s)", tw, s)
	case (from == kNat) && tw > 0:
		return fmt.Sprintf("(BitVec.ofNat %d %s)", tw, s)
	}
	bail("conversion %d -> %d not supported", from, to)
	return ""
}

func (en *env) trBinary(t *ast.BinaryExpr, want kind) (string, kind) {
	switch t.Op {
	case token.LAND, token.LOR:
		a, _ := en.tr(t.X, kBool)
		b, _ := en.tr(t.Y, kBool)
		op := "&&"
		if t.Op == token.LOR {
			op = "||"
		}
		return "(" + a + " " + op + " " + b + ")", kBool
	case token.EQL, token.NEQ, token.LSS, token.LEQ, token.GTR, token.GEQ:
		k := en.kindOf(t.X)
		if k == kUnknown {
			k = en.kindOf(t.Y)
		}
		if k == kUnknown {
			bail("cannot type comparison operands")
		}
		a, _ := en.tr(t.X, k)
		b, _ := en.tr(t.Y, k)
		switch t.Op {
		case token.EQL:
			return "(" + a + " == " + b + ")", kBool
		case token.NEQ:
			return "(" + a + " != " + b + ")", kBool
		}
		op := map[token.Token]string{token.LSS: "<", token.LEQ: "≤", token.GTR: ">", token.GEQ: "≥"}[t.Op]
		return "(decide (" + a + " " + op + " " + b + "))", kBool
	case token.SHL, token.SHR:
		k := en.kindOf(t.X)
		if k == kUnknown {
			k = want
		}
		a, _ := en.tr(t.X, k)
		if !isLit(t.Y) {
			bail("shift by a non-literal")
		}
		var n uint64
		ast.Inspect(t.Y, func(nd ast.Node) bool {
			if bl, ok := nd.(*ast.BasicLit); ok {
				n = parseIntLit(bl.Value)
			}
			return true
		})
		op := "<<<"
		if t.Op == token.SHR {
			op = ">>>"
		}
		if k.width() == 0 {
			bail("shift of a non-bitvector")
		}
		return fmt.Sprintf("(%s %s %d)", a, op, n), k
	}
	k := en.kindOf(t.X)
	if k == kUnknown {
		k = en.kindOf(t.Y)
	}
	if k == kUnknown {
		k = want
	}
	a, _ := en.tr(t.X, k)
	b, _ := en.tr(t.Y, k)
	switch t.Op {
	case token.AND:
		return "(" + a + " &&& " + b + ")", k
	case token.OR:
		return "(" + a + " ||| " + b + ")", k
	case token.XOR:
		return "(" + a + " ^^^ " + b + ")", k
	case token.AND_NOT:
		return "(" + a + " &&& ~~~" + b + ")", k
	case token.ADD:
		return "(" + a + " + " + b + ")", k
	case token.SUB:
		return "(" + a + " - " + b + ")", k
	case token.MUL:
		return "(" + a + " * " + b + ")", k
	case token.QUO:
		if k == kInt {
			return "(Int.tdiv " + a + " " + b + ")", k
		}
		return "(" + a + " / " + b + ")", k
	case token.REM:
		if k == kInt {
			return "(Int.tmod " + a + " " + b + ")", k
		}
		return "(" + a + " % " + b + ")", k
	}
	bail("binary %s not supported", t.Op)
	return "", kUnknown
}

func lowerFirst(s string) string {
	if s == "" {
		return s
	}
	return strings.ToLower(s[:1]) + s[1:]
}

// ---- inlining of float-valued temporaries ---------------------------------------------------------
//
// `ratio := float64(a) / float64(b); idx := int(math.Ceil(math.Log2(ratio)))` means the same as the
// one-line form.  The translated subset has no float type, so single-definition temporaries whose
// right-hand side involves float64(…) / math.* are substituted into their uses before translation.

func mentionsFloat(e ast.Expr) bool {
	found := false
	ast.Inspect(e, func(n ast.Node) bool {
		if c, ok := n.(*ast.CallExpr); ok {
			fn := selString(c.Fun)
			if fn == "float64" || fn == "float32" || strings.HasPrefix(fn, "math.") {
				found = true
			}
		}
		return true
	})
	return found
}

func substExpr(e ast.Expr, sub map[string]ast.Expr) ast.Expr {
	switch t := e.(type) {
	case *ast.Ident:
		if r, ok := sub[t.Name]; ok {
			return &ast.ParenExpr{X: r}
		}
		return t
	case *ast.ParenExpr:
		return &ast.ParenExpr{X: substExpr(t.X, sub)}
	case *ast.BinaryExpr:
		return &ast.BinaryExpr{X: substExpr(t.X, sub), Op: t.Op, Y: substExpr(t.Y, sub)}
	case *ast.UnaryExpr:
		return &ast.UnaryExpr{Op: t.Op, X: substExpr(t.X, sub)}
	case *ast.CallExpr:
		args := make([]ast.Expr, len(t.Args))
		for i, a := range t.Args {
			args[i] = substExpr(a, sub)
		}
		return &ast.CallExpr{Fun: t.Fun, Args: args}
	case *ast.IndexExpr:
		return &ast.IndexExpr{X: substExpr(t.X, sub), Index: substExpr(t.Index, sub)}
	}
	return e
}

func substStmt(s ast.Stmt, sub map[string]ast.Expr) ast.Stmt {
	switch t := s.(type) {
	case *ast.AssignStmt:
		rhs := make([]ast.Expr, len(t.Rhs))
		for i, r := range t.Rhs {
			rhs[i] = substExpr(r, sub)
		}
		return &ast.AssignStmt{Lhs: t.Lhs, Tok: t.Tok, Rhs: rhs}
	case *ast.ExprStmt:
		return &ast.ExprStmt{X: substExpr(t.X, sub)}
	case *ast.ReturnStmt:
		res := make([]ast.Expr, len(t.Results))
		for i, r := range t.Results {
			res[i] = substExpr(r, sub)
		}
		return &ast.ReturnStmt{Results: res}
	case *ast.IfStmt:
		n := &ast.IfStmt{Init: t.Init, Cond: substExpr(t.Cond, sub), Body: &ast.BlockStmt{List: inlineFloatTempsWith(t.Body.List, sub)}}
		if t.Else != nil {
			n.Else = substStmt(t.Else, sub)
		}
		return n
	case *ast.BlockStmt:
		return &ast.BlockStmt{List: inlineFloatTempsWith(t.List, sub)}
	}
	return s
}

func inlineFloatTempsWith(list []ast.Stmt, sub map[string]ast.Expr) []ast.Stmt {
	var out []ast.Stmt
	for _, s := range list {
		if as, ok := s.(*ast.AssignStmt); ok && as.Tok == token.DEFINE && len(as.Lhs) == 1 && len(as.Rhs) == 1 {
			if id, ok := as.Lhs[0].(*ast.Ident); ok {
				rhs := substExpr(as.Rhs[0], sub)
				// a float temporary: its value is a float expression that is not converted back
				if mentionsFloat(rhs) {
					if c, isCall := rhs.(*ast.CallExpr); !isCall || selString(c.Fun) != "int" {
						sub[id.Name] = rhs
						continue
					}
				}
			}
		}
		out = append(out, substStmt(s, sub))
	}
	return out
}

func inlineFloatTemps(list []ast.Stmt) []ast.Stmt {
	return inlineFloatTempsWith(list, map[string]ast.Expr{})
}
