package main

import (
	"fmt"
	"go/ast"
	"go/token"
	"strconv"
	"strings"
)

// kinds of values the translator knows
type kind int

const (
	kUnknown kind = iota
	kU8
	kU32
	kU64
	kInt // Go int / int64 / time.Duration: Lean Int
	kNat // lengths and sizes known to be non-negative: Lean Nat
	kBool
)

func (k kind) width() int {
	switch k {
	case kU8:
		return 8
	case kU32:
		return 32
	case kU64:
		return 64
	}
	return 0
}

// typeKinds maps Go type names (as written) to kinds.
var typeKinds = map[string]kind{
	"byte": kU8, "uint8": kU8,
	"MessageType": kU8, "MessageStatusType": kU8, "CompressType": kU8, "SerializeType": kU8,
	"uint32": kU32, "uint64": kU64,
	"int": kInt, "int64": kInt, "Duration": kInt,
	"bool": kBool,
}

func kindOfTypeExpr(e ast.Expr) kind {
	switch t := e.(type) {
	case *ast.Ident:
		return typeKinds[t.Name]
	case *ast.SelectorExpr:
		return typeKinds[t.Sel.Name]
	}
	return kUnknown
}

// ---- package-level constants and one-line helper functions ---------------------------------------
//
// A named constant (`const heartbeatMask byte = 0x40`, `compressThreshold = 1024`) means its value,
// and a helper whose body is a single `return <expr>` means that expression: both are resolved here
// so that introducing a name or extracting a helper does not change the generated definitions.

type constInfo struct {
	val uint64
	k   kind
}

var pkgConsts = map[string]constInfo{}
var pkgFuncs = map[string]*ast.FuncDecl{}

// usePkg makes the constants and one-line helpers of a package visible to the translator.
func usePkg(pi *pkgInfo) {
	pkgConsts = map[string]constInfo{}
	pkgFuncs = map[string]*ast.FuncDecl{}
	for _, fname := range sortedKeys(pi.files) {
		for _, d := range pi.files[fname].Decls {
			switch t := d.(type) {
			case *ast.GenDecl:
				if t.Tok != token.CONST {
					continue
				}
				var curType ast.Expr
				for _, sp := range t.Specs {
					vs := sp.(*ast.ValueSpec)
					if vs.Type != nil {
						curType = vs.Type
					} else if len(vs.Values) > 0 {
						curType = nil
					}
					if len(vs.Names) != len(vs.Values) {
						continue
					}
					for i, nm := range vs.Names {
						v := vs.Values[i]
						for {
							pe, ok := v.(*ast.ParenExpr)
							if !ok {
								break
							}
							v = pe.X
						}
						bl, ok := v.(*ast.BasicLit)
						if !ok || bl.Kind != token.INT {
							continue
						}
						k := kUnknown
						if curType != nil {
							k = kindOfTypeExpr(curType)
						}
						val, err := strconv.ParseUint(strings.ReplaceAll(bl.Value, "_", ""), 0, 64)
						if err == nil {
							pkgConsts[nm.Name] = constInfo{val, k}
						}
					}
				}
			case *ast.FuncDecl:
				if t.Recv == nil && t.Body != nil && len(t.Body.List) == 1 && t.Type.Results != nil && len(t.Type.Results.List) == 1 {
					if rs, ok := t.Body.List[0].(*ast.ReturnStmt); ok && len(rs.Results) == 1 {
						pkgFuncs[t.Name.Name] = t
					}
				}
			}
		}
	}
	for _, fname := range sortedKeys(pi.files) {
		foldIndexConsts(pi.files[fname])
	}
}

// isConstIdent: an identifier that names a package-level integer constant
func isConstIdent(e ast.Expr) bool {
	id, ok := e.(*ast.Ident)
	if !ok {
		return false
	}
	_, ok = pkgConsts[id.Name]
	return ok
}

// env gives the translation of identifiers and special forms.
type env struct {
	vars map[string]binding
	// hook for selector / index / call expressions the generic code does not know
	special func(e ast.Expr, want kind) (string, kind, bool)
}

type binding struct {
	lean string
	k    kind
}

// special2 gives the generator's own special forms precedence over helper inlining
func (en *env) special2(e ast.Expr, want kind) (s string, k kind, ok bool) {
	if en.special == nil {
		return "", kUnknown, false
	}
	defer func() {
		if r := recover(); r != nil {
			if _, isTr := r.(trErr); isTr {
				ok = false
				return
			}
			panic(r)
		}
	}()
	return en.special(e, want)
}

func (en *env) clone() *env {
	n := &env{vars: map[string]binding{}, special: en.special}
	for k, v := range en.vars {
		n.vars[k] = v
	}
	return n
}

func lit(val uint64, k kind) string {
	switch k {
	case kU8, kU32, kU64:
		return fmt.Sprintf("0x%02X#%d", val, k.width())
	default:
		return strconv.FormatUint(val, 10)
	}
}

func parseIntLit(s string) uint64 {
	s = strings.ReplaceAll(s, "_", "")
	v, err := strconv.ParseUint(s, 0, 64)
	if err != nil {
		bail("integer literal %q: %v", s, err)
	}
	return v
}

func isLit(e ast.Expr) bool {
	switch t := e.(type) {
	case *ast.BasicLit:
		return t.Kind == token.INT
	case *ast.ParenExpr:
		return isLit(t.X)
	}
	return false
}

// kindOf infers the kind of an expression without a context (kUnknown for bare literals).
func (en *env) kindOf(e ast.Expr) kind {
	switch t := e.(type) {
	case *ast.ParenExpr:
		return en.kindOf(t.X)
	case *ast.BasicLit:
		return kUnknown
	case *ast.Ident:
		if b, ok := en.vars[t.Name]; ok {
			return b.k
		}
		if t.Name == "true" || t.Name == "false" {
			return kBool
		}
		if c, ok := pkgConsts[t.Name]; ok {
			return c.k
		}
		return kUnknown
	case *ast.UnaryExpr:
		if t.Op == token.NOT {
			return kBool
		}
		return en.kindOf(t.X)
	case *ast.BinaryExpr:
		switch t.Op {
		case token.EQL, token.NEQ, token.LSS, token.LEQ, token.GTR, token.GEQ, token.LAND, token.LOR:
			return kBool
		case token.SHL, token.SHR:
			return en.kindOf(t.X)
		}
		if k := en.kindOf(t.X); k != kUnknown {
			return k
		}
		return en.kindOf(t.Y)
	case *ast.CallExpr:
		if len(t.Args) == 1 {
			if k := kindOfTypeExpr(t.Fun); k != kUnknown {
				return k
			}
		}
		if id, ok := t.Fun.(*ast.Ident); ok && id.Name == "len" {
			return kInt
		}
		if id, ok := t.Fun.(*ast.Ident); ok {
			if fd, ok := pkgFuncs[id.Name]; ok {
				if _, bound := en.vars[id.Name]; !bound {
					return kindOfTypeExpr(fd.Type.Results.List[0].Type)
				}
			}
		}
	}
	if en.special != nil {
		if _, k, ok := en.special(e, kUnknown); ok {
			return k
		}
	}
	return kUnknown
}

// tr translates an expression; want is the kind the context expects (used for literals).
func (en *env) tr(e ast.Expr, want kind) (string, kind) {
	switch t := e.(type) {
	case *ast.ParenExpr:
		s, k := en.tr(t.X, want)
		return s, k
	case *ast.BasicLit:
		if t.Kind != token.INT {
			bail("literal %s not supported", t.Value)
		}
		if want == kUnknown || want == kBool {
			bail("cannot type literal %s", t.Value)
		}
		return lit(parseIntLit(t.Value), want), want
	case *ast.Ident:
		if b, ok := en.vars[t.Name]; ok {
			return b.lean, b.k
		}
		switch t.Name {
		case "true":
			return "true", kBool
		case "false":
			return "false", kBool
		}
		if c, ok := pkgConsts[t.Name]; ok {
			k := c.k
			if k == kUnknown {
				k = want
			}
			if k == kUnknown || k == kBool {
				bail("cannot type constant %s", t.Name)
			}
			return lit(c.val, k), k
		}
		bail("unknown identifier %s", t.Name)
	case *ast.UnaryExpr:
		switch t.Op {
		case token.NOT:
			s, _ := en.tr(t.X, kBool)
			return "(!" + s + ")", kBool
		case token.XOR:
			s, k := en.tr(t.X, want)
			return "(~~~" + s + ")", k
		case token.SUB:
			s, k := en.tr(t.X, want)
			return "(-" + s + ")", k
		}
		bail("unary %s not supported", t.Op)
	case *ast.BinaryExpr:
		return en.trBinary(t, want)
	case *ast.CallExpr:
		// conversions between byte-like types are the identity on the model
		if len(t.Args) == 1 {
			if k := kindOfTypeExpr(t.Fun); k != kUnknown {
				ak := en.kindOf(t.Args[0])
				if ak == kUnknown || ak == k || isLit(t.Args[0]) {
					s, _ := en.tr(t.Args[0], k)
					return s, k
				}
				s, _ := en.tr(t.Args[0], ak)
				return convert(s, ak, k), k
			}
		}
		// a one-line helper of the package: translate its return expression with the parameters
		// bound to the (translated) arguments
		if id, ok := t.Fun.(*ast.Ident); ok {
			if fd, ok := pkgFuncs[id.Name]; ok {
				if s, k, ok := en.special2(e, want); ok {
					return s, k
				}
				sub := en.clone()
				i := 0
				for _, p := range fd.Type.Params.List {
					pk := kindOfTypeExpr(p.Type)
					for _, n := range p.Names {
						if i >= len(t.Args) {
							bail("helper %s: argument count", id.Name)
						}
						// the argument keeps the kind it has at the call site (a length stays a Nat
						// even though the parameter is declared `int`)
						hint := en.kindOf(t.Args[i])
						if hint == kUnknown {
							hint = pk
						}
						as, ak := en.tr(t.Args[i], hint)
						sub.vars[n.Name] = binding{as, ak}
						i++
					}
				}
				rk := want
				if rk == kUnknown {
					rk = kindOfTypeExpr(fd.Type.Results.List[0].Type)
				}
				return sub.tr(fd.Body.List[0].(*ast.ReturnStmt).Results[0], rk)
			}
		}
	}
	if en.special != nil {
		if s, k, ok := en.special(e, want); ok {
			return s, k
		}
	}
	bail("expression not in the translated subset: %T", e)
	return "", kUnknown
}

func convert(s string, from, to kind) string {
	if from == to {
		return s
	}
	fw, tw := from.width(), to.width()
	switch {
	case fw > 0 && tw > 0:
		return fmt.Sprintf("(BitVec.setWidth %d %s)", tw, s)
	case fw > 0 && (to == kInt):
		return fmt.Sprintf("(Int.ofNat (BitVec.toNat %s))", s)
	case fw > 0 && (to == kNat):
		return fmt.Sprintf("(BitVec.toNat %s)", s)
	case from == kNat && to == kInt:
		return fmt.Sprintf("(Int.ofNat %s)", s)
	case (from == kInt) && tw > 0:
		return fmt.Sprintf("(BitVec.ofInt %d %s)", tw, s)
	case (from == kNat) && tw > 0:
		return fmt.Sprintf("(BitVec.ofNat %d %s)", tw, s)
	}
	bail("conversion %d -> %d not supported", from, to)
	return ""
}

func (en *env) trBinary(t *ast.BinaryExpr, want kind) (string, kind) {
	switch t.Op {
	case token.LAND, token.LOR:
		a, _ := en.tr(t.X, kBool)
		b, _ := en.tr(t.Y, kBool)
		op := "&&"
		if t.Op == token.LOR {
			op = "||"
		}
		return "(" + a + " " + op + " " + b + ")", kBool
	case token.EQL, token.NEQ, token.LSS, token.LEQ, token.GTR, token.GEQ:
		k := en.kindOf(t.X)
		if k == kUnknown {
			k = en.kindOf(t.Y)
		}
		if k == kUnknown {
			bail("cannot type comparison operands")
		}
		a, _ := en.tr(t.X, k)
		b, _ := en.tr(t.Y, k)
		switch t.Op {
		case token.EQL:
			return "(" + a + " == " + b + ")", kBool
		case token.NEQ:
			return "(" + a + " != " + b + ")", kBool
		}
		op := map[token.Token]string{token.LSS: "<", token.LEQ: "≤", token.GTR: ">", token.GEQ: "≥"}[t.Op]
		return "(decide (" + a + " " + op + " " + b + "))", kBool
	case token.SHL, token.SHR:
		k := en.kindOf(t.X)
		if k == kUnknown {
			k = want
		}
		a, _ := en.tr(t.X, k)
		if !isLit(t.Y) && !isConstIdent(unparenExpr(t.Y)) {
			bail("shift by a non-literal")
		}
		var n uint64
		if id, ok := unparenExpr(t.Y).(*ast.Ident); ok {
			n = pkgConsts[id.Name].val
		}
		ast.Inspect(t.Y, func(nd ast.Node) bool {
			if bl, ok := nd.(*ast.BasicLit); ok {
				n = parseIntLit(bl.Value)
			}
			return true
		})
		op := "<<<"
		if t.Op == token.SHR {
			op = ">>>"
		}
		if k.width() == 0 {
			bail("shift of a non-bitvector")
		}
		return fmt.Sprintf("(%s %s %d)", a, op, n), k
	}
	k := en.kindOf(t.X)
	if k == kUnknown {
		k = en.kindOf(t.Y)
	}
	if k == kUnknown {
		k = want
	}
	a, _ := en.tr(t.X, k)
	b, _ := en.tr(t.Y, k)
	switch t.Op {
	case token.AND:
		return "(" + a + " &&& " + b + ")", k
	case token.OR:
		return "(" + a + " ||| " + b + ")", k
	case token.XOR:
		return "(" + a + " ^^^ " + b + ")", k
	case token.AND_NOT:
		return "(" + a + " &&& ~~~" + b + ")", k
	case token.ADD:
		return "(" + a + " + " + b + ")", k
	case token.SUB:
		return "(" + a + " - " + b + ")", k
	case token.MUL:
		return "(" + a + " * " + b + ")", k
	case token.QUO:
		if k == kInt {
			return "(Int.tdiv " + a + " " + b + ")", k
		}
		return "(" + a + " / " + b + ")", k
	case token.REM:
		if k == kInt {
			return "(Int.tmod " + a + " " + b + ")", k
		}
		return "(" + a + " % " + b + ")", k
	}
	bail("binary %s not supported", t.Op)
	return "", kUnknown
}

func lowerFirst(s string) string {
	if s == "" {
		return s
	}
	return strings.ToLower(s[:1]) + s[1:]
}

// ---- inlining of float-valued temporaries ---------------------------------------------------------
//
// `ratio := float64(a) / float64(b); idx := int(math.Ceil(math.Log2(ratio)))` means the same as the
// one-line form.  The translated subset has no float type, so single-definition temporaries whose
// right-hand side involves float64(…) / math.* are substituted into their uses before translation.

func mentionsFloat(e ast.Expr) bool {
	found := false
	ast.Inspect(e, func(n ast.Node) bool {
		if c, ok := n.(*ast.CallExpr); ok {
			fn := selString(c.Fun)
			if fn == "float64" || fn == "float32" || strings.HasPrefix(fn, "math.") {
				found = true
			}
		}
		return true
	})
	return found
}

func substExpr(e ast.Expr, sub map[string]ast.Expr) ast.Expr {
	switch t := e.(type) {
	case *ast.Ident:
		if r, ok := sub[t.Name]; ok {
			return &ast.ParenExpr{X: r}
		}
		return t
	case *ast.ParenExpr:
		return &ast.ParenExpr{X: substExpr(t.X, sub)}
	case *ast.BinaryExpr:
		return &ast.BinaryExpr{X: substExpr(t.X, sub), Op: t.Op, Y: substExpr(t.Y, sub)}
	case *ast.UnaryExpr:
		return &ast.UnaryExpr{Op: t.Op, X: substExpr(t.X, sub)}
	case *ast.CallExpr:
		args := make([]ast.Expr, len(t.Args))
		for i, a := range t.Args {
			args[i] = substExpr(a, sub)
		}
		fun := t.Fun
		if id, ok := fun.(*ast.Ident); ok {
			if r, ok := sub[id.Name]; ok { // a function-valued parameter: `round(x)` with round := math.Ceil
				fun = r
			}
		}
		return &ast.CallExpr{Fun: fun, Args: args}
	case *ast.IndexExpr:
		return &ast.IndexExpr{X: substExpr(t.X, sub), Index: substExpr(t.Index, sub)}
	}
	return e
}

// straightLineResult: the body is `S1; …; Sk; return E` with no other return statement
func straightLineResult(fd *ast.FuncDecl) ([]ast.Stmt, ast.Expr, bool) {
	n := len(fd.Body.List)
	if n < 2 {
		return nil, nil, false
	}
	rs, ok := fd.Body.List[n-1].(*ast.ReturnStmt)
	if !ok || len(rs.Results) != 1 {
		return nil, nil, false
	}
	clean := true
	for _, st := range fd.Body.List[:n-1] {
		ast.Inspect(st, func(nd ast.Node) bool {
			switch nd.(type) {
			case *ast.ReturnStmt, *ast.FuncLit, *ast.ForStmt, *ast.RangeStmt, *ast.DeferStmt, *ast.GoStmt:
				clean = false
			}
			return clean
		})
	}
	return fd.Body.List[:n-1], rs.Results[0], clean
}

func substStmt(s ast.Stmt, sub map[string]ast.Expr) ast.Stmt {
	switch t := s.(type) {
	case *ast.AssignStmt:
		rhs := make([]ast.Expr, len(t.Rhs))
		for i, r := range t.Rhs {
			rhs[i] = substExpr(r, sub)
		}
		return &ast.AssignStmt{Lhs: t.Lhs, Tok: t.Tok, Rhs: rhs}
	case *ast.ExprStmt:
		return &ast.ExprStmt{X: substExpr(t.X, sub)}
	case *ast.ReturnStmt:
		res := make([]ast.Expr, len(t.Results))
		for i, r := range t.Results {
			res[i] = substExpr(r, sub)
		}
		return &ast.ReturnStmt{Results: res}
	case *ast.IfStmt:
		n := &ast.IfStmt{Init: t.Init, Cond: substExpr(t.Cond, sub), Body: &ast.BlockStmt{List: inlineFloatTempsWith(t.Body.List, sub)}}
		if t.Else != nil {
			n.Else = substStmt(t.Else, sub)
		}
		return n
	case *ast.BlockStmt:
		return &ast.BlockStmt{List: inlineFloatTempsWith(t.List, sub)}
	}
	return s
}

func inlineFloatTempsWith(list []ast.Stmt, sub map[string]ast.Expr) []ast.Stmt {
	var out []ast.Stmt
	for _, s := range list {
		if as, ok := s.(*ast.AssignStmt); ok && as.Tok == token.DEFINE && len(as.Lhs) == 1 && len(as.Rhs) == 1 {
			if id, ok := as.Lhs[0].(*ast.Ident); ok {
				rhs := substExpr(as.Rhs[0], sub)
				// a float temporary: its value is a float expression that is not converted back
				if mentionsFloat(rhs) {
					if c, isCall := rhs.(*ast.CallExpr); !isCall || selString(c.Fun) != "int" {
						sub[id.Name] = rhs
						continue
					}
				}
			}
		}
		out = append(out, substStmt(s, sub))
	}
	return out
}

func inlineFloatTemps(list []ast.Stmt) []ast.Stmt {
	return inlineFloatTempsWith(list, map[string]ast.Expr{})
}

// ---- inlining of calls to sibling methods ---------------------------------------------------------
//
// `return p.poolAt(int(math.Ceil(p.levelOf(size))))` means the same as the code before the two
// helpers were extracted.  Calls to methods of the same receiver are inlined before translation:
// a method whose body is a single `return e` anywhere in an expression, any other method in tail
// position (`return recv.m(args)` becomes the parameter definitions followed by m's body).

func methodOf(pi *pkgInfo, recvType, name string) *ast.FuncDecl {
	fd := pi.funcs[recvType+"."+name]
	if fd == nil || fd.Body == nil || fd.Recv == nil || len(fd.Recv.List) != 1 {
		return nil
	}
	return fd
}

func recvNameOf(fd *ast.FuncDecl) string {
	if len(fd.Recv.List[0].Names) == 1 {
		return fd.Recv.List[0].Names[0].Name
	}
	return ""
}

func paramNames(fd *ast.FuncDecl) []string {
	var out []string
	if fd.Type.Params != nil {
		for _, p := range fd.Type.Params.List {
			for _, n := range p.Names {
				out = append(out, n.Name)
			}
		}
	}
	return out
}

type recvInliner struct {
	pi       *pkgInfo
	recvType string
	recv     string
	depth    int
}

func (ri *recvInliner) siblingCall(e ast.Expr) (*ast.FuncDecl, []ast.Expr) {
	c, ok := e.(*ast.CallExpr)
	if !ok {
		return nil, nil
	}
	se, ok := c.Fun.(*ast.SelectorExpr)
	if !ok {
		return nil, nil
	}
	id, ok := se.X.(*ast.Ident)
	if !ok || id.Name != ri.recv {
		return nil, nil
	}
	fd := methodOf(ri.pi, ri.recvType, se.Sel.Name)
	if fd == nil || recvNameOf(fd) != ri.recv || len(paramNames(fd)) != len(c.Args) {
		return nil, nil
	}
	return fd, c.Args
}

func (ri *recvInliner) expr(e ast.Expr) ast.Expr {
	switch t := e.(type) {
	case *ast.ParenExpr:
		return &ast.ParenExpr{X: ri.expr(t.X)}
	case *ast.BinaryExpr:
		return &ast.BinaryExpr{X: ri.expr(t.X), Op: t.Op, Y: ri.expr(t.Y)}
	case *ast.UnaryExpr:
		return &ast.UnaryExpr{Op: t.Op, X: ri.expr(t.X)}
	case *ast.IndexExpr:
		return &ast.IndexExpr{X: ri.expr(t.X), Index: ri.expr(t.Index)}
	case *ast.CallExpr:
		args := make([]ast.Expr, len(t.Args))
		for i, a := range t.Args {
			args[i] = ri.expr(a)
		}
		n := &ast.CallExpr{Fun: t.Fun, Args: args}
		if fd, _ := ri.siblingCall(n); fd != nil && len(fd.Body.List) == 1 && ri.depth < 4 {
			if rs, ok := fd.Body.List[0].(*ast.ReturnStmt); ok && len(rs.Results) == 1 {
				sub := map[string]ast.Expr{}
				for i, pn := range paramNames(fd) {
					sub[pn] = args[i]
				}
				ri.depth++
				r := ri.expr(substExpr(rs.Results[0], sub))
				ri.depth--
				return &ast.ParenExpr{X: r}
			}
		}
		return n
	}
	return e
}

func (ri *recvInliner) stmts(list []ast.Stmt) []ast.Stmt {
	var out []ast.Stmt
	for _, s := range list {
		switch t := s.(type) {
		case *ast.ReturnStmt:
			if len(t.Results) == 1 {
				r := ri.expr(t.Results[0])
				if fd, args := ri.siblingCall(r); fd != nil && len(fd.Body.List) > 1 && ri.depth < 4 {
					// tail call: the parameters, then the callee's body
					for i, pn := range paramNames(fd) {
						out = append(out, &ast.AssignStmt{Lhs: []ast.Expr{ast.NewIdent(pn)}, Tok: token.DEFINE, Rhs: []ast.Expr{args[i]}})
					}
					ri.depth++
					out = append(out, ri.stmts(fd.Body.List)...)
					ri.depth--
					continue
				}
				out = append(out, &ast.ReturnStmt{Results: []ast.Expr{r}})
				continue
			}
			out = append(out, t)
		case *ast.AssignStmt:
			rhs := make([]ast.Expr, len(t.Rhs))
			for i, r := range t.Rhs {
				rhs[i] = ri.expr(r)
			}
			// `v := recv.m(args)` where m is `S1; …; Sk; return E`: the callee's statements with the
			// arguments substituted for its parameters, then `v := E`
			if len(t.Lhs) == 1 && len(rhs) == 1 && (t.Tok == token.DEFINE || t.Tok == token.ASSIGN) && ri.depth < 4 {
				if target, ok := t.Lhs[0].(*ast.Ident); ok {
					if fd, args := ri.siblingCall(rhs[0]); fd != nil {
						if body, res, ok := straightLineResult(fd); ok {
							sub := map[string]ast.Expr{}
							for i, pn := range paramNames(fd) {
								sub[pn] = args[i]
							}
							ri.depth++
							for _, st := range body {
								out = append(out, ri.stmts([]ast.Stmt{substStmt(st, sub)})...)
							}
							r := ri.expr(substExpr(res, sub))
							ri.depth--
							if id, ok := unparenExpr(r).(*ast.Ident); !ok || id.Name != target.Name {
								out = append(out, &ast.AssignStmt{Lhs: t.Lhs, Tok: t.Tok, Rhs: []ast.Expr{r}})
							}
							continue
						}
					}
				}
			}
			out = append(out, &ast.AssignStmt{Lhs: t.Lhs, Tok: t.Tok, Rhs: rhs})
		case *ast.IfStmt:
			n := &ast.IfStmt{Init: t.Init, Cond: ri.expr(t.Cond), Body: &ast.BlockStmt{List: ri.stmts(t.Body.List)}}
			if t.Else != nil {
				if eb, ok := t.Else.(*ast.BlockStmt); ok {
					n.Else = &ast.BlockStmt{List: ri.stmts(eb.List)}
				} else {
					n.Else = t.Else
				}
			}
			out = append(out, n)
		case *ast.ExprStmt:
			out = append(out, &ast.ExprStmt{X: ri.expr(t.X)})
		default:
			out = append(out, s)
		}
	}
	return out
}

// inlineSiblingCalls returns the body of fd with calls to methods of the same receiver inlined.
func inlineSiblingCalls(pi *pkgInfo, recvType string, fd *ast.FuncDecl) []ast.Stmt {
	ri := &recvInliner{pi: pi, recvType: recvType, recv: recvNameOf(fd)}
	if ri.recv == "" {
		return fd.Body.List
	}
	return ri.stmts(fd.Body.List)
}

func unparenExpr(e ast.Expr) ast.Expr {
	for {
		p, ok := e.(*ast.ParenExpr)
		if !ok {
			return e
		}
		e = p.X
	}
}

// foldIndexConsts replaces, in index and slice-bound positions, identifiers that name package-level
// integer constants by their values (`h[flagsOffset]` is `h[2]`, `h[seqOffset:]` is `h[4:]`)
func foldIndexConsts(n ast.Node) {
	fold := func(e ast.Expr) ast.Expr {
		if id, ok := unparenExpr(e).(*ast.Ident); ok {
			if c, ok := pkgConsts[id.Name]; ok {
				return &ast.BasicLit{Kind: token.INT, Value: strconv.FormatUint(c.val, 10)}
			}
		}
		return e
	}
	ast.Inspect(n, func(nd ast.Node) bool {
		switch t := nd.(type) {
		case *ast.IndexExpr:
			t.Index = fold(t.Index)
		case *ast.SliceExpr:
			if t.Low != nil {
				t.Low = fold(t.Low)
			}
			if t.High != nil {
				t.High = fold(t.High)
			}
			if t.Max != nil {
				t.Max = fold(t.Max)
			}
		}
		return true
	})
}
