package main

func stub(name string) string {
	return "-- GENERATED placeholder (" + name + ")\nimport Rpcx.Basic\n"
}
