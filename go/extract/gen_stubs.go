package main

func stub(name string) string {
	return "-- GENERATED placeholder (" + name + ")\nimport Rpcx.Basic\n"
}

func genPreds() string   { return stub("Preds") }
func genSites() string   { return stub("Sites") }
