module verif

go 1.23.0

require github.com/smallnest/rpcx v0.0.0

require (
	github.com/fatih/color v1.18.0 // indirect
	github.com/golang/snappy v0.0.4 // indirect
	github.com/mattn/go-colorable v0.1.14 // indirect
	github.com/mattn/go-isatty v0.0.20 // indirect
	golang.org/x/sys v0.30.0 // indirect
)

replace github.com/smallnest/rpcx => /repo
