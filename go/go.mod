module verif

go 1.23.0

require (
	github.com/dgryski/go-jump v0.0.0-20211018200510-ba001c3ffce0
	github.com/smallnest/rpcx v0.0.0
)

require (
	github.com/akutz/memconn v0.1.0 // indirect
	github.com/alitto/pond v1.9.2 // indirect
	github.com/apache/thrift v0.21.0 // indirect
	github.com/cenk/backoff v2.2.1+incompatible // indirect
	github.com/cenkalti/backoff v2.2.1+incompatible // indirect
	github.com/edwingeng/doublejump v1.0.1 // indirect
	github.com/facebookgo/clock v0.0.0-20150410010913-600d898af40a // indirect
	github.com/fatih/color v1.18.0 // indirect
	github.com/go-ping/ping v1.2.0 // indirect
	github.com/godzie44/go-uring v0.0.0-20220926161041-69611e8b13d5 // indirect
	github.com/gogo/protobuf v1.3.2 // indirect
	github.com/golang/snappy v0.0.4 // indirect
	github.com/google/uuid v1.6.0 // indirect
	github.com/grandcat/zeroconf v1.0.0 // indirect
	github.com/hashicorp/errwrap v1.1.0 // indirect
	github.com/hashicorp/go-multierror v1.1.1 // indirect
	github.com/hashicorp/golang-lru v1.0.2 // indirect
	github.com/juju/ratelimit v1.0.2 // indirect
	github.com/julienschmidt/httprouter v1.3.0 // indirect
	github.com/kavu/go_reuseport v1.5.0 // indirect
	github.com/libp2p/go-sockaddr v0.2.0 // indirect
	github.com/mattn/go-colorable v0.1.14 // indirect
	github.com/mattn/go-isatty v0.0.20 // indirect
	github.com/miekg/dns v1.1.63 // indirect
	github.com/philhofer/fwd v1.1.3-0.20240916144458-20a13a1f6b7c // indirect
	github.com/rs/cors v1.11.1 // indirect
	github.com/rubyist/circuitbreaker v2.2.1+incompatible // indirect
	github.com/soheilhy/cmux v0.1.5 // indirect
	github.com/tinylib/msgp v1.2.5 // indirect
	github.com/valyala/fastrand v1.1.0 // indirect
	github.com/vmihailenco/msgpack/v5 v5.4.1 // indirect
	github.com/vmihailenco/tagparser/v2 v2.0.0 // indirect
	golang.org/x/net v0.36.0 // indirect
	golang.org/x/sync v0.11.0 // indirect
	golang.org/x/sys v0.30.0 // indirect
	golang.org/x/text v0.22.0 // indirect
	google.golang.org/protobuf v1.36.4 // indirect
)

replace github.com/smallnest/rpcx => /repo
