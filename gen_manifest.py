#!/usr/bin/env python3
"""Regenerate MANIFEST.json from props.json (single source of truth for what is claimed)."""
import json, os
ROOT = os.path.dirname(os.path.abspath(__file__))
props = json.load(open(os.path.join(ROOT, "props.json")))
all_ids = [json.loads(l)["id"] for l in open(os.path.join(ROOT, "properties.jsonl"))]
checks = []
for pid in all_ids:
    if pid not in props or props[pid].get("unclaimed"):
        continue
    P = props[pid]
    checks.append({
        "property_id": pid,
        "quick_cmd": f"./check {pid} --tier quick",
        "thorough_cmd": f"./check {pid} --tier thorough",
        "evidence_file": f"/verif/evidence/{pid}.json",
        "replay_cmd_template": f"./check {pid} --replay {{path}}",
        "engine": "lean4-proof+correspondence",
        "level_claimed": {"category": "proof", "text": P["level_text"], "design_ref": P.get("design_ref", "DESIGN.md §5")},
        "level_note": P["level_note"],
        "technique": P.get("technique", "Lean 4 theorems about a model regenerated from / differentially tied to the Go source"),
    })
na = [{"property_id": pid, "reason": (props.get(pid, {}).get("unclaimed") or "check not built yet (work in progress; see DESIGN.md §5 for the plan)")}
      for pid in all_ids if pid not in props or props[pid].get("unclaimed")]
man = {
    "version": 1,
    "setup_cmd": "./setup.sh",
    "hooks": {
        "guard": "verif",
        "enable": "go build -tags verif (the harness module replaces github.com/smallnest/rpcx with /repo)",
        "baseline_off_cmd": "cd /repo && go test -mod=mod -vet=off -count=1 ./...",
        "source_commits": json.load(open(os.path.join(ROOT, "hooks.json")))["source_commits"] if os.path.exists(os.path.join(ROOT, "hooks.json")) else [],
        "add_only": True,
    },
    "engines": [
        {"name": "lean4-proof+correspondence", "path": "/verif/lean", "serves_properties": [c["property_id"] for c in checks],
         "kind_free_text": "Lean 4.33 theorems over (a) definitions regenerated from the Go source by go/extract and (b) hand-written executable models tied to the implementation by a line-protocol differential harness (go/harness vs lean driver); ./check orchestrates extract → prove → audit → conform → verdict"},
    ],
    "checks": checks,
    "not_applicable": na,
    "notes": "Every check is `./check <id>`; see DESIGN.md. known_findings.json lists recorded/fixed defects.",
}
json.dump(man, open(os.path.join(ROOT, "MANIFEST.json"), "w"), indent=1)
print(f"{len(checks)} checks, {len(na)} not_applicable")
