#!/bin/sh
# builds every property module and the driver; prints errors only
cd /verif/lean && lake build $(ls Rpcx/Props/*.lean | sed 's#/#.#g; s#\.lean$##') Rpcx.Regress.C01 driver 2>&1 | grep -E "^error|error:" -A4 | head -40
echo "build_all: done"
