#!/usr/bin/env python3
"""usage: tools/record_seed.py <ID> [--tier quick|thorough]
Runs tools/try_seed.sh for a confirmed seeded change in /verif/seeded/<ID>/ and writes meta.json
(which property it breaks, what it needs to manifest, what was run, whether the check caught it)."""
import json, os, subprocess, sys, re
TAG = sys.argv[1]          # seeded/<TAG>/ ; a second change for one property is tagged e.g. C15b
ID = TAG[:3]
tier = sys.argv[3] if len(sys.argv) > 3 else "quick"
d = f"/verif/seeded/{TAG}"
am = {}
try:
    am = json.load(open(f"{d}/agent_meta.json"))
except Exception:
    pass
out = subprocess.run(["/verif/tools/try_seed.sh", ID, f"{d}/patch.diff", tier], capture_output=True, text=True).stdout
full = open(f"/tmp/seed_{ID}.out").read()
viol = [l for l in full.splitlines() if l.startswith("VIOLATION")]
kinds = sorted(set(re.findall(r"^  \[([^\]]+)\]", full, re.M)))
meta = {
    "property": ID,
    "summary": am.get("summary", ""),
    "needs": am.get("needs", ""),
    "demonstration": [f for f in os.listdir(d) if f.endswith("_test.go")],
    "confirmed_by": "tools/confirm_seed.sh (build ok, full suite passes with the change, demo fails with / passes without) – see confirm.log",
    "check_run": f"tools/try_seed.sh {ID} seeded/{TAG}/patch.diff {tier}",
    "caught": bool(viol),
    "violation_lines": len(viol),
    "caught_by": kinds[:12],
    "no_failing_input_only": bool(viol) and all("no-failing-input-found" in v for v in viol),
}
try:
    old = json.load(open(f"{d}/meta.json"))
    for k in ("rebased", "also_caught_by", "history"):
        if k in old:
            meta[k] = old[k]
    if "deterministic" in old.get("confirmed_by", ""):
        meta["confirmed_by"] = old["confirmed_by"]
except Exception:
    pass
json.dump(meta, open(f"{d}/meta.json", "w"), indent=1)
print(TAG, "caught" if viol else "MISSED", kinds[:6])
