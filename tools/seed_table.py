#!/usr/bin/env python3
"""Regenerate seeded/README.md from seeded/*/meta.json."""
import json, glob, os
rows = []
for d in sorted(glob.glob("/verif/seeded/*/")):
    tag = os.path.basename(d[:-1])
    mp = d + "meta.json"
    if not os.path.exists(mp):
        continue
    m = json.load(open(mp))
    kinds = [k for k in m.get("caught_by", []) if k not in ("audit", "build", "driver", "extract", "harness", "prove", "apply")]
    rows.append((tag, m["property"], "caught" if m["caught"] else "MISSED", ", ".join(kinds) or "-",
                 "yes" if m.get("no_failing_input_only") else "no", (m.get("summary") or "").replace("\n", " ")[:260]))
out = ["# Seeded changes", "",
       "Each directory: patch.diff (apply with `git -C /repo apply`), the demonstration, agent_meta.json (the sub-agent's own description),",
       "confirm.log (build ok / full suite passes with the change / demo fails with, passes without) and meta.json (verdict of the check).",
       "`tools/try_seed.sh <ID> <patch> [tier]` applies, runs `./check <ID>` and reverts.", "",
       "| seed | property | verdict | violation kinds reported | only no-failing-input-found? | change |", "|---|---|---|---|---|---|"]
for r in rows:
    out.append("| " + " | ".join(r) + " |")
open("/verif/seeded/README.md", "w").write("\n".join(out) + "\n")
print(len(rows), "seeds")
