#!/bin/sh
# usage: tools/try_seed.sh <property-id> <patch.diff> [tier]
# applies a seeded change to /repo, runs the property's check, and undoes the change.
set -u
ID=$1; PATCH=$2; TIER=${3:-quick}
cd /repo || exit 2
if [ -n "$(git status --porcelain)" ]; then echo "/repo is dirty"; exit 2; fi
git apply "$PATCH" || { echo "patch does not apply"; exit 2; }
cp /verif/evidence/$ID.json /tmp/evidence_$ID.bak 2>/dev/null
cd /verif && ./check "$ID" --tier "$TIER" > /tmp/seed_$ID.out 2>&1
RC=$?
# the evidence file must describe a run on the unchanged tree: restore it
cp /tmp/evidence_$ID.bak /verif/evidence/$ID.json 2>/dev/null
cd /repo && git checkout -- . && git status --porcelain | head -3
grep -E "^VIOLATION|^KNOWN|quick:|thorough:" /tmp/seed_$ID.out | head -8
echo "exit=$RC"
