#!/bin/sh
# usage: tools/try_seed.sh <property-id> <patch.diff> [tier]
# applies a seeded change to /repo, runs the property's check, and undoes the change.
set -u
ID=$1; PATCH=$2; TIER=${3:-quick}
cd /repo || exit 2
if [ -n "$(git status --porcelain)" ]; then echo "/repo is dirty"; exit 2; fi
git apply "$PATCH" || { echo "patch does not apply"; exit 2; }
cd /verif && ./check "$ID" --tier "$TIER" > /tmp/seed_$ID.out 2>&1
RC=$?
cd /repo && git checkout -- . && git status --porcelain | head -3
grep -E "^VIOLATION|^KNOWN|quick:|thorough:" /tmp/seed_$ID.out | head -8
echo "exit=$RC"
