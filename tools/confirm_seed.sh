#!/bin/bash
# usage: tools/confirm_seed.sh <TAG>  (TAG = property id, optionally with a suffix letter for a second change)   (worktree /tmp/wt/<ID> with the change applied, patch.diff, meta.json, demo test in place)
# Confirms: builds; full existing suite passes with the change (demo moved aside); demo fails with the change, passes without.
# On success copies patch.diff, demo and meta.json to /verif/seeded/<ID>/ with confirm.log.
set -u
ID=$1
WT=/tmp/wt/$ID
export GOFLAGS=-mod=mod GOPROXY=off GOSUMDB=off GOTOOLCHAIN=local
cd $WT || exit 2
LOG=/tmp/wt/confirm_$ID.log
: > $LOG
git apply -R --check patch.diff 2>>$LOG || { echo "patch.diff does not match the applied change" | tee -a $LOG; }
DEMOS=$(git ls-files --others --exclude-standard | grep '_test.go$' | grep -v '^demo/')
echo "demo files: $DEMOS" >> $LOG
PKGS=$(for f in $DEMOS; do echo ./$(dirname $f)/; done | sort -u)
rm -rf /tmp/wt/aside_$ID && mkdir -p /tmp/wt/aside_$ID
for f in $DEMOS; do mkdir -p /tmp/wt/aside_$ID/$(dirname $f); mv $f /tmp/wt/aside_$ID/$f; done
rm -rf demo
echo "== build" >> $LOG; go build ./... >> $LOG 2>&1; B=$?
echo "== suite with change" >> $LOG; go test -vet=off -count=1 ./... 2>&1 | grep -v "no test files" >> $LOG; S=${PIPESTATUS[0]}
for f in $DEMOS; do cp /tmp/wt/aside_$ID/$f $f; done
echo "== demo with change (expect FAIL)" >> $LOG; go test -vet=off -count=1 -run 'Verif|Demo' $PKGS >> $LOG 2>&1; D1=$?
git apply -R patch.diff
echo "== demo without change (expect ok)" >> $LOG; go test -vet=off -count=1 -run 'Verif|Demo' $PKGS >> $LOG 2>&1; D0=$?
git apply patch.diff
echo "build=$B suite=$S demo_with=$D1 demo_without=$D0" | tee -a $LOG
if [ $B -eq 0 ] && [ $S -eq 0 ] && [ $D1 -ne 0 ] && [ $D0 -eq 0 ]; then
  mkdir -p /verif/seeded/$ID
  cp patch.diff /verif/seeded/$ID/
  cp meta.json /verif/seeded/$ID/agent_meta.json
  for f in $DEMOS; do cp $f /verif/seeded/$ID/$(echo $f | tr '/' '_'); done
  cp $LOG /verif/seeded/$ID/confirm.log
  echo CONFIRMED $ID
else
  echo NOT-CONFIRMED $ID
fi
