#!/usr/bin/env python3
"""usage: tools/mk_seed_prompt.py <TAG> "<hint>"   -> /tmp/wt/prompt_<TAG>.txt and a scratch worktree /tmp/wt/<TAG>
The prompt given to a fresh sub-agent: only the text of one property (title, statement, quantifier) and its own
worktree; nothing from /verif."""
import json, subprocess, sys, os
tag, hint = sys.argv[1], (sys.argv[2] if len(sys.argv) > 2 else "")
pid = tag[:3]
P = None
for l in open("/verif/properties.jsonl"):
    o = json.loads(l)
    if o["id"] == pid:
        P = o
wt = f"/tmp/wt/{tag}"
if not os.path.isdir(wt):
    subprocess.check_call(["git", "-C", "/repo", "worktree", "add", "--detach", wt, "HEAD"], stdout=subprocess.DEVNULL, stderr=subprocess.DEVNULL)
hint_s = f" For this task, look in particular for {hint}." if hint else ""
open(f"/tmp/wt/prompt_{tag}.txt", "w").write(f"""You are working in a scratch git worktree of the Go project smallnest/rpcx (an RPC framework) at {wt} . Work ONLY inside that directory (never touch /repo or /verif, never read /verif).

Environment: the sandbox is offline. For every shell command first run:
  export GOFLAGS=-mod=mod GOPROXY=off GOSUMDB=off GOTOOLCHAIN=local
The existing test suite is run with:  cd {wt} && go test -vet=off -count=1 ./...   (takes about 20 s and currently passes).

Here is a semantic property of rpcx that is supposed to hold:

  Title: {P['title']}
  Statement: {P['statement']}
  Quantifier: {P['quantifier']['text']}

Your task: produce a *realistic, subtle* source change to rpcx (non-test .go files only, in the worktree) that BREAKS this property while (a) the project still compiles, and (b) the entire existing test suite still passes. The change should look like something a maintainer could plausibly commit (a refactor, optimisation, small behaviour tweak or slip) - not sabotage with obviously dead code. Prefer a change that needs something specific to manifest: a particular interleaving, a crash or fault at a particular point, a multi-step sequence of operations, an unusual input or boundary value, or two cooperating sites that each look fine alone - NOT one that ordinary use would expose at once.{hint_s}

Also write a demonstration: a Go test file (name it verif_demo_test.go, put it in the most relevant package directory inside the worktree) or a small program, that FAILS with your change applied and PASSES on the unchanged code. Verify both directions yourself: save your source change with `git diff > patch.diff`, remove it with `git apply -R patch.diff`, run the demo, and re-apply it with `git apply patch.diff` (do NOT use `git stash`: the stash is shared between all worktrees of this repository and other people are working in sibling worktrees).

Deliver, inside the worktree root:
  - patch.diff        : `git diff` of the non-test source change only (must apply with `git apply` on a clean checkout of the same commit)
  - the demonstration file (leave it in place, untracked, and also copy it to {wt}/demo/ )
  - meta.json         : {{"property": "{pid}", "summary": "...what the change does...", "needs": "...what is needed for the violation to manifest...", "demo": "path and command to run the demonstration", "ran": ["commands you ran and their outcomes"]}}
Leave the working tree with your source change APPLIED (not stashed). Do not commit anything.

In your final answer, describe in a few lines: the change, why it breaks the property, what it needs to manifest, and confirm that (1) go build ./... passes, (2) the full existing test suite passes with the change, (3) the demo fails with the change and passes without it.
If you copy the demonstration into a demo/ directory, add a demo/go.mod (any module name) so that `go test ./...` in the worktree does not try to build the copy.
""")
print("ok", tag)
