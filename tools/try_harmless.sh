#!/bin/sh
# usage: tools/try_harmless.sh <H0x> [property ids…]   – applies a behaviour-preserving patch, runs the checks, reverts
set -u
T=$1; shift
IDS=${*:-"C01 C02 C03 C04 C05 C06 C07 C08 C09 C10 C11 C12 C13 C14 C15 C16 C17 C18 C19 C20"}
cd /repo || exit 2
[ -n "$(git status --porcelain)" ] && { echo "/repo is dirty"; exit 2; }
EX=""; [ "$T" = "H08" ] && EX="--exclude=client/xclient.go"
git apply $EX /verif/harmless/$T.diff || { echo "patch does not apply"; exit 2; }
mkdir -p /tmp/ev_harmless && cp /verif/evidence/*.json /tmp/ev_harmless/
cd /verif
for id in $IDS; do ./check $id 2>&1 | grep -E "quick:|VIOLATION|broken obligation" | head -4 | sed "s/^/$T /"; done
cp /tmp/ev_harmless/*.json /verif/evidence/; rm -rf /tmp/ev_harmless
cd /repo && git checkout -- .
