import Rpcx.Basic
import Rpcx.Model.Blit
import Rpcx.Model.Wire
