import Rpcx.Driver.Util
import Rpcx.Model.Shutdown
namespace Rpcx.Driver
open Rpcx.Sd

def parseSdEv (w : String) : Option Ev :=
  match w with
  | "B" => some .sdBegin | "P" => some .sdPoll | "X" => some .sdExpire | "C" => some .sdCloseConns
  | "D" => some .sdCloseDone | "K" => some .close | "A" => some .acceptFail
  | _ =>
    match w.toList with
    | k :: rest =>
      match (String.ofList rest).toNat? with
      | none => none
      | some i =>
        match k with
        | 'r' => some (.read i) | 's' => some (.start i) | 'w' => some (.write i) | 'f' => some (.finish i) | _ => none
    | [] => none

def phaseStr : Phase → String
  | .unsent => "unsent" | .read => "read" | .started => "started" | .written => "written" | .finished => "finished"

def pcStr : SdPc → String
  | .idle => "idle" | .begun => "begun" | .drained => "drained" | .expired => "expired" | .connsClosed => "connsClosed" | .completed => "completed"

/-- `sd <n requests> <events…>` → per request `phase:delivered:lost`, then shutdown pc, accept-loop
    return, number of close(doneChan) executions, in-progress count -/
def cmdSd (ws : List String) : String :=
  match ws with
  | n :: evs =>
    match n.toNat?, evs.mapM parseSdEv with
    | some n, some evs =>
      let s := run init evs
      let per := (List.range n).map (fun i => s!"{phaseStr (s.reqs i).phase}:{boolStr (s.reqs i).delivered}:{boolStr (s.reqs i).lost}")
      let ret := match s.serveRet with | none => "-" | some true => "closed" | some false => "other"
      " ".intercalate per ++ s!" | pc={pcStr s.pc} serve={ret} closes={s.doneCloses} count={s.count}"
    | _, _ => "bad-op"
  | _ => "bad-op"

/-- `sdo …`: the same, restricted to what a peer can observe -/
def cmdSdo (ws : List String) : String :=
  match ws with
  | n :: evs =>
    match n.toNat?, (evs.filter (· ≠ "")).mapM parseSdEv with
    | some n, some evs =>
      let s := run init evs
      let per := (List.range n).map (fun i => s!"{boolStr (s.reqs i).delivered}:{boolStr (s.reqs i).lost}")
      let ret := match s.serveRet with | none => "-" | some true => "closed" | some false => "other"
      " ".intercalate per ++ s!" | completed={boolStr (s.pc == .completed)} serve={ret}"
    | _, _ => "bad-op"
  | _ => "bad-op"

end Rpcx.Driver
