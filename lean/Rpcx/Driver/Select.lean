import Rpcx.Driver.Util
import Rpcx.Model.Select
namespace Rpcx.Driver
open Rpcx Rpcx.Sel

/-- dgryski/go-jump `Hash`, transcribed with Lean `Float` (IEEE double, same operations as
    the Go code; used only to run the model – nothing is proved about it) -/
partial def jumpLoop (key : UInt64) (b j : Int) (n : Int) : Int :=
  if j < n then
    let key := key * 2862933555777941757 + 1
    let b := j
    let f : Float := (Float.ofInt (b + 1)) * ((Float.ofNat 2147483648) / (Float.ofNat ((key >>> 33).toNat + 1)))
    jumpLoop key b (f.toInt64.toInt) n
  else b

def jumpHash (key n : Nat) : Nat :=
  (jumpLoop (UInt64.ofNat key) (-1) 0 (Int.ofNat n)).toNat

def parseEntries (parts : List String) : Option (List (String × Int)) :=
  parts.mapM (fun p =>
    match p.splitOn "=" with
    | [a, w] => w.toInt?.map (fun w => (a, w))
    | _ => none)

inductive SelState
  | rr (s : RR)
  | wrr (s : WRR)
  | ch (s : CH)
  | unset

def outStr : Option String → String
  | none => "!"
  | some "" => "-"
  | some s => s

/-- `sel <rr|wrr|hash> <op> <op> …` with ops `U/<addr>=<w>/…` (construct or update, entries in
    the implementation's slice order) and `S/<arg>` (select; arg = key for hash) -/
def cmdSel (ws : List String) : String :=
  match ws with
  | mode :: ops =>
    let step (acc : SelState × List String) (op : String) : SelState × List String :=
      let (st, out) := acc
      match op.splitOn "/" with
      | "U" :: parts =>
        let parts := parts.filter (· ≠ "")
        match parseEntries parts with
        | none => (st, "bad-entry" :: out)
        | some es =>
          let keys := es.map (·.1)
          match mode, st with
          | "rr", .unset => (.rr (RR.new keys), out)
          | "rr", .rr s => (.rr (s.update keys), out)
          | "wrr", .unset => (.wrr (WRR.new es), out)
          | "wrr", .wrr s => (.wrr (s.update es), out)
          | "hash", .unset => (.ch (CH.new keys), out)
          | "hash", .ch s => (.ch (s.update keys), out)
          | _, _ => (st, "bad-mode" :: out)
      | ["S", arg] =>
        match st with
        | .rr s => let r := s.select; (.rr r.1, outStr r.2 :: out)
        | .wrr s => let r := s.select; (.wrr r.1, outStr r.2 :: out)
        | .ch s => (st, outStr (s.select jumpHash (arg.toNat?.getD 0)) :: out)
        | .unset => (st, "unset" :: out)
      | _ => (st, "bad-op" :: out)
    let (_, out) := ops.foldl step (.unset, [])
    ",".intercalate out.reverse
  | _ => "bad-op"

end Rpcx.Driver
