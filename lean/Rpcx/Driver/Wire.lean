import Rpcx.Driver.Util
import Rpcx.Model.Wire
namespace Rpcx.Driver
open Rpcx Rpcx.Gen

def parseMetaList (s : String) : Option (List (Bytes × Bytes)) :=
  if s == "-" then some [] else
  (s.splitOn ",").mapM (fun e =>
    match e.splitOn ":" with
    | [k, v] => do let k ← parseHex k; let v ← parseHex v; pure (k, v)
    | _ => none)

/-- canonical printing of decoded metadata as a Go map: last entry wins, sorted by key -/
def bytesLt (a b : Bytes) : Bool :=
  match a, b with
  | [], [] => false
  | [], _ :: _ => true
  | _ :: _, [] => false
  | x :: xs, y :: ys => if x.toNat < y.toNat then true else if y.toNat < x.toNat then false else bytesLt xs ys

def dedupLast (m : List (Bytes × Bytes)) : List (Bytes × Bytes) :=
  m.foldl (fun acc e => (acc.filter (fun x => x.1 != e.1)) ++ [e]) []

def insertSorted (e : Bytes × Bytes) : List (Bytes × Bytes) → List (Bytes × Bytes)
  | [] => [e]
  | x :: xs => if bytesLt e.1 x.1 then e :: x :: xs else x :: insertSorted e xs

def metaMapStr (m : List (Bytes × Bytes)) : String :=
  let l := (dedupLast m).foldl (fun acc e => insertSorted e acc) []
  if l.isEmpty then "-" else
  ",".intercalate (l.map (fun e => e.1.toHex ++ ":" ++ e.2.toHex))

def toyZip (b : Bytes) : Option Bytes := some (0x5A#8 :: b.map (· ^^^ 0xA5#8))
def toyUnzip : Bytes → Option Bytes
  | [] => none
  | x :: rest => if x == 0x5A#8 then some (rest.map (· ^^^ 0xA5#8)) else none

/-- registry for `enc`: the harness tells what the registered compressor of the header's
    own type returned for this payload -/
def encRegistry (ct : Byte) (zo : String) : Option Registry :=
  match zo with
  | "NA" => some (fun _ => none)
  | "NONE" => some (fun _ => none)
  | "FAIL" => some (fun t => if t == ct then some ⟨fun _ => none, fun _ => none⟩ else none)
  | hx => (parseHex hx).map (fun z => fun t => if t == ct then some ⟨fun _ => some z, fun _ => none⟩ else none)

/-- `enc <buf|stream> <hdr> <path> <method> <meta list> <payload> <zip oracle>` -/
def cmdEnc (ws : List String) : String :=
  match ws with
  | [mode, hh, p, me, md, pl, zo] =>
    match (parseHex hh).bind Header.ofBytes, parseHex p, parseHex me, parseMetaList md, parseHex pl with
    | some h, some p, some me, some md, some pl =>
      match encRegistry (Header.compressType h) zo with
      | none => "bad-zip-oracle"
      | some reg =>
        let m : Msg := ⟨h, p, me, md, pl⟩
        if mode == "stream" then
          match encodeStream reg m with
          | .ok bs => "ok " ++ bs.toHex
          | .error .unsupportedCompressor => "err unsupportedCompressor"
          | .error .zipFailed => "err zipFailed"
        else
          -- stale pool contents: a recognisable non-zero pattern, so that an unwritten
          -- byte of the buffer shows up in the diff
          match encodeBuf reg m (List.replicate 64 0xEE#8) with
          | some bs => "ok " ++ bs.toHex
          | none => "panic"
    | _, _, _, _, _ => "bad-args"
  | _ => "bad-op"

def decRegistry (gz : Option (Bytes × Bytes)) : Registry := fun t =>
  if t == 1#8 then
    match gz with
    | some (z, p) => some ⟨fun _ => none, fun x => if x == z then some p else none⟩
    | none => some ⟨fun _ => none, fun _ => none⟩
  else if t == 2#8 then some ⟨toyZip, toyUnzip⟩
  else if t == 3#8 then some ⟨fun _ => none, fun _ => none⟩
  else none

def msgStr (m : Msg) (consumed : Nat) : String :=
  s!"ok consumed={consumed} hdr={m.hdr.toBytes.toHex} path={m.path.toHex} method={m.method.toHex} meta={metaMapStr m.md} payload={m.payload.toHex}"

def parseGz (s : String) : Option (Option (Bytes × Bytes)) :=
  if s == "gz=-" then some none else
  match (s.drop 3).toString.splitOn ":" with
  | [z, p] => do let z ← parseHex z; let p ← parseHex p; pure (some (z, p))
  | _ => none

def parseChunks (s : String) : Option (List Bytes) :=
  if s == "-" then some [] else (s.splitOn ",").mapM parseHex

/-- options after the positional arguments: `gz=<zipped>:<plain>` (gzip oracle),
    `prev=…` (the message object was used before; the decoder must not care) -/
def parseOpts (ws : List String) : Option (Option (Bytes × Bytes)) :=
  ws.foldlM (fun acc w =>
    if w.startsWith "gz=" then parseGz w
    else if w.startsWith "prev=" then some acc
    else none) none

/-- `dec <maxLen> <chunk,chunk,…> [gz=<zipped>:<plain>] [prev=…]` – decode one frame from
    the front of the stream the chunks form -/
def cmdDec (ws : List String) : String :=
  match ws with
  | mx :: cs :: opts =>
    match mx.toNat?, parseChunks cs, parseOpts opts with
    | some mx, some chunks, some gz =>
      let bs := chunks.flatten
      match decode ⟨mx, decRegistry gz⟩ bs with
      | .ok (m, rest) => msgStr m (bs.length - rest.length)
      | .error (.tooLong, n) => s!"err tooLong consumed={n}"
      | .error (_, _) => "err"
    | _, _, _ => "bad-args"
  | _ => "bad-op"

partial def decAllStr (cfg : Cfg) (bs : Bytes) (acc : List String) : List String :=
  if bs.isEmpty then (("end" :: acc).reverse) else
  match decode cfg bs with
  | .ok (m, rest) => decAllStr cfg rest (msgStr m (bs.length - rest.length) :: acc)
  | .error _ => ("err" :: acc).reverse

/-- `decall <maxLen> <chunk,chunk,…>` – decode frames until end of input or error -/
def cmdDecAll (ws : List String) : String :=
  match ws with
  | mx :: cs :: opts =>
    match mx.toNat?, parseChunks cs, parseOpts opts with
    | some mx, some chunks, some gz =>
      " | ".intercalate (decAllStr ⟨mx, decRegistry gz⟩ chunks.flatten [])
    | _, _, _ => "bad-args"
  | _ => "bad-op"

end Rpcx.Driver

namespace Rpcx.Driver
open Rpcx Rpcx.Gen

def fnv32 (bs : Bytes) : Nat :=
  bs.foldl (fun h b => ((h ^^^ b.toNat) * 16777619) % 4294967296) 2166136261

def insertStrSorted (s : String) : List String → List String
  | [] => [s]
  | x :: xs => if s < x then s :: x :: xs else x :: insertStrSorted s xs

/-- for stream parsing the payload is hashed as it travels (a compressed payload stays compressed) -/
def rawRegistry : Registry := fun _ => some ⟨fun x => some x, fun x => some x⟩

partial def frameEntries (cfg : Cfg) (seqMode : String) (skipHb : Bool) (bs : Bytes) (acc : List String) : List String × String :=
  if bs.isEmpty then (acc, "end") else
  match decode cfg bs with
  | .ok (m, rest) =>
    let isPush := Header.messageType m.hdr == C.MessageType_Request && Header.isOneway m.hdr && !Header.isHeartbeat m.hdr
    let sq := if seqMode == "noseq" then "" else if seqMode == "pushseq" && isPush then "*:" else toString (Header.seq m.hdr).toNat ++ ":"
    let e := sq ++ toString m.payload.length ++ ":" ++ toString (fnv32 m.payload)
      ++ (if Header.messageStatusType m.hdr == C.MessageStatusType_Error then ":E" else "")
    if skipHb && Header.isHeartbeat m.hdr then frameEntries cfg seqMode skipHb rest acc
    else frameEntries cfg seqMode skipHb rest (e :: acc)
  | .error _ => (acc, "err")

/-- `frames <seq|noseq|pushseq> <hb|nohb> <stream hex>`: the stream parsed by the Lean decoder into
    frames; prints the sorted multiset of `[seq:]payloadLen:fnv32(payload)[:E]` and how the stream ended -/
def cmdFrames (ws : List String) : String :=
  match ws with
  | [sq, hb, hxs] =>
    match parseHex hxs with
    | none => "bad-args"
    | some bs =>
      let (es, fin) := frameEntries ⟨0, rawRegistry⟩ sq (hb == "nohb") bs []
      let sorted := es.foldl (fun acc e => insertStrSorted e acc) []
      s!"{fin} n={es.length} " ++ " ".intercalate sorted
  | _ => "bad-op"

end Rpcx.Driver
