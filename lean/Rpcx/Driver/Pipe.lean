import Rpcx.Driver.Util
import Rpcx.Model.Pipeline
namespace Rpcx.Driver
open Rpcx Rpcx.Gen Rpcx.Pipe

/-- `pipe req <ser> <ct> <seq> <oneway 0|1> <len>`: the header client.send gives a request whose
    encoded arguments are `len` bytes long;
    `pipe res <request header hex> <len>`: the header of the server's response with a `len`-byte
    reply payload. -/
def cmdPipe (ws : List String) : String :=
  match ws with
  | ["req", ser, ct, seq, ow, len] =>
    match ser.toNat?, ct.toNat?, seq.toNat?, len.toNat? with
    | some ser, some ct, some seq, some len =>
      let m := clientReq ⟨BitVec.ofNat 8 ser, BitVec.ofNat 8 ct⟩ (BitVec.ofNat 64 seq) (ow == "1") [] [] [] (List.replicate len 0#8)
      "hdr=" ++ Bytes.toHex m.hdr.toBytes
    | _, _, _, _ => "bad-op"
  | ["res", hdr, len] =>
    match (parseHex hdr).bind Header.ofBytes, len.toNat? with
    | some h, some len =>
      let m := serverRes ⟨h, [], [], [], []⟩ (List.replicate len 0#8) []
      "hdr=" ++ Bytes.toHex m.hdr.toBytes
    | _, _ => "bad-op"
  | _ => "bad-op"

end Rpcx.Driver
