import Rpcx.Driver.Util
import Rpcx.Model.Pool
namespace Rpcx.Driver
open Rpcx

/-- `pool <min> <max> get <size>` / `pool <min> <max> put <cap>` -/
def cmdPool (ws : List String) : String :=
  match ws with
  | [mn, mx, op, v] =>
    match mn.toNat?, mx.toNat?, v.toNat? with
    | some mn, some mx, some v =>
      if op == "get" then
        match poolGet mn mx v with
        | .fresh n => s!"len={n} cap={n}"
        | .pooled lv n => if n ≤ levelSize mn mx lv then s!"len={n} cap={levelSize mn mx lv}" else "panic"
      else if op == "put" then
        match poolPut mn mx v with
        | none => "level=none"
        | some lv => s!"level={levelSize mn mx lv}"
      else "bad-op"
    | _, _, _ => "bad-args"
  | _ => "bad-op"

end Rpcx.Driver
