import Rpcx.Basic
namespace Rpcx.Driver

def splitWords (s : String) : List String :=
  (s.splitOn " ").filter (· ≠ "")

def boolStr (b : Bool) : String := if b then "1" else "0"

def hex2 (b : Byte) : String := String.ofList [hexDigit (b.toNat / 16), hexDigit (b.toNat % 16)]

def parseByte (s : String) : Option Byte :=
  match parseHex s with
  | some [b] => some b
  | _ => none

def natStr (n : Nat) : String := toString n

end Rpcx.Driver
