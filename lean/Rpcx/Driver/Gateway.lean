import Rpcx.Driver.Util
import Rpcx.Model.Gateway
namespace Rpcx.Driver
open Rpcx Rpcx.Gen Rpcx.Query Rpcx.Gw

def bytesLeQ : Bytes → Bytes → Bool
  | [], _ => true
  | _ :: _, [] => false
  | a :: as, b :: bs => if a.toNat < b.toNat then true else if b.toNat < a.toNat then false else bytesLeQ as bs

def insertByKey (e : Bytes × Bytes) : List (Bytes × Bytes) → List (Bytes × Bytes)
  | [] => [e]
  | x :: xs => if bytesLeQ x.1 e.1 then x :: insertByKey e xs else e :: x :: xs

/-- stable sort by key (values of one key keep their order) -/
def sortByKey (m : List (Bytes × Bytes)) : List (Bytes × Bytes) := m.foldl (fun acc e => insertByKey e acc) []

def kvStr (m : List (Bytes × Bytes)) : String :=
  if m.isEmpty then "-" else ";".intercalate (m.map (fun e => e.1.toHex ++ "=" ++ e.2.toHex))

def parseKVs (s : String) : Option (List (Bytes × Bytes)) :=
  if s == "-" then some [] else
  (s.splitOn ";").mapM (fun p => match p.splitOn "=" with
    | [k, v] => do let k ← parseHex k; let v ← parseHex v; pure (k, v)
    | _ => none)

/-- `q esc <hex>` · `q unesc <hex>` · `q parse <hex>` · `q enc <k=v;…>` · `q uint <hex>` · `q atoi <hex>`
    · `q jsplit <hex>` · `q conv id=<hex> hb=<hex> ow=<hex> st=<hex> ct=<hex> meta=<hex> auth=<hex> path=<hex> method=<hex> body=<hex>` -/
def cmdQ (ws : List String) : String :=
  match ws with
  | ["esc", h] => match parseHex h with | some b => (escape b).toHex | none => "bad-op"
  | ["unesc", h] => match parseHex h with
      | some b => (match unescape b with | some r => "ok " ++ r.toHex | none => "error")
      | none => "bad-op"
  | ["parse", h] => match parseHex h with
      | some b => let r := parseQuery b; s!"err={boolStr r.2} {kvStr (sortByKey r.1)}"
      | none => "bad-op"
  | ["enc", kvs] => match parseKVs kvs with | some m => (encodeValues m).toHex | none => "bad-op"
  | ["uint", h] => match parseHex h with
      | some b => (match parseUint64 b with | some n => toString n | none => "error")
      | none => "bad-op"
  | ["atoi", h] => match parseHex h with
      | some b => (match atoi b with | some n => toString n | none => "error")
      | none => "bad-op"
  | ["jsplit", h] => match parseHex h with
      | some b => (match splitMethod b with | some (p, m) => p.toHex ++ " " ++ m.toHex | none => "error")
      | none => "bad-op"
  | ["conv", id, hb, ow, st, ct, md, auth, path, method, body] =>
    let f (s : String) (pre : String) : Option Bytes := if s.startsWith pre then parseHex (s.drop pre.length).toString else none
    match f id "id=", f hb "hb=", f ow "ow=", f st "st=", f ct "ct=", f md "meta=", f auth "auth=", f path "path=", f method "method=", f body "body=" with
    | some id, some hb, some ow, some st, some ct, some md, some auth, some path, some method, some body =>
      match httpToMsg { msgID := id, heartbeat := hb, oneway := ow, serType := st, compType := ct, mdata := md, auth := auth,
                        pathHdr := path, method := method, body := body } with
      | .error _ => "error"
      | .ok m => s!"ok hdr={m.hdr.toBytes.toHex} path={m.path.toHex} method={m.method.toHex} md={kvStr (sortByKey m.md)} body={m.payload.toHex}"
    | _, _, _, _, _, _, _, _, _, _ => "bad-op"
  | ["gw", url, id, hb, ow, st, ct, md, auth, path, method, body] =>
    let f (s : String) (pre : String) : Option Bytes := if s.startsWith pre then parseHex (s.drop pre.length).toString else none
    match f url "url=", f id "id=", f hb "hb=", f ow "ow=", f st "st=", f ct "ct=", f md "meta=", f auth "auth=", f path "path=", f method "method=", f body "body=" with
    | some url, some id, some hb, some ow, some st, some ct, some md, some auth, some path, some method, some body =>
      -- the harness aims these at an existing service whose handler succeeds
      match gateway true {} { msgID := id, heartbeat := hb, oneway := ow, serType := st, compType := ct, mdata := md, auth := auth,
                              pathHdr := path, urlPath := url, method := method, body := body } with
      | .rejected _ => "rejected"
      | .served _ _ => "served"
    | _, _, _, _, _, _, _, _, _, _, _ => "bad-op"
  | _ => "bad-op"

end Rpcx.Driver
