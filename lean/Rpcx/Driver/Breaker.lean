import Rpcx.Driver.Util
import Rpcx.Model.Breaker
namespace Rpcx.Driver
open Rpcx Rpcx.Gen

def resChar : CallRes → Char
  | .refused => 'R' | .ok => 'K' | .failed => 'F'

def parseStep (s : String) : Option (Int × Int × Bool) :=
  match s.splitOn ":" with
  | [a, b, o] => do
    let a ← a.toInt?
    let b ← b.toInt?
    pure (a, b, o == "1")
  | _ => none

/-- `brk <threshold> <windowNs> <t:t':ok,…>` → one letter per call: R(efused) K(ok) F(ailed) -/
def cmdBrk (ws : List String) : String :=
  match ws with
  | [th, w, steps] =>
    match th.toNat?, w.toInt?, (if steps == "-" then some [] else (steps.splitOn ",").mapM parseStep) with
    | some th, some w, some evs =>
      String.ofList ((Breaker.run ⟨th, w⟩ ⟨0, 0⟩ evs).2.map resChar)
    | _, _, _ => "bad-args"
  | _ => "bad-op"

end Rpcx.Driver
