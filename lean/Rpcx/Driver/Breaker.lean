import Rpcx.Driver.Util
import Rpcx.Model.Breaker
namespace Rpcx.Driver
open Rpcx Rpcx.Gen

def resChar : CallRes → Char
  | .refused => 'R' | .ok => 'K' | .failed => 'F'

def parseStep (s : String) : Option (Int × Int × Bool) :=
  match s.splitOn ":" with
  | [a, b, o] => do
    let a ← a.toInt?
    let b ← b.toInt?
    pure (a, b, o == "1")
  | _ => none

def dialChar : DialRes → Char
  | .open => 'O' | .dialedOk => 'K' | .dialedFail => 'D'

/-- `brk <threshold> <windowNs> <t:t':ok,…>` → one letter per call: R(efused) K(ok) F(ailed)
    `brk dial <threshold> <windowNs> <t:t':ok,…>` → one letter per connection attempt of the discovery
    client: O(pen, not dialled) K(dialled ok) D(ialled, failed), then the number of dials -/
def cmdBrk (ws : List String) : String :=
  match ws with
  | ["dial", th, w, steps] =>
    match th.toNat?, w.toInt?, (if steps == "-" then some [] else (steps.splitOn ",").mapM parseStep) with
    | some th, some w, some evs =>
      let rs := (Dial.run ⟨th, w⟩ ⟨0, 0⟩ evs).2
      String.ofList (rs.map dialChar) ++ s!" dials={Dial.dials rs}"
    | _, _, _ => "bad-args"
  | [th, w, steps] =>
    match th.toNat?, w.toInt?, (if steps == "-" then some [] else (steps.splitOn ",").mapM parseStep) with
    | some th, some w, some evs =>
      String.ofList ((Breaker.run ⟨th, w⟩ ⟨0, 0⟩ evs).2.map resChar)
    | _, _, _ => "bad-args"
  | _ => "bad-op"

end Rpcx.Driver
