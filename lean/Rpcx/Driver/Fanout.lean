import Rpcx.Driver.Util
import Rpcx.Model.Fanout
import Rpcx.Model.FanoutConc
namespace Rpcx.Driver
open Rpcx Rpcx.Fan

/-- `fan <broadcast|fork|inform> <addr:ok:reply,…  in completion order>` -/
def cmdFan (ws : List String) : String :=
  match ws with
  | [op, spec] =>
    let srvs := (spec.splitOn ",").filterMap (fun e => match e.splitOn ":" with
      | [a, k, r] => some (⟨a, k == "1", r.toNat?.getD 0⟩ : Srv)
      | _ => none)
    match op with
    | "broadcast" => let r := broadcast srvs; s!"success={boolStr r.1}"
    | "fork" => let r := fork srvs; s!"success={boolStr r.1}"
    | "inform" =>
      let rs := (inform srvs).map (fun r => s!"{r.addr}:{boolStr r.errNil}:{if r.errNil then r.reply else 0}")
      -- receipts are appended in completion order by concurrent goroutines: compare as a sorted list
      let sorted := rs.foldl (fun acc x => (acc.filter (· < x)) ++ [x] ++ (acc.filter (fun y => !(y < x)))) []
      ",".intercalate sorted
    | _ => "bad-op"
  | _ => "bad-op"

/-- `fanc <broadcast|fork|inform> <addr:ok:reply,… in completion order>`: the goroutine-level model
    (`Model/FanoutConc`) on the schedule in which the harness releases the completions one at a time –
    worker i records, signals, the caller's loop receives – printed like `fan` -/
def cmdFanC (ws : List String) : String :=
  match ws with
  | [op, spec] =>
    let srvs := (spec.splitOn ",").filterMap (fun e => match e.splitOn ":" with
      | [a, k, r] => some (⟨a, k == "1", r.toNat?.getD 0⟩ : Srv)
      | _ => none)
    let evs := (List.range srvs.length).flatMap (fun i => [FanC.Ev.finish i, FanC.Ev.signal i, FanC.Ev.recv])
    let verdict := fun (o : FanC.Op) => match (FanC.run o srvs evs).ret with
      | some v => s!"success={boolStr v}"
      | none => "no-return"
    match op with
    | "broadcast" => verdict .broadcast
    | "fork" => verdict .fork
    | "inform" =>
      let s := FanC.run .inform srvs evs
      match s.ret with
      | none => "no-return"
      | some _ =>
        let rs := s.receipts.map (fun r => s!"{r.addr}:{boolStr r.errNil}:{if r.errNil then r.reply else 0}")
        let sorted := rs.foldl (fun acc x => (acc.filter (· < x)) ++ [x] ++ (acc.filter (fun y => !(y < x)))) []
        ",".intercalate sorted
    | _ => "bad-op"
  | _ => "bad-op"

end Rpcx.Driver
