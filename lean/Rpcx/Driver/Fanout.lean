import Rpcx.Driver.Util
import Rpcx.Model.Fanout
namespace Rpcx.Driver
open Rpcx Rpcx.Fan

/-- `fan <broadcast|fork|inform> <addr:ok:reply,…  in completion order>` -/
def cmdFan (ws : List String) : String :=
  match ws with
  | [op, spec] =>
    let srvs := (spec.splitOn ",").filterMap (fun e => match e.splitOn ":" with
      | [a, k, r] => some (⟨a, k == "1", r.toNat?.getD 0⟩ : Srv)
      | _ => none)
    match op with
    | "broadcast" => let r := broadcast srvs; s!"success={boolStr r.1}"
    | "fork" => let r := fork srvs; s!"success={boolStr r.1}"
    | "inform" =>
      let rs := (inform srvs).map (fun r => s!"{r.addr}:{boolStr r.errNil}:{if r.errNil then r.reply else 0}")
      -- receipts are appended in completion order by concurrent goroutines: compare as a sorted list
      let sorted := rs.foldl (fun acc x => (acc.filter (· < x)) ++ [x] ++ (acc.filter (fun y => !(y < x)))) []
      ",".intercalate sorted
    | _ => "bad-op"
  | _ => "bad-op"

end Rpcx.Driver
