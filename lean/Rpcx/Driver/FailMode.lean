import Rpcx.Driver.Util
import Rpcx.Model.FailMode
namespace Rpcx.Driver
open Rpcx Rpcx.FM

def parseOutcomes (s : String) : Option (List Outcome) :=
  if s == "-" then some [] else
  s.toList.mapM (fun c => match c with
    | 'K' => some .ok | 'S' => some .svcErr | 'L' => some .lost | 'C' => some .cancelled | 'D' => some .deadline
    | _ => none)

def errName : Err → String
  | .svc => "svc" | .lost => "lost" | .cancelled => "cancelled" | .deadline => "deadline"
  | .dial => "dial" | .noServer => "noServer" | .unavailable => "unavailable"

def resStr : Res → String
  | .ok d => s!"ok:{d}"
  | .err e => "err:" ++ errName e
  | .nilNoReply => "nilNoReply"

/-- rename servers in order of first appearance (the harness does the same) -/
def canonDeliveries (ds : List Nat) : String :=
  let step (acc : List Nat × List String) (d : Nat) : List Nat × List String :=
    match acc.1.idxOf? d with
    | some i => (acc.1, toString i :: acc.2)
    | none => (acc.1 ++ [d], toString acc.1.length :: acc.2)
  let r := ds.foldl step ([], [])
  if ds.isEmpty then "-" else ",".intercalate r.2.reverse

/-- `fm <call|raw> <failfast|failtry|failover> <retries> <n> <dials 01…> <calls KSLCD…>` -/
def cmdFm (ws : List String) : String :=
  match ws with
  | [_api, mode, retries, n, dials, calls] =>
    let mode? : Option Mode := match mode with
      | "failfast" => some .failfast | "failtry" => some .failtry | "failover" => some .failover | _ => none
    match mode?, retries.toNat?, n.toNat?, parseOutcomes calls with
    | some mode, some retries, some n, some calls =>
      let dials := if dials == "-" then [] else dials.toList.map (· == '1')
      let (s, r) := xcall mode retries (St.init n dials calls)
      s!"{resStr r} d={canonDeliveries s.deliveries.reverse}"
    | _, _, _, _ => "bad-args"
  | _ => "bad-op"

/-- `fb <go1> <go2> <o1> <o2> <events r1,t,r2>` -/
def cmdFb (ws : List String) : String :=
  match ws with
  | [g1, g2, o1, o2, evs] =>
    match parseOutcomes o1, parseOutcomes o2 with
    | some [o1], some [o2] =>
      let evs := (evs.splitOn ",").filterMap (fun e => match e with
        | "r1" => some (BEvent.reply1 o1) | "r2" => some (BEvent.reply2 o2) | "t" => some BEvent.timer | _ => none)
      let (r, n) := backupCall (g1 == "1") (g2 == "1") evs
      let rs := match r with | .ok _ => "ok" | .err _ => "err" | .nilNoReply => "nilNoReply"
      s!"{rs} n={n}"
    | _, _ => "bad-args"
  | _ => "bad-op"

end Rpcx.Driver
