import Rpcx.Driver.Util
import Rpcx.Model.Mux
namespace Rpcx.Driver
open Rpcx Rpcx.Mux

def outStrMux : Option Outcome → String
  | none => "-"
  | some (.reply t) => s!"reply:{t}"
  | some (.svcErr t) => s!"svc:{t}"
  | some .decodeErr => "decodeErr"
  | some .ctxErr => "ctx"
  | some .shutdownErr => "shutdown"
  | some .connErr => "conn"
  | some .codecErr => "codec"
  | some .none_ => "none"

def parseEv (w : String) : Option Ev :=
  if w == "T" then some .terminate
  else if w == "C" then some .close
  else if w.startsWith "f:" then
    match w.splitOn ":" with
    | [_, seq, flags, tag] => do
      let seq ← seq.toNat?
      let tag ← tag.toNat?
      let has (c : Char) := flags.toList.contains c
      pure (.frame ⟨seq, has 'q', has 'h', has 'o', has 'E', tag, !(has 'u' || has 'k')⟩)
    | _ => none
  else
    match w.toList with
    | k :: rest =>
      match (String.ofList rest).toNat? with
      | none => none
      | some c =>
        match k with
        | 'r' => some (.register c) | 'e' => some (.encodeFail c) | 'x' => some (.writeFail c)
        | 'w' => some (.writeOk c) | 'c' => some (.ctxDone c) | _ => none
    | [] => none

/-- `mux <kinds: G go-call, B blocking call, O one-way go-call, R SendRaw, …> <events…>`:
    per call "signals:outcome" (G/O) or "ret" (B), then connection flags and the push channel -/
def cmdMux (ws : List String) : String :=
  match ws with
  | kinds :: evs =>
    -- `H<i>` / `K<i>`: a call enters send() while a teardown is in progress; the teardown is
    -- one atomic step of the model, so these are `T r<i>` / `C T r<i>`
    let evs := evs.flatMap (fun w =>
      if w.startsWith "H" then ["T", "r" ++ (w.drop 1).toString]
      else if w.startsWith "K" then ["C", "T", "r" ++ (w.drop 1).toString]
      else if w.startsWith "N" then ["r" ++ (w.drop 1).toString, "w" ++ (w.drop 1).toString, "T"]
      else if w.startsWith "G" then
        -- `G<i>:<q>:<tag>`: the reader, inside the dispatch of the response to call i, has taken the call
        -- out of the table and is held there while the caller's context ends: the caller's section
        ["c" ++ ((w.drop 1).toString.splitOn ":").head!]
      else if w.startsWith "g:" then
        -- `g:<q>:<tag>`: the held dispatch goes on: a completion for a call nobody waits for any more
        match w.splitOn ":" with
        | [_, q, tag] => ["f:" ++ q ++ ":-:" ++ tag]
        | _ => [w]
      else if w.startsWith "y" then []   -- a call parked inside Write: not a step of the model
      else if w.startsWith "p:" then ["T"]   -- the stream ends inside a frame: a reader termination
      else [w])
    match evs.mapM parseEv with
    | none => "bad-event"
    | some evs =>
      let ks := kinds.toList
      let s := run (init (ks.map (fun k => (k == 'O', k == 'R')))) evs  -- kinds G and N (raw-bytes reply) behave alike; R = SendRaw
      let per := (ks.zip s.calls).map (fun (k, r) =>
        if k == 'B' || k == 'D' || k == 'R' then "ret=" ++ outStrMux r.ret
        else s!"{r.signals}:{outStrMux r.outcome}")
      let chan := if s.chan.isEmpty then "-" else ",".intercalate (s.chan.map (fun f => toString f.tag))
      " ".intercalate per ++ s!" | sd={boolStr s.shutdown} chan={chan}"
  | _ => "bad-op"

end Rpcx.Driver
