import Rpcx.Driver.Util
import Rpcx.Model.Server
namespace Rpcx.Driver
open Rpcx Rpcx.Srv Rpcx.Gen

def optHex (s : String) : Option (Option Bytes) :=
  if s == "-" then some none else (parseHex s).map some

def kvNat (w pre : String) : Option Nat :=
  if w.startsWith pre then (w.drop pre.length).toString.toNat? else none

/-- `srv <hb><ow> <target> <postread ok|reject|limit> <authErr hex|-> <codecKnown> <argsErr hex|->
        <preCallErr hex|-> <ok|err:hex|panic:hex> ct=<n> ser=<n> len=<n> path=<hex> method=<hex>` -/
def cmdSrv (ws : List String) : String :=
  match ws with
  | [fl, target, postread, authE, ck, argsE, preE, beh, ct, ser, len, path, method] =>
    let target? : Option Target := match target with
      | "refl" => some .reflected | "func" => some .function | "router" => some .router
      | "nosvc" => some .noService | "nomethod" => some .noMethod | _ => none
    let beh? : Option Behaviour :=
      if beh == "ok" then some .ok
      else if beh.startsWith "err:" then (parseHex (beh.drop 4).toString).map .err
      else if beh.startsWith "panic:" then (parseHex (beh.drop 6).toString).map .panic
      else none
    match target?, beh?, optHex authE, optHex argsE, optHex preE, kvNat ct "ct=", kvNat ser "ser=", kvNat len "len=",
          parseHex (path.drop 5).toString, parseHex (method.drop 7).toString with
    | some target, some beh, some authE, some argsE, some preE, some ct, some ser, some len, some path, some method =>
      let h0 : Header := ⟨C.magicNumber, 0, 0, 0, 0, 0, 0, 0, 0, 0, 0, 42⟩
      let h := Header.setSerializeType (Header.setCompressType (Header.setOneway (Header.setHeartbeat h0 (fl.toList[0]? == some '1'))
        (fl.toList[1]? == some '1')) (BitVec.ofNat 8 ct)) (BitVec.ofNat 8 ser)
      let req : Msg := ⟨h, path, method, [], [1#8, 2#8, 3#8]⟩
      let env : Env := { postReadOk := postread != "reject", reachLimit := postread == "limit", authErr := authE, target := target,
                         codecKnown := ck == "1", argsErr := argsE, preCallErr := preE, behaviour := beh,
                         replyPayload := List.replicate len 0x78#8 }
      let acts := serveOne env req
      let writes := acts.filterMap (fun a => match a with | .write m => some m | _ => none)
      let invoked := (acts.filter (· == .invoke)).length
      let after := if acts.contains .closeConn then "close" else "next"
      let (status, err, stamped) := match writes.head? with
        | none => ("-", "-", "-")
        | some m =>
          let st := if Header.messageStatusType m.hdr == C.MessageStatusType_Error then "E" else "N"
          let e := if st == "E" then
              (match beh, (acts.contains .invoke) with
               | .panic t, true => "contains:" ++ t.toHex
               | _, _ => ((metaLookup m.md serviceErrorKey).getD []).toHex)
            else "-"
          let ok := Header.messageType m.hdr == C.MessageType_Response && Header.seq m.hdr == Header.seq req.hdr
            && m.path == req.path && m.method == req.method && Header.serializeType m.hdr == Header.serializeType req.hdr
          (st, e, boolStr ok)
      s!"writes={writes.length} status={status} err={err} invoked={invoked} after={after} stamped={stamped}"
    | _, _, _, _, _, _, _, _, _, _ => "bad-args"
  | _ => "bad-op"

end Rpcx.Driver
