import Rpcx.Driver.Util
import Rpcx.Driver.Header
import Rpcx.Driver.Wire
import Rpcx.Driver.Breaker
import Rpcx.Driver.Select
import Rpcx.Driver.Pool
import Rpcx.Driver.FailMode
import Rpcx.Driver.Fanout
import Rpcx.Driver.Discovery
import Rpcx.Driver.Mux
import Rpcx.Driver.Server
import Rpcx.Driver.Ingress
import Rpcx.Driver.Pipe
import Rpcx.Driver.Gateway
import Rpcx.Driver.Shutdown
/-
  Line-protocol driver: one operation per input line, one canonical output line per
  operation.  Runs the executable definitions of the model (generated and hand-written);
  the Go harness runs the implementation on the same lines and ./check diffs the streams.
-/
namespace Rpcx.Driver

def step (line : String) : String :=
  match splitWords line with
  | [] => ""
  | "hdr" :: ws => cmdHdr ws
  | "enc" :: ws => cmdEnc ws
  | "dec" :: ws => cmdDec ws
  | "decall" :: ws => cmdDecAll ws
  | "frames" :: ws => cmdFrames ws
  | "brk" :: ws => cmdBrk ws
  | "sel" :: ws => cmdSel ws
  | "pool" :: ws => cmdPool ws
  | "fm" :: ws => cmdFm ws
  | "fb" :: ws => cmdFb ws
  | "fan" :: ws => cmdFan ws
  | "fanc" :: ws => cmdFanC ws
  | "filter" :: ws => cmdFilter ws
  | "hub" :: ws => cmdHub ws
  | "mux" :: ws => cmdMux ws
  | "srv" :: ws => cmdSrv ws
  | "ing" :: ws => cmdIng ws
  | "pipe" :: ws => cmdPipe ws
  | "q" :: ws => cmdQ ws
  | "sd" :: ws => cmdSd ws
  | "sdo" :: ws => cmdSdo ws
  | _ => "bad-op"

partial def loop (hin : IO.FS.Stream) (hout : IO.FS.Stream) : IO Unit := do
  let line ← hin.getLine
  if line.isEmpty then return ()
  let l := line.trimAsciiEnd.toString
  hout.putStrLn (step l)
  loop hin hout

def main (_args : List String) : IO UInt32 := do
  let hin ← IO.getStdin
  let hout ← IO.getStdout
  loop hin hout
  hout.flush
  return 0

end Rpcx.Driver
