import Rpcx.Driver.Util
import Rpcx.Model.Discovery
namespace Rpcx.Driver
open Rpcx Rpcx.Disc

/-- `filter <group hex> <addr/parseOk/state hex/group hex+group hex…,…>` → kept addresses -/
def cmdFilter (ws : List String) : String :=
  match ws with
  | [g, spec] =>
    match parseHex g with
    | none => "bad-args"
    | some group =>
      let entries : List (Option (String × Meta)) :=
        if spec == "-" then [] else
        (spec.splitOn ",").map (fun e => match e.splitOn "/" with
          | [a, ok, st, gs] => do
            let st ← parseHex st
            let gs ← (if gs == "-" then some [] else (gs.splitOn "+").mapM parseHex)
            pure (a, (⟨ok == "1", st, gs⟩ : Meta))
          | _ => none)
      match entries.mapM id with
      | none => "bad-args"
      | some es =>
        let kept := filterServers group es
        if kept.isEmpty then "-" else ",".intercalate kept
  | _ => "bad-op"

def parseHubStep (s : String) : Option (List (HubStep Nat) ⊕ Unit) :=
  if s == "A" then some (.inr ()) else
  let n := (s.drop 1).toString.toNat?
  match s.front, n with
  | 'w', some n => some (.inl [.watch n])
  | 'r', some n => some (.inl [.remove n])
  | 'p', some n => some (.inl [.publish n])
  | 'a', some n => some (.inl [.apply n])
  | _, _ => none

/-- every registered watcher drains its queue -/
def hubDrain (h : Hub Nat) : Hub Nat :=
  { h with ws := h.ws.map (fun e => (e.1, (List.range e.2.queue.length).foldl (fun w _ => applyOne w) e.2)) }

/-- `hub <cap> <w<id>|r<id>|p<x>|a<id>|A …>` (A = every watcher applies all it has pending) →
    `id=applied` for every registered watcher, in registration order -/
def cmdHub (ws : List String) : String :=
  match ws with
  | cap :: steps =>
    match cap.toNat?, steps.mapM parseHubStep with
    | some cap, some ss =>
      let h := ss.foldl (fun (h : Hub Nat) s => match s with
        | .inl l => hubRun cap h l
        | .inr _ => hubDrain h) ⟨none, []⟩
      if h.ws.isEmpty then "-" else
      " ".intercalate (h.ws.map (fun e => s!"{e.1}=" ++ (match e.2.applied with | some x => toString x | none => "-")))
    | _, _ => "bad-args"
  | _ => "bad-op"

end Rpcx.Driver
