import Rpcx.Driver.Util
import Rpcx.Model.Discovery
namespace Rpcx.Driver
open Rpcx Rpcx.Disc

/-- `filter <group hex> <addr/parseOk/state hex/group hex+group hex…,…>` → kept addresses -/
def cmdFilter (ws : List String) : String :=
  match ws with
  | [g, spec] =>
    match parseHex g with
    | none => "bad-args"
    | some group =>
      let entries : List (Option (String × Meta)) :=
        if spec == "-" then [] else
        (spec.splitOn ",").map (fun e => match e.splitOn "/" with
          | [a, ok, st, gs] => do
            let st ← parseHex st
            let gs ← (if gs == "-" then some [] else (gs.splitOn "+").mapM parseHex)
            pure (a, (⟨ok == "1", st, gs⟩ : Meta))
          | _ => none)
      match entries.mapM id with
      | none => "bad-args"
      | some es =>
        let kept := filterServers group es
        if kept.isEmpty then "-" else ",".intercalate kept
  | _ => "bad-op"

end Rpcx.Driver
