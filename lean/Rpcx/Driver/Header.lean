import Rpcx.Driver.Util
import Rpcx.Gen.Header
namespace Rpcx.Driver
open Rpcx Rpcx.Gen

def viewStr (h : Header) : String :=
  s!"magic={boolStr (Header.checkMagicNumber h)} ver={hex2 (Header.version h)} mt={hex2 (Header.messageType h)} hb={boolStr (Header.isHeartbeat h)} ow={boolStr (Header.isOneway h)} ct={hex2 (Header.compressType h)} st={hex2 (Header.messageStatusType h)} ser={hex2 (Header.serializeType h)} seq={(Header.seq h).toNat}"

/-- `hdr <op> <12-byte hex> <arg>` -/
def cmdHdr (ws : List String) : String :=
  match ws with
  | [op, hx, arg] =>
    match (parseHex hx).bind Header.ofBytes with
    | none => "bad-header"
    | some h =>
      match op with
      | "view" => viewStr h
      | "setVersion" => (parseByte arg).elim "bad-arg" (fun v => (Header.setVersion h v).toBytes.toHex)
      | "setMessageType" => (parseByte arg).elim "bad-arg" (fun v => (Header.setMessageType h v).toBytes.toHex)
      | "setHeartbeat" => (parseByte arg).elim "bad-arg" (fun v => (Header.setHeartbeat h (v != 0#8)).toBytes.toHex)
      | "setOneway" => (parseByte arg).elim "bad-arg" (fun v => (Header.setOneway h (v != 0#8)).toBytes.toHex)
      | "setCompressType" => (parseByte arg).elim "bad-arg" (fun v => (Header.setCompressType h v).toBytes.toHex)
      | "setMessageStatusType" => (parseByte arg).elim "bad-arg" (fun v => (Header.setMessageStatusType h v).toBytes.toHex)
      | "setSerializeType" => (parseByte arg).elim "bad-arg" (fun v => (Header.setSerializeType h v).toBytes.toHex)
      | "setSeq" => match arg.toNat? with
        | some n => (Header.setSeq h (BitVec.ofNat 64 n)).toBytes.toHex
        | none => "bad-arg"
      | _ => "bad-op"
  | _ => "bad-op"

end Rpcx.Driver
