import Rpcx.Driver.Util
import Rpcx.Driver.Server
import Rpcx.Model.Server
namespace Rpcx.Driver
open Rpcx Rpcx.Srv Rpcx.Gen

/-- `ing <native|gateway|jsonrpc> <acceptOk 0/1> <hb><ow> <target> <postread ok|reject|limit> <authErr hex|->
        <codecKnown> <argsErr hex|-> <preCallErr hex|-> <ok|err:hex|panic:hex> path=<hex> method=<hex>`
    → `invoked=<n> out=<result|error:hex|closed>` (HTTP ingresses) -/
def cmdIng (ws : List String) : String :=
  match ws with
  | [ing, acc, fl, target, postread, authE, ck, argsE, preE, beh, path, method] =>
    let ing? : Option Ingress := match ing with
      | "native" => some .native | "gateway" => some .gateway | "jsonrpc" => some .jsonrpc | _ => none
    let target? : Option Target := match target with
      | "refl" => some .reflected | "func" => some .function | "router" => some .router
      | "nosvc" => some .noService | "nomethod" => some .noMethod | _ => none
    let beh? : Option Behaviour :=
      if beh == "ok" then some .ok
      else if beh.startsWith "err:" then (parseHex (beh.drop 4).toString).map .err
      else if beh.startsWith "panic:" then (parseHex (beh.drop 6).toString).map .panic
      else none
    match ing?, target?, beh?, optHex authE, optHex argsE, optHex preE, parseHex (path.drop 5).toString, parseHex (method.drop 7).toString with
    | some ing, some target, some beh, some authE, some argsE, some preE, some path, some method =>
      let h0 : Header := ⟨C.magicNumber, 0, 0, 0x10#8, 0, 0, 0, 0, 0, 0, 0, 42⟩
      let h := Header.setOneway (Header.setHeartbeat h0 (fl.toList[0]? == some '1')) (fl.toList[1]? == some '1')
      let req : Msg := ⟨h, path, method, [], [1#8]⟩
      let env : Env := { postReadOk := postread != "reject", reachLimit := postread == "limit", authErr := authE, target := target,
                         codecKnown := ck == "1", argsErr := argsE, preCallErr := preE, behaviour := beh, replyPayload := [0x52#8] }
      match ing with
      | .native =>
        let acts := ingressOne .native (acc == "1") env req
        s!"invoked={(acts.filter (· == .invoke)).length}"
      | _ =>
        let (acts, out) := httpOne (acc == "1") env req
        let o := match out with
          | .result _ => "result"
          | .error t => if postread != "ok" then "error:*" else (match beh, acts.contains .invoke with
                         | .panic t', true => "error:contains:" ++ t'.toHex
                         | _, _ => "error:" ++ t.toHex)
          | .closed => "closed"
        s!"invoked={(acts.filter (· == .invoke)).length} out={o}"
    | _, _, _, _, _, _, _, _ => "bad-args"
  | _ => "bad-op"

end Rpcx.Driver
