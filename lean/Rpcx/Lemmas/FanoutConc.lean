import Rpcx.Model.FanoutConc
/-
  Helper lemmas for the goroutine-level model of Broadcast / Fork / Inform: a counting invariant that
  every step of every worker and of the caller's loop preserves.
-/
namespace Rpcx.FanC
open Rpcx.Fan

def isDone (w : W) : Bool := w.pc != .calling
def isSig (w : W) : Bool := w.pc == .signalled
def bad (w : W) : Bool := !w.srv.ok
def falses (l : List Bool) : Nat := l.countP (· == false)
def rcOf (w : W) : Receipt := ⟨w.srv.addr, w.srv.reply, w.srv.ok⟩

theorem countP_set' (p : W → Bool) (l : List W) (i : Nat) (old new : W) (h : l[i]? = some old) :
    (l.set i new).countP p + (if p old then 1 else 0) = l.countP p + (if p new then 1 else 0) := by
  induction l generalizing i with
  | nil => simp at h
  | cons x xs ih =>
    cases i with
    | zero =>
      simp at h; subst h
      simp only [List.set_cons_zero, List.countP_cons]; omega
    | succ j =>
      simp at h
      have := ih j h
      simp only [List.set_cons_succ, List.countP_cons]; omega

theorem falses_append (a b : List Bool) : falses (a ++ b) = falses a + falses b := by
  simp [falses, List.countP_append]

theorem falses_le (a : List Bool) : falses a ≤ a.length := List.countP_le_length

/-- what the caller's loop guarantees about the signals received so far while it has not returned -/
def Pend (op : Op) (s : St) : Prop :=
  match op with
  | .broadcast => falses s.recvd = 0
  | .fork => falses s.recvd = s.recvd.length
  | .inform => True

/-- what a returned verdict means (`v = true`: nil error) -/
def Verdict (op : Op) (s : St) (v : Bool) : Prop :=
  match op with
  | .broadcast => (v = true ↔ s.ws.countP bad = 0) ∧ (v = true → s.ws.countP isDone = s.ws.length)
  | .fork => (v = true ↔ s.ws.countP bad < s.ws.length) ∧ (v = true → 1 ≤ s.ws.countP (fun w => isDone w && w.srv.ok))
  | .inform => (v = true ↔ s.ws.countP bad = 0) ∧ s.ws.countP isSig = s.ws.length

structure Inv (op : Op) (n : Nat) (s : St) : Prop where
  len : s.ws.length = n
  errs : s.errs = s.ws.countP (fun w => isDone w && bad w)
  sigs : s.queue.length + s.recvd.length = s.ws.countP isSig
  fls : falses s.queue + falses s.recvd = s.ws.countP (fun w => isSig w && bad w)
  left : s.left + s.recvd.length = n
  replyNone : s.reply = none → s.ws.countP (fun w => isDone w && w.srv.ok) = 0
  replySome : ∀ r, s.reply = some r → 1 ≤ s.ws.countP (fun w => isDone w && w.srv.ok && w.srv.reply == r)
  rcpts : ∀ rc, s.receipts.count rc = s.ws.countP (fun w => isDone w && rcOf w == rc)
  pend : s.ret = none → Pend op s
  verdict : ∀ v, s.ret = some v → Verdict op s v


theorem inv_init (op : Op) (srvs : List Srv) : Inv op srvs.length (init srvs) := by
  have hz : ∀ (p : W → Bool), (∀ w, w.pc = .calling → p w = false) →
      (srvs.map (fun s => (⟨s, .calling⟩ : W))).countP p = 0 := by
    intro p hp
    rw [List.countP_eq_zero]
    intro a ha
    simp only [List.mem_map] at ha
    obtain ⟨s, _, rfl⟩ := ha
    simp [hp]
  refine ⟨by simp [init], ?_, ?_, ?_, by simp [init], ?_, ?_, ?_, ?_, ?_⟩
  · simp only [init]; rw [hz]; intro w hw; simp [isDone, hw]
  · simp only [init]; rw [hz]; · simp
    intro w hw; simp [isSig, hw]
  · simp only [init]; rw [hz]; · simp [falses]
    intro w hw; simp [isSig, hw]
  · intro _; simp only [init]; rw [hz]; intro w hw; simp [isDone, hw]
  · intro r h; simp [init] at h
  · intro rc; simp only [init]; rw [hz]; · simp
    intro w hw; simp [isDone, hw]
  · intro _; cases op <;> simp [Pend, init, falses]
  · intro v h; simp [init] at h

theorem countP_and_of_all (p q : W → Bool) (l : List W) (h : l.countP p = l.length) :
    l.countP (fun w => p w && q w) = l.countP q := by
  rw [List.countP_eq_length] at h
  apply List.countP_congr
  intro w hw; simp [h w hw]

theorem countP_split (p q : W → Bool) (l : List W) :
    l.countP p = l.countP (fun w => p w && q w) + l.countP (fun w => p w && !q w) := by
  induction l with
  | nil => simp
  | cons x xs ih =>
    simp only [List.countP_cons]
    cases hp : p x <;> cases hq : q x <;> simp <;> omega

theorem sig_le_done (q : W → Bool) (l : List W) :
    l.countP (fun w => isSig w && q w) ≤ l.countP (fun w => isDone w && q w) := by
  apply List.countP_mono_left
  intro w _ h
  simp [isSig, isDone] at h ⊢
  obtain ⟨h1, h2⟩ := h
  simp [h1, h2]

theorem and_le (p q : W → Bool) (l : List W) : l.countP (fun w => p w && q w) ≤ l.countP q := by
  apply List.countP_mono_left
  intro w _ h; simp at h; exact h.2

theorem and_le_left (p q : W → Bool) (l : List W) : l.countP (fun w => p w && q w) ≤ l.countP p := by
  apply List.countP_mono_left
  intro w _ h; simp at h; exact h.1

theorem sig_le_done' (l : List W) : l.countP isSig ≤ l.countP isDone := by
  apply List.countP_mono_left
  intro w _ h
  simp [isSig, isDone] at h ⊢
  simp [h]

theorem cset (p : W → Bool) (l : List W) (i : Nat) (old new : W) (h : l[i]? = some old) (b1 b2 : Bool)
    (h1 : p old = b1) (h2 : p new = b2) : (l.set i new).countP p + b1.toNat = l.countP p + b2.toNat := by
  have := countP_set' p l i old new h
  rw [h1, h2] at this
  cases b1 <;> cases b2 <;> simp at this ⊢ <;> omega

theorem inv_finish (op : Op) (n : Nat) (s : St) (i : Nat) (h : Inv op n s) : Inv op n (step op s (.finish i)) := by
  simp only [step]
  split
  next sv hg =>
    have hset := fun (p : W → Bool) (b1 b2 : Bool) (h1 : p ⟨sv, .calling⟩ = b1) (h2 : p ⟨sv, .finished⟩ = b2) =>
      cset p s.ws i ⟨sv, .calling⟩ ⟨sv, .finished⟩ hg b1 b2 h1 h2
    refine ⟨?_, ?_, ?_, ?_, ?_, ?_, ?_, ?_, ?_, ?_⟩ <;> dsimp only
    · simpa using h.len
    · have a := hset (fun w => isDone w && bad w) false (!sv.ok) (by simp [isDone]) (by simp [isDone, bad])
      have b := h.errs
      cases hk : sv.ok <;> simp [hk] at a ⊢ <;> omega
    · have a := hset isSig false false (by simp [isSig]) (by simp [isSig]); simp at a; have b := h.sigs; omega
    · have a := hset (fun w => isSig w && bad w) false false (by simp [isSig]) (by simp [isSig]); simp at a; have b := h.fls; omega
    · exact h.left
    · intro hr
      have a := hset (fun w => isDone w && w.srv.ok) false sv.ok (by simp [isDone]) (by simp [isDone])
      cases hk : sv.ok
      · simp [hk] at hr a; have := h.replyNone hr; omega
      · simp [hk] at hr; cases hq : s.reply <;> simp [hq] at hr
    · intro r hr
      have a := hset (fun w => isDone w && w.srv.ok && w.srv.reply == r) false (sv.ok && sv.reply == r) (by simp [isDone]) (by simp [isDone]; rfl)
      cases hk : sv.ok
      · simp [hk] at hr a; have := h.replySome r hr; omega
      · simp [hk] at hr a
        cases hq : s.reply with
        | none => simp [hq] at hr; subst hr; simp at a; omega
        | some r0 =>
          simp [hq] at hr; subst hr; have := h.replySome _ hq
          generalize (sv.reply == r0).toNat = t at a; omega
    · intro rc
      have a := hset (fun w => isDone w && rcOf w == rc) false (rcOf ⟨sv, .finished⟩ == rc) (by simp [isDone]) (by simp [isDone])
      have b := h.rcpts rc
      simp only [List.count_append, List.count_singleton]
      have e : rcOf ⟨sv, .finished⟩ = (⟨sv.addr, sv.reply, sv.ok⟩ : Receipt) := rfl
      rw [e] at a
      cases hx : ((⟨sv.addr, sv.reply, sv.ok⟩ : Receipt) == rc) <;> simp [hx] at a ⊢ <;> omega
    · intro hr; have := h.pend hr; cases op <;> simpa [Pend] using this
    · intro v hv
      have hv' := h.verdict v hv
      have a1 := hset bad (!sv.ok) (!sv.ok) (by simp [bad]) (by simp [bad])
      have a2 := hset isDone false true (by simp [isDone]) (by simp [isDone])
      have a3 := hset (fun w => isDone w && w.srv.ok) false sv.ok (by simp [isDone]) (by simp [isDone])
      have a4 := hset isSig false false (by simp [isSig]) (by simp [isSig])
      simp at a2 a4
      have a1' : (s.ws.set i ⟨sv, .finished⟩).countP bad = s.ws.countP bad := by omega
      have hl : (s.ws.set i ⟨sv, .finished⟩).length = s.ws.length := by simp
      have hle : (s.ws.set i ⟨sv, .finished⟩).countP isDone ≤ (s.ws.set i ⟨sv, .finished⟩).length := List.countP_le_length
      cases op <;> simp only [Verdict] at hv' ⊢
      · refine ⟨by rw [a1']; exact hv'.1, fun hvt => ?_⟩
        have := hv'.2 hvt; omega
      · refine ⟨by rw [a1', hl]; exact hv'.1, fun hvt => ?_⟩
        have := hv'.2 hvt
        cases hk : sv.ok <;> simp [hk] at a3 <;> omega
      · refine ⟨by rw [a1']; exact hv'.1, ?_⟩
        rw [a4, hl]; exact hv'.2
  next => exact h

theorem inv_signal (op : Op) (n : Nat) (s : St) (i : Nat) (h : Inv op n s) : Inv op n (step op s (.signal i)) := by
  simp only [step]
  split
  next sv hg =>
    have hset := fun (p : W → Bool) (b1 b2 : Bool) (h1 : p ⟨sv, .finished⟩ = b1) (h2 : p ⟨sv, .signalled⟩ = b2) =>
      cset p s.ws i ⟨sv, .finished⟩ ⟨sv, .signalled⟩ hg b1 b2 h1 h2
    refine ⟨?_, ?_, ?_, ?_, ?_, ?_, ?_, ?_, ?_, ?_⟩ <;> dsimp only
    · simpa using h.len
    · have a := hset (fun w => isDone w && bad w) (!sv.ok) (!sv.ok) (by simp [isDone, bad]) (by simp [isDone, bad])
      have b := h.errs; omega
    · have a := hset isSig false true (by simp [isSig]) (by simp [isSig]); simp at a; have b := h.sigs
      simp only [List.length_append, List.length_singleton]; omega
    · have a := hset (fun w => isSig w && bad w) false (!sv.ok) (by simp [isSig]) (by simp [isSig, bad])
      have b := h.fls
      rw [falses_append]
      cases hk : sv.ok <;> simp [hk, falses] at a ⊢ <;> simp [falses] at b <;> omega
    · exact h.left
    · intro hr
      have a := hset (fun w => isDone w && w.srv.ok) sv.ok sv.ok (by simp [isDone]) (by simp [isDone])
      have := h.replyNone hr; omega
    · intro r hr
      have a := hset (fun w => isDone w && w.srv.ok && w.srv.reply == r) (sv.ok && sv.reply == r) (sv.ok && sv.reply == r)
        (by simp [isDone]; rfl) (by simp [isDone]; rfl)
      have := h.replySome r hr; omega
    · intro rc
      have a := hset (fun w => isDone w && rcOf w == rc) (rcOf ⟨sv, .finished⟩ == rc) (rcOf ⟨sv, .finished⟩ == rc)
        (by simp [isDone]) (by simp [isDone]; rfl)
      have b := h.rcpts rc; omega
    · intro hr; have := h.pend hr; cases op <;> simpa [Pend] using this
    · intro v hv
      have hv' := h.verdict v hv
      have a1 := hset bad (!sv.ok) (!sv.ok) (by simp [bad]) (by simp [bad])
      have a2 := hset isDone true true (by simp [isDone]) (by simp [isDone])
      have a3 := hset (fun w => isDone w && w.srv.ok) sv.ok sv.ok (by simp [isDone]) (by simp [isDone])
      have a4 := hset isSig false true (by simp [isSig]) (by simp [isSig])
      simp at a4
      have hl : (s.ws.set i ⟨sv, .signalled⟩).length = s.ws.length := by simp
      have hle : (s.ws.set i ⟨sv, .signalled⟩).countP isSig ≤ (s.ws.set i ⟨sv, .signalled⟩).length := List.countP_le_length
      have a1' : (s.ws.set i ⟨sv, .signalled⟩).countP bad = s.ws.countP bad := by omega
      cases op <;> simp only [Verdict] at hv' ⊢
      · refine ⟨by rw [a1']; exact hv'.1, fun hvt => ?_⟩
        have := hv'.2 hvt; omega
      · refine ⟨by rw [a1', hl]; exact hv'.1, fun hvt => ?_⟩
        have := hv'.2 hvt; omega
      · refine ⟨by rw [a1']; exact hv'.1, ?_⟩
        have := hv'.2; omega
  next => exact h

theorem falses_cons (r : Bool) (q : List Bool) : falses (r :: q) = (if r = false then 1 else 0) + falses q := by
  cases r <;> simp [falses] <;> omega

/-- the common part of a `recv`: one signal moved from the channel to the loop -/
theorem inv_recv_core (op : Op) (n : Nat) (s : St) (r : Bool) (q : List Bool) (h : Inv op n s) (hq : s.queue = r :: q) :
    (q.length + (s.recvd ++ [r]).length = s.ws.countP isSig)
    ∧ (falses q + falses (s.recvd ++ [r]) = s.ws.countP (fun w => isSig w && bad w))
    ∧ (s.left - 1 + (s.recvd ++ [r]).length = n) ∧ 1 ≤ s.left := by
  have a := h.sigs; have b := h.fls; have c := h.left; have l := h.len
  have hle : s.ws.countP isSig ≤ s.ws.length := List.countP_le_length
  have hb : falses (r :: q) = (if r = false then 1 else 0) + falses q := falses_cons r q
  have h1 : falses (s.recvd ++ [r]) = falses s.recvd + (if r = false then 1 else 0) := by
    rw [falses_append, falses_cons]; simp [falses]
  have h2 : (s.recvd ++ [r]).length = s.recvd.length + 1 := by simp
  rw [h1, h2]
  rw [hq] at a b
  rw [hb] at b
  simp only [List.length_cons] at a
  refine ⟨by omega, by omega, by omega, by omega⟩

theorem inv_recv_mk (op : Op) (n : Nat) (s : St) (r : Bool) (q : List Bool) (h : Inv op n s) (hq : s.queue = r :: q)
    (ret' : Option Bool)
    (hp : ret' = none → Pend op { s with queue := q, recvd := s.recvd ++ [r], left := s.left - 1, ret := ret' })
    (hv : ∀ v, ret' = some v → Verdict op { s with queue := q, recvd := s.recvd ++ [r], left := s.left - 1, ret := ret' } v) :
    Inv op n { s with queue := q, recvd := s.recvd ++ [r], left := s.left - 1, ret := ret' } := by
  obtain ⟨c1, c2, c3, _⟩ := inv_recv_core op n s r q h hq
  exact ⟨h.len, h.errs, c1, c2, c3, h.replyNone, h.replySome, h.rcpts, hp, hv⟩

theorem sigok_le_doneok (l : List W) :
    l.countP (fun w => isSig w && !bad w) ≤ l.countP (fun w => isDone w && w.srv.ok) := by
  apply List.countP_mono_left
  intro w _ h
  simp [isSig, isDone, bad] at h ⊢
  simp [h.1, h.2]

theorem sigok_le_notbad (l : List W) :
    l.countP (fun w => isSig w && !bad w) ≤ l.countP (fun a => !bad a) := by
  apply List.countP_mono_left
  intro w _ h
  simp at h ⊢
  exact h.2

theorem len_split (p : W → Bool) (l : List W) : l.length = l.countP p + l.countP (fun a => !p a) := by
  induction l with
  | nil => simp
  | cons x xs ih =>
    simp only [List.countP_cons, List.length_cons]
    cases hp : p x <;> simp <;> omega

theorem falses_snoc (l : List Bool) (r : Bool) : falses (l ++ [r]) = falses l + (if r = false then 1 else 0) := by
  rw [falses_append, falses_cons]; simp [falses]

theorem inv_recv (op : Op) (n : Nat) (s : St) (h : Inv op n s) : Inv op n (step op s .recv) := by
  simp only [step]
  split
  next r q hret hq =>
    obtain ⟨c1, c2, c3, c4⟩ := inv_recv_core op n s r q h hq
    have hE := h.errs
    have hlen := h.len
    have hsl : s.ws.countP isSig ≤ s.ws.length := List.countP_le_length
    have hdl : s.ws.countP isDone ≤ s.ws.length := List.countP_le_length
    have hbl : s.ws.countP bad ≤ s.ws.length := List.countP_le_length
    have hsd := sig_le_done' s.ws
    have hsb := sig_le_done bad s.ws
    have hab := and_le isDone bad s.ws
    have hsbb := and_le isSig bad s.ws
    have hfq := falses_le q
    have hfr := falses_le s.recvd
    have hsn := falses_snoc s.recvd r
    have hln : (s.recvd ++ [r]).length = s.recvd.length + 1 := by simp
    have hpend := h.pend hret
    have hbeq : ∀ (k : Nat), ((k == 0) = true ↔ k = 0) := fun k => by simp
    cases op <;> dsimp only
    · -- Broadcast
      split
      next hc =>
        apply inv_recv_mk Op.broadcast n s r q h hq (some (s.errs == 0))
        · intro hx; simp at hx
        · intro v hv
          simp at hv; subst hv
          simp only [Verdict, Pend] at hpend ⊢
          rw [hbeq]
          cases r
          · simp at hsn; refine ⟨⟨fun hx => by omega, fun hx => by omega⟩, fun hx => by omega⟩
          · simp at hsn hc
            have hall : s.ws.countP isSig = s.ws.length := by omega
            have := countP_and_of_all isSig bad s.ws hall
            refine ⟨⟨fun hx => by omega, fun hx => by omega⟩, fun hx => by omega⟩
      next hc =>
        rw [hret]
        apply inv_recv_mk Op.broadcast n s r q h hq none
        · intro _
          simp only [Pend] at hpend ⊢
          cases r
          · simp at hc
          · simp at hsn; omega
        · intro v hv; simp at hv
    · -- Fork
      split
      next hr =>
        subst hr
        apply inv_recv_mk Op.fork n s true q h hq (some true)
        · intro hx; simp at hx
        · intro v hv
          simp at hv; subst hv
          simp only [Verdict]
          simp at hsn
          have hsp := countP_split isSig bad s.ws
          have hso := sigok_le_doneok s.ws
          have hnb := len_split bad s.ws
          have hno := sigok_le_notbad s.ws
          refine ⟨⟨fun _ => by omega, fun _ => trivial⟩, fun _ => by omega⟩
      next hr =>
        have hr' : r = false := by cases r <;> simp at hr ⊢
        subst hr'
        simp at hsn
        simp only [Pend] at hpend
        split
        next h0 =>
          apply inv_recv_mk Op.fork n s false q h hq (some (s.errs == 0))
          · intro hx; simp at hx
          · intro v hv
            simp at hv; subst hv
            simp only [Verdict]
            rw [hbeq]
            refine ⟨⟨fun hx => by omega, fun hx => by omega⟩, fun hx => by omega⟩
        next h0 =>
          rw [hret]
          apply inv_recv_mk Op.fork n s false q h hq none
          · intro _; simp only [Pend]; omega
          · intro v hv; simp at hv
    · -- Inform
      split
      next h0 =>
        apply inv_recv_mk Op.inform n s r q h hq (some (s.errs == 0))
        · intro hx; simp at hx
        · intro v hv
          simp at hv; subst hv
          simp only [Verdict]
          rw [hbeq]
          have hall : s.ws.countP isSig = s.ws.length := by omega
          have hdall : s.ws.countP isDone = s.ws.length := by omega
          have := countP_and_of_all isDone bad s.ws hdall
          refine ⟨⟨fun hx => by omega, fun hx => by omega⟩, hall⟩
      next h0 =>
        rw [hret]
        apply inv_recv_mk Op.inform n s r q h hq none
        · intro _; simp [Pend]
        · intro v hv; simp at hv
  next => exact h


theorem inv_step (op : Op) (n : Nat) (s : St) (e : Ev) (h : Inv op n s) : Inv op n (step op s e) := by
  cases e with
  | finish i => exact inv_finish op n s i h
  | signal i => exact inv_signal op n s i h
  | recv => exact inv_recv op n s h

theorem inv_run (op : Op) (srvs : List Srv) (evs : List Ev) : Inv op srvs.length (run op srvs evs) := by
  unfold run
  suffices h : ∀ s, Inv op srvs.length s → Inv op srvs.length (evs.foldl (step op) s) from h _ (inv_init op srvs)
  induction evs with
  | nil => intro s hs; simpa using hs
  | cons e es ih => intro s hs; simp only [List.foldl_cons]; exact ih _ (inv_step op _ s e hs)

/-! the workers stay attached to their servers -/

theorem map_srv_set (l : List W) (i : Nat) (sv : Srv) (pc pc' : WPc) (h : l[i]? = some ⟨sv, pc⟩) :
    (l.set i ⟨sv, pc'⟩).map (·.srv) = l.map (·.srv) := by
  induction l generalizing i with
  | nil => simp at h
  | cons x xs ih =>
    cases i with
    | zero => simp at h; subst h; simp
    | succ j => simp at h; simp [ih j h]

theorem step_srvs (op : Op) (s : St) (e : Ev) : (step op s e).ws.map (·.srv) = s.ws.map (·.srv) := by
  cases e with
  | finish i =>
    simp only [step]
    split
    next sv hg => exact map_srv_set s.ws i sv _ _ hg
    next => rfl
  | signal i =>
    simp only [step]
    split
    next sv hg => exact map_srv_set s.ws i sv _ _ hg
    next => rfl
  | recv =>
    simp only [step]
    split
    next r q _ _ => cases op <;> dsimp only <;> (repeat' split) <;> rfl
    next => rfl

theorem run_srvs (op : Op) (srvs : List Srv) (evs : List Ev) : (run op srvs evs).ws.map (·.srv) = srvs := by
  unfold run
  suffices h : ∀ s, s.ws.map (·.srv) = srvs → (evs.foldl (step op) s).ws.map (·.srv) = srvs from
    h _ (by simp [init, Function.comp_def])
  induction evs with
  | nil => intro s hs; simpa using hs
  | cons e es ih => intro s hs; simp only [List.foldl_cons]; exact ih _ (by rw [step_srvs]; exact hs)

end Rpcx.FanC
