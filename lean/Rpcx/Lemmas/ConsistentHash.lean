import Rpcx.Lemmas.JumpRemove
/-
  The consistent-hash selector over every history of updates: the holder contains exactly the
  servers of the latest update, so a look-up can only return one of them.
-/
namespace Rpcx.Sel

/-- the holder is sound and holds exactly the servers of `live` -/
structure Good (d : DJ) (live : List String) : Prop where
  wf : d.WF
  uniq : d.Uniq
  has : d.Has live
  la_sub : ∀ k, some k ∈ d.la → k ∈ live
  ca_sub : ∀ k, k ∈ d.ca → k ∈ live

theorem good_congr {d : DJ} {l l' : List String} (h : ∀ k, k ∈ l ↔ k ∈ l') (g : Good d l) : Good d l' :=
  ⟨g.wf, g.uniq, fun k hk => g.has k ((h k).mpr hk), fun k hk => (h k).mp (g.la_sub k hk), fun k hk => (h k).mp (g.ca_sub k hk)⟩

theorem good_empty : Good DJ.empty [] :=
  ⟨wf_empty, uniq_empty, (fun k hk => by cases hk), (fun k hk => by simp [DJ.empty] at hk), (fun k hk => by simp [DJ.empty] at hk)⟩

theorem good_add {d : DJ} {live : List String} (s : String) (g : Good d live) : Good (d.add s) (s :: live) := by
  refine ⟨wf_add d s g.wf, uniq_add d s g.wf g.uniq, ?_, ?_, ?_⟩
  · intro k hk
    rcases List.mem_cons.mp hk with rfl | hk
    · exact has_self_add d k g.wf k (by simp)
    · exact has_add d s live g.wf g.has k hk
  · intro k hk
    rcases (add_members d s k).1 hk with h | h
    · exact List.mem_cons_of_mem _ (g.la_sub k h)
    · subst h; simp
  · intro k hk
    rcases (add_members d s k).2 hk with h | h
    · exact List.mem_cons_of_mem _ (g.ca_sub k h)
    · subst h; simp

theorem good_fold_add : ∀ (ss : List String) (d : DJ) (live : List String), Good d live →
    ∃ l, Good (ss.foldl DJ.add d) l ∧ ∀ k, k ∈ l ↔ (k ∈ ss ∨ k ∈ live) := by
  intro ss
  induction ss with
  | nil => intro d live g; exact ⟨live, g, by simp⟩
  | cons s rest ih =>
    intro d live g
    obtain ⟨l, gl, hl⟩ := ih (d.add s) (s :: live) (good_add s g)
    refine ⟨l, gl, ?_⟩
    intro k
    rw [hl k]
    simp only [List.mem_cons]
    constructor
    · rintro (h | h | h)
      · exact Or.inl (Or.inr h)
      · exact Or.inl (Or.inl h)
      · exact Or.inr h
    · rintro ((h | h) | h)
      · exact Or.inr (Or.inl h)
      · exact Or.inl h
      · exact Or.inr (Or.inr h)

theorem good_remove {d : DJ} {live : List String} (s : String) (g : Good d live) :
    Good (d.remove s) (live.filter (fun k => k != s)) := by
  refine ⟨wf_remove d s g.wf, uniq_remove d s g.uniq, ?_, ?_, ?_⟩
  · intro k hk
    have hk' := List.mem_filter.mp hk
    have hne : k ≠ s := by simpa using hk'.2
    have hh := g.has k hk'.1
    exact ⟨((remove_members d s g.uniq k).1).mpr ⟨hh.1, hne⟩, ((remove_members d s g.uniq k).2).mpr ⟨hh.2, hne⟩⟩
  · intro k hk
    have := ((remove_members d s g.uniq k).1).mp hk
    exact List.mem_filter.mpr ⟨g.la_sub k this.1, by simpa using this.2⟩
  · intro k hk
    have := ((remove_members d s g.uniq k).2).mp hk
    exact List.mem_filter.mpr ⟨g.ca_sub k this.1, by simpa using this.2⟩

theorem good_fold_remove : ∀ (rs : List String) (d : DJ) (live : List String), Good d live →
    ∃ l, Good (rs.foldl DJ.remove d) l ∧ ∀ k, k ∈ l ↔ (k ∈ live ∧ k ∉ rs) := by
  intro rs
  induction rs with
  | nil => intro d live g; exact ⟨live, g, by simp⟩
  | cons s rest ih =>
    intro d live g
    obtain ⟨l, gl, hl⟩ := ih (d.remove s) _ (good_remove s g)
    refine ⟨l, gl, ?_⟩
    intro k
    rw [hl k]
    simp only [List.mem_filter, List.mem_cons, bne_iff_ne, ne_eq, not_or]
    constructor
    · rintro ⟨⟨h1, h2⟩, h3⟩; exact ⟨h1, h2, h3⟩
    · rintro ⟨h1, h2, h3⟩; exact ⟨⟨h1, h2⟩, h3⟩

def CHGood (c : CH) : Prop := Good c.h c.servers

theorem mem_sortStr' (keys : List String) (k : String) : k ∈ sortStr keys ↔ k ∈ keys := by
  have : ∀ (l : List String) (s k : String), k ∈ insertStr s l ↔ (k = s ∨ k ∈ l) := by
    intro l
    induction l with
    | nil => intro s k; simp [insertStr]
    | cons x xs ih =>
      intro s k
      simp only [insertStr]
      split
      · simp
      · simp only [List.mem_cons, ih]
        constructor
        · rintro (h | h | h)
          · exact Or.inr (Or.inl h)
          · exact Or.inl h
          · exact Or.inr (Or.inr h)
        · rintro (h | h | h)
          · exact Or.inr (Or.inl h)
          · exact Or.inl h
          · exact Or.inr (Or.inr h)
  induction keys with
  | nil => simp [sortStr]
  | cons x xs ih2 =>
    show k ∈ insertStr x (sortStr xs) ↔ k ∈ x :: xs
    rw [this (sortStr xs) x k]
    simp [ih2]

theorem chgood_new (keys : List String) : CHGood (CH.new keys) := by
  obtain ⟨l, gl, hl⟩ := good_fold_add (sortStr keys) DJ.empty [] good_empty
  have : Good ((sortStr keys).foldl DJ.add DJ.empty) (sortStr keys) := good_congr (by intro k; rw [hl k]; simp) gl
  exact this

/-- ANY update (servers added, removed, both, or none) keeps the holder in step with the server list -/
theorem chgood_update (c : CH) (g : CHGood c) (keys : List String) : CHGood (c.update keys) := by
  obtain ⟨l1, g1, h1⟩ := good_fold_add (sortStr keys) c.h c.servers g
  obtain ⟨l2, g2, h2⟩ := good_fold_remove (c.servers.filter (fun k => !(sortStr keys).contains k)) _ l1 g1
  refine good_congr ?_ g2
  intro k
  show k ∈ l2 ↔ k ∈ sortStr keys
  rw [h2 k, h1 k]
  simp only [List.mem_filter, Bool.not_eq_eq_eq_not, Bool.not_true, List.contains_eq_mem, decide_eq_false_iff_not, not_and, Decidable.not_not]
  constructor
  · rintro ⟨h | h, hn⟩
    · exact h
    · exact hn h
  · intro h; exact ⟨Or.inl h, fun _ => h⟩

theorem chgood_run (keys : List String) (us : List (List String)) : CHGood (us.foldl CH.update (CH.new keys)) := by
  suffices h : ∀ (us : List (List String)) (c : CH), CHGood c → CHGood (us.foldl CH.update c) from h us _ (chgood_new keys)
  intro us
  induction us with
  | nil => intro c g; exact g
  | cons u rest ih => intro c g; exact ih _ (chgood_update c g u)

/-- a look-up in a holder that is in step with a non-empty server list returns one of those servers -/
theorem good_get (jh : Nat → Nat → Nat) (hj : JumpOK jh) (d : DJ) (live : List String) (g : Good d live)
    (hne : live ≠ []) (key : Nat) : ∃ s ∈ live, d.get jh key = some s := by
  obtain ⟨k0, hk0⟩ := List.exists_mem_of_ne_nil live hne
  have hh := g.has k0 hk0
  have hla : d.la ≠ [] := by intro e; rw [e] at hh; exact absurd hh.1 (by simp)
  have hca : d.ca ≠ [] := by intro e; rw [e] at hh; exact absurd hh.2 (by simp)
  have hla0 : d.la.isEmpty = false := by cases hd : d.la <;> simp_all
  have hca0 : d.ca.isEmpty = false := by cases hd : d.ca <;> simp_all
  have hi := (hj key d.la.length).1 (List.length_pos_iff.mpr hla)
  rw [DJ.get_eq]
  unfold DJ.loose
  rw [hla0]
  simp only [Bool.false_eq_true, if_false]
  have hfb : ∃ s ∈ live, DJ.fb jh d.ca key = some s := by
    unfold DJ.fb
    rw [hca0]
    simp only [Bool.false_eq_true, if_false]
    have hlt := (hj ((key * 0xc6a4a7935bd1e995) % 18446744073709551616) d.ca.length).1 (List.length_pos_iff.mpr hca)
    rw [List.getElem?_eq_getElem hlt]
    exact ⟨_, g.ca_sub _ (List.getElem_mem hlt), rfl⟩
  split
  · rename_i s hs
    exact ⟨s, g.la_sub s (List.mem_of_getElem? hs), rfl⟩
  · exact hfb

end Rpcx.Sel
