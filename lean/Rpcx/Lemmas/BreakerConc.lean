import Rpcx.Model.BreakerConc
/-
  Helper lemmas for the concurrent-caller model of the circuit breaker: the counting invariant that
  every interleaving of atomic steps preserves.
-/
namespace Rpcx
open Rpcx.Gen

theorem Pc.count_set (l : List Pc) (i : Nat) (pc a b : Pc) (h : l[i]? = some pc) :
    (l.set i a).count b + (if pc = b then 1 else 0) = l.count b + (if a = b then 1 else 0) := by
  induction l generalizing i with
  | nil => simp at h
  | cons x xs ih =>
    cases i with
    | zero =>
      simp at h; subst h
      simp [List.count_cons]; omega
    | succ j =>
      simp at h
      have := ih j h
      simp [List.count_cons]; omega

theorem Pc.count_le_of_get (l : List Pc) (i : Nat) (pc b : Pc) (h : l[i]? = some pc) (hne : pc ≠ b) :
    l.count b + 1 ≤ l.length := by
  induction l generalizing i with
  | nil => simp at h
  | cons x xs ih =>
    cases i with
    | zero =>
      simp at h; subst h
      have : xs.count b ≤ xs.length := List.count_le_length
      simp [List.count_cons, hne]; omega
    | succ j =>
      simp at h
      have := ih j h
      simp only [List.count_cons, List.length_cons]; split <;> omega


theorem Pc.ite2 (y a b : Pc) (hab : a ≠ b) :
    (if (y == a) = true then 1 else 0) + (if (y == b) = true then 1 else 0) ≤ 1 := by
  by_cases e1 : y = a
  · have : ¬ (y = b) := by intro e2; exact hab (e1.symm.trans e2)
    simp [e1, hab]
  · simp [e1]; split <;> omega

theorem Pc.count2_le (l : List Pc) (a b : Pc) (hab : a ≠ b) : l.count a + l.count b ≤ l.length := by
  induction l with
  | nil => simp
  | cons y ys ih =>
    simp only [List.count_cons, List.length_cons]
    have := Pc.ite2 y a b hab
    omega

theorem Pc.count2_le_of_get (l : List Pc) (i : Nat) (pc a b : Pc) (h : l[i]? = some pc) (ha : pc ≠ a) (hb : pc ≠ b)
    (hab : a ≠ b) : l.count a + l.count b + 1 ≤ l.length := by
  induction l generalizing i with
  | nil => simp at h
  | cons x xs ih =>
    cases i with
    | zero =>
      simp at h; subst h
      have h1 := Pc.count2_le xs a b hab
      simp [List.count_cons, ha, hb]; omega
    | succ j =>
      simp at h
      have := ih j h
      simp only [List.count_cons, List.length_cons]
      have := Pc.ite2 x a b hab
      omega

/-- callers that were admitted and whose failure (if any) is not yet counted: the function is running,
    or it succeeded and the caller has not yet stored `failures := 0` -/
def Conc.pending (c : Conc) : Nat := c.pcs.count .run + c.pcs.count (.zero false)

/-- the counting invariant (`f0` = failures at the start, `k` = number of callers):
    while nobody has stored `failures := 0`, the counter is the initial value plus the recorded
    failures, every admission is accounted for by a recorded failure or a pending caller, nobody
    stands between the two stores of a reset, and the number of admissions is bounded -/
structure Conc.Inv (p : BreakerCfg) (f0 k : Nat) (c : Conc) : Prop where
  len : c.pcs.length = k
  cnt : c.zeroed = false → c.sh.failures = f0 + c.adds
  adm : c.zeroed = false → c.admitted = c.adds + c.pending
  nostamp : c.zeroed = false → ∀ b, c.pcs.count (.stamp b) = 0
  bound : c.zeroed = false → c.admitted = 0 ∨ c.admitted + f0 + 1 ≤ p.threshold + k
  opn : c.zeroed = false → p.threshold ≤ f0 → c.admitted = 0

theorem Conc.inv_init (p : BreakerCfg) (sh : BreakerSt) (k : Nat) : Conc.Inv p sh.failures k (Conc.init sh k) := by
  refine ⟨by simp [Conc.init], ?_, ?_, ?_, ?_, ?_⟩ <;> intro _ <;> simp [Conc.init, Conc.pending, List.count_replicate]

theorem Conc.inv_step (p : BreakerCfg) (f0 k : Nat) (c : Conc) (e : CEv) (h : Conc.Inv p f0 k c) :
    Conc.Inv p f0 k (Conc.step p c e) := by
  unfold Conc.step
  cases hg : c.pcs[e.i]? with
  | none => simpa using h
  | some pc =>
    simp only []
    have hset := fun a b => Pc.count_set c.pcs e.i pc a b hg
    have hlen := h.len
    cases pc with
    | idle =>
      have h1 := hset
      by_cases hw : e.now - c.sh.lastFailureTime > p.window
      · simp only [Pc.step, hw, if_true]
        refine ⟨by simpa using hlen, ?_, ?_, ?_, ?_, ?_⟩ <;> intro hz <;> dsimp only at hz ⊢ <;> simp at hz
        · simpa using h.cnt hz
        · have := h.adm hz; have a1 := hset (.zero true) .run; have a2 := hset (.zero true) (.zero false)
          simp at a1 a2; simp [Conc.pending] at this ⊢; omega
        · intro b; have := h.nostamp hz b; have a1 := hset (.zero true) (.stamp b); simp at a1; omega
        · simpa using h.bound hz
        · simpa using h.opn hz
      · simp only [Pc.step, hw, if_false]
        refine ⟨by simpa using hlen, ?_, ?_, ?_, ?_, ?_⟩ <;> intro hz <;> dsimp only at hz ⊢ <;> simp at hz
        · simpa using h.cnt hz
        · have := h.adm hz; have a1 := hset .loadF .run; have a2 := hset .loadF (.zero false)
          simp at a1 a2; simp [Conc.pending] at this ⊢; omega
        · intro b; have := h.nostamp hz b; have a1 := hset .loadF (.stamp b); simp at a1; omega
        · simpa using h.bound hz
        · simpa using h.opn hz
    | zero b0 =>
      simp only [Pc.step]
      refine ⟨by simpa using hlen, ?_, ?_, ?_, ?_, ?_⟩ <;> intro hz <;> dsimp only at hz ⊢ <;> simp at hz
    | stamp b0 =>
      simp only [Pc.step]
      refine ⟨by simp; exact hlen, ?_, ?_, ?_, ?_, ?_⟩ <;> intro hz <;> dsimp only at hz ⊢ <;> simp at hz <;> exfalso
      all_goals
        have := h.nostamp hz b0
        have a1 := Pc.count_le_of_get c.pcs e.i (.stamp b0) .idle hg (by simp)
        have a2 := hset .idle (.stamp b0)
        simp at a2; omega
    | loadF =>
      by_cases hf : c.sh.failures < p.threshold
      · simp only [Pc.step, hf, if_true]
        refine ⟨by simpa using hlen, ?_, ?_, ?_, ?_, ?_⟩ <;> intro hz <;> dsimp only at hz ⊢ <;> simp at hz
        · simpa using h.cnt hz
        · have := h.adm hz; have a1 := hset .run .run; have a2 := hset .run (.zero false)
          simp at a1 a2; simp [Conc.pending] at this ⊢; omega
        · intro b; have := h.nostamp hz b; have a1 := hset .run (.stamp b); simp at a1; omega
        · right
          have hadm := h.adm hz; have hcnt := h.cnt hz
          have b1 := Pc.count_le_of_get c.pcs e.i .loadF .run hg (by simp)
          have b2 := Pc.count_le_of_get c.pcs e.i .loadF (.zero false) hg (by simp)
          have b3 := Pc.count2_le_of_get c.pcs e.i .loadF .run (.zero false) hg (by simp) (by simp) (by simp)
          simp [Conc.pending] at hadm; omega
        · intro hth; have hcnt := h.cnt hz; omega
      · simp only [Pc.step, hf, if_false]
        refine ⟨by simpa using hlen, ?_, ?_, ?_, ?_, ?_⟩ <;> intro hz <;> dsimp only at hz ⊢ <;> simp at hz
        · simpa using h.cnt hz
        · have := h.adm hz; have a1 := hset .idle .run; have a2 := hset .idle (.zero false)
          simp at a1 a2; simp [Conc.pending] at this ⊢; omega
        · intro b; have := h.nostamp hz b; have a1 := hset .idle (.stamp b); simp at a1; omega
        · simpa using h.bound hz
        · simpa using h.opn hz
    | run =>
      cases hok : e.ok
      · simp only [Pc.step, Bool.false_eq_true, ↓reduceIte]
        refine ⟨by simpa using hlen, ?_, ?_, ?_, ?_, ?_⟩ <;> intro hz <;> dsimp only at hz ⊢ <;> simp at hz
        · have := h.cnt hz; simp; omega
        · have := h.adm hz; have a1 := hset .failStamp .run; have a2 := hset .failStamp (.zero false)
          simp at a1 a2; simp [Conc.pending] at this ⊢; omega
        · intro b; have := h.nostamp hz b; have a1 := hset .failStamp (.stamp b); simp at a1; omega
        · simpa using h.bound hz
        · simpa using h.opn hz
      · simp only [Pc.step, Bool.false_eq_true, ↓reduceIte]
        refine ⟨by simpa using hlen, ?_, ?_, ?_, ?_, ?_⟩ <;> intro hz <;> dsimp only at hz ⊢ <;> simp at hz
        · simpa using h.cnt hz
        · have := h.adm hz; have a1 := hset (.zero false) .run; have a2 := hset (.zero false) (.zero false)
          simp at a1 a2; simp [Conc.pending] at this ⊢; omega
        · intro b; have := h.nostamp hz b; have a1 := hset (.zero false) (.stamp b); simp at a1; omega
        · simpa using h.bound hz
        · simpa using h.opn hz
    | failStamp =>
      simp only [Pc.step]
      refine ⟨by simpa using hlen, ?_, ?_, ?_, ?_, ?_⟩ <;> intro hz <;> dsimp only at hz ⊢ <;> simp at hz
      · simpa using h.cnt hz
      · have := h.adm hz; have a1 := hset .idle .run; have a2 := hset .idle (.zero false)
        simp at a1 a2; simp [Conc.pending] at this ⊢; omega
      · intro b; have := h.nostamp hz b; have a1 := hset .idle (.stamp b); simp at a1; omega
      · simpa using h.bound hz
      · simpa using h.opn hz

theorem Conc.inv_run (p : BreakerCfg) (f0 k : Nat) (evs : List CEv) (c : Conc) (h : Conc.Inv p f0 k c) :
    Conc.Inv p f0 k (Conc.run p c evs) := by
  unfold Conc.run
  induction evs generalizing c with
  | nil => simpa using h
  | cons e es ih => simp only [List.foldl_cons]; exact ih _ (Conc.inv_step p f0 k c e h)

end Rpcx
