import Rpcx.Model.Mux
/-
  Helper lemmas and the state invariant of the multiplexer model.
-/
namespace Rpcx.Mux

/-! ### the call table -/

def bump (o : Outcome) (r : CallRec) : CallRec :=
  { r with signals := r.signals + 1, outcome := some o, ret := retAfter r o }

theorem signal_get (calls : List CallRec) (c v : Nat) (o : Outcome) :
    (signal calls c o)[v]? = if v = c then (calls[c]?).map (bump o) else calls[v]? := by
  unfold signal
  cases h : calls[c]? with
  | none => simp only; split <;> simp_all
  | some r =>
    simp only
    by_cases hv : v = c
    · subst hv
      have hlt : v < calls.length := by
        rcases Nat.lt_or_ge v calls.length with h' | h'
        · exact h'
        · rw [List.getElem?_eq_none h'] at h; cases h
      simp [List.getElem?_set, hlt, bump]
    · simp [List.getElem?_set, hv, Ne.symm hv]

theorem signal_length (calls : List CallRec) (c : Nat) (o : Outcome) : (signal calls c o).length = calls.length := by
  unfold signal; split <;> simp

theorem setPhase_get (calls : List CallRec) (c v : Nat) (p : Phase) :
    (setPhase calls c p)[v]? = if v = c then (calls[c]?).map (fun r => { r with phase := p }) else calls[v]? := by
  unfold setPhase
  cases h : calls[c]? with
  | none => simp only; split <;> simp_all
  | some r =>
    simp only
    by_cases hv : v = c
    · subst hv
      have hlt : v < calls.length := by
        rcases Nat.lt_or_ge v calls.length with h' | h'
        · exact h'
        · rw [List.getElem?_eq_none h'] at h; cases h
      simp [List.getElem?_set, hlt]
    · simp [List.getElem?_set, hv, Ne.symm hv]


theorem setRet_get (calls : List CallRec) (c v : Nat) (o : Outcome) :
    (setRet calls c o)[v]? = if v = c then (calls[c]?).map (fun r => { r with ret := some o }) else calls[v]? := by
  unfold setRet
  cases h : calls[c]? with
  | none => simp only; split <;> simp_all
  | some r =>
    simp only
    by_cases hv : v = c
    · subst hv
      have hlt : v < calls.length := by
        rcases Nat.lt_or_ge v calls.length with h' | h'
        · exact h'
        · rw [List.getElem?_eq_none h'] at h; cases h
      simp [List.getElem?_set, hlt]
    · simp [List.getElem?_set, hv, Ne.symm hv]

theorem markWritten_get (calls : List CallRec) (c v : Nat) :
    (markWritten calls c)[v]? = if v = c then (calls[c]?).map (fun r => { r with written := true, ret := r.ret.orElse (fun _ => r.outcome) }) else calls[v]? := by
  unfold markWritten
  cases h : calls[c]? with
  | none => simp only; split <;> simp_all
  | some r =>
    simp only
    by_cases hv : v = c
    · subst hv
      have hlt : v < calls.length := by
        rcases Nat.lt_or_ge v calls.length with h' | h'
        · exact h'
        · rw [List.getElem?_eq_none h'] at h; cases h
      simp [List.getElem?_set, hlt]
    · simp [List.getElem?_set, hv, Ne.symm hv]

/-- neither touches a signal count or a phase -/
theorem setRet_view (calls : List CallRec) (c v : Nat) (o : Outcome) :
    ((setRet calls c o)[v]?).map (fun r : CallRec => (r.signals, r.phase)) = (calls[v]?).map (fun r : CallRec => (r.signals, r.phase)) := by
  rw [setRet_get]
  split
  · rename_i e; subst e; cases calls[v]? <;> simp
  · rfl

theorem markWritten_view (calls : List CallRec) (c v : Nat) :
    ((markWritten calls c)[v]?).map (fun r : CallRec => (r.signals, r.phase)) = (calls[v]?).map (fun r : CallRec => (r.signals, r.phase)) := by
  rw [markWritten_get]
  split
  · rename_i e; subst e; cases calls[v]? <;> simp
  · rfl


theorem setRet_ne (calls : List CallRec) (c v : Nat) (o : Outcome) (h : v ≠ c) : (setRet calls c o)[v]? = calls[v]? := by
  rw [setRet_get]; simp [h]

theorem markWritten_ne (calls : List CallRec) (c v : Nat) (h : v ≠ c) : (markWritten calls c)[v]? = calls[v]? := by
  rw [markWritten_get]; simp [h]

/-! ### the pending table -/

theorem mem_erase {p : List (Nat × Nat)} {q : Nat} {e : Nat × Nat} : e ∈ erase p q ↔ e ∈ p ∧ e.1 ≠ q := by
  simp [erase]

theorem lookup_some {p : List (Nat × Nat)} {q c : Nat} (h : lookup p q = some c) : (q, c) ∈ p := by
  unfold lookup at h
  cases hf : p.find? (·.1 == q) with
  | none => simp [hf] at h
  | some e =>
    simp [hf] at h
    have := List.find?_some hf
    have hm := List.mem_of_find?_eq_some hf
    simp at this
    obtain ⟨a, b⟩ := e
    simp at this h
    subst this; subst h; exact hm

theorem lookup_none {p : List (Nat × Nat)} {q : Nat} (h : lookup p q = none) : ∀ c, (q, c) ∉ p := by
  unfold lookup at h
  intro c hc
  cases hf : p.find? (·.1 == q) with
  | none =>
    have := List.find?_eq_none.mp hf (q, c) hc
    simp at this
  | some e => simp [hf] at h

theorem lookup_of_mem {p : List (Nat × Nat)} {q c : Nat} (hn : (p.map (·.1)).Nodup) (h : (q, c) ∈ p) :
    lookup p q = some c := by
  induction p with
  | nil => cases h
  | cons e rest ih =>
    simp only [List.map_cons, List.nodup_cons] at hn
    unfold lookup
    simp only [List.find?_cons]
    rcases List.mem_cons.mp h with rfl | h'
    · simp
    · have hne : e.1 ≠ q := by
        intro he
        apply hn.1
        rw [he]
        exact List.mem_map_of_mem (f := (·.1)) h'
      have : (e.1 == q) = false := by simpa using hne
      simp only [this]
      exact ih hn.2 h'

theorem erase_nodup_keys {p : List (Nat × Nat)} (q : Nat) (h : (p.map (·.1)).Nodup) : ((erase p q).map (·.1)).Nodup := by
  unfold erase
  exact List.Nodup.sublist (List.Sublist.map _ List.filter_sublist) h

theorem erase_nodup_ids {p : List (Nat × Nat)} (q : Nat) (h : (p.map (·.2)).Nodup) : ((erase p q).map (·.2)).Nodup := by
  unfold erase
  exact List.Nodup.sublist (List.Sublist.map _ List.filter_sublist) h

/-! ### failing every pending call -/

theorem foldl_signal_get (o : Outcome) : ∀ (ids : List Nat) (calls : List CallRec) (v : Nat), ids.Nodup →
    (ids.foldl (fun cs c => signal cs c o) calls)[v]? = if v ∈ ids then (calls[v]?).map (bump o) else calls[v]? := by
  intro ids
  induction ids with
  | nil => intro calls v _; simp
  | cons c rest ih =>
    intro calls v hn
    simp only [List.nodup_cons] at hn
    rw [List.foldl_cons, ih _ v hn.2]
    by_cases hv : v = c
    · subst hv
      simp [hn.1, signal_get]
    · by_cases hr : v ∈ rest
      · simp [hr, hv, signal_get]
      · simp [hr, hv, signal_get]

theorem failAll_calls (s : St) (o : Outcome) (v : Nat) (hn : (s.pending.map (·.2)).Nodup) :
    (failAll s o).calls[v]? = if v ∈ s.pending.map (·.2) then (s.calls[v]?).map (bump o) else s.calls[v]? := by
  unfold failAll
  simp only
  have : s.pending.foldl (fun cs e => signal cs e.2 o) s.calls
      = (s.pending.map (·.2)).foldl (fun cs c => signal cs c o) s.calls := by
    rw [List.foldl_map]
  rw [this]
  exact foldl_signal_get o _ _ v hn

end Rpcx.Mux
