import Rpcx.Basic
namespace Rpcx

/-- close a goal `a = b` on `BitVec 8` terms built from `&&& ||| ~~~ <<< >>>` and
    literals by looking at each of the eight bits -/
macro "bits8" : tactic => `(tactic|
  (ext i hi
   have hcases : i = 0 ∨ i = 1 ∨ i = 2 ∨ i = 3 ∨ i = 4 ∨ i = 5 ∨ i = 6 ∨ i = 7 := by omega
   rcases hcases with h|h|h|h|h|h|h|h <;> subst h <;> simp))

theorem byte_lt2_cases (v : Byte) (h : v < 2#8) : v = 0#8 ∨ v = 1#8 := by
  have := BitVec.lt_def.mp h
  simp at this
  rcases (show v.toNat = 0 ∨ v.toNat = 1 by omega) with h | h
  · left; exact BitVec.eq_of_toNat_eq (by simpa using h)
  · right; exact BitVec.eq_of_toNat_eq (by simpa using h)

/-- a byte below `2^k` has its high bits clear -/
theorem byte_lt_getLsbD (v : Byte) (n : Nat) (i : Nat) (h : v.toNat < 2 ^ n) (hi : n ≤ i) :
    v.getLsbD i = false := by
  rw [BitVec.getLsbD]
  exact Nat.testBit_lt_two_pow (Nat.lt_of_lt_of_le h (Nat.pow_le_pow_right (by decide) hi))

end Rpcx

namespace Rpcx
theorem byte_lt_getElem (v : Byte) (n : Nat) (i : Nat) (h : v.toNat < 2 ^ n) (hi : n ≤ i) (hi8 : i < 8) :
    v[i] = false := by
  rw [← BitVec.getLsbD_eq_getElem]; exact byte_lt_getLsbD v n i h hi

/-- like `bits8`, but with the facts "bits `n..7` of `v` are clear" in scope -/
macro "bits8_lt" v:term "," n:term "," h:term : tactic => `(tactic|
  (have h3 := fun (hh : $n ≤ 3) => byte_lt_getElem $v $n 3 $h hh (by omega)
   have h4 := fun (hh : $n ≤ 4) => byte_lt_getElem $v $n 4 $h hh (by omega)
   have h5 := fun (hh : $n ≤ 5) => byte_lt_getElem $v $n 5 $h hh (by omega)
   have h6 := fun (hh : $n ≤ 6) => byte_lt_getElem $v $n 6 $h hh (by omega)
   have h7 := fun (hh : $n ≤ 7) => byte_lt_getElem $v $n 7 $h hh (by omega)
   have h2 := fun (hh : $n ≤ 2) => byte_lt_getElem $v $n 2 $h hh (by omega)
   have h1 := fun (hh : $n ≤ 1) => byte_lt_getElem $v $n 1 $h hh (by omega)
   ext i hi
   have hcases : i = 0 ∨ i = 1 ∨ i = 2 ∨ i = 3 ∨ i = 4 ∨ i = 5 ∨ i = 6 ∨ i = 7 := by omega
   rcases hcases with h|h|h|h|h|h|h|h <;> subst h <;> simp_all))
end Rpcx

namespace Rpcx
theorem byte_lt_cases (v : Byte) (n : Nat) (h : v.toNat < n) : ∃ k : Fin n, v = BitVec.ofNat 8 k.val :=
  ⟨⟨v.toNat, h⟩, by simp⟩

theorem be64byte_be64get (a b c d e f g h : Byte) :
    be64byte (be64get a b c d e f g h) 0 = a ∧ be64byte (be64get a b c d e f g h) 1 = b ∧
    be64byte (be64get a b c d e f g h) 2 = c ∧ be64byte (be64get a b c d e f g h) 3 = d ∧
    be64byte (be64get a b c d e f g h) 4 = e ∧ be64byte (be64get a b c d e f g h) 5 = f ∧
    be64byte (be64get a b c d e f g h) 6 = g ∧ be64byte (be64get a b c d e f g h) 7 = h := by
  simp only [be64get, be64byte]
  refine ⟨?_, ?_, ?_, ?_, ?_, ?_, ?_, ?_⟩ <;>
  (ext i hi
   simp only [BitVec.getElem_extractLsb', BitVec.getLsbD_append]
   rw [← BitVec.getLsbD_eq_getElem]
   repeat' split
   all_goals (first | omega | (congr 1; omega)))
end Rpcx
