import Mathlib.Data.List.Rotate
import Mathlib.Data.List.Count
/-
  Reading a list cyclically: `n = l.length` consecutive reads starting at offset `c` yield a
  rotation of `l`, hence a permutation of it (used by round-robin and by the weighted ring).
-/
namespace Rpcx

/-- the `j`-th of consecutive cyclic reads starting at `c` -/
def cyc (l : List String) (c j : Nat) : Option String := l[(c + j) % l.length]?

theorem cyc_window (l : List String) (c : Nat) (h : 0 < l.length) :
    (List.range l.length).map (cyc l c) = (l.rotate c).map some := by
  apply List.ext_getElem
  · simp
  · intro i h1 h2
    simp only [List.length_map, List.length_range] at h1
    simp only [List.getElem_map, List.getElem_range, cyc]
    rw [List.getElem_rotate]
    have : (c + i) % l.length < l.length := Nat.mod_lt _ h
    rw [List.getElem?_eq_getElem this]
    congr 2
    rw [Nat.add_comm]

/-- every window of `l.length` consecutive cyclic reads contains each element exactly as often
    as `l` does -/
theorem cyc_window_count (l : List String) (c : Nat) (h : 0 < l.length) (s : String) :
    ((List.range l.length).map (cyc l c)).count (some s) = l.count s := by
  rw [cyc_window l c h]
  rw [List.count_map_of_injective _ _ (fun a b h => Option.some.inj h)]
  exact (List.rotate_perm l c).count_eq s

end Rpcx
