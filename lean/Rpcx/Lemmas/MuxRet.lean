import Rpcx.Lemmas.MuxInv
/-
  What a blocking caller has returned with never changes again.

  `ret` is written by four operations: `signal` (first completion), `markRet` (the caller's own
  context error), `markWritten` (SendRaw finds its completion after its write) and `setRet`
  (SendRaw returns the error of its own write).  Only the last one overwrites – and it only ever
  runs on a raw call that has not written yet, which (per-record invariant `RawOk`) has returned
  nothing so far.
-/
namespace Rpcx.Mux

/-- a raw call that has not written yet has not returned; a fresh one has not written -/
def RawOk (r : CallRec) : Prop :=
  r.raw = true → (r.phase = .fresh → r.ret = none ∧ r.written = false) ∧
                 (r.written = false → r.phase ≠ .finished → r.ret = none)

/-- how one event can change one call record -/
inductive Rel : CallRec → CallRec → Prop
  | same (r : CallRec) : Rel r r
  | bumped (r : CallRec) (o : Outcome) (q : Nat) : r.phase = .registered q → Rel r (bump o r)
  | bumpFin (r : CallRec) (o : Outcome) : Rel r { bump o r with phase := .finished }
  | fin (r : CallRec) : Rel r { r with phase := .finished }
  | bumpFinRet (r : CallRec) (o : Outcome) : (RawOk r → r.ret = none) →
      Rel r { { bump o r with phase := .finished } with ret := some .connErr }
  | finRet (r : CallRec) : (RawOk r → r.ret = none) → Rel r { { r with phase := .finished } with ret := some .connErr }
  | reg (r : CallRec) (q : Nat) : r.phase = .fresh → Rel r { r with phase := .registered q }
  | wrote (r : CallRec) (q : Nat) : r.phase = .registered q →
      Rel r { r with written := true, ret := r.ret.orElse (fun _ => r.outcome) }
  | retCtx (r : CallRec) : (r.raw && !r.written) = false → Rel r { r with ret := r.ret.orElse (fun _ => some .ctxErr) }
  | bumpRetCtx (r : CallRec) (q : Nat) : r.phase = .registered q → (r.raw && !r.written) = false →
      Rel r { bump .ctxErr r with ret := (bump .ctxErr r).ret.orElse (fun _ => some .ctxErr) }

theorem rawOk_finished (r : CallRec) (h : r.phase = .finished) : RawOk r :=
  fun _ => ⟨(fun hf => by rw [h] at hf; cases hf), (fun _ hnf => absurd h hnf)⟩

theorem rel_rawOk {r r' : CallRec} (h : Rel r r') (ho : RawOk r) : RawOk r' := by
  cases h with
  | same => exact ho
  | bumped o q hp =>
    intro hraw
    have hraw' : r.raw = true := by simpa [bump] using hraw
    obtain ⟨_, b⟩ := ho hraw'
    refine ⟨?_, ?_⟩
    · intro hf; simp [bump, hp] at hf
    · intro hw hnf
      have hw' : r.written = false := by simpa [bump] using hw
      have hnf' : r.phase ≠ .finished := by simpa [bump] using hnf
      simp [bump, retAfter, hraw', hw', b hw' hnf']
  | bumpFin o => exact rawOk_finished _ rfl
  | fin => exact rawOk_finished _ rfl
  | bumpFinRet o _ => exact rawOk_finished _ rfl
  | finRet _ => exact rawOk_finished _ rfl
  | reg q hp =>
    intro hraw
    obtain ⟨a, _⟩ := ho hraw
    obtain ⟨a1, a2⟩ := a hp
    exact ⟨(fun hf => by cases hf), (fun _ _ => a1)⟩
  | wrote q hp =>
    intro _
    exact ⟨(fun hf => by simp [hp] at hf), (fun hw => by cases hw)⟩
  | retCtx hc =>
    intro hraw
    have hraw' : r.raw = true := hraw
    have hw : r.written = true := by
      cases hwr : r.written with
      | true => rfl
      | false => simp [hraw', hwr] at hc
    obtain ⟨a, _⟩ := ho hraw'
    refine ⟨?_, ?_⟩
    · intro hf
      have := (a hf).2
      rw [hw] at this; cases this
    · intro hw2
      have : r.written = false := hw2
      rw [hw] at this; cases this
  | bumpRetCtx q hp hc =>
    intro hraw
    have hraw' : r.raw = true := by simpa [bump] using hraw
    have hw : r.written = true := by
      cases hwr : r.written with
      | true => rfl
      | false => simp [hraw', hwr] at hc
    refine ⟨?_, ?_⟩
    · intro hf; simp [bump, hp] at hf
    · intro hw2
      have : r.written = false := by simpa [bump] using hw2
      rw [hw] at this; cases this

theorem rel_ret {r r' : CallRec} (h : Rel r r') (ho : RawOk r) (x : Outcome) (hx : r.ret = some x) : r'.ret = some x := by
  cases h with
  | same => exact hx
  | bumped o q _ => simp only [bump, retAfter]; split <;> simp [hx]
  | bumpFin o => simp only [bump, retAfter]; split <;> simp [hx]
  | fin => exact hx
  | bumpFinRet o hn => rw [hn ho] at hx; cases hx
  | finRet hn => rw [hn ho] at hx; cases hx
  | reg q _ => exact hx
  | wrote q _ => simp [hx]
  | retCtx _ => simp [hx]
  | bumpRetCtx q _ _ => simp only [bump, retAfter]; split <;> simp [hx]

end Rpcx.Mux

namespace Rpcx.Mux

theorem ras_calls (s : St) (c q : Nat) (o : Outcome) (v : Nat) :
    (removeAndSignal s c q o).calls[v]? =
      if lookup s.pending q = some c ∧ v = c then (s.calls[c]?).map (bump o) else s.calls[v]? := by
  unfold removeAndSignal
  cases hl : lookup s.pending q with
  | none => simp
  | some c' =>
    simp only
    by_cases e : c' = c
    · subst e
      simp only [if_true, true_and]
      rw [signal_get]
    · simp only [e, if_false]
      have : ¬ (some c' = some c ∧ v = c) := by
        intro h; exact e (Option.some.inj h.1)
      rw [if_neg this]

/-- the call table after a sender's "remove my entry, signal if it was there, I am done" -/
theorem sender_done_calls (s : St) (k q : Nat) (o : Outcome) (v : Nat) :
    (setPhase (removeAndSignal s k q o).calls k .finished)[v]? =
      if v = k then
        (if lookup s.pending q = some k then (s.calls[k]?).map (bump o) else s.calls[k]?).map
          (fun r => { r with phase := .finished })
      else s.calls[v]? := by
  rw [setPhase_get]
  by_cases hv : v = k
  · subst hv
    simp only [if_true]
    rw [ras_calls]
    simp
  · simp only [hv, if_false]
    rw [ras_calls]
    simp [hv]

theorem failAll_rel (s : St) (hi : Inv s) (o : Outcome) (v : Nat) (r : CallRec) (hr : s.calls[v]? = some r) :
    ∃ r', (failAll s o).calls[v]? = some r' ∧ Rel r r' := by
  rw [failAll_calls s o v hi.ids]
  by_cases hm : v ∈ s.pending.map (·.2)
  · simp only [hm, if_true, hr, Option.map_some]
    obtain ⟨e, he, hev⟩ := List.mem_map.mp hm
    have hmem : (e.1, v) ∈ s.pending := by rw [← hev]; exact he
    obtain ⟨r0, hr0, _, hp0⟩ := hi.pend e.1 v hmem
    rw [hr] at hr0; cases hr0
    exact ⟨_, rfl, Rel.bumped r o e.1 hp0⟩
  · simp only [hm, if_false]
    exact ⟨r, hr, Rel.same r⟩

/-- every event changes every call record in one of the ways of `Rel` -/
theorem step_rel (s : St) (hi : Inv s) (ev : Ev) (v : Nat) (r : CallRec) (hr : s.calls[v]? = some r) :
    ∃ r', (step s ev).calls[v]? = some r' ∧ Rel r r' := by
  cases ev with
  | register k =>
    simp only [step]
    cases hk : s.calls[k]? with
    | none => exact ⟨r, hr, Rel.same r⟩
    | some rk =>
      simp only
      by_cases hf : rk.phase = .fresh
      · simp only [hf, ne_eq, not_true_eq_false, if_false]
        by_cases hd : (s.shutdown || s.closing) = true
        · simp only [hd, if_true]
          by_cases hv : v = k
          · subst hv
            rw [hk] at hr; cases hr
            by_cases hraw : r.raw = true
            · simp only [hraw, if_true]
              refine ⟨_, ?_, Rel.bumpFinRet r .connErr (fun ho => ((ho hraw).1 hf).1)⟩
              rw [setRet_get, setPhase_get, signal_get]
              simp [hk]
            · have hraw' : r.raw = false := by simpa using hraw
              simp only [hraw', Bool.false_eq_true, if_false]
              refine ⟨_, ?_, Rel.bumpFin r .shutdownErr⟩
              rw [setPhase_get, signal_get]
              simp [hk]
          · refine ⟨r, ?_, Rel.same r⟩
            split
            · rw [setRet_ne _ _ _ _ hv, setPhase_get]; simp only [hv, if_false]; rw [signal_get]; simp [hv, hr]
            · rw [setPhase_get]; simp only [hv, if_false]; rw [signal_get]; simp [hv, hr]
        · simp only [hd, Bool.false_eq_true, if_false]
          by_cases hv : v = k
          · subst hv
            rw [hk] at hr; cases hr
            refine ⟨_, ?_, Rel.reg r s.seq hf⟩
            rw [setPhase_get]; simp [hk]
          · refine ⟨r, ?_, Rel.same r⟩
            rw [setPhase_get]; simp [hv, hr]
      · simp only [hf, ne_eq, not_false_eq_true, if_true]
        exact ⟨r, hr, Rel.same r⟩
  | encodeFail k =>
    simp only [step]
    cases hk : s.calls[k]? with
    | none => exact ⟨r, hr, Rel.same r⟩
    | some rk =>
      simp only
      cases hp : rk.phase with
      | fresh => exact ⟨r, hr, Rel.same r⟩
      | finished => exact ⟨r, hr, Rel.same r⟩
      | registered q =>
        simp only
        split
        · exact ⟨r, hr, Rel.same r⟩
        · simp only
          rw [sender_done_calls]
          by_cases hv : v = k
          · subst hv
            rw [hk] at hr; cases hr
            by_cases hl : lookup s.pending q = some v
            · simp only [hl, if_true, hk, Option.map_some]
              exact ⟨_, rfl, Rel.bumpFin r .codecErr⟩
            · simp only [hl, if_false, hk, Option.map_some, if_true]
              exact ⟨_, rfl, Rel.fin r⟩
          · simp only [hv, if_false]
            exact ⟨r, hr, Rel.same r⟩
  | writeFail k =>
    simp only [step]
    cases hk : s.calls[k]? with
    | none => exact ⟨r, hr, Rel.same r⟩
    | some rk =>
      simp only
      cases hp : rk.phase with
      | fresh => exact ⟨r, hr, Rel.same r⟩
      | finished => exact ⟨r, hr, Rel.same r⟩
      | registered q =>
        simp only
        by_cases hrw : (rk.raw && rk.written) = true
        · simp only [hrw, if_true]
          exact ⟨r, hr, Rel.same r⟩
        · simp only [hrw, Bool.false_eq_true, if_false]
          by_cases hv : v = k
          · subst hv
            rw [hk] at hr; cases hr
            by_cases hraw : r.raw = true
            · have hw : r.written = false := by
                cases hwr : r.written with
                | false => rfl
                | true => simp [hraw, hwr] at hrw
              have hnone : RawOk r → r.ret = none := fun ho => (ho hraw).2 hw (by rw [hp]; intro h; cases h)
              simp only [hraw, if_true]
              rw [setRet_get, sender_done_calls]
              by_cases hl : lookup s.pending q = some v
              · simp only [hl, if_true, hk, Option.map_some]
                exact ⟨_, rfl, Rel.bumpFinRet r .connErr hnone⟩
              · simp only [hl, if_false, hk, Option.map_some, if_true]
                exact ⟨_, rfl, Rel.finRet r hnone⟩
            · have hraw' : r.raw = false := by simpa using hraw
              simp only [hraw', Bool.false_eq_true, if_false]
              rw [sender_done_calls]
              by_cases hl : lookup s.pending q = some v
              · simp only [hl, if_true, hk, Option.map_some]
                exact ⟨_, rfl, Rel.bumpFin r .connErr⟩
              · simp only [hl, if_false, hk, Option.map_some, if_true]
                exact ⟨_, rfl, Rel.fin r⟩
          · refine ⟨r, ?_, Rel.same r⟩
            split
            · rw [setRet_ne _ _ _ _ hv, sender_done_calls]; simp [hv, hr]
            · rw [sender_done_calls]; simp [hv, hr]
  | writeOk k =>
    simp only [step]
    cases hk : s.calls[k]? with
    | none => exact ⟨r, hr, Rel.same r⟩
    | some rk =>
      simp only
      cases hp : rk.phase with
      | fresh => exact ⟨r, hr, Rel.same r⟩
      | finished => exact ⟨r, hr, Rel.same r⟩
      | registered q =>
        simp only
        by_cases hraw : rk.raw = true
        · simp only [hraw, if_true]
          rw [markWritten_get]
          by_cases hv : v = k
          · subst hv
            rw [hk] at hr; cases hr
            simp only [if_true, hk, Option.map_some]
            exact ⟨_, rfl, Rel.wrote r q hp⟩
          · simp only [hv, if_false]
            exact ⟨r, hr, Rel.same r⟩
        · have hraw' : rk.raw = false := by simpa using hraw
          simp only [hraw', Bool.false_eq_true, if_false]
          split
          · simp only
            rw [sender_done_calls]
            by_cases hv : v = k
            · subst hv
              rw [hk] at hr; cases hr
              by_cases hl : lookup s.pending q = some v
              · simp only [hl, if_true, hk, Option.map_some]
                exact ⟨_, rfl, Rel.bumpFin r .none_⟩
              · simp only [hl, if_false, hk, Option.map_some, if_true]
                exact ⟨_, rfl, Rel.fin r⟩
            · simp only [hv, if_false]
              exact ⟨r, hr, Rel.same r⟩
          · exact ⟨r, hr, Rel.same r⟩
  | ctxDone k =>
    simp only [step]
    cases hk : s.calls[k]? with
    | none => exact ⟨r, hr, Rel.same r⟩
    | some rk =>
      simp only
      split
      · exact ⟨r, hr, Rel.same r⟩
      · by_cases hc : (rk.raw && !rk.written) = true
        · simp only [hc, if_true]
          exact ⟨r, hr, Rel.same r⟩
        · have hc' : (rk.raw && !rk.written) = false := by simpa using hc
          simp only [hc', Bool.false_eq_true, if_false]
          -- the call table after ctxRemove: only k's own record can change, by one completion
          have hrem_ne : ∀ w, w ≠ k → (ctxRemove s k rk).calls[w]? = s.calls[w]? := by
            intro w hw
            unfold ctxRemove
            cases hp : rk.phase with
            | fresh => rfl
            | finished => rfl
            | registered q =>
              simp only
              cases hl : lookup s.pending q with
              | none => rfl
              | some c' =>
                simp only
                split
                · rename_i e; subst e
                  simp only
                  rw [signal_get]; simp [hw]
                · rfl
          have hrem_k : (ctxRemove s k rk).calls[k]? = s.calls[k]? ∨
              (∃ q, rk.phase = .registered q ∧ (ctxRemove s k rk).calls[k]? = (s.calls[k]?).map (bump .ctxErr)) := by
            unfold ctxRemove
            cases hp : rk.phase with
            | fresh => left; rfl
            | finished => left; rfl
            | registered q =>
              simp only
              cases hl : lookup s.pending q with
              | none => left; rfl
              | some c' =>
                simp only
                split
                · rename_i e; subst e
                  right
                  refine ⟨q, rfl, ?_⟩
                  simp only
                  rw [signal_get]; simp
                · left; rfl
          unfold markRet
          by_cases hv : v = k
          · subst hv
            rw [hk] at hr; cases hr
            rcases hrem_k with hsame | ⟨q, hq, hb⟩
            · rw [hsame, hk]
              simp only
              refine ⟨_, ?_, Rel.retCtx r hc'⟩
              have hlt : v < (ctxRemove s v r).calls.length := by
                rcases Nat.lt_or_ge v (ctxRemove s v r).calls.length with h' | h'
                · exact h'
                · rw [List.getElem?_eq_none h', hk] at hsame; cases hsame
              simp [List.getElem?_set, hlt]
            · rw [hb, hk]
              simp only [Option.map_some]
              refine ⟨_, ?_, Rel.bumpRetCtx r q hq hc'⟩
              have hlt : v < (ctxRemove s v r).calls.length := by
                rcases Nat.lt_or_ge v (ctxRemove s v r).calls.length with h' | h'
                · exact h'
                · rw [List.getElem?_eq_none h', hk] at hb; cases hb
              simp [List.getElem?_set, hlt]
          · have hvv := hrem_ne v hv
            refine ⟨r, ?_, Rel.same r⟩
            cases hk1 : (ctxRemove s k rk).calls[k]? with
            | none => simp only; rw [hvv]; exact hr
            | some r1 =>
              simp only
              rw [List.getElem?_set_ne (Ne.symm hv), hvv]
              exact hr
  | frame f =>
    simp only [step]
    split
    · exact ⟨r, hr, Rel.same r⟩
    · split
      · exact ⟨r, hr, Rel.same r⟩
      · cases hl : lookup s.pending f.seq with
        | none => exact ⟨r, hr, Rel.same r⟩
        | some c =>
          simp only
          rw [signal_get]
          by_cases hv : v = c
          · subst hv
            obtain ⟨r0, hr0, _, hp0⟩ := hi.pend f.seq v (lookup_some hl)
            rw [hr] at hr0; cases hr0
            simp only [if_true, hr, Option.map_some]
            exact ⟨_, rfl, Rel.bumped r _ f.seq hp0⟩
          · simp only [hv, if_false]
            exact ⟨r, hr, Rel.same r⟩
  | terminate =>
    simp only [step]
    split
    · exact ⟨r, hr, Rel.same r⟩
    · exact failAll_rel s hi .connErr v r hr
  | close =>
    simp only [step]
    split
    · exact failAll_rel s hi .shutdownErr v r hr
    · exact failAll_rel s hi .shutdownErr v r hr

end Rpcx.Mux

namespace Rpcx.Mux

@[simp] theorem setPhase_length (calls : List CallRec) (c : Nat) (p : Phase) : (setPhase calls c p).length = calls.length := by
  unfold setPhase; split <;> simp

@[simp] theorem setRet_length (calls : List CallRec) (c : Nat) (o : Outcome) : (setRet calls c o).length = calls.length := by
  unfold setRet; split <;> simp

@[simp] theorem markWritten_length (calls : List CallRec) (c : Nat) : (markWritten calls c).length = calls.length := by
  unfold markWritten; split <;> simp

@[simp] theorem signal_length' (calls : List CallRec) (c : Nat) (o : Outcome) : (signal calls c o).length = calls.length :=
  signal_length calls c o

@[simp] theorem removeAndSignal_length (s : St) (c q : Nat) (o : Outcome) : (removeAndSignal s c q o).calls.length = s.calls.length := by
  unfold removeAndSignal; split <;> (try split) <;> simp

theorem foldl_signal_length (o : Outcome) : ∀ (p : List (Nat × Nat)) (calls : List CallRec),
    (p.foldl (fun cs e => signal cs e.2 o) calls).length = calls.length := by
  intro p
  induction p with
  | nil => intro calls; rfl
  | cons e rest ih => intro calls; rw [List.foldl_cons, ih]; simp

@[simp] theorem failAll_length (s : St) (o : Outcome) : (failAll s o).calls.length = s.calls.length := by
  unfold failAll; exact foldl_signal_length o _ _

@[simp] theorem ctxRemove_length (s : St) (c : Nat) (r : CallRec) : (ctxRemove s c r).calls.length = s.calls.length := by
  unfold ctxRemove; split <;> (try split) <;> (try split) <;> simp

@[simp] theorem markRet_length (s : St) (c : Nat) : (markRet s c).calls.length = s.calls.length := by
  unfold markRet; split <;> simp

/-- no event adds or removes a call record -/
theorem step_length (s : St) (ev : Ev) : (step s ev).calls.length = s.calls.length := by
  cases ev <;> simp only [step] <;> (repeat' split) <;> simp

/-- …so every record after an event comes from the record at the same place before it -/
theorem step_rel' (s : St) (hi : Inv s) (ev : Ev) (v : Nat) (r' : CallRec) (hr' : (step s ev).calls[v]? = some r') :
    ∃ r, s.calls[v]? = some r ∧ Rel r r' := by
  cases hr : s.calls[v]? with
  | none =>
    have h1 : s.calls.length ≤ v := List.getElem?_eq_none_iff.mp hr
    have h2 : (step s ev).calls[v]? = none := List.getElem?_eq_none_iff.mpr (by rw [step_length]; exact h1)
    rw [h2] at hr'; cases hr'
  | some r =>
    obtain ⟨r'', h1, h2⟩ := step_rel s hi ev v r hr
    rw [hr'] at h1; cases h1
    exact ⟨r, rfl, h2⟩

def RetInv (s : St) : Prop := ∀ (c : Nat) (r : CallRec), s.calls[c]? = some r → RawOk r

theorem retInv_init (kinds : List (Bool × Bool)) : RetInv (init kinds) := by
  intro c r h
  simp only [init, List.getElem?_map] at h
  cases hk : kinds[c]? <;> simp [hk] at h
  subst h
  intro _
  exact ⟨(fun _ => ⟨rfl, rfl⟩), (fun _ _ => rfl)⟩

theorem retInv_step (s : St) (hi : Inv s) (h : RetInv s) (ev : Ev) : RetInv (step s ev) := by
  intro c r' hr'
  obtain ⟨r, hr, hrel⟩ := step_rel' s hi ev c r' hr'
  exact rel_rawOk hrel (h c r hr)

theorem retInv_run : ∀ (evs : List Ev) (s : St), Inv s → RetInv s → RetInv (run s evs) := by
  intro evs
  induction evs with
  | nil => intro s _ h; exact h
  | cons e es ih => intro s hi h; exact ih (step s e) (inv_step s hi e) (retInv_step s hi h e)

/-- one event never changes what a caller has already returned with -/
theorem ret_stable_step (s : St) (hi : Inv s) (h : RetInv s) (ev : Ev) (c : Nat) (r : CallRec) (x : Outcome)
    (hr : s.calls[c]? = some r) (hx : r.ret = some x) :
    ∃ r', (step s ev).calls[c]? = some r' ∧ r'.ret = some x := by
  obtain ⟨r', h1, h2⟩ := step_rel s hi ev c r hr
  exact ⟨r', h1, rel_ret h2 (h c r hr) x hx⟩

theorem ret_stable_run : ∀ (evs : List Ev) (s : St), Inv s → RetInv s → ∀ (c : Nat) (r : CallRec) (x : Outcome),
    s.calls[c]? = some r → r.ret = some x → ∃ r', (run s evs).calls[c]? = some r' ∧ r'.ret = some x := by
  intro evs
  induction evs with
  | nil => intro s _ _ c r x hr hx; exact ⟨r, hr, hx⟩
  | cons e es ih =>
    intro s hi h c r x hr hx
    obtain ⟨r1, h1, h2⟩ := ret_stable_step s hi h e c r x hr hx
    exact ih (step s e) (inv_step s hi e) (retInv_step s hi h e) c r1 x h1 h2

end Rpcx.Mux
