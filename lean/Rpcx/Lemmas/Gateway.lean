import Rpcx.Model.Gateway
import Rpcx.Lemmas.Query
namespace Rpcx.Gw
open Rpcx Rpcx.Gen Rpcx.Srv Rpcx.Query

/-! ### decimal numbers -/

theorem digit_spec : ∀ n : Fin 10, isDigit (BitVec.ofNat 8 (0x30 + n.val)) = true
    ∧ (BitVec.ofNat 8 (0x30 + n.val)).toNat - 0x30 = n.val
    ∧ (BitVec.ofNat 8 (0x30 + n.val) != 0x2D#8) = true ∧ (BitVec.ofNat 8 (0x30 + n.val) != 0x2B#8) = true := by
  decide +kernel

theorem digit_not_sign : ∀ c : Byte, isDigit c = true → (c == 0x2D#8) = false ∧ (c == 0x2B#8) = false := by
  decide +kernel

theorem parseDecAux_digit (n : Nat) (hn : n < 10) (rest : Bytes) (k : Nat) :
    parseDecAux (BitVec.ofNat 8 (0x30 + n) :: rest) k = parseDecAux rest (k * 10 + n) := by
  have := digit_spec ⟨n, hn⟩
  simp only [parseDecAux, this.1, if_true, this.2.1]

/-- the digits `toDecAux` puts in front of `acc` parse back to `n` -/
theorem toDecAux_spec : ∀ (fuel n : Nat) (acc : Bytes), n < fuel →
    ∃ ds : Bytes, toDecAux fuel n acc = ds ++ acc ∧ ds ≠ []
      ∧ (∀ x ∈ ds, isDigit x = true)
      ∧ ∀ (k : Nat) (rest : Bytes), parseDecAux (ds ++ rest) k = parseDecAux rest (k * 10 ^ ds.length + n) := by
  intro fuel
  induction fuel with
  | zero => intro n acc h; omega
  | succ fuel ih =>
    intro n acc hn
    simp only [toDecAux]
    by_cases h10 : n < 10
    · rw [if_pos h10]
      refine ⟨[BitVec.ofNat 8 (0x30 + n)], rfl, by simp, ?_, ?_⟩
      · intro x hx
        have : x = BitVec.ofNat 8 (0x30 + n) := by simpa using hx
        rw [this]; exact (digit_spec ⟨n, h10⟩).1
      · intro k rest
        simp only [List.singleton_append, List.length_singleton, Nat.pow_one]
        exact parseDecAux_digit n h10 rest k
    · rw [if_neg h10]
      have hq : n / 10 < fuel := by omega
      obtain ⟨ds, he, hne, hdig, hp⟩ := ih (n / 10) (BitVec.ofNat 8 (0x30 + n % 10) :: acc) hq
      refine ⟨ds ++ [BitVec.ofNat 8 (0x30 + n % 10)], by rw [he]; simp, by simp, ?_, ?_⟩
      · intro x hx
        rcases List.mem_append.mp hx with h | h
        · exact hdig x h
        · have : x = BitVec.ofNat 8 (0x30 + n % 10) := by simpa using h
          rw [this]; exact (digit_spec ⟨n % 10, Nat.mod_lt _ (by omega)⟩).1
      · intro k rest
        rw [List.append_assoc, List.singleton_append, hp, parseDecAux_digit _ (Nat.mod_lt _ (by omega))]
        congr 1
        rw [List.length_append, List.length_singleton, Nat.pow_succ, ← Nat.mul_assoc]
        have := Nat.div_add_mod n 10
        generalize k * 10 ^ ds.length = a at *
        omega

theorem toDec_spec (n : Nat) :
    parseDec (toDec n) = some n ∧ (∀ x ∈ toDec n, isDigit x = true) ∧ toDec n ≠ [] := by
  obtain ⟨ds, he, hne, hdig, hp⟩ := toDecAux_spec (n + 1) n [] (by omega)
  rw [List.append_nil] at he
  unfold toDec
  rw [he]
  refine ⟨?_, hdig, hne⟩
  unfold parseDec
  have : ds.isEmpty = false := by cases ds <;> simp_all
  rw [this]
  have := hp 0 []
  rw [List.append_nil] at this
  simpa [parseDecAux] using this

/-- strconv.ParseUint ∘ FormatUint = id on uint64 -/
theorem parseUint64_toDec (n : Nat) (h : n < 18446744073709551616) : parseUint64 (toDec n) = some n := by
  unfold parseUint64
  rw [(toDec_spec n).1]
  simp [h]

/-- strconv.Atoi ∘ Itoa = id on non-negative int64 -/
theorem atoi_toDec (n : Nat) (h : n < 9223372036854775808) : atoi (toDec n) = some (n : Int) := by
  obtain ⟨hp, hdig, hne⟩ := toDec_spec n
  unfold atoi
  cases hs : toDec n with
  | nil => exact absurd hs hne
  | cons c r =>
    have hc : isDigit c = true := hdig c (by rw [hs]; simp)
    have h1 : (c == 0x2D#8) = false := digit_not_sign c hc |>.1
    have h2 : (c == 0x2B#8) = false := digit_not_sign c hc |>.2
    simp only [h1, h2, Bool.false_eq_true, if_false]
    rw [← hs, hp]
    simp [h]

/-! ### first value per key -/

theorem firstWins_nodup : ∀ (m : List (Bytes × Bytes)), (m.map (·.1)).Nodup → firstWins m = m := by
  intro m
  induction m with
  | nil => intro _; rfl
  | cons e rest ih =>
    intro h
    rw [List.map_cons, List.nodup_cons] at h
    simp only [firstWins]
    rw [ih h.2]
    congr 1
    rw [List.filter_eq_self]
    intro x hx
    have : x.1 ≠ e.1 := by
      intro he
      exact h.1 (he ▸ List.mem_map_of_mem hx)
    simpa using this

/-! ### JSON-RPC method split -/

theorem lastDotAux_nodot (m : Bytes) (h : ∀ x ∈ m, x ≠ 0x2E#8) (i : Nat) (best : Option Nat) :
    lastDotAux m i best = best := by
  induction m generalizing i with
  | nil => rfl
  | cons c r ih =>
    have hc : (c == 0x2E#8) = false := by simpa using h c (by simp)
    simp only [lastDotAux, hc, Bool.false_eq_true, if_false]
    exact ih (fun x hx => h x (by simp [hx])) (i + 1)

theorem lastDotAux_append (a m : Bytes) (h : ∀ x ∈ m, x ≠ 0x2E#8) (i : Nat) (best : Option Nat) :
    lastDotAux (a ++ 0x2E#8 :: m) i best = some (i + a.length) := by
  induction a generalizing i best with
  | nil =>
    simp only [List.nil_append, lastDotAux, beq_self_eq_true, if_true, List.length_nil, Nat.add_zero]
    exact lastDotAux_nodot m h (i + 1) (some i)
  | cons c a ih =>
    simp only [List.cons_append, lastDotAux, List.length_cons]
    rw [ih]
    congr 1; omega

/-- "a.service.path" + "." + "Method" splits back into the two parts -/
theorem splitMethod_join (path method : Bytes) (hp : path ≠ []) (hm : ∀ x ∈ method, x ≠ 0x2E#8) :
    splitMethod (path ++ 0x2E#8 :: method) = some (path, method) := by
  unfold splitMethod
  rw [lastDotAux_append path method hm 0 none, Nat.zero_add]
  cases hl : path.length with
  | zero => exact absurd (List.length_eq_zero_iff.mp hl) hp
  | succ k =>
    simp only []
    rw [← hl]
    simp

end Rpcx.Gw
