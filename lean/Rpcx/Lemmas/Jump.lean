import Rpcx.Model.Select
/-
  Monotonicity of the doublejump holder under additions (helper lemmas for C13).
  `JumpOK jh` is the contract of jump consistent hash: `jh key n` is a bucket below `n`, and
  growing the bucket count by one either keeps the bucket or moves the key to the NEW bucket.
-/
namespace Rpcx.Sel

def JumpOK (jh : Nat → Nat → Nat) : Prop :=
  ∀ key n, (0 < n → jh key n < n) ∧ (jh key (n + 1) = jh key n ∨ jh key (n + 1) = n)

/-- the compact fall-back of `Get` -/
def DJ.fb (jh : Nat → Nat → Nat) (ca : List String) (key : Nat) : Option String :=
  if ca.isEmpty then none else
  ca[jh ((key * 0xc6a4a7935bd1e995) % 18446744073709551616) ca.length]?

/-- the loose look-up of `Get` with the fall-back value abstracted -/
def DJ.loose (jh : Nat → Nat → Nat) (la : List (Option String)) (key : Nat) (fb : Option String) : Option String :=
  if la.isEmpty then none else
  match la[jh key la.length]? with
  | some (some s) => some s
  | _ => fb

theorem DJ.get_eq (jh : Nat → Nat → Nat) (d : DJ) (key : Nat) :
    d.get jh key = DJ.loose jh d.la key (DJ.fb jh d.ca key) := by
  unfold DJ.get DJ.loose DJ.fb
  rfl

theorem fb_append (jh : Nat → Nat → Nat) (hj : JumpOK jh) (ca : List String) (s : String) (key : Nat) :
    DJ.fb jh (ca ++ [s]) key = DJ.fb jh ca key ∨ DJ.fb jh (ca ++ [s]) key = some s := by
  unfold DJ.fb
  generalize (key * 0xc6a4a7935bd1e995) % 18446744073709551616 = k2
  have hne : (ca ++ [s]).isEmpty = false := by cases ca <;> simp
  simp only [hne, Bool.false_eq_true, if_false, List.length_append, List.length_singleton]
  rcases (hj k2 ca.length).2 with h | h
  · by_cases hc : ca = []
    · subst hc
      have := (hj k2 0).1
      have h1 : jh k2 (0 + 1) < 1 := (hj k2 1).1 (by omega)
      right
      simp only [List.length_nil, List.nil_append] at h1 ⊢
      have : jh k2 (0 + 1) = 0 := by omega
      rw [this]; rfl
    · have hpos : 0 < ca.length := List.length_pos_iff.mpr hc
      have hlt := (hj k2 ca.length).1 hpos
      left
      have he : ca.isEmpty = false := by cases ca <;> simp_all
      rw [h, List.getElem?_append_left hlt, he]
      simp
  · right
    rw [h]
    simp

theorem fb_add (jh : Nat → Nat → Nat) (hj : JumpOK jh) (d : DJ) (s : String) (key : Nat) :
    DJ.fb jh (d.add s).ca key = DJ.fb jh d.ca key ∨ DJ.fb jh (d.add s).ca key = some s := by
  simp only [DJ.add]
  split
  · left; rfl
  · exact fb_append jh hj d.ca s key

theorem loose_fb (jh : Nat → Nat → Nat) (la : List (Option String)) (key : Nat) (f f' : Option String) (s : String)
    (h : f' = f ∨ f' = some s) :
    DJ.loose jh la key f' = DJ.loose jh la key f ∨ DJ.loose jh la key f' = some s := by
  unfold DJ.loose
  split
  · left; rfl
  · split
    · left; rfl
    · exact h

/-- **one addition**: every key keeps its server or moves to the added one -/
theorem add_get_mono (jh : Nat → Nat → Nat) (hj : JumpOK jh) (d : DJ) (s : String) (key : Nat) :
    (d.add s).get jh key = d.get jh key ∨ (d.add s).get jh key = some s := by
  rw [DJ.get_eq, DJ.get_eq]
  have hfb := fb_add jh hj d s key
  by_cases hc : d.la.contains (some s) = true
  · have hm : some s ∈ d.la := by simpa using hc
    have hla : (d.add s).la = d.la := by simp [DJ.add, hm]
    rw [hla]
    exact loose_fb jh d.la key _ _ s hfb
  · have hc' : ¬ some s ∈ d.la := by simpa using hc
    cases hl : d.lf.getLast? with
    | none =>
      have hla : (d.add s).la = d.la ++ [some s] := by simp [DJ.add, hc', hl]
      rw [hla]
      by_cases hemp : d.la = []
      · right
        have h1 : jh key (0 + 1) < 1 := (hj key 1).1 (by omega)
        have h0 : jh key (0 + 1) = 0 := by omega
        simp [DJ.loose, hemp, h0]
      · have hpos : 0 < d.la.length := List.length_pos_iff.mpr hemp
        have hlt := (hj key d.la.length).1 hpos
        have hne : (d.la ++ [some s]).isEmpty = false := by cases d.la <;> simp
        have hne0 : d.la.isEmpty = false := by cases hd : d.la <;> simp_all
        rcases (hj key d.la.length).2 with h | h
        · -- same bucket
          have e : (d.la ++ [some s])[jh key (d.la ++ [some s]).length]? = d.la[jh key d.la.length]? := by
            simp only [List.length_append, List.length_singleton, h]
            exact List.getElem?_append_left hlt
          unfold DJ.loose
          rw [hne, hne0, e]
          simp only [Bool.false_eq_true, if_false]
          split
          · left; rfl
          · exact hfb
        · right
          unfold DJ.loose
          simp [hne, h]
    | some idx =>
      have hla : (d.add s).la = d.la.set idx (some s) := by simp [DJ.add, hc', hl]
      rw [hla]
      unfold DJ.loose
      by_cases hemp : d.la = []
      · left; simp [hemp]
      · have hne0 : d.la.isEmpty = false := by cases hd : d.la <;> simp_all
        have hne : (d.la.set idx (some s)).isEmpty = false := by
          cases hd : d.la <;> simp_all
        rw [hne, hne0]
        simp only [Bool.false_eq_true, if_false, List.length_set]
        by_cases hi : idx = jh key d.la.length
        · right
          have hpos : 0 < d.la.length := List.length_pos_iff.mpr hemp
          have hlt := (hj key d.la.length).1 hpos
          subst hi
          simp [List.getElem?_set_self hlt]
        · rw [List.getElem?_set_ne hi]
          split
          · left; rfl
          · exact hfb

end Rpcx.Sel

namespace Rpcx.Sel

/-- the free list of the loose holder is duplicate-free and points at empty slots only -/
def DJ.WF (d : DJ) : Prop := d.lf.Nodup ∧ ∀ i ∈ d.lf, d.la[i]? = some none

theorem wf_empty : DJ.empty.WF := by simp [DJ.WF, DJ.empty]

theorem getLast?_mem {α : Type} (l : List α) (a : α) (h : l.getLast? = some a) : a ∈ l :=
  List.mem_of_getLast? h

theorem wf_add (d : DJ) (s : String) (h : d.WF) : (d.add s).WF := by
  obtain ⟨hn, hf⟩ := h
  by_cases hm : some s ∈ d.la
  · have e1 : (d.add s).la = d.la := by simp [DJ.add, hm]
    have e2 : (d.add s).lf = d.lf := by simp [DJ.add, hm]
    exact ⟨by rw [e2]; exact hn, by rw [e1, e2]; exact hf⟩
  · have e2 : (d.add s).lf = d.lf.dropLast := by simp [DJ.add, hm]
    cases hl : d.lf.getLast? with
    | none =>
      have : d.lf = [] := List.getLast?_eq_none_iff.mp hl
      refine ⟨by rw [e2, this]; simp, ?_⟩
      intro i hi
      rw [e2, this] at hi
      simp at hi
    | some idx =>
      have e1 : (d.add s).la = d.la.set idx (some s) := by simp [DJ.add, hm, hl]
      have hsplit : d.lf = d.lf.dropLast ++ [idx] := by
        have hne : d.lf ≠ [] := by intro e; rw [e] at hl; cases hl
        have h1 := List.dropLast_concat_getLast hne
        have h2 : d.lf.getLast hne = idx := by
          have := List.getLast?_eq_some_getLast hne
          rw [hl] at this
          exact (Option.some.inj this).symm
        rw [h2] at h1
        exact h1.symm
      have hnd : (d.lf.dropLast ++ [idx]).Nodup := by rw [← hsplit]; exact hn
      have hnd' := List.nodup_append.mp hnd
      refine ⟨by rw [e2]; exact hnd'.1, ?_⟩
      intro i hi
      rw [e2] at hi
      have hne : idx ≠ i := by
        intro e
        subst e
        exact hnd'.2.2 idx hi idx (by simp) rfl
      rw [e1, List.getElem?_set_ne hne]
      exact hf i (by rw [hsplit]; exact List.mem_append_left _ hi)

/-- every key of `ks` is in both holders -/
def DJ.Has (d : DJ) (ks : List String) : Prop := ∀ k ∈ ks, some k ∈ d.la ∧ k ∈ d.ca

theorem add_noop (d : DJ) (s : String) (h1 : some s ∈ d.la) (h2 : s ∈ d.ca) : d.add s = d := by
  simp [DJ.add, h1, h2]

theorem has_add (d : DJ) (s : String) (ks : List String) (hw : d.WF) (h : d.Has ks) : (d.add s).Has ks := by
  intro k hk
  obtain ⟨h1, h2⟩ := h k hk
  constructor
  · by_cases hm : some s ∈ d.la
    · have e1 : (d.add s).la = d.la := by simp [DJ.add, hm]
      rw [e1]; exact h1
    · cases hl : d.lf.getLast? with
      | none =>
        have e1 : (d.add s).la = d.la ++ [some s] := by simp [DJ.add, hm, hl]
        rw [e1]; exact List.mem_append_left _ h1
      | some idx =>
        have e1 : (d.add s).la = d.la.set idx (some s) := by simp [DJ.add, hm, hl]
        rw [e1]
        obtain ⟨j, hj⟩ := List.mem_iff_getElem?.mp h1
        have hidx := hw.2 idx (getLast?_mem _ _ hl)
        have hne : idx ≠ j := by
          intro e; subst e; rw [hidx] at hj; cases hj
        apply List.mem_iff_getElem?.mpr
        exact ⟨j, by rw [List.getElem?_set_ne hne]; exact hj⟩
  · simp only [DJ.add]
    split
    · exact h2
    · exact List.mem_append_left _ h2

theorem has_self_add (d : DJ) (s : String) (hw : d.WF) : (d.add s).Has [s] := by
  intro k hk
  have : k = s := by simpa using hk
  subst this
  constructor
  · by_cases hm : some k ∈ d.la
    · have e1 : (d.add k).la = d.la := by simp [DJ.add, hm]
      rw [e1]; exact hm
    · cases hl : d.lf.getLast? with
      | none =>
        have e1 : (d.add k).la = d.la ++ [some k] := by simp [DJ.add, hm, hl]
        rw [e1]; simp
      | some idx =>
        have e1 : (d.add k).la = d.la.set idx (some k) := by simp [DJ.add, hm, hl]
        rw [e1]
        have hidx := hw.2 idx (getLast?_mem _ _ hl)
        have hlt : idx < d.la.length := by
          rcases Nat.lt_or_ge idx d.la.length with h | h
          · exact h
          · rw [List.getElem?_eq_none h] at hidx; cases hidx
        apply List.mem_iff_getElem?.mpr
        exact ⟨idx, List.getElem?_set_self hlt⟩
  · simp only [DJ.add]
    split
    · rename_i hc; simpa using hc
    · simp

/-- folding additions: well-formedness is kept, everything that was present stays present, and
    everything added is present -/
theorem fold_add_inv : ∀ (ss : List String) (d : DJ) (old : List String), d.WF → d.Has old →
    (ss.foldl DJ.add d).WF ∧ (ss.foldl DJ.add d).Has old ∧ (ss.foldl DJ.add d).Has ss := by
  intro ss
  induction ss with
  | nil => intro d old hw ho; exact ⟨hw, ho, by intro k hk; cases hk⟩
  | cons s rest ih =>
    intro d old hw ho
    have hw1 := wf_add d s hw
    have ho1 := has_add d s old hw ho
    have hs1 := has_self_add d s hw
    have hcomb : (d.add s).Has (s :: old) := by
      intro k hk
      rcases List.mem_cons.mp hk with rfl | hk
      · exact hs1 k (by simp)
      · exact ho1 k hk
    obtain ⟨a, b, c⟩ := ih (d.add s) (s :: old) hw1 hcomb
    refine ⟨a, fun k hk => b k (List.mem_cons_of_mem _ hk), ?_⟩
    intro k hk
    rcases List.mem_cons.mp hk with rfl | hk
    · exact b k (by simp)
    · exact c k hk

/-- **a batch of additions**: every key keeps its server or moves to one of the servers that were
    not there before -/
theorem fold_add_mono (jh : Nat → Nat → Nat) (hj : JumpOK jh) (old : List String) (key : Nat) :
    ∀ (ss : List String) (d : DJ), d.WF → d.Has old →
      (ss.foldl DJ.add d).get jh key = d.get jh key ∨
      ∃ s ∈ ss, s ∉ old ∧ (ss.foldl DJ.add d).get jh key = some s := by
  intro ss
  induction ss with
  | nil => intro d _ _; left; rfl
  | cons s rest ih =>
    intro d hw ho
    by_cases hs : s ∈ old
    · -- already there: adding it again changes nothing
      have e : d.add s = d := add_noop d s (ho s hs).1 (ho s hs).2
      rw [List.foldl_cons, e]
      rcases ih d hw ho with h | ⟨t, ht, hn, hv⟩
      · left; exact h
      · right; exact ⟨t, List.mem_cons_of_mem _ ht, hn, hv⟩
    · rw [List.foldl_cons]
      have hw1 := wf_add d s hw
      have ho1 := has_add d s old hw ho
      rcases ih (d.add s) hw1 ho1 with h | ⟨t, ht, hn, hv⟩
      · rcases add_get_mono jh hj d s key with h2 | h2
        · left; rw [h, h2]
        · right; exact ⟨s, by simp, hs, by rw [h, h2]⟩
      · right; exact ⟨t, List.mem_cons_of_mem _ ht, hn, hv⟩

end Rpcx.Sel
