import Rpcx.Model.Wire
/-
  Semantics of the pooled-buffer encoder: performing the (regenerated) list of writes of
  `EncodeSlicePointer` into a buffer of the (regenerated) length yields exactly the frame that
  the streaming encoder `WriteTo` produces – whatever stale bytes the pooled buffer held.
-/
namespace Rpcx
open Rpcx.Gen

theorem writeAt_append (done tail src : Bytes) :
    writeAt (done ++ tail) done.length src = (done ++ src) ++ tail.drop src.length := by
  unfold writeAt
  rw [List.take_left' rfl, List.drop_append, List.drop_eq_nil_of_le (by omega)]
  simp

/-- `binary.BigEndian.PutUint32(buf[lo:hi], v)` right after the bytes written so far -/
theorem applyBlit_u32 (env : Src → Bytes) (done tail : Bytes) (lo hi v : Nat)
    (hlo : lo = done.length) (hhi : hi = lo + 4) (h4 : 4 ≤ tail.length) :
    applyBlit env (done ++ tail) (.u32 lo (some hi) v) = some ((done ++ be32 v) ++ tail.drop 4) := by
  subst hlo; subst hhi
  simp only [applyBlit, Option.getD_some, List.length_append]
  rw [if_pos (by omega)]
  rw [writeAt_append]
  simp

/-- `copy(buf[lo:hi], src)` with `hi - lo = len(src)` -/
theorem applyBlit_copy_some (env : Src → Bytes) (done tail : Bytes) (lo hi : Nat) (s : Src)
    (hlo : lo = done.length) (hhi : hi = lo + (env s).length) (hfit : (env s).length ≤ tail.length) :
    applyBlit env (done ++ tail) (.copy lo (some hi) s) = some ((done ++ env s) ++ tail.drop (env s).length) := by
  subst hlo; subst hhi
  simp only [applyBlit, Option.getD_some, List.length_append]
  rw [if_pos (by omega)]
  have : done.length + (env s).length - done.length = (env s).length := by omega
  rw [this, List.take_length, writeAt_append]

/-- `copy(buf[lo:], src)` where the source fits -/
theorem applyBlit_copy_none (env : Src → Bytes) (done tail : Bytes) (lo : Nat) (s : Src)
    (hlo : lo = done.length) (hfit : (env s).length ≤ tail.length) :
    applyBlit env (done ++ tail) (.copy lo none s) = some ((done ++ env s) ++ tail.drop (env s).length) := by
  subst hlo
  simp only [applyBlit, Option.getD_none, List.length_append]
  rw [if_pos (by omega)]
  rw [List.take_of_length_le (by omega), writeAt_append]

/-- the canonical write list (header at 0, total at 12, then each section's length and bytes
    back to back) fills a buffer of the right length with the frame -/
theorem applyBlits_frame (h : Header) (path method metaB pay buf : Bytes)
    (hbuf : buf.length = 12 + 4 + ((4 + path.length) + (4 + method.length) + (4 + metaB.length) + (4 + pay.length))) :
    applyBlits (fun | .header => h.toBytes | .path => path | .method => method | .mdata => metaB | .payload => pay) buf
      [ .copy 0 none .header,
        .u32 12 (some 16) ((4 + path.length) + (4 + method.length) + (4 + metaB.length) + (4 + pay.length)),
        .u32 16 (some 20) path.length,
        .copy 20 (some (20 + path.length)) .path,
        .u32 (20 + path.length) (some (24 + path.length)) method.length,
        .copy (24 + path.length) (some (24 + path.length + method.length)) .method,
        .u32 (24 + path.length + method.length) (some (28 + path.length + method.length)) metaB.length,
        .copy (28 + path.length + method.length) none .mdata,
        .u32 (28 + path.length + method.length + metaB.length) (some (32 + path.length + method.length + metaB.length)) pay.length,
        .copy (32 + path.length + method.length + metaB.length) none .payload ]
      = some (frameOf h path method metaB pay) := by
  let env : Src → Bytes := fun | .header => h.toBytes | .path => path | .method => method | .mdata => metaB | .payload => pay
  show applyBlits env buf _ = _
  have eh : env .header = h.toBytes := rfl
  have ep : env .path = path := rfl
  have em : env .method = method := rfl
  have ed : env .mdata = metaB := rfl
  have ey : env .payload = pay := rfl
  simp only [applyBlits]
  have e0 : buf = ([] : Bytes) ++ buf := rfl
  rw [e0, applyBlit_copy_none env [] buf 0 .header rfl (by rw [eh]; simp; omega)]
  simp only [Option.bind_some, List.nil_append]
  rw [applyBlit_u32 env _ _ _ _ _ (by rw [eh]; simp) (by omega) (by rw [eh]; simp; omega)]
  simp only [Option.bind_some]
  rw [applyBlit_u32 env _ _ _ _ _ (by rw [eh]; simp) (by omega) (by rw [eh]; simp; omega)]
  simp only [Option.bind_some]
  rw [applyBlit_copy_some env _ _ _ _ .path (by rw [eh]; simp) (by rw [ep]) (by rw [ep, eh]; simp; omega)]
  simp only [Option.bind_some]
  rw [applyBlit_u32 env _ _ _ _ _ (by rw [eh, ep]; simp; omega) (by omega) (by rw [eh, ep]; simp; omega)]
  simp only [Option.bind_some]
  rw [applyBlit_copy_some env _ _ _ _ .method (by rw [eh, ep]; simp; omega) (by rw [em]) (by rw [em, eh, ep]; simp; omega)]
  simp only [Option.bind_some]
  rw [applyBlit_u32 env _ _ _ _ _ (by rw [eh, ep, em]; simp; omega) (by omega) (by rw [eh, ep, em]; simp; omega)]
  simp only [Option.bind_some]
  rw [applyBlit_copy_none env _ _ _ .mdata (by rw [eh, ep, em]; simp; omega) (by rw [ed, eh, ep, em]; simp; omega)]
  simp only [Option.bind_some]
  rw [applyBlit_u32 env _ _ _ _ _ (by rw [eh, ep, em, ed]; simp; omega) (by omega) (by rw [eh, ep, em, ed]; simp; omega)]
  simp only [Option.bind_some]
  rw [applyBlit_copy_none env _ _ _ .payload (by rw [eh, ep, em, ed]; simp; omega) (by rw [ey, eh, ep, em, ed]; simp; omega)]
  rw [eh, ep, em, ed, ey]
  -- nothing of the stale buffer is left
  rw [List.drop_eq_nil_of_le (by simp; omega)]
  simp [frameOf]
