import Rpcx.Lemmas.Jump
/-
  Removal from the doublejump holder: what is left, and which invariants survive.
-/
namespace Rpcx.Sel

theorem idxOf_decomp {α : Type} [BEq α] [LawfulBEq α] (l : List α) (s : α) (idx : Nat) (h : l.idxOf? s = some idx) :
    ∃ l1 l2, l = l1 ++ s :: l2 ∧ l1.length = idx := by
  have h' : l.findIdx? (· == s) = some idx := h
  obtain ⟨hlt, hp, _⟩ := List.findIdx?_eq_some_iff_getElem.mp h'
  have he : l[idx] = s := by simpa using hp
  refine ⟨l.take idx, l.drop (idx + 1), ?_, by simp [List.length_take]; omega⟩
  have := List.take_append_drop idx l
  rw [← List.getElem_cons_drop hlt, he] at this
  exact this.symm

/-- the compact holder after `Remove` -/
def removeCa (ca : List String) (s : String) : List String :=
  match ca.idxOf? s with
  | none => ca
  | some idx =>
    match ca.getLast? with
    | none => ca
    | some last => (ca.set idx last).dropLast

theorem remove_ca (d : DJ) (s : String) : (d.remove s).ca = removeCa d.ca s := by
  unfold DJ.remove removeCa
  rfl

theorem removeCa_spec (ca : List String) (s : String) (hn : ca.Nodup) :
    (removeCa ca s).Nodup ∧ ∀ k, k ∈ removeCa ca s ↔ (k ∈ ca ∧ k ≠ s) := by
  unfold removeCa
  cases hi : ca.idxOf? s with
  | none =>
    have hs : ¬ s ∈ ca := List.idxOf?_eq_none_iff.mp hi
    refine ⟨hn, ?_⟩
    intro k
    constructor
    · intro hk; exact ⟨hk, fun e => hs (e ▸ hk)⟩
    · intro hk; exact hk.1
  | some idx =>
    obtain ⟨l1, l2, rfl, hlen⟩ := idxOf_decomp ca s idx hi
    rcases List.eq_nil_or_concat l2 with rfl | ⟨l2', last, h2⟩
    · -- the removed element is the last one
      have hl : (l1 ++ [s]).getLast? = some s := List.getLast?_concat
      simp only [hl]
      have hset : (l1 ++ [s]).set idx s = l1 ++ [s] := by
        rw [List.set_append]
        have : ¬ idx < l1.length := by omega
        simp [this, hlen]
      rw [hset, List.dropLast_concat]
      have hn' := List.nodup_append.mp hn
      refine ⟨hn'.1, ?_⟩
      intro k
      simp only [List.mem_append, List.mem_singleton]
      constructor
      · intro hk
        refine ⟨Or.inl hk, ?_⟩
        intro e; subst e
        exact hn'.2.2 k hk k (by simp) rfl
      · rintro ⟨hk | hk, hne⟩
        · exact hk
        · exact absurd hk hne
    · rw [List.concat_eq_append] at h2
      subst h2
      have hl : (l1 ++ s :: (l2' ++ [last])).getLast? = some last := by
        have : l1 ++ s :: (l2' ++ [last]) = (l1 ++ s :: l2') ++ [last] := by simp
        rw [this]; exact List.getLast?_concat
      simp only [hl]
      have hset : (l1 ++ s :: (l2' ++ [last])).set idx last = (l1 ++ last :: l2') ++ [last] := by
        rw [List.set_append]
        have : ¬ idx < l1.length := by omega
        simp [this, hlen]
      rw [hset, List.dropLast_concat]
      have hn2 : (l1 ++ s :: (l2' ++ [last])).Nodup := hn
      simp only [List.nodup_append, List.nodup_cons, List.mem_append, List.mem_cons, List.mem_singleton,
        List.nodup_nil, List.not_mem_nil] at hn2 ⊢
      constructor
      · grind
      · intro k
        grind

end Rpcx.Sel

namespace Rpcx.Sel

/-- no server occupies two loose slots, none is twice in the compact holder -/
def DJ.Uniq (d : DJ) : Prop :=
  (∀ (i j : Nat) (s : String), d.la[i]? = some (some s) → d.la[j]? = some (some s) → i = j) ∧ d.ca.Nodup

theorem uniq_empty : DJ.empty.Uniq := by
  refine ⟨?_, by simp [DJ.empty]⟩
  intro i j s h
  simp [DJ.empty] at h

theorem remove_la_none (d : DJ) (s : String) (h : d.la.idxOf? (some s) = none) :
    (d.remove s).la = d.la ∧ (d.remove s).lf = d.lf := by
  unfold DJ.remove; rw [h]; exact ⟨rfl, rfl⟩

theorem remove_la_some (d : DJ) (s : String) (idx : Nat) (h : d.la.idxOf? (some s) = some idx) :
    (d.remove s).la = d.la.set idx none ∧ (d.remove s).lf = d.lf ++ [idx] := by
  unfold DJ.remove; rw [h]; exact ⟨rfl, rfl⟩

theorem idxOf_getElem {α : Type} [BEq α] [LawfulBEq α] (l : List α) (a : α) (idx : Nat) (h : l.idxOf? a = some idx) :
    l[idx]? = some a := by
  have h' : l.findIdx? (· == a) = some idx := h
  obtain ⟨hlt, hp, _⟩ := List.findIdx?_eq_some_iff_getElem.mp h'
  have he : l[idx] = a := by simpa using hp
  rw [List.getElem?_eq_getElem hlt, he]

theorem wf_remove (d : DJ) (s : String) (h : d.WF) : (d.remove s).WF := by
  obtain ⟨hn, hf⟩ := h
  cases hi : d.la.idxOf? (some s) with
  | none =>
    obtain ⟨e1, e2⟩ := remove_la_none d s hi
    exact ⟨by rw [e2]; exact hn, by rw [e1, e2]; exact hf⟩
  | some idx =>
    obtain ⟨e1, e2⟩ := remove_la_some d s idx hi
    have hel := idxOf_getElem d.la (some s) idx hi
    have hlt : idx < d.la.length := by
      rcases Nat.lt_or_ge idx d.la.length with h | h
      · exact h
      · rw [List.getElem?_eq_none h] at hel; cases hel
    have hnot : idx ∉ d.lf := by
      intro hm
      have := hf idx hm
      rw [hel] at this
      cases this
    refine ⟨?_, ?_⟩
    · rw [e2]
      apply List.nodup_append.mpr
      refine ⟨hn, by simp, ?_⟩
      intro a ha b hb e
      have : b = idx := by simpa using hb
      subst this; subst e
      exact hnot ha
    · intro i hi2
      rw [e1, e2] at *
      rcases List.mem_append.mp hi2 with hm | hm
      · have hne : idx ≠ i := by intro e; subst e; exact hnot hm
        rw [List.getElem?_set_ne hne]
        exact hf i hm
      · have : i = idx := by simpa using hm
        subst this
        exact List.getElem?_set_self hlt

theorem uniq_remove (d : DJ) (s : String) (h : d.Uniq) : (d.remove s).Uniq := by
  obtain ⟨hu, hn⟩ := h
  refine ⟨?_, by rw [remove_ca]; exact (removeCa_spec d.ca s hn).1⟩
  cases hi : d.la.idxOf? (some s) with
  | none => rw [(remove_la_none d s hi).1]; exact hu
  | some idx =>
    rw [(remove_la_some d s idx hi).1]
    intro i j t h1 h2
    rw [List.getElem?_set] at h1 h2
    split at h1
    · split at h1 <;> cases h1
    · split at h2
      · split at h2 <;> cases h2
      · exact hu i j t h1 h2

theorem uniq_add (d : DJ) (s : String) (hw : d.WF) (h : d.Uniq) : (d.add s).Uniq := by
  obtain ⟨hu, hn⟩ := h
  constructor
  · by_cases hm : some s ∈ d.la
    · have e1 : (d.add s).la = d.la := by simp [DJ.add, hm]
      rw [e1]; exact hu
    · have hnot : ∀ (i : Nat), d.la[i]? ≠ some (some s) := by
        intro i hi; exact hm (List.mem_of_getElem? hi)
      cases hl : d.lf.getLast? with
      | none =>
        have e1 : (d.add s).la = d.la ++ [some s] := by simp [DJ.add, hm, hl]
        rw [e1]
        intro i j t h1 h2
        rw [List.getElem?_append] at h1 h2
        split at h1
        · split at h2
          · exact hu i j t h1 h2
          · rename_i hj
            have : j - d.la.length = 0 := by
              rcases Nat.eq_zero_or_pos (j - d.la.length) with h | h
              · exact h
              · rw [List.getElem?_eq_none (by simp; omega)] at h2; cases h2
            rw [this] at h2
            simp at h2
            subst h2
            exact absurd h1 (hnot i)
        · rename_i hi
          have hi0 : i - d.la.length = 0 := by
            rcases Nat.eq_zero_or_pos (i - d.la.length) with h | h
            · exact h
            · rw [List.getElem?_eq_none (by simp; omega)] at h1; cases h1
          rw [hi0] at h1
          simp at h1
          subst h1
          split at h2
          · exact absurd h2 (hnot j)
          · rename_i hj
            have hj0 : j - d.la.length = 0 := by
              rcases Nat.eq_zero_or_pos (j - d.la.length) with h | h
              · exact h
              · rw [List.getElem?_eq_none (by simp; omega)] at h2; cases h2
            omega
      | some idx =>
        have e1 : (d.add s).la = d.la.set idx (some s) := by simp [DJ.add, hm, hl]
        rw [e1]
        intro i j t h1 h2
        rw [List.getElem?_set] at h1 h2
        split at h1
        · rename_i hi
          split at h1
          · have ht : t = s := by cases h1; rfl
            subst ht
            split at h2
            · rename_i hj; omega
            · exact absurd h2 (hnot j)
          · cases h1
        · split at h2
          · rename_i hj
            split at h2
            · have ht : t = s := by cases h2; rfl
              subst ht
              exact absurd h1 (hnot i)
            · cases h2
          · exact hu i j t h1 h2
  · simp only [DJ.add]
    split
    · exact hn
    · rename_i hc
      have hnot : s ∉ d.ca := by simpa using hc
      apply List.nodup_append.mpr
      refine ⟨hn, by simp, ?_⟩
      intro a ha b hb e
      have : b = s := by simpa using hb
      subst this; subst e
      exact hnot ha

/-- what is in the holder after an addition was there before, or is the added server -/
theorem add_members (d : DJ) (s : String) (k : String) :
    (some k ∈ (d.add s).la → some k ∈ d.la ∨ k = s) ∧ (k ∈ (d.add s).ca → k ∈ d.ca ∨ k = s) := by
  constructor
  · by_cases hm : some s ∈ d.la
    · have e1 : (d.add s).la = d.la := by simp [DJ.add, hm]
      rw [e1]; exact Or.inl
    · cases hl : d.lf.getLast? with
      | none =>
        have e1 : (d.add s).la = d.la ++ [some s] := by simp [DJ.add, hm, hl]
        rw [e1]
        intro h
        rcases List.mem_append.mp h with h | h
        · exact Or.inl h
        · right; simpa using h
      | some idx =>
        have e1 : (d.add s).la = d.la.set idx (some s) := by simp [DJ.add, hm, hl]
        rw [e1]
        intro h
        rcases List.mem_or_eq_of_mem_set h with h | h
        · exact Or.inl h
        · right; cases h; rfl
  · simp only [DJ.add]
    split
    · exact Or.inl
    · intro h
      rcases List.mem_append.mp h with h | h
      · exact Or.inl h
      · right; simpa using h

/-- after a removal: the removed server is gone from both holders, every other one stays, nothing appears -/
theorem remove_members (d : DJ) (s : String) (hu : d.Uniq) (k : String) :
    (some k ∈ (d.remove s).la ↔ (some k ∈ d.la ∧ k ≠ s)) ∧ (k ∈ (d.remove s).ca ↔ (k ∈ d.ca ∧ k ≠ s)) := by
  refine ⟨?_, by rw [remove_ca]; exact (removeCa_spec d.ca s hu.2).2 k⟩
  cases hi : d.la.idxOf? (some s) with
  | none =>
    rw [(remove_la_none d s hi).1]
    have hs : ¬ some s ∈ d.la := List.idxOf?_eq_none_iff.mp hi
    constructor
    · intro hk; exact ⟨hk, fun e => hs (e ▸ hk)⟩
    · intro hk; exact hk.1
  | some idx =>
    rw [(remove_la_some d s idx hi).1]
    have hel := idxOf_getElem d.la (some s) idx hi
    constructor
    · intro hk
      obtain ⟨j, hj⟩ := List.mem_iff_getElem?.mp hk
      rw [List.getElem?_set] at hj
      split at hj
      · split at hj <;> cases hj
      · rename_i hne
        refine ⟨List.mem_of_getElem? hj, ?_⟩
        intro e; subst e
        exact hne (hu.1 idx j k hel hj)
    · rintro ⟨hk, hne⟩
      obtain ⟨j, hj⟩ := List.mem_iff_getElem?.mp hk
      have hji : idx ≠ j := by
        intro e; subst e
        rw [hel] at hj
        cases hj
        exact hne rfl
      apply List.mem_iff_getElem?.mpr
      exact ⟨j, by rw [List.getElem?_set_ne hji]; exact hj⟩

end Rpcx.Sel
