import Rpcx.Model.Query
namespace Rpcx.Query
open Rpcx

/-! ### one byte -/

def specB (c : Byte) : Bool :=
  if c == 0x20#8 then escByte c == [0x2B#8]
  else if unreserved c then escByte c == [c] && c != 0x25#8 && c != 0x2B#8
  else escByte c == [0x25#8, upperHex (c.toNat / 16), upperHex (c.toNat % 16)]
    && unhex (upperHex (c.toNat / 16)) == some (c.toNat / 16) && unhex (upperHex (c.toNat % 16)) == some (c.toNat % 16)
    && BitVec.ofNat 8 (c.toNat / 16 * 16 + c.toNat % 16) == c

theorem specB_all : ∀ c : Byte, specB c = true := by decide +kernel

theorem escByte_spec (c : Byte) :
    (c = 0x20#8 ∧ escByte c = [0x2B#8])
    ∨ (c ≠ 0x20#8 ∧ unreserved c = true ∧ escByte c = [c] ∧ c ≠ 0x25#8 ∧ c ≠ 0x2B#8)
    ∨ (c ≠ 0x20#8 ∧ unreserved c = false ∧ escByte c = [0x25#8, upperHex (c.toNat / 16), upperHex (c.toNat % 16)]
        ∧ unhex (upperHex (c.toNat / 16)) = some (c.toNat / 16) ∧ unhex (upperHex (c.toNat % 16)) = some (c.toNat % 16)
        ∧ BitVec.ofNat 8 (c.toNat / 16 * 16 + c.toNat % 16) = c) := by
  have h := specB_all c
  unfold specB at h
  split at h
  · rename_i hc
    exact Or.inl ⟨by simpa using hc, by simpa using h⟩
  · rename_i hc
    split at h
    · rename_i hu
      simp only [Bool.and_eq_true, beq_iff_eq, bne_iff_ne, ne_eq] at h
      exact Or.inr (Or.inl ⟨by simpa using hc, hu, h.1.1, h.1.2, h.2⟩)
    · rename_i hu
      simp only [Bool.and_eq_true, beq_iff_eq] at h
      exact Or.inr (Or.inr ⟨by simpa using hc, by simpa using hu, h.1.1.1, h.1.1.2, h.1.2, h.2⟩)

theorem cleanB_all : ∀ c : Byte, (escByte c).all (fun x => x != 0x26#8 && x != 0x3D#8 && x != 0x3B#8) = true := by
  decide +kernel

/-- no separator byte ('&', '=', ';') is ever produced by escaping -/
theorem escByte_clean (c : Byte) : ∀ x ∈ escByte c, x ≠ 0x26#8 ∧ x ≠ 0x3D#8 ∧ x ≠ 0x3B#8 := by
  intro x hx
  have h := cleanB_all c
  rw [List.all_eq_true] at h
  have := h x hx
  simp only [Bool.and_eq_true, bne_iff_ne, ne_eq] at this
  exact ⟨this.1.1, this.1.2, this.2⟩

theorem escape_clean (b : Bytes) : ∀ x ∈ escape b, x ≠ 0x26#8 ∧ x ≠ 0x3D#8 ∧ x ≠ 0x3B#8 := by
  induction b with
  | nil => intro x hx; simp [escape] at hx
  | cons c r ih =>
    intro x hx
    simp only [escape, List.mem_append] at hx
    rcases hx with h | h
    · exact escByte_clean c x h
    · exact ih x h

theorem unescape_plus (r : Bytes) : unescape (0x2B#8 :: r) = (unescape r).map (0x20#8 :: ·) := by
  rcases r with _ | ⟨a, _ | ⟨b, r'⟩⟩ <;> simp [unescape]

theorem unescape_plain (c : Byte) (r : Bytes) (h1 : c ≠ 0x25#8) (h2 : c ≠ 0x2B#8) :
    unescape (c :: r) = (unescape r).map (c :: ·) := by
  rcases r with _ | ⟨a, _ | ⟨b, r'⟩⟩ <;> simp [unescape, h1, h2]

theorem unescape_pct (a b : Byte) (r : Bytes) (x y : Nat) (hx : unhex a = some x) (hy : unhex b = some y) :
    unescape (0x25#8 :: a :: b :: r) = (unescape r).map (BitVec.ofNat 8 (x * 16 + y) :: ·) := by
  rw [unescape]
  simp [hx, hy]

/-- **url.QueryUnescape ∘ url.QueryEscape = id**, for every byte string -/
theorem unescape_escape (b : Bytes) : unescape (escape b) = some b := by
  induction b with
  | nil => rfl
  | cons c r ih =>
    simp only [escape]
    rcases escByte_spec c with ⟨hc, he⟩ | ⟨_, _, he, h1, h2⟩ | ⟨_, _, he, hx, hy, hb⟩
    · rw [he]; subst hc
      simp only [List.cons_append, List.nil_append]
      rw [unescape_plus, ih]; rfl
    · rw [he]
      simp only [List.cons_append, List.nil_append]
      rw [unescape_plain _ _ h1 h2, ih]; rfl
    · rw [he]
      simp only [List.cons_append, List.nil_append]
      rw [unescape_pct _ _ _ _ _ hx hy, ih, hb]; rfl

/-! ### splitting -/

theorem splitOn_ne_nil (sep : Byte) (b : Bytes) : splitOn sep b ≠ [] := by
  induction b with
  | nil => simp [splitOn]
  | cons c r ih =>
    simp only [splitOn]
    split
    · simp
    · split <;> simp

theorem splitOn_clean (sep : Byte) (a : Bytes) (h : ∀ x ∈ a, x ≠ sep) : splitOn sep a = [a] := by
  induction a with
  | nil => rfl
  | cons c r ih =>
    have hc : (c == sep) = false := by simpa using h c (by simp)
    simp only [splitOn, hc]
    rw [ih (fun x hx => h x (by simp [hx]))]
    simp

theorem splitOn_append (sep : Byte) (a r : Bytes) (h : ∀ x ∈ a, x ≠ sep) :
    splitOn sep (a ++ sep :: r) = a :: splitOn sep r := by
  induction a with
  | nil => simp [splitOn]
  | cons c a ih =>
    have hc : (c == sep) = false := by simpa using h c (by simp)
    simp only [List.cons_append, splitOn, hc]
    rw [ih (fun x hx => h x (by simp [hx]))]
    simp

theorem cut_append (sep : Byte) (a r : Bytes) (h : ∀ x ∈ a, x ≠ sep) :
    cut sep (a ++ sep :: r) = (a, r) := by
  induction a with
  | nil => simp [cut]
  | cons c a ih =>
    have hc : (c == sep) = false := by simpa using h c (by simp)
    simp only [List.cons_append, cut, hc]
    rw [ih (fun x hx => h x (by simp [hx]))]
    simp

/-! ### one pair, many pairs -/

theorem pairOf_clean (e : Bytes × Bytes) : ∀ x ∈ pairOf e, x ≠ 0x26#8 ∧ x ≠ 0x3B#8 := by
  intro x hx
  simp only [pairOf, List.mem_append, List.mem_cons] at hx
  rcases hx with h | h | h
  · exact ⟨(escape_clean _ x h).1, (escape_clean _ x h).2.2⟩
  · subst h; decide
  · exact ⟨(escape_clean _ x h).1, (escape_clean _ x h).2.2⟩

theorem parseSegs_pair (e : Bytes × Bytes) (rest : List Bytes) :
    parseSegs (pairOf e :: rest) = (e :: (parseSegs rest).1, (parseSegs rest).2) := by
  have hsemi : (pairOf e).contains 0x3B#8 = false := by
    rw [Bool.eq_false_iff]; intro h
    rw [List.contains_iff_mem] at h
    exact (pairOf_clean e _ h).2 rfl
  have hne : (pairOf e).isEmpty = false := by simp [pairOf]
  have hcut : cut 0x3D#8 (pairOf e) = (escape e.1, escape e.2) :=
    cut_append _ _ _ (fun x hx => (escape_clean _ x hx).2.1)
  simp only [parseSegs, hsemi, hne, hcut, unescape_escape, Bool.false_eq_true, if_false]

theorem splitOn_joinAmp (segs : List Bytes) (hne : segs ≠ []) (h : ∀ s ∈ segs, ∀ x ∈ s, x ≠ 0x26#8) :
    splitOn 0x26#8 (joinAmp segs) = segs := by
  induction segs with
  | nil => exact absurd rfl hne
  | cons s rest ih =>
    cases rest with
    | nil => simp only [joinAmp]; exact splitOn_clean _ _ (h s (by simp))
    | cons s2 rest2 =>
      simp only [joinAmp]
      rw [splitOn_append _ _ _ (h s (by simp))]
      rw [ih (by simp) (fun t ht => h t (by simp [ht]))]

theorem parseSegs_pairs (m : List (Bytes × Bytes)) : parseSegs (m.map pairOf) = (m, false) := by
  induction m with
  | nil => rfl
  | cons e rest ih => rw [List.map_cons, parseSegs_pair, ih]

/-- **url.ParseQuery ∘ Values.Encode = id**: every list of key/value byte strings (keys and
    values arbitrary: empty, NUL, '&', '=', ';', '%', '+', space, high bytes) comes back entry by
    entry, with no error recorded. -/
theorem parseQuery_encodeValues (m : List (Bytes × Bytes)) : parseQuery (encodeValues m) = (m, false) := by
  unfold parseQuery encodeValues
  cases m with
  | nil => rfl
  | cons e rest =>
    have hne : (joinAmp ((e :: rest).map pairOf)).isEmpty = false := by
      cases rest <;> simp [joinAmp, pairOf]
    rw [hne]
    simp only [Bool.false_eq_true, if_false]
    rw [splitOn_joinAmp _ (by simp) (by
      intro s hs x hx
      simp only [List.mem_map] at hs
      obtain ⟨e', _, rfl⟩ := hs
      exact (pairOf_clean e' x hx).1)]
    exact parseSegs_pairs _

end Rpcx.Query
