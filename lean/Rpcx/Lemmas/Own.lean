import Rpcx.Model.Own
namespace Rpcx.Own

theorem inv_init : Inv init := ⟨by simp [init], by simp [init], by simp [init], by simp [init], by simp [init]⟩

theorem eq_of_nodup_map_fst : ∀ {l : List (Nat × Nat)}, (l.map (·.1)).Nodup → ∀ {a b : Nat × Nat}, a ∈ l → b ∈ l → a.1 = b.1 → a = b := by
  intro l
  induction l with
  | nil => intro _ a b ha; cases ha
  | cons x xs ih =>
    intro h a b ha hb he
    simp only [List.map_cons, List.nodup_cons] at h
    rcases List.mem_cons.mp ha with hax | hax
    · rcases List.mem_cons.mp hb with hbx | hbx
      · exact hax.trans hbx.symm
      · have hm : x.1 ∈ xs.map (·.1) := List.mem_map.mpr ⟨b, hbx, by rw [← he, hax]⟩
        exact absurd hm h.1
    · rcases List.mem_cons.mp hb with hbx | hbx
      · have hm : x.1 ∈ xs.map (·.1) := List.mem_map.mpr ⟨a, hax, by rw [he, hbx]⟩
        exact absurd hm h.1
      · exact ih h.2 hax hbx he

theorem mem_eraseIdx_of {l : List Nat} {i : Nat} {x : Nat} (h : x ∈ l.eraseIdx i) : x ∈ l :=
  List.mem_of_mem_eraseIdx h

theorem inv_step (s : St) (e : Ev) (hi : Inv s) (hok : ok s e) : Inv (step s e) := by
  cases e with
  | get o pick =>
    simp only [step]
    cases hp : s.free[pick]? with
    | some b =>
      have hb : b ∈ s.free := List.mem_of_getElem? hp
      have hlt : pick < s.free.length := by
        rcases Nat.lt_or_ge pick s.free.length with h | h
        · exact h
        · rw [List.getElem?_eq_none h] at hp; cases hp
      have hbe : s.free[pick] = b := by
        rw [List.getElem?_eq_getElem hlt] at hp; exact Option.some.inj hp
      have hnot : b ∉ s.free.eraseIdx pick := by
        intro hm
        have hn := hi.free_nodup
        rw [List.mem_eraseIdx_iff_getElem] at hm
        obtain ⟨j, hj, hne, hje⟩ := hm
        have heq : s.free[j] = s.free[pick] := by rw [hje, hbe]
        exact hne ((List.getElem_inj hn).mp heq)
      refine ⟨hi.free_nodup.sublist (List.eraseIdx_sublist ..), ?_, ?_, ?_, ?_⟩
      · simp only [List.map_cons, List.nodup_cons]
        exact ⟨hi.disjoint b hb, hi.owned_nodup⟩
      · intro x hx
        simp only [List.map_cons, List.mem_cons, not_or]
        refine ⟨?_, hi.disjoint x (mem_eraseIdx_of hx)⟩
        intro e; subst e; exact hnot hx
      · intro x hx; exact hi.free_lt x (mem_eraseIdx_of hx)
      · intro x hx
        simp only [List.map_cons, List.mem_cons] at hx
        rcases hx with rfl | hx
        · exact hi.free_lt _ hb
        · exact hi.owned_lt x hx
    | none =>
      refine ⟨hi.free_nodup, ?_, ?_, ?_, ?_⟩
      · simp only [List.map_cons, List.nodup_cons]
        refine ⟨?_, hi.owned_nodup⟩
        intro hm; exact Nat.lt_irrefl _ (hi.owned_lt _ hm)
      · intro x hx
        simp only [List.map_cons, List.mem_cons, not_or]
        refine ⟨?_, hi.disjoint x hx⟩
        intro e; subst e; exact Nat.lt_irrefl _ (hi.free_lt _ hx)
      · intro x hx; exact Nat.lt_succ_of_lt (hi.free_lt x hx)
      · intro x hx
        simp only [List.map_cons, List.mem_cons] at hx
        rcases hx with rfl | hx
        · exact Nat.lt_succ_self _
        · exact Nat.lt_succ_of_lt (hi.owned_lt x hx)
  | write o b v => exact ⟨hi.free_nodup, hi.owned_nodup, hi.disjoint, hi.free_lt, hi.owned_lt⟩
  | put o b =>
    have hown : (b, o) ∈ s.owned := hok
    have hbm : b ∈ s.owned.map (·.1) := List.mem_map.mpr ⟨(b, o), hown, rfl⟩
    -- the only record of b is (b, o): after the filter no record of b is left
    have hgone : b ∉ (s.owned.filter (fun e => !(e.1 == b && e.2 == o))).map (·.1) := by
      intro hm
      obtain ⟨e, he, heb⟩ := List.mem_map.mp hm
      have he' := List.mem_filter.mp he
      have he1 : e.1 = b := heb
      -- e and (b,o) are two records of b in a list whose first components are duplicate-free
      have : e = (b, o) := by
        exact eq_of_nodup_map_fst hi.owned_nodup he'.1 hown (by simp [he1])
      subst this
      simp at he'
    have hsub : ((s.owned.filter (fun e => !(e.1 == b && e.2 == o))).map (·.1)).Sublist (s.owned.map (·.1)) :=
      (List.filter_sublist ..).map _
    simp only [step]
    refine ⟨?_, hi.owned_nodup.sublist hsub, ?_, ?_, ?_⟩
    · simp only [List.nodup_cons]
      refine ⟨?_, hi.free_nodup⟩
      intro hm; exact hi.disjoint b hm hbm
    · intro x hx
      rcases List.mem_cons.mp hx with rfl | hx
      · exact hgone
      · intro hm; exact hi.disjoint x hx (hsub.subset hm)
    · intro x hx
      rcases List.mem_cons.mp hx with rfl | hx
      · exact hi.owned_lt _ hbm
      · exact hi.free_lt x hx
    · intro x hx; exact hi.owned_lt x (hsub.subset hx)

end Rpcx.Own
