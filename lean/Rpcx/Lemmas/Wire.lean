import Rpcx.Model.Wire
/-
  Helper lemmas about the codec model (kept apart from the property theorems).
-/
namespace Rpcx
open Rpcx.Gen

theorem rd32p_be32 (n : Nat) (r : Bytes) (h : n < 4294967296) : rd32p (be32 n ++ r) = some (n, r) := by
  simp only [be32, rd32p, List.cons_append, List.nil_append, rd32_be32 n h]

theorem takeN_append (a r : Bytes) : takeN a.length (a ++ r) = some (a, r) := by
  simp [takeN]

theorem takeN_some {n : Nat} {bs a r : Bytes} (h : takeN n bs = some (a, r)) :
    bs = a ++ r ∧ a.length = n := by
  unfold takeN at h
  split at h
  · simp only [Option.some.injEq, Prod.mk.injEq] at h
    obtain ⟨rfl, rfl⟩ := h
    exact ⟨(List.take_append_drop n bs).symm, by simp; omega⟩
  · simp at h

theorem takeN_none {n : Nat} {bs : Bytes} : takeN n bs = none ↔ bs.length < n := by
  unfold takeN; split <;> simp <;> omega

theorem rd32p_some {bs r : Bytes} {n : Nat} (h : rd32p bs = some (n, r)) :
    ∃ a b c d, bs = a :: b :: c :: d :: r ∧ n = rd32 a b c d := by
  match bs, h with
  | a :: b :: c :: d :: rest, h =>
    simp only [rd32p, Option.some.injEq, Prod.mk.injEq] at h
    exact ⟨a, b, c, d, by rw [h.2], h.1.symm⟩

theorem rd32p_none {bs : Bytes} : rd32p bs = none ↔ bs.length < 4 := by
  match bs with
  | [] => simp [rd32p]
  | [_] => simp [rd32p]
  | [_, _] => simp [rd32p]
  | [_, _, _] => simp [rd32p]
  | _ :: _ :: _ :: _ :: _ => simp [rd32p]

theorem sect_encode (a r : Bytes) (h : a.length < 4294967296) :
    sect (be32 a.length ++ (a ++ r)) = some (a, r) := by
  simp only [sect, rd32p_be32 _ _ h, takeN_append]

/-- a successfully read section is a length prefix followed by exactly that many bytes -/
theorem sect_some {bs a r : Bytes} (h : sect bs = some (a, r)) :
    ∃ l0 l1 l2 l3, bs = l0 :: l1 :: l2 :: l3 :: (a ++ r) ∧ a.length = rd32 l0 l1 l2 l3 := by
  unfold sect at h
  split at h
  · simp at h
  · rename_i n rest hr
    obtain ⟨l0, l1, l2, l3, rfl, rfl⟩ := rd32p_some hr
    obtain ⟨rfl, hl⟩ := takeN_some h
    exact ⟨l0, l1, l2, l3, rfl, hl⟩

theorem sect_length {bs a r : Bytes} (h : sect bs = some (a, r)) : bs.length = 4 + a.length + r.length := by
  obtain ⟨_, _, _, _, rfl, hl⟩ := sect_some h
  clear hl h
  simp only [List.length_cons, List.length_append]; omega

/- From here on `sect` is opaque to the unifier: its unfolding reaches `Nat.div`/`Nat.ble` on
   symbolic lengths, on which definitional unfolding does not terminate in practice.  All
   reasoning goes through `sect_encode`, `sect_some`, `sect_length`. -/
attribute [local irreducible] sect

/-- metadata well-formedness: every key and value shorter than 2^32 -/
def MetaWF (md : List (Bytes × Bytes)) : Prop :=
  ∀ e ∈ md, e.1.length < 4294967296 ∧ e.2.length < 4294967296

theorem encodeMeta_length_ge (md : List (Bytes × Bytes)) : md.length ≤ (encodeMeta md).length := by
  induction md with
  | nil => simp [encodeMeta]
  | cons e rest ih => obtain ⟨k, v⟩ := e; simp [encodeMeta]; omega

theorem be32_append_isEmpty (n : Nat) (r : Bytes) : (be32 n ++ r).isEmpty = false := by
  simp [be32]

theorem decodeMetaAux_encode (md : List (Bytes × Bytes)) (hwf : MetaWF md) :
    ∀ fuel, md.length ≤ fuel → decodeMetaAux fuel (encodeMeta md) = some md := by
  induction md with
  | nil => intro fuel _; cases fuel <;> simp [encodeMeta, decodeMetaAux]
  | cons e rest ih =>
    obtain ⟨k, v⟩ := e
    intro fuel hf
    have hk : k.length < 4294967296 := (hwf (k, v) (by simp)).1
    have hv : v.length < 4294967296 := (hwf (k, v) (by simp)).2
    have hrest : MetaWF rest := fun e he => hwf e (by simp [he])
    match fuel, hf with
    | fuel + 1, hf =>
      have hne : encodeMeta ((k, v) :: rest) = be32 k.length ++ (k ++ (be32 v.length ++ (v ++ encodeMeta rest))) := by
        simp [encodeMeta]
      rw [hne]
      have e1 := sect_encode k (be32 v.length ++ (v ++ encodeMeta rest)) hk
      have e2 := sect_encode v (encodeMeta rest) hv
      have e3 := ih hrest fuel (by simpa using hf)
      rw [decodeMetaAux, be32_append_isEmpty, if_neg Bool.false_ne_true, e1, Option.bind_some]
      show (sect (be32 v.length ++ (v ++ encodeMeta rest))).bind _ = _
      rw [e2, Option.bind_some]
      show Option.map _ (decodeMetaAux fuel (encodeMeta rest)) = _
      rw [e3]
      rfl

theorem decodeMeta_encode (md : List (Bytes × Bytes)) (hwf : MetaWF md) :
    decodeMeta (encodeMeta md) = some md :=
  decodeMetaAux_encode md hwf _ (encodeMeta_length_ge md)

end Rpcx

namespace Rpcx
open Rpcx.Gen

theorem withSect_encode {α : Type} (a r : Bytes) (k : Bytes → Bytes → Except DecErr α)
    (h : a.length < 4294967296) : withSect (be32 a.length ++ (a ++ r)) k = k a r := by
  rw [withSect, sect_encode a r h]

theorem withMeta_encode {α : Type} (md : List (Bytes × Bytes)) (k : List (Bytes × Bytes) → Except DecErr α)
    (h : MetaWF md) : withMeta (encodeMeta md) k = k md := by
  rw [withMeta, decodeMeta_encode md h]

theorem withSect_ok {α : Type} {bs : Bytes} {k : Bytes → Bytes → Except DecErr α} {x : α}
    (h : withSect bs k = .ok x) : ∃ a r, sect bs = some (a, r) ∧ k a r = .ok x := by
  unfold withSect at h
  split at h
  · cases h
  · rename_i a r hs; exact ⟨a, r, hs, h⟩

theorem withMeta_ok {α : Type} {mb : Bytes} {k : List (Bytes × Bytes) → Except DecErr α} {x : α}
    (h : withMeta mb k = .ok x) : ∃ md, decodeMeta mb = some md ∧ k md = .ok x := by
  unfold withMeta at h
  split at h
  · cases h
  · rename_i md hs; exact ⟨md, hs, h⟩

/-- `decodeBody` on a body that is four well-formed sections (plus arbitrary slack). -/
theorem decodeBody_sections (reg : Registry) (h : Header) (path method pay slack : Bytes)
    (md : List (Bytes × Bytes))
    (hp : path.length < 4294967296) (hm : method.length < 4294967296)
    (hmd : MetaWF md) (hmb : (encodeMeta md).length < 4294967296) (hz : pay.length < 4294967296) :
    decodeBody reg h (be32 path.length ++ (path ++ (be32 method.length ++ (method
        ++ (be32 (encodeMeta md).length ++ (encodeMeta md ++ (be32 pay.length ++ (pay ++ slack))))))))
      = (unzipStep reg h pay).map (fun p => ⟨h, path, method, md, p⟩) := by
  rw [decodeBody, withSect_encode path _ _ hp, withSect_encode method _ _ hm,
    withSect_encode (encodeMeta md) _ _ hmb, withMeta_encode md _ hmd, withSect_encode pay slack _ hz]

/-- Conversely: a body that decodes IS four length-delimited sections, and the message
    fields are exactly those sections (payload: before decompression). -/
theorem decodeBody_ok {reg : Registry} {h : Header} {body : Bytes} {m : Msg}
    (hd : decodeBody reg h body = .ok m) :
    ∃ path method metaB pay slack a0 a1 a2 a3 b0 b1 b2 b3 c0 c1 c2 c3 d0 d1 d2 d3,
      body = a0 :: a1 :: a2 :: a3 :: (path ++ (b0 :: b1 :: b2 :: b3 :: (method
              ++ (c0 :: c1 :: c2 :: c3 :: (metaB ++ (d0 :: d1 :: d2 :: d3 :: (pay ++ slack)))))))
      ∧ path.length = rd32 a0 a1 a2 a3 ∧ method.length = rd32 b0 b1 b2 b3
      ∧ metaB.length = rd32 c0 c1 c2 c3 ∧ pay.length = rd32 d0 d1 d2 d3
      ∧ m.hdr = h ∧ m.path = path ∧ m.method = method ∧ decodeMeta metaB = some m.md
      ∧ unzipStep reg h pay = .ok m.payload := by
  unfold decodeBody at hd
  obtain ⟨path, r1, s1, hd1⟩ := withSect_ok hd
  obtain ⟨method, r2, s2, hd2⟩ := withSect_ok hd1
  obtain ⟨metaB, r3, s3, hd3⟩ := withSect_ok hd2
  obtain ⟨md, s4, hd4⟩ := withMeta_ok hd3
  obtain ⟨pay, slack, s5, hd5⟩ := withSect_ok hd4
  clear hd hd1 hd2 hd3 hd4
  obtain ⟨a0, a1, a2, a3, rfl, l1⟩ := sect_some s1
  obtain ⟨b0, b1, b2, b3, rfl, l2⟩ := sect_some s2
  obtain ⟨c0, c1, c2, c3, rfl, l3⟩ := sect_some s3
  obtain ⟨d0, d1, d2, d3, rfl, l4⟩ := sect_some s5
  refine ⟨path, method, metaB, pay, slack, a0, a1, a2, a3, b0, b1, b2, b3, c0, c1, c2, c3, d0, d1, d2, d3,
    rfl, l1, l2, l3, l4, ?_⟩
  cases hu : unzipStep reg h pay with
  | error e => rw [hu] at hd5; cases hd5
  | ok p =>
    rw [hu] at hd5
    cases hd5
    exact ⟨rfl, rfl, rfl, s4, rfl⟩

end Rpcx

namespace Rpcx
open Rpcx.Gen

theorem withTake_append {α : Type} (a r : Bytes) (all : Nat) (k : Bytes → Bytes → Except (DecErr × Nat) α) :
    withTake a.length (a ++ r) all k = k a r := by
  rw [withTake, takeN_append]

theorem withU32_be32 {α : Type} (n : Nat) (r : Bytes) (all : Nat) (k : Nat → Bytes → Except (DecErr × Nat) α)
    (h : n < 4294967296) : withU32 (be32 n ++ r) all k = k n r := by
  rw [withU32, rd32p_be32 n r h]

theorem withHeader_toBytes {α : Type} (h : Header) (all : Nat) (k : Header → Except (DecErr × Nat) α) :
    withHeader h.toBytes all k = k h := by
  rw [withHeader, Header.ofBytes_toBytes]

theorem toBytes_append_isEmpty (h : Header) (x : Bytes) : (h.toBytes ++ x).isEmpty = false := rfl
theorem toBytes_append_head (h : Header) (x : Bytes) : (h.toBytes ++ x).head? = some h.b0 := rfl

/-- The decoder on "header ++ length ++ body ++ rest": everything is decided by the body. -/
theorem decode_frame (cfg : Cfg) (h : Header) (body rest : Bytes)
    (hmagic : h.b0 = C.magicNumber) (hlen : body.length < 4294967296)
    (hmax : ¬ (0 < cfg.maxLen ∧ cfg.maxLen < body.length)) :
    decode cfg (h.toBytes ++ (be32 body.length ++ (body ++ rest))) =
      decodeFinish (decodeBody cfg.reg h body) body.length rest := by
  have h12 : h.toBytes.length = 12 := rfl
  rw [decode, toBytes_append_isEmpty, toBytes_append_head, hmagic]
  rw [if_neg Bool.false_ne_true, if_neg (by simp)]
  rw [← h12, withTake_append, withHeader_toBytes, withU32_be32 _ _ _ _ hlen, if_neg hmax, withTake_append]

/-- A frame longer than the configured maximum is rejected after the 16-byte prefix,
    before any byte of the body is looked at (the body need not even be present). -/
theorem decode_tooLong (cfg : Cfg) (h : Header) (total : Nat) (rest : Bytes)
    (hmagic : h.b0 = C.magicNumber) (hlen : total < 4294967296)
    (hmax : 0 < cfg.maxLen ∧ cfg.maxLen < total) :
    decode cfg (h.toBytes ++ (be32 total ++ rest)) = .error (.tooLong, 16) := by
  have h12 : h.toBytes.length = 12 := rfl
  rw [decode, toBytes_append_isEmpty, toBytes_append_head, hmagic]
  rw [if_neg Bool.false_ne_true, if_neg (by simp)]
  rw [← h12, withTake_append, withHeader_toBytes, withU32_be32 _ _ _ _ hlen, if_pos hmax]

end Rpcx

namespace Rpcx
open Rpcx.Gen

theorem withTake_ok {α : Type} {n all : Nat} {bs : Bytes} {k : Bytes → Bytes → Except (DecErr × Nat) α} {x : α}
    (h : withTake n bs all k = .ok x) : ∃ a r, bs = a ++ r ∧ a.length = n ∧ k a r = .ok x := by
  unfold withTake at h
  split at h
  · cases h
  · rename_i a r hs
    obtain ⟨e, l⟩ := takeN_some hs
    exact ⟨a, r, e, l, h⟩

theorem withU32_ok {α : Type} {all : Nat} {bs : Bytes} {k : Nat → Bytes → Except (DecErr × Nat) α} {x : α}
    (h : withU32 bs all k = .ok x) : ∃ a b c d r, bs = a :: b :: c :: d :: r ∧ k (rd32 a b c d) r = .ok x := by
  unfold withU32 at h
  split at h
  · cases h
  · rename_i n r hs
    obtain ⟨a, b, c, d, rfl, rfl⟩ := rd32p_some hs
    exact ⟨a, b, c, d, r, rfl, h⟩

theorem Header.ofBytes_some {hb : Bytes} {h : Header} (e : Header.ofBytes hb = some h) : hb = h.toBytes := by
  unfold Header.ofBytes at e
  split at e
  · cases e; rfl
  · cases e

theorem withHeader_ok {α : Type} {all : Nat} {hb : Bytes} {k : Header → Except (DecErr × Nat) α} {x : α}
    (h : withHeader hb all k = .ok x) : ∃ hd, hb = hd.toBytes ∧ k hd = .ok x := by
  unfold withHeader at h
  split at h
  · cases h
  · rename_i hd hs; exact ⟨hd, Header.ofBytes_some hs, h⟩

/-- Success of the decoder exhibits the frame: the input IS header ++ length ++ body ++ rest,
    with the body exactly as long as announced, and the message is what the body parses to. -/
theorem decode_ok {cfg : Cfg} {bs rest : Bytes} {m : Msg} (hd : decode cfg bs = .ok (m, rest)) :
    ∃ h t0 t1 t2 t3 body, bs = h.toBytes ++ (t0 :: t1 :: t2 :: t3 :: (body ++ rest))
      ∧ h.b0 = C.magicNumber ∧ body.length = rd32 t0 t1 t2 t3
      ∧ ¬ (0 < cfg.maxLen ∧ cfg.maxLen < body.length)
      ∧ decodeBody cfg.reg h body = .ok m := by
  unfold decode at hd
  split at hd
  · cases hd
  split at hd
  · cases hd
  rename_i hne hmagic
  obtain ⟨hb, r1, rfl, l12, hd1⟩ := withTake_ok hd
  obtain ⟨h, rfl, hd2⟩ := withHeader_ok hd1
  obtain ⟨t0, t1, t2, t3, r2, rfl, hd3⟩ := withU32_ok hd2
  split at hd3
  · cases hd3
  rename_i hmax
  obtain ⟨body, rest', rfl, lb, hd4⟩ := withTake_ok hd3
  have hm : h.b0 = C.magicNumber := by
    have : (h.toBytes ++ (t0 :: t1 :: t2 :: t3 :: (body ++ rest'))).head? = some h.b0 := rfl
    rw [this] at hmagic
    simpa using hmagic
  cases hbd : decodeBody cfg.reg h body with
  | error e => rw [hbd] at hd4; cases hd4
  | ok m' =>
    rw [hbd] at hd4
    simp only [decodeFinish, Except.ok.injEq, Prod.mk.injEq] at hd4
    obtain ⟨rfl, rfl⟩ := hd4
    exact ⟨h, t0, t1, t2, t3, body, rfl, hm, lb, by rw [lb]; exact hmax, hbd⟩

end Rpcx
