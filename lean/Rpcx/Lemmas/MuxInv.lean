import Rpcx.Lemmas.Mux
/-
  The invariant of the multiplexer and its preservation by every event.
-/
namespace Rpcx.Mux

structure Inv (s : St) : Prop where
  keys : (s.pending.map (·.1)).Nodup
  ids : (s.pending.map (·.2)).Nodup
  /-- ownership: a pending call has not been signalled, and its sender registered it under that key -/
  pend : ∀ (q c : Nat), (q, c) ∈ s.pending → ∃ r : CallRec, s.calls[c]? = some r ∧ r.signals = 0 ∧ r.phase = Phase.registered q
  /-- exactly-once, upper half -/
  sig : ∀ (c : Nat) (r : CallRec), s.calls[c]? = some r → r.signals ≤ 1
  fresh : ∀ (c : Nat) (r : CallRec), s.calls[c]? = some r → r.phase = Phase.fresh → r.signals = 0
  regBound : ∀ (c : Nat) (r : CallRec) (q : Nat), s.calls[c]? = some r → r.phase = Phase.registered q → q < s.seq
  regUniq : ∀ (c c' : Nat) (r r' : CallRec) (q : Nat), s.calls[c]? = some r → s.calls[c']? = some r' →
      r.phase = Phase.registered q → r'.phase = Phase.registered q → c = c'
  /-- no lost call: registered and not yet signalled ⇒ still in the table -/
  held : ∀ (c : Nat) (r : CallRec) (q : Nat), s.calls[c]? = some r → r.phase = Phase.registered q → r.signals = 0 → (q, c) ∈ s.pending
  /-- once the connection is lost or closed nothing is pending (and `register` fails fast) -/
  down : (s.shutdown = true ∨ s.closing = true) → s.pending = []

theorem inv_init (oneways : List (Bool × Bool)) : Inv (init oneways) := by
  refine ⟨by simp [init], by simp [init], by simp [init], ?_, ?_, ?_, ?_, ?_, by simp [init]⟩
  · intro c r h
    simp only [init, List.getElem?_map] at h
    cases ho : oneways[c]? <;> simp [ho] at h
    subst h; simp
  · intro c r h _
    simp only [init, List.getElem?_map] at h
    cases ho : oneways[c]? <;> simp [ho] at h
    subst h; rfl
  · intro c r q h hp
    simp only [init, List.getElem?_map] at h
    cases ho : oneways[c]? <;> simp [ho] at h
    subst h; cases hp
  · intro c c' r r' q h _ hp
    simp only [init, List.getElem?_map] at h
    cases ho : oneways[c]? <;> simp [ho] at h
    subst h; cases hp
  · intro c r q h hp
    simp only [init, List.getElem?_map] at h
    cases ho : oneways[c]? <;> simp [ho] at h
    subst h; cases hp

/-- removing a pending entry and signalling its call, in one section -/
theorem inv_remove_signal (s : St) (h : Inv s) (q c : Nat) (o : Outcome) (hm : (q, c) ∈ s.pending) :
    Inv { s with pending := erase s.pending q, calls := signal s.calls c o } := by
  obtain ⟨r0, hr0, hs0, hp0⟩ := h.pend q c hm
  have hk := lookup_of_mem h.keys hm
  refine ⟨erase_nodup_keys q h.keys, erase_nodup_ids q h.ids, ?_, ?_, ?_, ?_, ?_, ?_, ?_⟩
  · intro q' c' hm'
    obtain ⟨hm1, hne⟩ := mem_erase.mp hm'
    simp only at hne
    obtain ⟨r, hr, hs, hp⟩ := h.pend q' c' hm1
    have hcc : c' ≠ c := by
      intro e; subst e
      rw [hr0] at hr; cases hr
      rw [hp0] at hp; cases hp; exact hne rfl
    exact ⟨r, by rw [signal_get]; simp [hcc, hr], hs, hp⟩
  · intro v r hv
    rw [signal_get] at hv
    split at hv
    · rename_i e; subst e
      rw [hr0] at hv; simp [bump] at hv; subst hv; simp [hs0]
    · exact h.sig v r hv
  · intro v r hv hf
    rw [signal_get] at hv
    split at hv
    · rename_i e; subst e
      rw [hr0] at hv; simp [bump] at hv; subst hv
      simp only at hf; rw [hp0] at hf; cases hf
    · exact h.fresh v r hv hf
  · intro v r q' hv hp
    rw [signal_get] at hv
    split at hv
    · rename_i e; subst e
      rw [hr0] at hv; simp [bump] at hv; subst hv
      exact h.regBound v r0 q' hr0 hp
    · exact h.regBound v r q' hv hp
  · intro v v' r r' q' hv hv' hp hp'
    rw [signal_get] at hv hv'
    have g : ∀ (w : Nat) (x : CallRec), (if w = c then Option.map (bump o) s.calls[c]? else s.calls[w]?) = some x →
        ∃ y, s.calls[w]? = some y ∧ y.phase = x.phase := by
      intro w x hx
      split at hx
      · rename_i e; subst e; rw [hr0] at hx; simp [bump] at hx; subst hx; exact ⟨r0, hr0, rfl⟩
      · exact ⟨x, hx, rfl⟩
    obtain ⟨y, hy, ey⟩ := g v r hv
    obtain ⟨y', hy', ey'⟩ := g v' r' hv'
    exact h.regUniq v v' y y' q' hy hy' (by rw [ey]; exact hp) (by rw [ey']; exact hp')
  · intro v r q' hv hp hs
    rw [signal_get] at hv
    split at hv
    · rename_i e; subst e
      rw [hr0] at hv; simp [bump] at hv; subst hv; simp at hs
    · rename_i hne
      have hm' := h.held v r q' hv hp hs
      apply mem_erase.mpr
      refine ⟨hm', ?_⟩
      simp only
      intro e; subst e
      exact hne (h.regUniq v c r r0 q' hv hr0 hp hp0)
  · intro hd
    have := h.down hd
    simp [this, erase]

/-- `Inv` looks at a record only through its signal count and phase -/
theorem inv_congr (s : St) (h : Inv s) (calls' : List CallRec)
    (hc : ∀ v : Nat, (calls'[v]?).map (fun r : CallRec => (r.signals, r.phase)) = (s.calls[v]?).map (fun r : CallRec => (r.signals, r.phase))) :
    Inv { s with calls := calls' } := by
  have get : ∀ (v : Nat) (r' : CallRec), calls'[v]? = some r' → ∃ r : CallRec, s.calls[v]? = some r ∧ r.signals = r'.signals ∧ r.phase = r'.phase := by
    intro v r' hv
    have := hc v
    rw [hv] at this
    cases hs : s.calls[v]? with
    | none => simp [hs] at this
    | some r => simp [hs] at this; exact ⟨r, rfl, this.1.symm, this.2.symm⟩
  have get' : ∀ (v : Nat) (r : CallRec), s.calls[v]? = some r → ∃ r' : CallRec, calls'[v]? = some r' ∧ r.signals = r'.signals ∧ r.phase = r'.phase := by
    intro v r hv
    have := hc v
    rw [hv] at this
    cases hs : calls'[v]? with
    | none => simp [hs] at this
    | some r' => simp [hs] at this; exact ⟨r', rfl, this.1.symm, this.2.symm⟩
  refine ⟨h.keys, h.ids, ?_, ?_, ?_, ?_, ?_, ?_, h.down⟩
  · intro q c hm
    obtain ⟨r, hr, h1, h2⟩ := h.pend q c hm
    obtain ⟨r', hr', e1, e2⟩ := get' c r hr
    exact ⟨r', hr', by rw [← e1]; exact h1, by rw [← e2]; exact h2⟩
  · intro c r' hv
    obtain ⟨r, hr, e1, _⟩ := get c r' hv
    rw [← e1]; exact h.sig c r hr
  · intro c r' hv hf
    obtain ⟨r, hr, e1, e2⟩ := get c r' hv
    rw [← e1]; exact h.fresh c r hr (by rw [e2]; exact hf)
  · intro c r' q hv hp
    obtain ⟨r, hr, _, e2⟩ := get c r' hv
    exact h.regBound c r q hr (by rw [e2]; exact hp)
  · intro c c' r r' q hv hv' hp hp'
    obtain ⟨y, hy, _, e2⟩ := get c r hv
    obtain ⟨y', hy', _, e2'⟩ := get c' r' hv'
    exact h.regUniq c c' y y' q hy hy' (by rw [e2]; exact hp) (by rw [e2']; exact hp')
  · intro c r' q hv hp hs
    obtain ⟨r, hr, e1, e2⟩ := get c r' hv
    exact h.held c r q hr (by rw [e2]; exact hp) (by rw [e1]; exact hs)

/-- the sender thread is done with a call that is no longer pending -/
theorem inv_finish (s : St) (h : Inv s) (c : Nat) (hc : ∀ q, (q, c) ∉ s.pending) :
    Inv { s with calls := setPhase s.calls c .finished } := by
  refine ⟨h.keys, h.ids, ?_, ?_, ?_, ?_, ?_, ?_, h.down⟩
  · intro q c' hm
    obtain ⟨r, hr, h1, h2⟩ := h.pend q c' hm
    have hne : c' ≠ c := by intro e; subst e; exact hc q hm
    exact ⟨r, by rw [setPhase_get]; simp [hne, hr], h1, h2⟩
  · intro v r hv
    rw [setPhase_get] at hv
    split at hv
    · rename_i e; subst e
      cases hs : s.calls[v]? with
      | none => simp [hs] at hv
      | some r0 => simp [hs] at hv; subst hv; exact h.sig v r0 hs
    · exact h.sig v r hv
  · intro v r hv hf
    rw [setPhase_get] at hv
    split at hv
    · rename_i e; subst e
      cases hs : s.calls[v]? with
      | none => simp [hs] at hv
      | some r0 => simp [hs] at hv; subst hv; cases hf
    · exact h.fresh v r hv hf
  · intro v r q hv hp
    rw [setPhase_get] at hv
    split at hv
    · rename_i e; subst e
      cases hs : s.calls[v]? with
      | none => simp [hs] at hv
      | some r0 => simp [hs] at hv; subst hv; cases hp
    · exact h.regBound v r q hv hp
  · intro v v' r r' q hv hv' hp hp'
    rw [setPhase_get] at hv hv'
    split at hv
    · rename_i e; subst e
      cases hs : s.calls[v]? with
      | none => simp [hs] at hv
      | some r0 => simp [hs] at hv; subst hv; cases hp
    · split at hv'
      · rename_i e; subst e
        cases hs : s.calls[v']? with
        | none => simp [hs] at hv'
        | some r0 => simp [hs] at hv'; subst hv'; cases hp'
      · exact h.regUniq v v' r r' q hv hv' hp hp'
  · intro v r q hv hp hs
    rw [setPhase_get] at hv
    split at hv
    · rename_i e; subst e
      cases hs' : s.calls[v]? with
      | none => simp [hs'] at hv
      | some r0 => simp [hs'] at hv; subst hv; cases hp
    · exact h.held v r q hv hp hs

/-- the shared "look up my seq, delete, signal if still there" section -/
theorem inv_removeAndSignal (s : St) (h : Inv s) (c q : Nat) (o : Outcome) (r : CallRec)
    (hr : s.calls[c]? = some r) (hp : r.phase = .registered q) :
    Inv (removeAndSignal s c q o) ∧ (∀ q', (q', c) ∉ (removeAndSignal s c q o).pending) := by
  unfold removeAndSignal
  cases hl : lookup s.pending q with
  | none =>
    simp only
    refine ⟨h, ?_⟩
    intro q' hm
    obtain ⟨r', hr', _, hp'⟩ := h.pend q' c hm
    rw [hr] at hr'; cases hr'
    rw [hp] at hp'; cases hp'
    exact lookup_none hl c hm
  | some c' =>
    have hm := lookup_some hl
    obtain ⟨r', hr', _, hp'⟩ := h.pend q c' hm
    have e : c' = c := h.regUniq c' c r' r q hr' hr hp' hp
    subst e
    simp only [if_true]
    refine ⟨inv_remove_signal s h q c' o hm, ?_⟩
    intro q' hm'
    obtain ⟨hm1, hne⟩ := mem_erase.mp hm'
    obtain ⟨r'', hr'', _, hp''⟩ := h.pend q' c' hm1
    rw [hr'] at hr''; cases hr''
    rw [hp'] at hp''; cases hp''
    exact hne rfl

theorem inv_failAll (s : St) (h : Inv s) (o : Outcome) : Inv (failAll s o) ∧ (failAll s o).pending = [] := by
  have hc := fun v => failAll_calls s o v h.ids
  have hpend : (failAll s o).pending = [] := rfl
  have hseq : (failAll s o).seq = s.seq := rfl
  have memIds : ∀ v, v ∈ s.pending.map (·.2) → ∃ q r, (q, v) ∈ s.pending ∧ s.calls[v]? = some r ∧ r.signals = 0 ∧ r.phase = .registered q := by
    intro v hv
    obtain ⟨e, he, rfl⟩ := List.mem_map.mp hv
    obtain ⟨r, h1, h2, h3⟩ := h.pend e.1 e.2 he
    exact ⟨e.1, r, he, h1, h2, h3⟩
  refine ⟨⟨by rw [hpend]; simp, by rw [hpend]; simp, by rw [hpend]; simp, ?_, ?_, ?_, ?_, ?_, fun _ => hpend⟩, hpend⟩
  · intro v r hv
    rw [hc v] at hv
    split at hv
    · rename_i hm
      obtain ⟨q, r0, _, h1, h2, _⟩ := memIds v hm
      rw [h1] at hv; simp [bump] at hv; subst hv; simp [h2]
    · exact h.sig v r hv
  · intro v r hv hf
    rw [hc v] at hv
    split at hv
    · rename_i hm
      obtain ⟨q, r0, _, h1, _, h3⟩ := memIds v hm
      rw [h1] at hv; simp [bump] at hv; subst hv
      simp only at hf; rw [h3] at hf; cases hf
    · exact h.fresh v r hv hf
  · intro v r q hv hp
    rw [hc v] at hv
    rw [hseq]
    split at hv
    · rename_i hm
      obtain ⟨q0, r0, _, h1, _, _⟩ := memIds v hm
      rw [h1] at hv; simp [bump] at hv; subst hv
      exact h.regBound v r0 q h1 hp
    · exact h.regBound v r q hv hp
  · intro v v' r r' q hv hv' hp hp'
    rw [hc v] at hv
    rw [hc v'] at hv'
    have g : ∀ (w : Nat) (x : CallRec), (if w ∈ s.pending.map (·.2) then Option.map (bump o) s.calls[w]? else s.calls[w]?) = some x →
        ∃ y, s.calls[w]? = some y ∧ y.phase = x.phase := by
      intro w x hx
      split at hx
      · cases hs : s.calls[w]? with
        | none => simp [hs] at hx
        | some y => simp [hs, bump] at hx; subst hx; exact ⟨y, rfl, rfl⟩
      · exact ⟨x, hx, rfl⟩
    obtain ⟨y, hy, ey⟩ := g v r hv
    obtain ⟨y', hy', ey'⟩ := g v' r' hv'
    exact h.regUniq v v' y y' q hy hy' (by rw [ey]; exact hp) (by rw [ey']; exact hp')
  · intro v r q hv hp hs
    rw [hc v] at hv
    split at hv
    · rename_i hm
      cases hs' : s.calls[v]? with
      | none => simp [hs'] at hv
      | some y => simp [hs', bump] at hv; subst hv; simp at hs
    · rename_i hnm
      have := h.held v r q hv hp hs
      exact absurd (List.mem_map_of_mem (f := (·.2)) this) hnm

theorem inv_setRet (s : St) (h : Inv s) (c : Nat) (o : Outcome) : Inv { s with calls := setRet s.calls c o } :=
  inv_congr s h _ (fun v => setRet_view s.calls c v o)

theorem inv_markWritten (s : St) (h : Inv s) (c : Nat) : Inv { s with calls := markWritten s.calls c } :=
  inv_congr s h _ (fun v => markWritten_view s.calls c v)

theorem inv_register (s : St) (h : Inv s) (c : Nat) : Inv (step s (.register c)) := by
  simp only [step]
  cases hr : s.calls[c]? with
  | none => exact h
  | some r =>
    simp only
    by_cases hf : r.phase = .fresh
    · simp only [hf, ne_eq, not_true_eq_false, if_false]
      have hnp : ∀ q, (q, c) ∉ s.pending := by
        intro q hm
        obtain ⟨r', hr', _, hp'⟩ := h.pend q c hm
        rw [hr] at hr'; cases hr'; rw [hf] at hp'; cases hp'
      by_cases hd : (s.shutdown || s.closing) = true
      · -- fail fast: signal once, never pending
        simp only [hd, if_true]
        have hd' : s.shutdown = true ∨ s.closing = true := by simpa using hd
        generalize (if r.raw = true then Outcome.connErr else Outcome.shutdownErr) = ofail
        have hget : ∀ v, (setPhase (signal s.calls c ofail) c .finished)[v]? =
            if v = c then some { bump ofail r with phase := .finished } else s.calls[v]? := by
          intro v
          rw [setPhase_get, signal_get, signal_get]
          by_cases e : v = c
          · subst e; simp [hr]
          · simp [e]
        suffices base : Inv { s with calls := setPhase (signal s.calls c ofail) c .finished } by
          split
          · exact inv_setRet _ base c .connErr
          · exact base
        refine ⟨h.keys, h.ids, ?_, ?_, ?_, ?_, ?_, ?_, h.down⟩
        · intro q c' hm
          obtain ⟨r', hr', a, b⟩ := h.pend q c' hm
          have : c' ≠ c := by intro e; subst e; exact hnp q hm
          exact ⟨r', by rw [hget]; simp [this, hr'], a, b⟩
        · intro v r' hv
          rw [hget] at hv
          split at hv
          · cases hv; simp [bump, h.fresh c r hr hf]
          · exact h.sig v r' hv
        · intro v r' hv hfr
          rw [hget] at hv
          split at hv
          · cases hv; cases hfr
          · exact h.fresh v r' hv hfr
        · intro v r' q hv hp
          rw [hget] at hv
          split at hv
          · cases hv; cases hp
          · exact h.regBound v r' q hv hp
        · intro v v' x x' q hv hv' hp hp'
          rw [hget] at hv hv'
          split at hv
          · cases hv; cases hp
          · split at hv'
            · cases hv'; cases hp'
            · exact h.regUniq v v' x x' q hv hv' hp hp'
        · intro v r' q hv hp hs
          rw [hget] at hv
          split at hv
          · cases hv; cases hp
          · exact h.held v r' q hv hp hs
      · -- enter the table under a fresh sequence number
        simp only [hd, Bool.false_eq_true, if_false]
        have hd' : ¬ (s.shutdown = true ∨ s.closing = true) := by simpa using hd
        have hkeylt : ∀ q c', (q, c') ∈ s.pending → q < s.seq := by
          intro q c' hm
          obtain ⟨r', hr', _, hp'⟩ := h.pend q c' hm
          exact h.regBound c' r' q hr' hp'
        refine ⟨?_, ?_, ?_, ?_, ?_, ?_, ?_, ?_, ?_⟩
        · simp only [List.map_cons, List.nodup_cons]
          refine ⟨?_, h.keys⟩
          intro hm
          obtain ⟨e, he, e1⟩ := List.mem_map.mp hm
          have := hkeylt e.1 e.2 he
          omega
        · simp only [List.map_cons, List.nodup_cons]
          refine ⟨?_, h.ids⟩
          intro hm
          obtain ⟨e, he, e1⟩ := List.mem_map.mp hm
          exact hnp e.1 (by rw [← e1]; exact he)
        · intro q c' hm
          rcases List.mem_cons.mp hm with e | hm'
          · cases e
            exact ⟨{ r with phase := .registered s.seq }, by rw [setPhase_get]; simp [hr], h.fresh c r hr hf, rfl⟩
          · obtain ⟨r', hr', a, b⟩ := h.pend q c' hm'
            have : c' ≠ c := by intro e; subst e; exact hnp q hm'
            exact ⟨r', by rw [setPhase_get]; simp [this, hr'], a, b⟩
        · intro v r' hv
          rw [setPhase_get] at hv
          split at hv
          · rename_i e; subst e; rw [hr] at hv; simp at hv; subst hv; exact h.sig v r hr
          · exact h.sig v r' hv
        · intro v r' hv hfr
          rw [setPhase_get] at hv
          split at hv
          · rename_i e; subst e; rw [hr] at hv; simp at hv; subst hv; cases hfr
          · exact h.fresh v r' hv hfr
        · intro v r' q hv hp
          rw [setPhase_get] at hv
          split at hv
          · rename_i e; subst e; rw [hr] at hv; simp at hv; subst hv; cases hp; simp
          · have := h.regBound v r' q hv hp; simp only; omega
        · intro v v' x x' q hv hv' hp hp'
          rw [setPhase_get] at hv hv'
          split at hv
          · rename_i e; subst e
            rw [hr] at hv; simp at hv; subst hv; cases hp
            split at hv'
            · rename_i e'; exact e'.symm
            · have := h.regBound v' x' s.seq hv' hp'; omega
          · split at hv'
            · rename_i e'; subst e'
              rw [hr] at hv'; simp at hv'; subst hv'; cases hp'
              have := h.regBound v x s.seq hv hp; omega
            · exact h.regUniq v v' x x' q hv hv' hp hp'
        · intro v r' q hv hp hs
          rw [setPhase_get] at hv
          split at hv
          · rename_i e; subst e; rw [hr] at hv; simp at hv; subst hv; cases hp; simp
          · exact List.mem_cons_of_mem _ (h.held v r' q hv hp hs)
        · intro hdn; exact absurd hdn hd'
    · simp only [hf, ne_eq, not_false_eq_true, if_true]; exact h

/-- the three sender failure / one-way completion paths share one shape -/
theorem inv_sender_done (s : St) (h : Inv s) (c q : Nat) (o : Outcome) (r : CallRec)
    (hr : s.calls[c]? = some r) (hp : r.phase = .registered q) :
    Inv { removeAndSignal s c q o with calls := setPhase (removeAndSignal s c q o).calls c .finished } := by
  obtain ⟨h1, h2⟩ := inv_removeAndSignal s h c q o r hr hp
  exact inv_finish _ h1 c h2

theorem inv_step (s : St) (h : Inv s) (ev : Ev) : Inv (step s ev) := by
  cases ev with
  | register c => exact inv_register s h c
  | encodeFail c =>
    simp only [step]
    cases hr : s.calls[c]? with
    | none => exact h
    | some r =>
      simp only
      cases hp : r.phase with
      | registered q =>
        simp only
        split
        · exact h
        · exact inv_sender_done s h c q _ r hr hp
      | fresh => exact h
      | finished => exact h
  | writeFail c =>
    simp only [step]
    cases hr : s.calls[c]? with
    | none => exact h
    | some r =>
      simp only
      cases hp : r.phase with
      | registered q =>
        have base := inv_sender_done s h c q .connErr r hr hp
        simp only
        split
        · exact h
        · split
          · exact inv_setRet _ base c .connErr
          · exact base
      | fresh => exact h
      | finished => exact h
  | writeOk c =>
    simp only [step]
    cases hr : s.calls[c]? with
    | none => exact h
    | some r =>
      simp only
      cases hp : r.phase with
      | registered q =>
        simp only
        split
        · exact inv_markWritten s h c
        · split
          · exact inv_sender_done s h c q _ r hr hp
          · exact h
      | fresh => exact h
      | finished => exact h
  | ctxDone c =>
    simp only [step]
    cases hr : s.calls[c]? with
    | none => exact h
    | some r =>
      simp only
      split
      · exact h
      · split
        · exact h
        have h1 : Inv (ctxRemove s c r) := by
          unfold ctxRemove
          cases hp : r.phase with
          | registered q =>
            simp only
            cases hl : lookup s.pending q with
            | none => exact h
            | some c' =>
              simp only
              split
              · rename_i e; subst e
                exact inv_remove_signal s h q c' _ (lookup_some hl)
              · exact h
          | fresh => exact h
          | finished => exact h
        generalize ctxRemove s c r = s1 at h1 ⊢
        unfold markRet
        cases hr1 : s1.calls[c]? with
        | none => exact h1
        | some r1 =>
          simp only
          apply inv_congr s1 h1
          intro v
          by_cases e : v = c
          · subst e
            have hlt : v < s1.calls.length := by
              rcases Nat.lt_or_ge v s1.calls.length with h' | h'
              · exact h'
              · rw [List.getElem?_eq_none h'] at hr1; cases hr1
            have hg : s1.calls[v] = r1 := by
              have := List.getElem?_eq_getElem hlt
              rw [this] at hr1; exact Option.some.inj hr1
            simp [List.getElem?_set, hlt, hr1, hg]
          · simp [List.getElem?_set, e, Ne.symm e]
  | frame f =>
    simp only [step]
    split
    · exact h
    · split
      · exact ⟨h.keys, h.ids, h.pend, h.sig, h.fresh, h.regBound, h.regUniq, h.held, h.down⟩
      · cases hl : lookup s.pending f.seq with
        | none => exact h
        | some c => exact inv_remove_signal s h f.seq c _ (lookup_some hl)
  | terminate =>
    simp only [step]
    split
    · exact h
    · obtain ⟨h1, h2⟩ := inv_failAll s h .connErr
      exact ⟨h1.keys, h1.ids, h1.pend, h1.sig, h1.fresh, h1.regBound, h1.regUniq, h1.held, fun _ => h2⟩
  | close =>
    simp only [step]
    obtain ⟨h1, h2⟩ := inv_failAll s h .shutdownErr
    split
    · exact h1
    · exact ⟨h1.keys, h1.ids, h1.pend, h1.sig, h1.fresh, h1.regBound, h1.regUniq, h1.held, fun _ => h2⟩

theorem inv_run (s : St) (h : Inv s) (evs : List Ev) : Inv (run s evs) := by
  induction evs generalizing s with
  | nil => exact h
  | cons e es ih => exact ih (step s e) (inv_step s h e)

end Rpcx.Mux
