import Rpcx.Model.Select
/-
  The nginx smooth weighted round-robin (`next` in client/selector.go, modelled by
  `Sel.scan` / `Sel.next` / `Sel.buildRingAux`): after sum-of-weights steps from the all-zero
  state every server has been picked exactly weight-many times.
-/
namespace Rpcx.Sel

/-- the state after the additions of one `next`: every current weight grown by its weight -/
def bumped (ws : List W) : List W := ws.map (fun w => { w with cw := w.cw + w.weight })

/-- scanning results: the running maximum and the flagged index, as a pure function -/
def argmax : List W → Nat → Int → Nat → Int × Nat
  | [], _, m, f => (m, f)
  | w :: ws, i, m, f =>
    let cw := w.cw + w.weight
    if cw > m then argmax ws (i + 1) cw i else argmax ws (i + 1) m f

theorem scan_eq (ws : List W) : ∀ (i : Nat) (m : Int) (f : Nat),
    scan ws i m f = (bumped ws, (argmax ws i m f).2) := by
  induction ws with
  | nil => intro i m f; simp [scan, bumped, argmax]
  | cons w ws ih =>
    intro i m f
    simp only [scan, argmax, bumped, List.map_cons]
    split <;> (rw [ih]; simp [bumped])

/-- specification of the scan: the final maximum dominates the start value and every bumped
    current weight; and either nothing exceeded the start value (flag unchanged) or the flag
    points at an element whose bumped weight IS the final maximum, which exceeds the start -/
theorem argmax_spec (ws : List W) : ∀ (i : Nat) (m : Int) (f : Nat),
    let r := argmax ws i m f
    m ≤ r.1 ∧ (∀ w ∈ ws, w.cw + w.weight ≤ r.1)
    ∧ ((r.1 = m ∧ r.2 = f) ∨ (i ≤ r.2 ∧ r.2 < i + ws.length ∧ m < r.1
          ∧ ∃ w, ws[r.2 - i]? = some w ∧ w.cw + w.weight = r.1)) := by
  induction ws with
  | nil => intro i m f; simp [argmax]
  | cons w ws ih =>
    intro i m f
    simp only [argmax]
    split
    · rename_i hgt
      obtain ⟨h1, h2, h3⟩ := ih (i + 1) (w.cw + w.weight) i
      refine ⟨by omega, ?_, ?_⟩
      · intro x hx
        rcases List.mem_cons.mp hx with rfl | hx
        · exact h1
        · exact h2 x hx
      · right
        rcases h3 with ⟨e1, e2⟩ | ⟨a, b, c, x, hx, hxv⟩
        · refine ⟨by rw [e2]; exact Nat.le_refl _, by rw [e2]; simp, by rw [e1]; exact hgt, w, ?_, by rw [e1]⟩
          rw [e2]; simp
        · refine ⟨by omega, by simp only [List.length_cons]; omega, by omega, x, ?_, hxv⟩
          have : (argmax ws (i + 1) (w.cw + w.weight) i).2 - i = ((argmax ws (i + 1) (w.cw + w.weight) i).2 - (i + 1)) + 1 := by omega
          rw [this, List.getElem?_cons_succ]; exact hx
    · rename_i hle
      obtain ⟨h1, h2, h3⟩ := ih (i + 1) m f
      refine ⟨h1, ?_, ?_⟩
      · intro x hx
        rcases List.mem_cons.mp hx with rfl | hx
        · omega
        · exact h2 x hx
      · rcases h3 with ⟨e1, e2⟩ | ⟨a, b, c, x, hx, hxv⟩
        · left; exact ⟨e1, e2⟩
        · right
          refine ⟨by omega, by simp only [List.length_cons]; omega, c, x, ?_, hxv⟩
          have : (argmax ws (i + 1) m f).2 - i = ((argmax ws (i + 1) m f).2 - (i + 1)) + 1 := by omega
          rw [this, List.getElem?_cons_succ]; exact hx

def sumCw (ws : List W) : Int := (ws.map (·.cw)).sum

theorem sum_bumped (ws : List W) : sumCw (bumped ws) = sumCw ws + total ws := by
  induction ws with
  | nil => simp [sumCw, bumped, total]
  | cons w ws ih =>
    simp only [sumCw, bumped, total, List.map_cons, List.sum_cons] at ih ⊢
    omega

theorem sum_bumped_nonpos (ws : List W) (hall : ∀ w ∈ ws, w.cw + w.weight ≤ 0) : sumCw (bumped ws) ≤ 0 := by
  induction ws with
  | nil => simp [sumCw, bumped]
  | cons w ws ih =>
    have h1 := hall w (by simp)
    have h2 := ih (fun x hx => hall x (by simp [hx]))
    simp only [sumCw, bumped, List.map_cons, List.sum_cons] at h2 ⊢
    omega

/-- a positive sum has a positive element (so the scan finds one) -/
theorem exists_pos_of_sum_pos (ws : List W) (h : 0 < sumCw (bumped ws)) :
    0 < (argmax ws 0 0 0).1 := by
  obtain ⟨_, h2, _⟩ := argmax_spec ws 0 0 0
  by_cases hpos : 0 < (argmax ws 0 0 0).1
  · exact hpos
  · exfalso
    have := sum_bumped_nonpos ws (fun w hw => by have := h2 w hw; omega)
    omega

end Rpcx.Sel

namespace Rpcx.Sel

/-- `next` for two or more servers, spelled out: bump everything, find the flag, charge it -/
theorem next_eq (ws : List W) (T : Int) (h2 : 2 ≤ ws.length) :
    next ws T = charge (bumped ws) (argmax ws 0 0 0).2 T := by
  match ws, h2 with
  | a :: b :: rest, _ => simp only [next, scan_eq]

theorem bumped_length (ws : List W) : (bumped ws).length = ws.length := by simp [bumped]
theorem bumped_get (ws : List W) (i : Nat) (h : i < ws.length) :
    (bumped ws)[i]'(by rw [bumped_length]; exact h) = { ws[i] with cw := ws[i].cw + ws[i].weight } := by
  simp [bumped]

/-- the flag is a valid index, and if the bumped sum is positive the flagged element is positive -/
theorem flag_spec (ws : List W) (hne : ws ≠ []) :
    (argmax ws 0 0 0).2 < ws.length
    ∧ (0 < sumCw (bumped ws) → ∃ h : (argmax ws 0 0 0).2 < ws.length,
          0 < ws[(argmax ws 0 0 0).2].cw + ws[(argmax ws 0 0 0).2].weight) := by
  obtain ⟨_, _, h3⟩ := argmax_spec ws 0 0 0
  have hlen : 0 < ws.length := List.length_pos_iff.mpr hne
  rcases h3 with ⟨e1, e2⟩ | ⟨_, b, c, x, hx, hxv⟩
  · refine ⟨by rw [e2]; exact hlen, ?_⟩
    intro hpos
    have := exists_pos_of_sum_pos ws hpos
    omega
  · have hb : (argmax ws 0 0 0).2 < ws.length := by omega
    refine ⟨hb, fun _ => ⟨hb, ?_⟩⟩
    simp only [Nat.sub_zero] at hx
    rw [List.getElem?_eq_getElem hb] at hx
    cases hx
    omega

/-- one step of `next` on a state of two or more servers, index by index -/
theorem next_step (ws : List W) (T : Int) (h2 : 2 ≤ ws.length) :
    ∃ f, ∃ hf : f < ws.length,
      (next ws T).2 = some ws[f].server
      ∧ (next ws T).1.length = ws.length
      ∧ (∀ i (hi : i < ws.length) (hi' : i < (next ws T).1.length),
          (next ws T).1[i] = if i = f then { ws[i] with cw := ws[i].cw + ws[i].weight - T }
                             else { ws[i] with cw := ws[i].cw + ws[i].weight })
      ∧ (0 < sumCw (bumped ws) → 0 < ws[f].cw + ws[f].weight) := by
  have hne : ws ≠ [] := by intro e; rw [e] at h2; simp at h2
  obtain ⟨hf, hpos⟩ := flag_spec ws hne
  refine ⟨(argmax ws 0 0 0).2, hf, ?_⟩
  have hfb : (argmax ws 0 0 0).2 < (bumped ws).length := by rw [bumped_length]; exact hf
  rw [next_eq ws T h2, charge, List.getElem?_eq_getElem hfb]
  simp only
  refine ⟨by rw [bumped_get ws _ hf], by simp [bumped_length], ?_, fun h => (hpos h).2⟩
  intro i hi hi'
  rw [List.getElem_set]
  by_cases e : (argmax ws 0 0 0).2 = i
  · subst e
    simp [bumped_get ws _ hf]
  · have e' : ¬ i = (argmax ws 0 0 0).2 := fun h => e h.symm
    simp [e, e', bumped_get ws i hi]

end Rpcx.Sel

namespace Rpcx.Sel

theorem sumCw_set (l : List W) (f : Nat) (hf : f < l.length) (x : W) :
    sumCw (l.set f x) = sumCw l - l[f].cw + x.cw := by
  induction l generalizing f with
  | nil => simp at hf
  | cons a t ih =>
    cases f with
    | zero => simp only [sumCw, List.set_cons_zero, List.map_cons, List.sum_cons, List.getElem_cons_zero]; omega
    | succ k =>
      have := ih k (by simpa using hf)
      simp only [sumCw, List.set_cons_succ, List.map_cons, List.sum_cons, List.getElem_cons_succ] at this ⊢
      omega

theorem total_congr (ws ws0 : List W) (hl : ws.length = ws0.length)
    (hp : ∀ i (h0 : i < ws0.length) (h : i < ws.length), ws[i].weight = ws0[i].weight) : total ws = total ws0 := by
  induction ws generalizing ws0 with
  | nil => cases ws0 <;> simp_all [total]
  | cons a t ih =>
    cases ws0 with
    | nil => simp at hl
    | cons b t0 =>
      have h0 := hp 0 (by simp) (by simp)
      simp only [List.getElem_cons_zero] at h0
      have := ih t0 (by simpa using hl) (fun i h0' h' => by
        have := hp (i + 1) (by simpa using h0') (by simpa using h')
        simpa using this)
      simp only [total, List.map_cons, List.sum_cons] at this ⊢
      omega

/-- the relation between the initial list, the current state and the picks made so far -/
structure Rel (ws0 ws : List W) (T : Int) (acc : List String) : Prop where
  len : ws.length = ws0.length
  pt : ∀ i (h0 : i < ws0.length) (h : i < ws.length),
        ws[i].server = ws0[i].server ∧ ws[i].weight = ws0[i].weight
        ∧ ws[i].cw = (acc.length : Int) * ws0[i].weight - T * (acc.count ws0[i].server : Nat) ∧ -T < ws[i].cw
  sum : sumCw ws = 0

theorem rel_step (ws0 ws : List W) (T : Int) (acc : List String) (h2 : 2 ≤ ws0.length)
    (hT : T = total ws0) (hTpos : 0 < T) (hw : ∀ w ∈ ws0, 0 < w.weight) (hnd : (ws0.map (·.server)).Nodup)
    (hr : Rel ws0 ws T acc) :
    ∃ name, (next ws T).2 = some name ∧ name ∈ ws0.map (·.server) ∧ Rel ws0 (next ws T).1 T (name :: acc) := by
  have h2' : 2 ≤ ws.length := by rw [hr.len]; exact h2
  obtain ⟨f, hf, hname, hlen, hpt, hpos⟩ := next_step ws T h2'
  have hf0 : f < ws0.length := by rw [← hr.len]; exact hf
  have htot : total ws = T := by
    rw [hT]; exact total_congr ws ws0 hr.len (fun i h0 h => (hr.pt i h0 h).2.1)
  have hsumb : sumCw (bumped ws) = T := by rw [sum_bumped, hr.sum, htot]; omega
  have hpicked : 0 < ws[f].cw + ws[f].weight := hpos (by rw [hsumb]; exact hTpos)
  refine ⟨ws[f].server, hname, ?_, ?_⟩
  · rw [(hr.pt f hf0 hf).1]; exact List.mem_map_of_mem (List.getElem_mem hf0)
  · refine ⟨by rw [hlen, hr.len], ?_, ?_⟩
    · intro i h0 h
      have hi : i < ws.length := by rw [hr.len]; exact h0
      obtain ⟨e1, e2, e3, e4⟩ := hr.pt i h0 hi
      rw [hpt i hi h]
      have hwi : 0 < ws0[i].weight := hw _ (List.getElem_mem h0)
      by_cases e : i = f
      · subst e
        simp only [if_true]
        refine ⟨e1, e2, ?_, by omega⟩
        rw [e3, e2]
        have : (ws[i].server :: acc).count ws0[i].server = acc.count ws0[i].server + 1 := by
          rw [e1]; simp
        rw [this]
        simp only [List.length_cons, Int.natCast_add, Int.natCast_one]
        rw [Int.add_mul, Int.mul_add, Int.one_mul, Int.mul_one]
        omega
      · simp only [e, if_false]
        refine ⟨e1, e2, ?_, by omega⟩
        rw [e3, e2]
        have hne : ws[f].server ≠ ws0[i].server := by
          rw [(hr.pt f hf0 hf).1]
          intro heq
          have := (List.getElem_inj (xs := ws0.map (·.server)) (i := f) (j := i) (h₀ := by simpa using hf0) (h₁ := by simpa using h0) hnd).mp (by simpa using heq)
          exact e this.symm
        have : (ws[f].server :: acc).count ws0[i].server = acc.count ws0[i].server := by
          rw [List.count_cons]; simp [hne]
        rw [this]
        simp only [List.length_cons, Int.natCast_add, Int.natCast_one]
        rw [Int.add_mul, Int.one_mul]
        omega
    · -- the sum stays 0: bumped adds T, the charge takes T away
      rw [next_eq ws T h2', charge]
      have hfb : (argmax ws 0 0 0).2 < (bumped ws).length := by rw [bumped_length]; exact (flag_spec ws (by intro e; rw [e] at h2'; simp at h2')).1
      rw [List.getElem?_eq_getElem hfb]
      simp only
      rw [sumCw_set _ _ hfb, hsumb]
      simp only
      omega

end Rpcx.Sel

namespace Rpcx.Sel

theorem rel_run (ws0 : List W) (T : Int) (h2 : 2 ≤ ws0.length)
    (hT : T = total ws0) (hTpos : 0 < T) (hw : ∀ w ∈ ws0, 0 < w.weight) (hnd : (ws0.map (·.server)).Nodup) :
    ∀ (k : Nat) (ws : List W) (acc : List String), Rel ws0 ws T acc → (∀ a ∈ acc, a ∈ ws0.map (·.server)) →
      ∃ acc', (buildRingAux k ws T acc).2 = acc'.reverse ∧ acc'.length = acc.length + k
        ∧ (∀ a ∈ acc', a ∈ ws0.map (·.server)) ∧ Rel ws0 (buildRingAux k ws T acc).1 T acc' := by
  intro k
  induction k with
  | zero => intro ws acc hr hm; exact ⟨acc, by simp [buildRingAux], by simp, hm, by simpa [buildRingAux] using hr⟩
  | succ k ih =>
    intro ws acc hr hm
    obtain ⟨name, hn, hmem, hr'⟩ := rel_step ws0 ws T acc h2 hT hTpos hw hnd hr
    have := ih (next ws T).1 (name :: acc) hr' (by intro a ha; rcases List.mem_cons.mp ha with rfl | ha; exact hmem; exact hm a ha)
    obtain ⟨acc', e1, e2, e3, e4⟩ := this
    refine ⟨acc', ?_, by rw [e2]; simp; omega, e3, ?_⟩
    · simp only [buildRingAux, hn]; exact e1
    · simp only [buildRingAux, hn]; exact e4

/-- with distinct names, the per-name counts of a list of names add up to its length -/
theorem sum_counts (names : List String) (hnd : names.Nodup) :
    ∀ (acc : List String), (∀ a ∈ acc, a ∈ names) → ((names.map (fun n => acc.count n)).sum) = acc.length := by
  intro acc
  induction acc with
  | nil =>
    intro _
    have : ∀ l : List String, (l.map (fun n => ([] : List String).count n)).sum = 0 := by
      intro l; induction l <;> simp_all
    simpa using this names
  | cons a t ih =>
    intro hm
    have ht := ih (fun x hx => hm x (by simp [hx]))
    have ha : a ∈ names := hm a (by simp)
    have key : ∀ (l : List String), l.Nodup → a ∈ l →
        (l.map (fun n => (a :: t).count n)).sum = (l.map (fun n => t.count n)).sum + 1 := by
      intro l
      induction l with
      | nil => intro _ h; cases h
      | cons x xs ihx =>
        intro hnd' hmem
        simp only [List.nodup_cons] at hnd'
        simp only [List.map_cons, List.sum_cons, List.count_cons]
        rcases List.mem_cons.mp hmem with rfl | hmem'
        · -- a = x: x does not occur in xs
          have h' : (xs.map (fun n => t.count n + if a == n then 1 else 0)).sum = (xs.map (fun n => t.count n)).sum := by
            congr 1
            apply List.map_congr_left
            intro n hn
            have : a ≠ n := fun e => hnd'.1 (e ▸ hn)
            simp [this]
          simp only [beq_self_eq_true, if_true]
          omega
        · have hne : a ≠ x := fun e => hnd'.1 (e ▸ hmem')
          have := ihx hnd'.2 hmem'
          simp only [List.count_cons] at this
          simp [hne] at this ⊢
          omega
    rw [key names hnd ha, ht]; simp

/-- pointwise ≤ with equal sums forces equality -/
theorem eq_of_le_of_sum_eq : ∀ (cs wsN : List Int), cs.length = wsN.length →
    (∀ i (h1 : i < cs.length) (h2 : i < wsN.length), cs[i] ≤ wsN[i]) → cs.sum = wsN.sum →
    ∀ i (h1 : i < cs.length) (h2 : i < wsN.length), cs[i] = wsN[i] := by
  intro cs
  induction cs with
  | nil => intro wsN _ _ _ i h1; simp at h1
  | cons c cs ih =>
    intro wsN hl hle hs i h1 h2
    cases wsN with
    | nil => simp at hl
    | cons w wsN =>
      have h0 := hle 0 (by simp) (by simp)
      simp only [List.getElem_cons_zero] at h0
      have hrest : ∀ j (a : j < cs.length) (b : j < wsN.length), cs[j] ≤ wsN[j] := fun j a b => by
        have := hle (j + 1) (by simpa using a) (by simpa using b); simpa using this
      have hsum_le : cs.sum ≤ wsN.sum := by
        clear ih hs h0 hle h1 h2 i
        induction cs generalizing wsN with
        | nil => cases wsN <;> simp_all
        | cons a t iht =>
          cases wsN with
          | nil => simp at hl
          | cons b u =>
            have := hrest 0 (by simp) (by simp)
            simp only [List.getElem_cons_zero] at this
            have := iht u (by simpa using hl) (fun j a' b' => by
              have := hrest (j + 1) (by simpa using a') (by simpa using b'); simpa using this)
            simp only [List.sum_cons]; omega
      simp only [List.sum_cons] at hs
      have hc : c = w := by omega
      have hs' : cs.sum = wsN.sum := by omega
      cases i with
      | zero => simpa using hc
      | succ j =>
        have := ih wsN (by simpa using hl) hrest hs' j (by simpa using h1) (by simpa using h2)
        simpa using this

end Rpcx.Sel

namespace Rpcx.Sel

theorem sumCw_zero (ws : List W) (h : ∀ w ∈ ws, w.cw = 0) : sumCw ws = 0 := by
  induction ws with
  | nil => simp [sumCw]
  | cons a t ih =>
    have := ih (fun x hx => h x (by simp [hx]))
    have ha := h a (by simp)
    simp only [sumCw, List.map_cons, List.sum_cons] at this ⊢
    omega

theorem sum_map_cast (l : List String) (f : String → Nat) :
    (l.map (fun x => (f x : Int))).sum = (((l.map f).sum : Nat) : Int) := by
  induction l with
  | nil => simp
  | cons a t ih => simp only [List.map_cons, List.sum_cons, ih]; omega

/-- **Exact proportionality of the ring.**  Two or more servers with positive weights and
    distinct addresses, starting from the all-zero state: after sum-of-weights calls of `next`
    every server has been returned exactly weight-many times. -/
theorem ring_counts (ws0 : List W) (h2 : 2 ≤ ws0.length) (hw : ∀ w ∈ ws0, 0 < w.weight)
    (hnd : (ws0.map (·.server)).Nodup) (hcw : ∀ w ∈ ws0, w.cw = 0) :
    ∀ i (h : i < ws0.length),
      ((buildRingAux (total ws0).toNat ws0 (total ws0) []).2.count ws0[i].server : Int) = ws0[i].weight
    ∧ (buildRingAux (total ws0).toNat ws0 (total ws0) []).2.length = (total ws0).toNat := by
  have hne : ws0 ≠ [] := by intro e; rw [e] at h2; simp at h2
  have hTpos : 0 < total ws0 := by
    -- every weight is positive and there is at least one
    have : ∀ (l : List W), l ≠ [] → (∀ w ∈ l, 0 < w.weight) → 0 < total l := by
      intro l
      induction l with
      | nil => intro h; exact absurd rfl h
      | cons a t ih =>
        intro _ hall
        have ha := hall a (by simp)
        by_cases ht : t = []
        · subst ht; simp [total]; exact ha
        · have := ih ht (fun x hx => hall x (by simp [hx]))
          simp only [total, List.map_cons, List.sum_cons] at this ⊢
          omega
    exact this ws0 hne hw
  have hrel0 : Rel ws0 ws0 (total ws0) [] := by
    refine ⟨rfl, ?_, sumCw_zero ws0 hcw⟩
    intro i h0 h
    have := hcw ws0[i] (List.getElem_mem h0)
    refine ⟨rfl, rfl, by simp [this], by omega⟩
  obtain ⟨acc', e1, e2, e3, e4⟩ := rel_run ws0 (total ws0) h2 rfl hTpos hw hnd (total ws0).toNat ws0 [] hrel0 (by simp)
  have hlen : (acc'.length : Int) = total ws0 := by rw [e2]; simp; omega
  -- c_i ≤ w_i for every i
  have hle : ∀ i (h : i < ws0.length), (acc'.count ws0[i].server : Int) ≤ ws0[i].weight := by
    intro i h
    have hi : i < (buildRingAux (total ws0).toNat ws0 (total ws0) []).1.length := by rw [e4.len]; exact h
    obtain ⟨_, _, e3', e4'⟩ := e4.pt i h hi
    rw [e3', hlen] at e4'
    -- -T < T*w - T*c  ⇒  T*c < T*(w+1)  ⇒  c < w+1
    have h1 : total ws0 * (acc'.count ws0[i].server : Int) < total ws0 * (ws0[i].weight + 1) := by
      rw [Int.mul_add, Int.mul_one]; omega
    have := Int.lt_of_mul_lt_mul_left h1 (Int.le_of_lt hTpos)
    omega
  -- Σ c_i = T = Σ w_i
  have hsum : ((ws0.map (fun w => (acc'.count w.server : Int))).sum) = (ws0.map (·.weight)).sum := by
    have h1 := sum_counts (ws0.map (·.server)) hnd acc' e3
    rw [List.map_map] at h1
    have h2' := sum_map_cast (ws0.map (·.server)) (fun n => acc'.count n)
    rw [List.map_map, List.map_map] at h2'
    have : (ws0.map (fun w => (acc'.count w.server : Int))) = (ws0.map ((fun x => ((acc'.count x : Nat) : Int)) ∘ fun x => x.server)) := rfl
    rw [this, h2', h1, hlen]; rfl
  have heq := eq_of_le_of_sum_eq (ws0.map (fun w => (acc'.count w.server : Int))) (ws0.map (·.weight)) (by simp)
    (fun i h1 h2 => by simpa using hle i (by simpa using h1)) hsum
  intro i h
  refine ⟨?_, by rw [e1]; simp [e2]⟩
  rw [e1, List.count_reverse]
  have := heq i (by simpa using h) (by simpa using h)
  simpa using this

end Rpcx.Sel
