import Rpcx.Lemmas.Swrr
/-
  Smooth weighted round-robin with EQUAL weights is plain round-robin in slice order: the ring
  `buildRing` produces for n servers of weight w is w passes over the servers, for every n and w.
-/
namespace Rpcx.Sel

def mkW (w c : Int) (nm : String) : W := ⟨nm, w, c⟩

/-- the state after `k` picks of a round: the first `k` servers have been charged -/
def eqSt (names : List String) (w : Int) (k : Nat) : List W :=
  (names.take k).map (mkW w ((k : Int) * w - (names.length : Int) * w)) ++ (names.drop k).map (mkW w ((k : Int) * w))

theorem argmax_skip (pre rest : List W) (i : Nat) (m : Int) (f : Nat) (h : ∀ x ∈ pre, x.cw + x.weight ≤ m) :
    argmax (pre ++ rest) i m f = argmax rest (i + pre.length) m f := by
  induction pre generalizing i with
  | nil => simp
  | cons x xs ih =>
    have hx : ¬ (x.cw + x.weight > m) := by have := h x (by simp); omega
    simp only [List.cons_append, argmax, hx, if_false]
    rw [ih (i + 1) (fun y hy => h y (by simp [hy]))]
    simp only [List.length_cons]
    congr 1
    omega

theorem argmax_stay (post : List W) (i : Nat) (m : Int) (f : Nat) (h : ∀ x ∈ post, x.cw + x.weight ≤ m) :
    argmax post i m f = (m, f) := by
  induction post generalizing i with
  | nil => simp [argmax]
  | cons x xs ih =>
    have hx : ¬ (x.cw + x.weight > m) := by have := h x (by simp); omega
    simp only [argmax, hx, if_false]
    exact ih (i + 1) (fun y hy => h y (by simp [hy]))

theorem argmax_first (pre post : List W) (x : W) (hpre : ∀ y ∈ pre, y.cw + y.weight ≤ 0)
    (hx : 0 < x.cw + x.weight) (hpost : ∀ y ∈ post, y.cw + y.weight ≤ x.cw + x.weight) :
    (argmax (pre ++ x :: post) 0 0 0).2 = pre.length := by
  rw [argmax_skip pre (x :: post) 0 0 0 hpre]
  simp only [argmax, hx, gt_iff_lt, if_true, Nat.zero_add]
  rw [argmax_stay post _ _ _ hpost]

theorem eqSt_length (names : List String) (w : Int) (k : Nat) : (eqSt names w k).length = names.length := by
  simp [eqSt]
  omega

theorem succ_mul_int (k : Nat) (w : Int) : ((k + 1 : Nat) : Int) * w = (k : Int) * w + w := by
  rw [Int.natCast_succ, Int.add_mul, Int.one_mul]

/-- one `next` in a round: from the state after `k` picks, server `k` is picked -/
theorem eqSt_next (names : List String) (w : Int) (hw : 0 < w) (k : Nat) (hk : k < names.length)
    (h2 : 2 ≤ names.length) :
    next (eqSt names w k) ((names.length : Int) * w) = (eqSt names w (k + 1), some names[k]) := by
  have hlen := eqSt_length names w k
  rw [next_eq _ _ (by rw [hlen]; exact h2)]
  -- the list, split at k
  have hdrop : names.drop k = names[k] :: names.drop (k + 1) := List.drop_eq_getElem_cons hk
  have htake : names.take (k + 1) = names.take k ++ [names[k]] := List.take_succ_eq_append_getElem hk
  have hkw : 0 ≤ (k : Int) * w := Int.mul_nonneg (by omega) (by omega)
  have hle : ((k + 1 : Nat) : Int) * w ≤ (names.length : Int) * w :=
    Int.mul_le_mul_of_nonneg_right (by exact_mod_cast hk) (by omega)
  have hsucc := succ_mul_int k w
  have hsplit : eqSt names w k =
      (names.take k).map (mkW w ((k : Int) * w - (names.length : Int) * w))
        ++ mkW w ((k : Int) * w) names[k] :: (names.drop (k + 1)).map (mkW w ((k : Int) * w)) := by
    simp only [eqSt, hdrop, List.map_cons]
  have hflag : (argmax (eqSt names w k) 0 0 0).2 = k := by
    rw [hsplit, argmax_first]
    · simp [List.length_take]; omega
    · intro y hy
      simp only [List.mem_map] at hy
      obtain ⟨nm, _, rfl⟩ := hy
      simp only [mkW]; omega
    · simp only [mkW]; omega
    · intro y hy
      simp only [List.mem_map] at hy
      obtain ⟨nm, _, rfl⟩ := hy
      simp only [mkW]; omega
  rw [hflag]
  have hb : bumped (eqSt names w k) =
      (names.take k).map (mkW w (((k + 1 : Nat) : Int) * w - (names.length : Int) * w))
        ++ mkW w (((k + 1 : Nat) : Int) * w) names[k] :: (names.drop (k + 1)).map (mkW w (((k + 1 : Nat) : Int) * w)) := by
    rw [hsplit]
    simp only [bumped, List.map_append, List.map_cons, List.map_map]
    congr 1
    · apply List.map_congr_left; intro nm _; simp only [Function.comp, mkW]; congr 1; omega
    · congr 1
      · simp only [mkW]; congr 1; omega
      · apply List.map_congr_left; intro nm _; simp only [Function.comp, mkW]; congr 1; omega
  have hpl : ((names.take k).map (mkW w (((k + 1 : Nat) : Int) * w - (names.length : Int) * w))).length = k := by
    simp [List.length_take]; omega
  rw [hb, charge]
  rw [List.getElem?_append_right (by rw [hpl]; exact Nat.le_refl k)]
  simp only [hpl, Nat.sub_self, List.getElem?_cons_zero]
  rw [List.set_append_right _ _ (by rw [hpl]; exact Nat.le_refl k)]
  simp only [hpl, Nat.sub_self, List.set_cons_zero]
  simp only [eqSt, htake, List.map_append, List.map_cons, List.map_nil, List.append_assoc, List.cons_append, List.nil_append, mkW]

theorem eqSt_full (names : List String) (w : Int) : eqSt names w names.length = eqSt names w 0 := by
  simp [eqSt, Int.sub_self]

/-- the rest of a round: from the state after `k` picks, the remaining servers are picked in order -/
theorem eqSt_round (names : List String) (w : Int) (hw : 0 < w) (h2 : 2 ≤ names.length) :
    ∀ (d k : Nat), k + d = names.length → ∀ (m : Nat) (acc : List String),
      buildRingAux (d + m) (eqSt names w k) ((names.length : Int) * w) acc
        = buildRingAux m (eqSt names w 0) ((names.length : Int) * w) ((names.drop k).reverse ++ acc) := by
  intro d
  induction d with
  | zero =>
    intro k hk m acc
    have : k = names.length := by omega
    subst this
    simp [eqSt_full]
  | succ d ih =>
    intro k hk m acc
    have hlt : k < names.length := by omega
    have e : d + 1 + m = (d + m) + 1 := by omega
    rw [e]
    simp only [buildRingAux]
    rw [eqSt_next names w hw k hlt h2]
    simp only []
    rw [ih (k + 1) (by omega) m]
    have hd : (names.drop k).reverse ++ acc = (names.drop (k + 1)).reverse ++ names[k] :: acc := by
      have hdk := List.drop_eq_getElem_cons hlt
      rw [hdk, List.reverse_cons, List.append_assoc]
      rfl
    rw [hd]

/-- `r` whole rounds -/
theorem eqSt_rounds (names : List String) (w : Int) (hw : 0 < w) (h2 : 2 ≤ names.length) :
    ∀ (r : Nat) (acc : List String),
      buildRingAux (r * names.length) (eqSt names w 0) ((names.length : Int) * w) acc
        = (eqSt names w 0, acc.reverse ++ (List.replicate r names).flatten) := by
  intro r
  induction r with
  | zero => intro acc; simp [buildRingAux]
  | succ r ih =>
    intro acc
    have e : (r + 1) * names.length = names.length + r * names.length := by
      rw [Nat.add_mul, Nat.one_mul, Nat.add_comm]
    rw [e, eqSt_round names w hw h2 names.length 0 (by omega) (r * names.length) acc, ih]
    simp [List.replicate_succ]

theorem total_eqSt0 (names : List String) (w : Int) : total (eqSt names w 0) = (names.length : Int) * w := by
  simp only [eqSt, List.take_zero, List.map_nil, List.nil_append, List.drop_zero, total, List.map_map]
  induction names with
  | nil => simp
  | cons x xs ih =>
    simp only [List.map_cons, List.sum_cons, List.length_cons, Function.comp, mkW] at ih ⊢
    rw [ih, Int.natCast_succ, Int.add_mul, Int.one_mul]
    omega

end Rpcx.Sel
