import Rpcx.Basic
/-
  Exact-arithmetic meaning of the Go expressions
    int(math.Ceil (math.Log2(float64(a) / float64(b))))   and
    int(math.Floor(math.Log2(float64(a) / float64(b))))
  for b > 0.  For a ≤ b the ceiling is ≤ 0 and for a < b the floor is < 0; the pool code
  clamps negative indices to 0, and for a = 0 Go yields a huge negative number
  (int(-Inf)); both definitions return a non-positive value there (ceil: 0 or -1, floor: -1).
  That the float64 evaluation agrees with this for the sizes the pool sees is an assumption,
  checked exhaustively for every size 0..max+2 of each configuration by `harness c20`.
-/
namespace Rpcx

/-- least k ≥ 0 with a ≤ b·2^k, searched upward (fuel bounds the search) -/
def ceilLogAux (a b : Nat) : Nat → Nat → Nat
  | 0, k => k
  | fuel + 1, k => if a ≤ b * 2 ^ k then k else ceilLogAux a b fuel (k + 1)

def ceilLog2Ratio (a b : Int) : Int :=
  if a ≤ 0 then -1
  else if a ≤ b then 0     -- real value is ≤ 0 (and > -∞); the callers clamp at 0
  else Int.ofNat (ceilLogAux a.toNat b.toNat a.toNat 0)

/-- greatest k ≥ 0 with b·2^k ≤ a (for a ≥ b) -/
def floorLogAux (a b : Nat) : Nat → Nat → Nat
  | 0, k => k
  | fuel + 1, k => if b * 2 ^ (k + 1) ≤ a then floorLogAux a b fuel (k + 1) else k

def floorLog2Ratio (a b : Int) : Int :=
  if a < b then -1          -- real value is < 0
  else Int.ofNat (floorLogAux a.toNat b.toNat a.toNat 0)

end Rpcx
