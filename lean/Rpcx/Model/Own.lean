/-
  Ownership of pooled buffers and objects (sync.Pool behind util.LimitedPool, protocol's frame
  buffers, util.Zip/Unzip scratch buffers, server.reflectTypePools).

  A pool hands out an object it holds, or a fresh one; the taker OWNS it until it puts it back.
  The library's discipline – every site writes only to objects it owns and puts back only what it
  owns, once – is an assumption about the code (tied by the hold-and-recheck runs of harness c20 and
  the write-site facts of C08); what follows from it is proved here for every history.
-/
namespace Rpcx.Own

structure St where
  free : List Nat                 -- objects in the pool
  owned : List (Nat × Nat)        -- (object, owner)
  next : Nat                      -- objects never handed out yet are ≥ next
  mem : Nat → Nat                 -- contents of each object (abstracted to a number)

inductive Ev
  | get (owner : Nat) (pick : Nat)        -- take the pick-th free object, or a fresh one when there is none at that index
  | write (owner obj val : Nat)           -- owner writes to obj
  | put (owner obj : Nat)                 -- owner returns obj

/-- an event respects the discipline in a state: writes and puts are by the owner of record -/
def ok (s : St) : Ev → Prop
  | .get _ _ => True
  | .write o b _ => (b, o) ∈ s.owned
  | .put o b => (b, o) ∈ s.owned

def step (s : St) : Ev → St
  | .get o pick =>
    match s.free[pick]? with
    | some b => { s with free := s.free.eraseIdx pick, owned := (b, o) :: s.owned }
    | none => { s with owned := (s.next, o) :: s.owned, next := s.next + 1 }
  | .write _ b v => { s with mem := fun x => if x = b then v else s.mem x }
  | .put o b => { s with free := b :: s.free, owned := s.owned.filter (fun e => !(e.1 == b && e.2 == o)) }

def init : St := ⟨[], [], 0, fun _ => 0⟩

/-- no object is in the pool twice, none is both in the pool and owned, none has two owner records,
    and everything in circulation is below `next` -/
structure Inv (s : St) : Prop where
  free_nodup : s.free.Nodup
  owned_nodup : (s.owned.map (·.1)).Nodup
  disjoint : ∀ b ∈ s.free, b ∉ s.owned.map (·.1)
  free_lt : ∀ b ∈ s.free, b < s.next
  owned_lt : ∀ b ∈ s.owned.map (·.1), b < s.next

end Rpcx.Own
