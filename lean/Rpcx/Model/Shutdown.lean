/-
  Graceful shutdown (server/server.go: Shutdown, Close, serveListener, serveConn,
  processOneRequest) as a transition system over the steps that matter for C16.

  One request goes through   read → start (count++) → write → finish (count--)
  where `read` is serveConn's reader returning from readRequest, `start` the first statements of
  processOneRequest (in its own goroutine, or in a pool worker), `write` the response write and
  `finish` the deferred decrement.  Shutdown goes through
      begin (CAS inShutdown, close listener, half-close reads)
      poll* (count == 0 ?)  |  expire (its context's deadline)
      closeConns
      closeDone (closeDoneChanLocked)
  Close() is `closeConns` + `closeDone` in one critical section, at any time.
  The accept loop returns once Accept fails: ErrServerClosed after waiting for the done channel
  if the shutdown flag is set.
-/
namespace Rpcx.Sd

inductive Phase | unsent | read | started | written | finished
deriving DecidableEq, Repr

inductive SdPc | idle | begun | drained | expired | connsClosed | completed
deriving DecidableEq, Repr

structure Req where
  phase : Phase := .unsent
  delivered : Bool := false     -- the response reached the peer (written while the connection was open)
  lost : Bool := false          -- written after the connection was closed
  readAfterDone : Bool := false -- read after shutdown had completed (must never happen)
  startedAfterPoll : Bool := false  -- its handler started after Shutdown's successful poll
deriving DecidableEq, Repr

structure State where
  reqs : Nat → Req := fun _ => {}
  active : List Nat := []       -- ghost: requests started and not yet finished
  count : Nat := 0              -- handlerMsgNum
  inShutdown : Bool := false
  lnClosed : Bool := false
  connsClosed : Bool := false   -- every active connection closed
  done : Bool := false          -- doneChan closed
  doneCloses : Nat := 0         -- executions of close(doneChan): 2 = panic
  pc : SdPc := .idle
  expired : Bool := false       -- Shutdown gave up waiting (its context expired)
  hardClosed : Bool := false    -- Close() was called
  serveRet : Option Bool := none   -- accept loop returned: some true = ErrServerClosed

inductive Ev
  | read (i : Nat) | start (i : Nat) | write (i : Nat) | finish (i : Nat)
  | sdBegin | sdPoll | sdExpire | sdCloseConns | sdCloseDone
  | close            -- Server.Close()
  | acceptFail       -- the accept loop notices the closed listener
deriving DecidableEq, Repr

def init : State := {}

def setReq (s : State) (i : Nat) (r : Req) : State :=
  { s with reqs := fun j => if j = i then r else s.reqs j }

/-- `closeDoneChanLocked`: test-and-close under the server mutex -/
def closeDone (s : State) : State :=
  if s.done then s else { s with done := true, doneCloses := s.doneCloses + 1 }

def latePc (pc : SdPc) : Bool := pc = .drained ∨ pc = .expired ∨ pc = .connsClosed ∨ pc = .completed

/-- one step; a step that is not enabled leaves the state unchanged -/
def step (s : State) : Ev → State
  | .read i =>
    -- the reader can still obtain bytes while its connection is open
    if (s.reqs i).phase = .unsent ∧ s.connsClosed = false then
      setReq s i { s.reqs i with phase := .read, readAfterDone := s.done }
    else s
  | .start i =>
    if (s.reqs i).phase = .read then
      let s' := setReq s i { s.reqs i with phase := .started, startedAfterPoll := latePc s.pc }
      { s' with count := s.count + 1, active := i :: s.active }
    else s
  | .write i =>
    if (s.reqs i).phase = .started then
      setReq s i { s.reqs i with phase := .written, delivered := !s.connsClosed, lost := s.connsClosed }
    else s
  | .finish i =>
    if (s.reqs i).phase = .written then
      let s' := setReq s i { s.reqs i with phase := .finished }
      { s' with count := s.count - 1, active := s.active.erase i }
    else s
  | .sdBegin => if s.inShutdown then s else { s with inShutdown := true, lnClosed := true, pc := .begun }
  | .sdPoll => if s.pc = .begun ∧ s.count = 0 then { s with pc := .drained } else s
  | .sdExpire => if s.pc = .begun then { s with pc := .expired, expired := true } else s
  | .sdCloseConns => if s.pc = .drained ∨ s.pc = .expired then { s with connsClosed := true, pc := .connsClosed } else s
  | .sdCloseDone => if s.pc = .connsClosed then (let s' := closeDone s; { s' with pc := .completed }) else s
  | .close => closeDone { s with lnClosed := true, connsClosed := true, hardClosed := true }
  | .acceptFail =>
    if s.lnClosed ∧ s.serveRet = none then
      (if s.inShutdown then (if s.done then { s with serveRet := some true } else s)   -- waits for doneChan
       else { s with serveRet := some false })   -- Close() without Shutdown: the listener's own error
    else s

def run (s : State) (evs : List Ev) : State := evs.foldl step s

end Rpcx.Sd
