import Rpcx.Gen.Select
/-
  Hand-written executable models of the selection strategies (client/selector.go) around
  the regenerated round-robin cursor: weighted round-robin (createWeighted's eligibility
  rule, buildRing, next), consistent hash (an exact model of edwingeng/doublejump over an
  abstract jump function `jh`), and the update operations.  Map iteration order is an
  explicit input: an update carries its entries in the order the implementation ranged
  over the map.  A Go panic is the explicit outcome `none`.
-/
namespace Rpcx.Sel
open Rpcx.Gen

/-! ### round robin -/

structure RR where
  servers : List String
  st : RRSt
deriving Repr

def RR.new (keys : List String) : RR := ⟨keys, ⟨0⟩⟩
/-- UpdateServer keeps the cursor and replaces the slice -/
def RR.update (s : RR) (keys : List String) : RR := { s with servers := keys }
def RR.select (s : RR) : RR × Option String :=
  let r := Gen.RR.select s.st s.servers
  ({ s with st := r.1 }, r.2)

/-! ### smooth weighted round robin -/

structure W where
  server : String
  weight : Int
  cw : Int
deriving DecidableEq, Repr

/-- the scan of `next`: add each weight to its current weight, remember the first index
    whose new current weight exceeds the running maximum (initially 0; flag defaults to 0) -/
def scan : List W → Nat → Int → Nat → List W × Nat
  | [], _, _, flag => ([], flag)
  | w :: ws, i, m, flag =>
    let cw := w.cw + w.weight
    let w' := { w with cw := cw }
    let (m', flag') := if cw > m then (cw, i) else (m, flag)
    let r := scan ws (i + 1) m' flag'
    (w' :: r.1, r.2)

/-- `s.servers[flag].CurrentWeight -= s.totalWeight; return s.servers[flag]` -/
def charge (bs : List W) (f : Nat) (total : Int) : List W × Option String :=
  match bs[f]? with
  | none => (bs, none)   -- unreachable: flag < length
  | some w => (bs.set f { w with cw := w.cw - total }, some w.server)

/-- `next()`: `none` when there is no server (Go returns nil) -/
def next (ws : List W) (total : Int) : List W × Option String :=
  match ws with
  | [] => ([], none)
  | [w] => ([w], some w.server)
  | _ => charge (scan ws 0 0 0).1 (scan ws 0 0 0).2 total

def total (ws : List W) : Int := (ws.map (·.weight)).sum

/-- `buildRing`: `totalWeight` calls of `next` (none at all when the total is ≤ 0) -/
def buildRingAux : Nat → List W → Int → List String → List W × List String
  | 0, ws, _, acc => (ws, acc.reverse)
  | k + 1, ws, t, acc =>
    let (ws', r) := next ws t
    buildRingAux k ws' t (match r with | some s => s :: acc | none => acc)

structure WRR where
  ws : List W
  ring : List String
  pos : Nat
deriving Repr

/-- `createWeighted` after parsing: the harness/spec supplies each server's parsed weight
    (default 1 when the metadata has no usable weight); non-positive weights are not eligible -/
def WRR.new (entries : List (String × Int)) : WRR :=
  let ws := (entries.filter (fun e => e.2 > 0)).map (fun e => (⟨e.1, e.2, 0⟩ : W))
  let t := total ws
  let (ws', ring) := buildRingAux t.toNat ws t []
  ⟨ws', ring, 0⟩

/-- UpdateServer builds a fresh selector -/
def WRR.update (_ : WRR) (entries : List (String × Int)) : WRR := WRR.new entries

/-- Select: "" when there is no server; a nil ring with servers present would panic -/
def WRR.select (s : WRR) : WRR × Option String :=
  if s.ws.isEmpty then (s, some "")
  else match s.ring[s.pos]? with
    | none => (s, none)
    | some v => ({ s with pos := (s.pos + 1) % s.ring.length }, some v)

/-! ### consistent hash: edwingeng/doublejump -/

structure DJ where
  la : List (Option String)   -- loose.a (nil slots = none)
  lf : List Nat               -- loose.f: free slot indices, last = top of stack
  ca : List String            -- compact.a
deriving DecidableEq, Repr

def DJ.empty : DJ := ⟨[], [], []⟩

def DJ.add (d : DJ) (s : String) : DJ :=
  let la := if d.la.contains (some s) then d.la
            else match d.lf.getLast? with
              | none => d.la ++ [some s]
              | some idx => d.la.set idx (some s)
  let lf := if d.la.contains (some s) then d.lf
            else d.lf.dropLast
  let ca := if d.ca.contains s then d.ca else d.ca ++ [s]
  ⟨la, lf, ca⟩

def DJ.remove (d : DJ) (s : String) : DJ :=
  let (la, lf) := match d.la.idxOf? (some s) with
    | none => (d.la, d.lf)
    | some idx => (d.la.set idx none, d.lf ++ [idx])
  let ca := match d.ca.idxOf? s with
    | none => d.ca
    | some idx =>
      match d.ca.getLast? with
      | none => d.ca
      | some last => (d.ca.set idx last).dropLast
  ⟨la, lf, ca⟩

/-- `Get`: loose slot first, compact as fall-back; `jh key n` is jump.Hash -/
def DJ.get (jh : Nat → Nat → Nat) (d : DJ) (key : Nat) : Option String :=
  if d.la.isEmpty then none else
  match d.la[jh key d.la.length]? with
  | some (some s) => some s
  | _ =>
    if d.ca.isEmpty then none else
    d.ca[jh ((key * 0xc6a4a7935bd1e995) % 18446744073709551616) d.ca.length]?

structure CH where
  h : DJ
  servers : List String   -- sorted keys
deriving Repr

/-- insertion sort on strings (the Go code sorts the key slice with sort.Slice) -/
def insertStr (s : String) : List String → List String
  | [] => [s]
  | x :: xs => if s < x then s :: x :: xs else x :: insertStr s xs
def sortStr (l : List String) : List String := l.foldr insertStr []

/-- construction (after the fix): servers are added in sorted order, whatever the map order -/
def CH.new (keys : List String) : CH :=
  let ss := sortStr keys
  ⟨ss.foldl DJ.add DJ.empty, ss⟩

/-- UpdateServer (after the fix): add the new set in sorted order, then remove the old
    servers that are no longer present -/
def CH.update (s : CH) (keys : List String) : CH :=
  let ss := sortStr keys
  let h1 := ss.foldl DJ.add s.h
  let h2 := (s.servers.filter (fun k => !ss.contains k)).foldl DJ.remove h1
  ⟨h2, ss⟩

def CH.select (jh : Nat → Nat → Nat) (s : CH) (key : Nat) : Option String :=
  if s.servers.isEmpty then some "" else
  some ((s.h.get jh key).getD "")

end Rpcx.Sel
