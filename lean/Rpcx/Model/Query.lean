import Rpcx.Basic
/-
  net/url's query-component escaping as rpcx uses it to carry metadata in the X-RPCX-Meta
  header (server/converter.go, gateway.go, jsonrpc2.go; client side: url.Values.Encode):
  `escape` = url.QueryEscape, `unescape` = url.QueryUnescape, `encodeValues` = Values.Encode for
  one value per key (keys in the order given; Go sorts them), `parseQuery` = url.ParseQuery
  (segments split at '&', a segment with ';' is an error, empty segments are skipped, key and
  value split at the first '=', both unescaped; errors are remembered and parsing goes on).
  Hand-written; diffed against net/url by `harness c19` (driver commands `qesc`, `qparse`).
-/
namespace Rpcx.Query
open Rpcx

def unreserved (c : Byte) : Bool :=
  (0x61#8 ≤ c && c ≤ 0x7A#8) || (0x41#8 ≤ c && c ≤ 0x5A#8) || (0x30#8 ≤ c && c ≤ 0x39#8)
    || c == 0x2D#8 || c == 0x5F#8 || c == 0x2E#8 || c == 0x7E#8

def upperHex (n : Nat) : Byte := if n < 10 then BitVec.ofNat 8 (0x30 + n) else BitVec.ofNat 8 (0x41 + n - 10)

def escByte (c : Byte) : Bytes :=
  if c == 0x20#8 then [0x2B#8]
  else if unreserved c then [c]
  else [0x25#8, upperHex (c.toNat / 16), upperHex (c.toNat % 16)]

def escape : Bytes → Bytes
  | [] => []
  | c :: r => escByte c ++ escape r

def unhex (c : Byte) : Option Nat :=
  if 0x30#8 ≤ c ∧ c ≤ 0x39#8 then some (c.toNat - 0x30)
  else if 0x61#8 ≤ c ∧ c ≤ 0x66#8 then some (c.toNat - 0x61 + 10)
  else if 0x41#8 ≤ c ∧ c ≤ 0x46#8 then some (c.toNat - 0x41 + 10)
  else none

def unescape : Bytes → Option Bytes
  | [] => some []
  | c :: r =>
    if c == 0x25#8 then
      match r with
      | a :: b :: r' =>
        match unhex a, unhex b with
        | some x, some y => (unescape r').map (BitVec.ofNat 8 (x * 16 + y) :: ·)
        | _, _ => none
      | _ => none
    else if c == 0x2B#8 then (unescape r).map (0x20#8 :: ·)
    else (unescape r).map (c :: ·)

/-- split at every `sep` -/
def splitOn (sep : Byte) : Bytes → List Bytes
  | [] => [[]]
  | c :: r =>
    if c == sep then [] :: splitOn sep r
    else match splitOn sep r with
      | s :: ss => (c :: s) :: ss
      | [] => [[c]]

/-- strings.Cut at the first `sep`: (before, after); after = [] when absent -/
def cut (sep : Byte) : Bytes → Bytes × Bytes
  | [] => ([], [])
  | c :: r => if c == sep then ([], r) else ((c :: (cut sep r).1), (cut sep r).2)

def pairOf (e : Bytes × Bytes) : Bytes := escape e.1 ++ 0x3D#8 :: escape e.2

def joinAmp : List Bytes → Bytes
  | [] => []
  | [s] => s
  | s :: rest => s ++ 0x26#8 :: joinAmp rest

/-- url.Values.Encode for single-valued keys -/
def encodeValues (m : List (Bytes × Bytes)) : Bytes := joinAmp (m.map pairOf)

/-- the loop of url.parseQuery over the '&'-separated segments: entries in order, and whether
    an error was recorded -/
def parseSegs : List Bytes → List (Bytes × Bytes) × Bool
  | [] => ([], false)
  | s :: rest =>
    if s.contains 0x3B#8 then ((parseSegs rest).1, true)
    else if s.isEmpty then parseSegs rest
    else match unescape (cut 0x3D#8 s).1, unescape (cut 0x3D#8 s).2 with
      | some k, some v => ((k, v) :: (parseSegs rest).1, (parseSegs rest).2)
      | _, _ => ((parseSegs rest).1, true)

def parseQuery (q : Bytes) : List (Bytes × Bytes) × Bool :=
  if q.isEmpty then ([], false) else parseSegs (splitOn 0x26#8 q)

/-- `mm[k] = v[0]`: the first value of every key -/
def firstWins : List (Bytes × Bytes) → List (Bytes × Bytes)
  | [] => []
  | e :: rest => e :: (firstWins rest).filter (fun x => x.1 != e.1)

end Rpcx.Query
