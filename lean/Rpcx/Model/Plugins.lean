import Rpcx.Model.Server
/-
  The server's plugin container (server/plugin.go) at the three rejecting stages: the registered plugins
  are asked in registration order and the FIRST rejection is the container's answer – later plugins are
  not asked (the loops `return` inside; that they do is a regenerated fact, Gen/Plugins.lean).
  `Plugins.env` turns the verdicts of whole plugin lists into the single verdicts the server model
  (`Srv.Env`) consults.
-/
namespace Rpcx.Plug
open Rpcx Rpcx.Srv

/-- DoPostReadRequest / DoPreCall: `for … { if err := plugin.X(…); err != nil { return err } }; return nil` -/
def firstErr : List (Option Bytes) → Option Bytes
  | [] => none
  | none :: rest => firstErr rest
  | some e :: _ => some e

/-- DoPostConnAccept: `for … { if !accepted { conn.Close(); return conn, false } }; return conn, true` -/
def allAccept : List Bool → Bool
  | [] => true
  | true :: rest => allAccept rest
  | false :: _ => false

structure Plugins where
  accept : List Bool                 -- HandleConnAccept verdicts, in registration order
  postRead : List (Option Bytes)     -- PostReadRequest errors
  preCall : List (Option Bytes)      -- PreCall errors
deriving Repr

def Plugins.acceptOk (ps : Plugins) : Bool := allAccept ps.accept

/-- the environment a request meets on a server with these plugins -/
def Plugins.env (ps : Plugins) (base : Env) : Env :=
  { base with postReadOk := (firstErr ps.postRead).isNone, preCallErr := firstErr ps.preCall }

end Rpcx.Plug
