/-
  Vocabulary of the regenerated critical-section facts (Rpcx/Gen/Atomic.lean, written by
  go/extract/gen_atomic.go): functions, mutexes and the statements of interest ("markers").
  Enumerations rather than strings so that the `tie_*` theorems are closed by kernel evaluation.
-/
namespace Rpcx.Atomic

inductive Fn
  | clientSend | clientInput | clientCall | clientClose | clientSendRaw
  | serverShutdown | serverClose | serverProcessOne
deriving DecidableEq, Repr

inductive Mx
  | clientMutex            -- Client.mutex
  | serverMu               -- Server.mu
  | serverJsonrpc          -- Server.jsonrpcHTTPServerLock
  | other (id : Nat)       -- any other mutex, numbered in order of appearance
deriving DecidableEq, Repr

inductive Mk
  -- client
  | testShutdown | testClosing | setSeq | putPending | getPending | deletePending | rangePending
  | callDone | connClose | setShutdown | setClosing | pluginClose | noticeToChan
  -- server
  | lnClose | rangeActive | deleteActive | closeDone | countInc | countDecDeferred
  | sendResponse | handleRequest | routerHandler | writeError | gatewayClose
deriving DecidableEq, Repr

/-- one statement of interest of a function and the lock acquisitions (mutex, ordinal of the
    Lock call within the function) it runs under -/
structure Mark where
  fn : Fn
  what : Mk
  held : List (Mx × Nat)
deriving DecidableEq, Repr

end Rpcx.Atomic
