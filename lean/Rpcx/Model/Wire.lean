import Rpcx.Basic
import Rpcx.Gen.Header
import Rpcx.Gen.Layout
import Rpcx.Model.Blit
/-
  Hand-written executable model of the rpcx wire codec (protocol/message.go):
  `encodeStream` (the `WriteTo` order of writes), `encodeBuf` (the pooled-buffer encoder,
  interpreting the *generated* layout), `decode` (Message.Decode after the `fix:` that
  bounds-checks every section), the chunked reader and `decodeAll`.
  Tied to the code by the differential harness (`harness c01`, `harness c02`).
-/
namespace Rpcx
open Rpcx.Gen

structure Msg where
  hdr : Header
  path : Bytes
  method : Bytes
  md : List (Bytes × Bytes)
  payload : Bytes
deriving DecidableEq, Repr

/-- A compressor as the codec sees it (protocol.Compressor): both directions may fail. -/
structure Compressor where
  zip : Bytes → Option Bytes
  unzip : Bytes → Option Bytes

/-- protocol.Compressors: compress type (3 bits) → registered compressor. -/
abbrev Registry := Byte → Option Compressor

/-- `encodeMetadata`: entries in the order the map iteration produced them. -/
def encodeMeta : List (Bytes × Bytes) → Bytes
  | [] => []
  | (k, v) :: rest => be32 k.length ++ k ++ (be32 v.length ++ v) ++ encodeMeta rest

inductive EncErr | unsupportedCompressor | zipFailed
deriving DecidableEq, Repr

/-- What `WriteTo` does with the payload (error on unknown compressor / zip failure). -/
def zipStrict (reg : Registry) (h : Header) (p : Bytes) : Except EncErr Bytes :=
  if Header.compressType h == C.CompressType_None then .ok p
  else match reg (Header.compressType h) with
    | none => .error .unsupportedCompressor
    | some c => match c.zip p with
      | none => .error .zipFailed
      | some z => .ok z

/-- What `EncodeSlicePointer` does: falls back to no compression (clearing the flag). -/
def zipLenient (reg : Registry) (h : Header) (p : Bytes) : Header × Bytes :=
  if Header.compressType h == C.CompressType_None then (h, p)
  else match reg (Header.compressType h) with
    | none => (Header.setCompressType h C.CompressType_None, p)
    | some c => match c.zip p with
      | none => (Header.setCompressType h C.CompressType_None, p)
      | some z => (h, z)

/-- The frame as a concatenation of sections: the order of writes of `WriteTo`. -/
def frameOf (h : Header) (path method metaB pay : Bytes) : Bytes :=
  h.toBytes ++ (be32 ((4 + path.length) + (4 + method.length) + (4 + metaB.length) + (4 + pay.length))
    ++ (be32 path.length ++ (path ++ (be32 method.length ++ (method
    ++ (be32 metaB.length ++ (metaB ++ (be32 pay.length ++ pay))))))))

def encodeStream (reg : Registry) (m : Msg) : Except EncErr Bytes :=
  match zipStrict reg m.hdr m.payload with
  | .error e => .error e
  | .ok z => .ok (frameOf m.hdr m.path m.method (encodeMeta m.md) z)

/-- `EncodeSlicePointer`: take a pool buffer of the generated length (arbitrary stale
    contents `stale`) and perform the generated writes. `none` = Go would panic. -/
def encodeBuf (reg : Registry) (m : Msg) (stale : Bytes) : Option Bytes :=
  let (h, z) := zipLenient reg m.hdr m.payload
  let metaB := encodeMeta m.md
  let env : Src → Bytes := fun
    | .header => h.toBytes | .path => m.path | .method => m.method | .mdata => metaB | .payload => z
  let n := encBufLen m.path.length m.method.length metaB.length z.length
  let buf := (stale ++ List.replicate n 0#8).take n
  applyBlits env buf (encBlits m.path.length m.method.length metaB.length z.length)

/-! ### decoding -/

inductive DecErr
  | eof            -- reader ended / failed before the announced bytes arrived
  | badMagic
  | tooLong        -- ErrMessageTooLong, raised before the body is read
  | malformed      -- a declared section length overruns the frame
  | metaKV         -- ErrMetaKVMissing
  | unsupportedCompressor
  | unzipFailed
deriving DecidableEq, Repr

/-- read a big-endian u32 off the front -/
def rd32p : Bytes → Option (Nat × Bytes)
  | a :: b :: c :: d :: rest => some (rd32 a b c d, rest)
  | _ => none

/-- take exactly `n` bytes off the front -/
def takeN (n : Nat) (bs : Bytes) : Option (Bytes × Bytes) :=
  if n ≤ bs.length then some (bs.take n, bs.drop n) else none

/-- one length-prefixed section -/
def sect (bs : Bytes) : Option (Bytes × Bytes) :=
  match rd32p bs with
  | none => none
  | some (n, rest) => takeN n rest

/-- `decodeMetadata` (after the fix): the section must be consumed exactly by
    length-prefixed key/value pairs. Fuel = section length (each round consumes ≥ 8). -/
def decodeMetaAux : Nat → Bytes → Option (List (Bytes × Bytes))
  | 0, bs => if bs.isEmpty then some [] else none
  | fuel + 1, bs =>
    if bs.isEmpty then some [] else
    (sect bs).bind fun kr => (sect kr.2).bind fun vr =>
      (decodeMetaAux fuel vr.2).map ((kr.1, vr.1) :: ·)

def decodeMeta (bs : Bytes) : Option (List (Bytes × Bytes)) := decodeMetaAux bs.length bs

/-! The decoder is written in continuation-passing style (`withSect bs k`): each step either
    fails or hands the parsed piece and the rest to the continuation.  This keeps the shape
    of the Go code (a sequence of "read length, check, slice" steps) and makes every step a
    rewrite rule in the proofs (`withSect_encode`). -/

/-- read one length-prefixed section or fail with `malformed` -/
def withSect {α : Type} (bs : Bytes) (k : Bytes → Bytes → Except DecErr α) : Except DecErr α :=
  match sect bs with
  | none => .error .malformed
  | some (a, r) => k a r

def withMeta {α : Type} (metaB : Bytes) (k : List (Bytes × Bytes) → Except DecErr α) : Except DecErr α :=
  match decodeMeta metaB with
  | none => .error .metaKV
  | some md => k md

/-- The payload step of `Decode`: unzip according to the header's compress type. -/
def unzipStep (reg : Registry) (h : Header) (pay : Bytes) : Except DecErr Bytes :=
  if Header.compressType h == C.CompressType_None then .ok pay
  else match reg (Header.compressType h) with
    | none => .error .unsupportedCompressor
    | some c => match c.unzip pay with
      | none => .error .unzipFailed
      | some p => .ok p

/-- Parse a frame body (the `totalL` bytes after the 16-byte prefix). -/
def decodeBody (reg : Registry) (h : Header) (body : Bytes) : Except DecErr Msg :=
  withSect body fun path r1 =>
  withSect r1 fun method r2 =>
  withSect r2 fun metaB r3 =>
  withMeta metaB fun md =>
  withSect r3 fun pay _slack =>
  (unzipStep reg h pay).map fun p => ⟨h, path, method, md, p⟩

structure Cfg where
  maxLen : Nat := 0      -- protocol.MaxMessageLength (0 = unlimited)
  reg : Registry

abbrev DecRes := Except (DecErr × Nat) (Msg × Bytes)

/-- `io.ReadFull` of `n` bytes: on a short read the decoder fails having consumed
    everything that was there (`all` bytes). -/
def withTake {α : Type} (n : Nat) (bs : Bytes) (all : Nat) (k : Bytes → Bytes → Except (DecErr × Nat) α) :
    Except (DecErr × Nat) α :=
  match takeN n bs with
  | none => .error (.eof, all)
  | some (a, r) => k a r

def withU32 {α : Type} (bs : Bytes) (all : Nat) (k : Nat → Bytes → Except (DecErr × Nat) α) :
    Except (DecErr × Nat) α :=
  match rd32p bs with
  | none => .error (.eof, all)
  | some (n, r) => k n r

def withHeader {α : Type} (hb : Bytes) (all : Nat) (k : Header → Except (DecErr × Nat) α) :
    Except (DecErr × Nat) α :=
  match Header.ofBytes hb with
  | none => .error (.eof, all)      -- unreachable: hb has 12 bytes
  | some h => k h

/-- attach the unread rest (on success) or the consumed count (on a body error) -/
def decodeFinish (r : Except DecErr Msg) (total : Nat) (rest : Bytes) : DecRes :=
  match r with
  | .error e => .error (e, 16 + total)
  | .ok m => .ok (m, rest)

/-- Decode one frame from the front of a byte string; returns the message and the
    unread rest, or an error together with the number of bytes consumed. -/
def decode (cfg : Cfg) (bs : Bytes) : DecRes :=
  if bs.isEmpty then .error (.eof, 0) else
  if bs.head? != some C.magicNumber then .error (.badMagic, 1) else
  withTake 12 bs bs.length fun hb r1 =>
  withHeader hb bs.length fun h =>
  withU32 r1 bs.length fun total r2 =>
  if 0 < cfg.maxLen ∧ cfg.maxLen < total then .error (.tooLong, 16) else
  withTake total r2 bs.length fun body rest =>
  decodeFinish (decodeBody cfg.reg h body) total rest

/-- Decode frames until the input is exhausted or an error occurs (a decode error is
    fatal for the connection in both the server and the client read loops). -/
def decodeAll (cfg : Cfg) : Nat → Bytes → List Msg × Option DecErr
  | 0, _ => ([], none)
  | fuel + 1, bs =>
    if bs.isEmpty then ([], none) else
    match decode cfg bs with
    | .error (e, _) => ([], some e)
    | .ok (m, rest) => ((decodeAll cfg fuel rest).1 |>.cons m, (decodeAll cfg fuel rest).2)

/-! ### the chunked reader (`io.ReadFull` over a reader that returns arbitrary chunks) -/

def readFull : Nat → List Bytes → Option (Bytes × List Bytes)
  | 0, cs => some ([], cs)
  | _ + 1, [] => none
  | n + 1, c :: cs =>
    if n + 1 ≤ c.length then some (c.take (n + 1), c.drop (n + 1) :: cs)
    else match readFull (n + 1 - c.length) cs with
      | none => none
      | some (a, cs') => some (c ++ a, cs')

/-- Go map semantics of the decoded metadata: the last entry for a key wins. -/
def metaLookup (m : List (Bytes × Bytes)) (k : Bytes) : Option Bytes :=
  (m.reverse.find? (fun e => e.1 == k)).map (·.2)

end Rpcx
