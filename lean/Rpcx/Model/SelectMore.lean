import Rpcx.Basic
/-
  The two selection strategies whose choice is random (client/selector.go): `randomSelector` and the
  location-based `geoSelector`.  The random source is a parameter (`rnd`: whatever `Intn` returns is
  `rnd % n`), distances are abstract naturals (any order-preserving reading of the float distances,
  an undefined distance – NaN – already mapped to the largest finite value `max`, as the code does).
-/
namespace Rpcx.Sel

/-- `randomSelector.Select`: "" without servers, else `servers[Intn(len(servers))]` -/
def randomSelect (ss : List String) (rnd : Nat) : String :=
  if ss.isEmpty then "" else ss.getD (rnd % ss.length) ""

/-- the scan of `geoSelector.Select`: `minNum` starts at `max`; a strictly smaller distance restarts the
    candidate list, an equal one joins it -/
def geoScan : List (String × Nat) → Nat → List String → List String × Nat
  | [], m, c => (c, m)
  | (s, d) :: rest, m, c =>
    if d < m then geoScan rest d [s]
    else if d = m then geoScan rest m (c ++ [s])
    else geoScan rest m c

/-- `geoSelector.Select`; `none` = the index expression would panic (`Intn(0)` / index out of range) -/
def geoSelect (max : Nat) (ss : List (String × Nat)) (rnd : Nat) : Option String :=
  if ss.isEmpty then some ""
  else
    let c := (geoScan ss max []).1
    if c.length = 1 then c[0]?
    else if c.isEmpty then none
    else c[rnd % c.length]?

end Rpcx.Sel
