import Rpcx.Gen.Pool
/-
  util.LimitedPool around the REGENERATED findPool / findPutPool: the level table built by
  NewLimitedPool (sizes min, 2·min, 4·min, … while < max, then max) in closed form, and what
  Get / Put do with a buffer.  A level's sync.Pool is modelled by what matters for the
  property: the capacity of the buffer a Get may receive from it.
-/
namespace Rpcx
open Rpcx.Gen

/-- number of doubling levels below max: least m with max ≤ min·2^m -/
def poolM (min max : Nat) : Nat := ceilLogAux max min max 0

/-- `len(p.pools)` -/
def npoolsOf (min max : Nat) : Nat := poolM min max + 1

/-- size of level i -/
def levelSize (min max : Nat) (i : Nat) : Nat := if i < poolM min max then min * 2 ^ i else max

inductive GetRes
  | fresh (len : Nat)                 -- no level: make([]byte, size)
  | pooled (level : Nat) (len : Nat)  -- taken from a level and resliced to len
deriving DecidableEq, Repr

/-- `Get(size)` on a pool whose levels hold only their own fresh buffers -/
def poolGet (min max : Nat) (size : Nat) : GetRes :=
  match (Pool.findPool () min max (npoolsOf min max) size).2 with
  | none => .fresh size
  | some idx => .pooled idx.toNat size

/-- `Put` of a buffer of capacity `c`: the level that stores it, if any -/
def poolPut (min max : Nat) (c : Nat) : Option Nat :=
  ((Pool.findPutPool () min max (npoolsOf min max) c).2).map Int.toNat

end Rpcx
