import Rpcx.Model.Wire
/-
  One request through the native server path (server/server.go): serveConn's loop body,
  processOneRequest, handleRequest / handleRequestForFunction / router handlers with
  Context.Write / WriteError, handleError, Clone, sendResponse – as a function from the request
  and the environment's verdicts for it to the list of externally visible actions.
  Everything the real server consults for this request (plugins, AuthFunc, registry, codec,
  the handler itself) is a field of `Env`; the header manipulation uses the REGENERATED
  accessors (Rpcx.Gen.Header.*).
-/
namespace Rpcx.Srv
open Rpcx Rpcx.Gen

inductive Target
  | reflected | function | router | noService | noMethod
deriving DecidableEq, Repr

inductive Behaviour
  | ok                       -- the handler returns nil; its reply encodes to `Env.replyPayload`
  | err (text : Bytes)       -- the handler returns an error with this message
  | panic (text : Bytes)     -- the handler panics; `text` is the rendered message the server builds
deriving DecidableEq, Repr

structure Env where
  postReadOk : Bool := true              -- PostReadRequest plugins accept the request
  reachLimit : Bool := false             -- …or reject it with ErrReqReachLimit (rate limiting)
  authErr : Option Bytes := none         -- AuthFunc's verdict (consulted unless heartbeat)
  target : Target := .reflected
  codecKnown : Bool := true              -- share.Codecs has the request's serialize type
  argsErr : Option Bytes := none         -- codec.Decode(args) error text
  preCallErr : Option Bytes := none      -- PreCall plugin rejection
  behaviour : Behaviour := .ok
  replyPayload : Bytes := []
  resMeta : List (Bytes × Bytes) := []   -- response metadata the handler put into the context
deriving Repr

inductive Action
  | invoke                               -- a service handler ran
  | write (m : Msg)                      -- one frame written to the connection
  | closeConn                            -- the read loop ends and the connection is closed
  | next                                 -- the read loop goes on to the next request
deriving DecidableEq, Repr

def serviceErrorKey : Bytes := "__rpcx_error__".toUTF8.toList.map (fun b => BitVec.ofNat 8 b.toNat)

/-- `req.Clone()` + `SetMessageType(Response)`: the response skeleton -/
def responseFor (req : Msg) : Msg :=
  { hdr := Header.setMessageType (Header.setCompressType req.hdr C.CompressType_None) C.MessageType_Response,
    path := req.path, method := req.method, md := [], payload := [] }

/-- merge of the context's response metadata into the response (`meta[k] == ""` wins) -/
def mergeMeta (own ctx : List (Bytes × Bytes)) : List (Bytes × Bytes) :=
  own ++ ctx.filter (fun e => (metaLookup own e.1).getD [] == [])

/-- `handleError` / `WriteError`: status Error and the message under the reserved key -/
def errorResponse (req : Msg) (text : Bytes) (ctxMeta : List (Bytes × Bytes)) : Msg :=
  let r := responseFor req
  { r with hdr := Header.setMessageStatusType r.hdr C.MessageStatusType_Error,
           md := mergeMeta [(serviceErrorKey, text)] ctxMeta }

/-- `sendResponse` / `Context.Write`: compress flag re-set by the size rule -/
def finishResponse (req : Msg) (res : Msg) : Msg :=
  if 1024 < res.payload.length ∧ Header.compressType req.hdr ≠ C.CompressType_None then
    { res with hdr := Header.setCompressType res.hdr (Header.compressType req.hdr) }
  else res

def okResponse (req : Msg) (payload : Bytes) (ctxMeta : List (Bytes × Bytes)) : Msg :=
  finishResponse req { responseFor req with payload := payload, md := ctxMeta }

def textOf (s : String) : Bytes := s.toUTF8.toList.map (fun b => BitVec.ofNat 8 b.toNat)

/-- write the response unless the request is one-way -/
def reply (req : Msg) (res : Msg) : List Action :=
  if Header.isOneway req.hdr then [] else [.write res]

/-- handleRequest / handleRequestForFunction / router handler, after the registry lookup -/
def dispatch (env : Env) (req : Msg) : List Action :=
  match env.target with
  | .noService => reply req (errorResponse req (textOf "rpcx: can't find service " ++ req.path) env.resMeta)
  | .noMethod => reply req (errorResponse req (textOf "rpcx: can't find method " ++ req.method) env.resMeta)
  | .router =>
    -- the handler itself binds (Context.Bind), computes and writes (Context.Write); any error it
    -- returns goes through Context.WriteError.  Plugins' PreCall does not apply to router handlers.
    if !env.codecKnown then reply req (errorResponse req (textOf "can not find codec for " ++ textOf (toString (Header.serializeType req.hdr).toNat)) env.resMeta)
    else match env.argsErr with
      | some t => reply req (errorResponse req t env.resMeta)
      | none =>
        match env.behaviour with
        | .ok => .invoke :: reply req (okResponse req env.replyPayload env.resMeta)
        | .err t => .invoke :: reply req (errorResponse req t env.resMeta)
        | .panic t => .invoke :: reply req (errorResponse req t env.resMeta)
  | _ =>
    if !env.codecKnown then reply req (errorResponse req (textOf "can not find codec for " ++ textOf (toString (Header.serializeType req.hdr).toNat)) env.resMeta)
    else match env.argsErr with
      | some t => reply req (errorResponse req t env.resMeta)
      | none =>
        match env.preCallErr with
        | some t => reply req (errorResponse req t env.resMeta)
        | none =>
          match env.behaviour with
          | .ok => .invoke :: reply req (okResponse req env.replyPayload env.resMeta)
          | .err t => .invoke :: reply req (errorResponse req t env.resMeta)
          | .panic t => .invoke :: reply req (errorResponse req t env.resMeta)

/-- one iteration of serveConn's loop for a decoded request -/
def serveOne (env : Env) (req : Msg) : List Action :=
  if env.reachLimit then
    reply req (errorResponse req (textOf "request reached rate limit") []) ++ [.next]
  else if !env.postReadOk then [.closeConn]
  else
    let authVerdict := if Header.isHeartbeat req.hdr then none else env.authErr
    match authVerdict with
    | some t => reply req (errorResponse req t []) ++ [.closeConn]
    | none =>
      if Header.isHeartbeat req.hdr then
        -- echo of the request itself with the type bit set; no service involved
        [.write { req with hdr := Header.setMessageType req.hdr C.MessageType_Response }, .next]
      else dispatch env req ++ [.next]

end Rpcx.Srv

namespace Rpcx.Srv
open Rpcx Rpcx.Gen

/-! ### the three ingresses (server/server.go serveListener, gateway.go, jsonrpc2.go) -/

inductive Ingress | native | gateway | jsonrpc
deriving DecidableEq, Repr

inductive HttpOut
  | result (payload : Bytes)     -- 200 with the reply payload / JSON-RPC "result"
  | error (text : Bytes)         -- HTTP error status or X-RPCX-ErrorMessage / JSON-RPC "error"
  | closed                       -- the connection was refused / closed without an answer
deriving DecidableEq, Repr

/-- router handlers are reachable on the native ingress only: the HTTP ingresses go straight to
    handleRequest, where a router path is just an unknown service -/
def httpEnv (env : Env) : Env := if env.target = .router then { env with target := .noService } else env

/-- handleGatewayRequest / handleJSONRPCRequest after header conversion: plugins, auth (always –
    there is no heartbeat exemption here), then the shared handleRequest.
    `acceptOk` is the verdict of the accept-stage plugins for the connection (after the fix they
    are applied to the HTTP listeners too). -/
def httpOne (acceptOk : Bool) (env : Env) (req : Msg) : List Action × HttpOut :=
  if !acceptOk then ([.closeConn], .closed)
  else if env.reachLimit then ([], .error (textOf "request reached rate limit"))
  else if !env.postReadOk then ([], .error (textOf "rejected"))
  else match env.authErr with
    | some t => ([], .error t)
    | none =>
      -- the HTTP front ends always produce an answer: evaluate as a two-way request
      let req2 := { req with hdr := Header.setOneway req.hdr false }
      let acts := dispatch (httpEnv env) req2
      let out := match acts.filterMap (fun a => match a with | .write m => some m | _ => none) with
        | m :: _ =>
          if Header.messageStatusType m.hdr == C.MessageStatusType_Error
          then HttpOut.error ((metaLookup m.md serviceErrorKey).getD [])
          else HttpOut.result m.payload
        | [] => HttpOut.closed
      (acts.filter (· == .invoke), out)

/-- one request through any ingress -/
def ingressOne (ing : Ingress) (acceptOk : Bool) (env : Env) (req : Msg) : List Action :=
  match ing with
  | .native => if !acceptOk then [.closeConn] else serveOne env req
  | _ => (httpOne acceptOk env req).1

/-- one connection on the native ingress: `serveConn`'s read loop over the requests the peer sends, each
    meeting its own environment (the verdicts of plugins, auth, registry and handler for THAT request);
    the loop ends when a request's processing closes the connection – later requests are never read -/
def serveConn : List (Env × Msg) → List Action
  | [] => []
  | (env, req) :: rest =>
    let a := serveOne env req
    if Action.closeConn ∈ a then a else a ++ serveConn rest

end Rpcx.Srv
