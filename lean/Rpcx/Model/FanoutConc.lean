import Rpcx.Model.Fanout
/-
  Broadcast / Fork / Inform at the granularity of the goroutines' steps (client/xclient.go).

  Every contacted server has a worker goroutine:   call  →  record  →  signal
    record : `err.Append(e)` when the call failed; `replyOnce.Do(copy the reply)` when it succeeded;
             Inform also appends the receipt (under `receiptsLock`)
    signal : the deferred `done <- (e == nil)` (the channel is buffered for all workers: never blocks)
  The caller's loop receives the signals:
    Broadcast : `l--; if l == 0 || !result { break }`, then `err.ErrorOrNil()`
    Fork      : `l--; if result { return nil }; if l == 0 { break }`, then `err.ErrorOrNil()`
    Inform    : `l--; if l == 0 { break }`, then `receipts, err.ErrorOrNil()`
  A history is ANY interleaving of `finish i` (the call of worker i completed and its outcome is
  recorded), `signal i` and `recv` (one iteration of the caller's loop).  `Model/Fanout` – verdicts as
  a function of the completion order – is what these histories are proved to amount to (Props/C17).
  The order record → signal inside a worker is a regenerated fact (Gen/Fanout.lean).
-/
namespace Rpcx.FanC
open Rpcx.Fan

inductive WPc | calling | finished | signalled
deriving DecidableEq, Repr

inductive Op | broadcast | fork | inform
deriving DecidableEq, Repr

structure W where
  srv : Srv
  pc : WPc
deriving DecidableEq, Repr

structure St where
  ws : List W                 -- one worker per contacted server
  errs : Nat                  -- entries of the shared MultiError
  reply : Option Nat          -- the caller's reply (`none` = untouched)
  receipts : List Receipt     -- Inform's receipts
  queue : List Bool           -- content of the `done` channel
  recvd : List Bool           -- what the caller's loop has received so far (ghost)
  left : Nat                  -- the loop's `l`
  ret : Option Bool           -- the caller returned; `some true` = nil error
deriving Repr

inductive Ev | finish (i : Nat) | signal (i : Nat) | recv
deriving Repr

def init (srvs : List Srv) : St :=
  { ws := srvs.map (fun s => ⟨s, .calling⟩), errs := 0, reply := none, receipts := [], queue := [], recvd := [],
    left := srvs.length, ret := none }

def step (op : Op) (s : St) : Ev → St
  | .finish i =>
    match s.ws[i]? with
    | some ⟨sv, .calling⟩ =>
      { s with ws := s.ws.set i ⟨sv, .finished⟩,
               errs := if sv.ok then s.errs else s.errs + 1,
               reply := if sv.ok then (match s.reply with | none => some sv.reply | some r => some r) else s.reply,
               receipts := s.receipts ++ [⟨sv.addr, sv.reply, sv.ok⟩] }
    | _ => s
  | .signal i =>
    match s.ws[i]? with
    | some ⟨sv, .finished⟩ => { s with ws := s.ws.set i ⟨sv, .signalled⟩, queue := s.queue ++ [sv.ok] }
    | _ => s
  | .recv =>
    match s.ret, s.queue with
    | none, r :: q =>
      let s1 := { s with queue := q, recvd := s.recvd ++ [r], left := s.left - 1 }
      match op with
      | .broadcast => if s1.left = 0 ∨ r = false then { s1 with ret := some (s.errs == 0) } else s1
      | .fork => if r then { s1 with ret := some true } else if s1.left = 0 then { s1 with ret := some (s.errs == 0) } else s1
      | .inform => if s1.left = 0 then { s1 with ret := some (s.errs == 0) } else s1
    | _, _ => s

def run (op : Op) (srvs : List Srv) (evs : List Ev) : St := evs.foldl (step op) (init srvs)

/-- the same workers with the two halves of their program SWAPPED – signal first, record afterwards (what
    "report completion before the clean-up" amounts to).  Only used to show that the order matters
    (`Props.C17.signal_first_breaks_broadcast`). -/
def stepSignalFirst (op : Op) (s : St) : Ev → St
  | .signal i =>
    match s.ws[i]? with
    | some ⟨sv, .calling⟩ => { s with ws := s.ws.set i ⟨sv, .finished⟩, queue := s.queue ++ [sv.ok] }
    | _ => s
  | .finish i =>
    match s.ws[i]? with
    | some ⟨sv, .finished⟩ =>
      { s with ws := s.ws.set i ⟨sv, .signalled⟩,
               errs := if sv.ok then s.errs else s.errs + 1,
               reply := if sv.ok then (match s.reply with | none => some sv.reply | some r => some r) else s.reply,
               receipts := s.receipts ++ [⟨sv.addr, sv.reply, sv.ok⟩] }
    | _ => s
  | .recv => step op s .recv

def runSignalFirst (op : Op) (srvs : List Srv) (evs : List Ev) : St := evs.foldl (stepSignalFirst op) (init srvs)

end Rpcx.FanC
