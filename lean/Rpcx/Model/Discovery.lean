import Rpcx.Basic
/-
  Discovery → xClient (client/multiple_servers_discovery.go, client/xclient.go watch,
  filterByStateAndGroup).  A published list is abstracted to its identity `α`;
  each watcher has a bounded FIFO (Go channel of capacity `cap`); `notify` is the
  in-order, non-blocking hand-off (after the fix): when the queue is full the OLDEST pending
  list is dropped; the watcher applies queue items in order.
-/
namespace Rpcx.Disc

/-- what the filter sees of one server's metadata after url.ParseQuery -/
structure Meta where
  parseOk : Bool            -- ParseQuery returned no error
  state : Bytes             -- values.Get("state")
  groups : List Bytes       -- values["group"]
deriving DecidableEq, Repr

def inactiveBytes : Bytes := "inactive".toUTF8.toList.map (fun b => BitVec.ofNat 8 b.toNat)

/-- `filterByStateAndGroup`: is the server kept? (metadata that does not parse is left alone) -/
def keep (group : Bytes) (m : Meta) : Bool :=
  if !m.parseOk then true
  else if m.state == inactiveBytes then false
  else if group.isEmpty then true
  else m.groups.contains group

def filterServers (group : Bytes) (servers : List (String × Meta)) : List String :=
  (servers.filter (fun e => keep group e.2)).map (·.1)

/-! ### publisher / watcher -/

structure Watcher (α : Type) where
  queue : List α            -- oldest first
  applied : Option α        -- the list the xClient currently uses (none = initial)
deriving Repr

/-- `notifyWatcher` (after the fix): append; if that exceeds the capacity drop the oldest -/
def notify {α : Type} (cap : Nat) (w : Watcher α) (x : α) : Watcher α :=
  let q := w.queue ++ [x]
  { w with queue := if q.length > cap then q.drop (q.length - cap) else q }

/-- one iteration of `xClient.watch`: take the oldest pending list and apply it -/
def applyOne {α : Type} (w : Watcher α) : Watcher α :=
  match w.queue with
  | [] => w
  | x :: rest => { queue := rest, applied := some x }

inductive Step (α : Type)
  | publish (x : α)
  | apply

def step {α : Type} (cap : Nat) (w : Watcher α) : Step α → Watcher α
  | .publish x => notify cap w x
  | .apply => applyOne w

def run {α : Type} (cap : Nat) (w : Watcher α) (steps : List (Step α)) : Watcher α :=
  steps.foldl (step cap) w

/-- the last published list of a schedule -/
def lastPublished {α : Type} : List (Step α) → Option α
  | [] => none
  | .publish x :: rest => (lastPublished rest).orElse (fun _ => some x)
  | .apply :: rest => lastPublished rest

/-! ### one discovery, many watchers that come and go
  `MultipleServersDiscovery`: `WatchService` registers a fresh channel, `RemoveWatcher` (from
  `xClient.Close`) takes one out, `Update` hands the list to every channel registered at that moment
  and records it as the current list; all three run under the discovery's mutex, so each is one
  step.  A client built by `NewXClient` starts from the current list (`GetServices`). -/

structure Hub (α : Type) where
  current : Option α                   -- what GetServices returns (none = the construction-time list)
  ws : List (Nat × Watcher α)          -- registered watchers, in registration order
deriving Repr

inductive HubStep (α : Type)
  | watch (id : Nat)       -- NewXClient: load the current list, register a watcher
  | remove (id : Nat)      -- xClient.Close → RemoveWatcher
  | publish (x : α)        -- Update
  | apply (id : Nat)       -- one iteration of that client's watch loop

def hubStep {α : Type} (cap : Nat) (h : Hub α) : HubStep α → Hub α
  | .watch id => if h.ws.any (·.1 == id) then h else { h with ws := h.ws ++ [(id, ⟨[], h.current⟩)] }
  | .remove id => { h with ws := h.ws.filter (fun e => e.1 != id) }
  | .publish x => { current := some x, ws := h.ws.map (fun e => (e.1, notify cap e.2 x)) }
  | .apply id => { h with ws := h.ws.map (fun e => if e.1 == id then (e.1, applyOne e.2) else e) }

def hubRun {α : Type} (cap : Nat) (h : Hub α) (steps : List (HubStep α)) : Hub α :=
  steps.foldl (hubStep cap) h

def hubLastPublished {α : Type} : List (HubStep α) → Option α
  | [] => none
  | .publish x :: rest => (hubLastPublished rest).orElse (fun _ => some x)
  | _ :: rest => hubLastPublished rest

end Rpcx.Disc
