import Rpcx.Basic
/-
  The writes `EncodeSlicePointer` performs into its pooled buffer, as data.
  `Gen/Layout.lean` (regenerated from the source) is a `List Blit`; this file gives the
  Go semantics of one write (slice bounds check, `copy` copies min(len dst, len src),
  `PutUint32` needs 4 bytes) so that an off-by-one in the source is representable.
-/
namespace Rpcx

inductive Src | header | path | method | mdata | payload
deriving DecidableEq, Repr

inductive Blit
  | u32 (lo : Nat) (hi : Option Nat) (val : Nat)
  | copy (lo : Nat) (hi : Option Nat) (src : Src)
deriving DecidableEq, Repr

/-- overwrite `buf[lo ..< lo+src.length]` (caller guarantees it fits) -/
def writeAt (buf : Bytes) (lo : Nat) (src : Bytes) : Bytes :=
  buf.take lo ++ src ++ buf.drop (lo + src.length)

/-- One write with Go's checks; `none` = the Go code would panic. -/
def applyBlit (env : Src → Bytes) (buf : Bytes) : Blit → Option Bytes
  | .u32 lo hi v =>
    let hi' := hi.getD buf.length
    if lo ≤ hi' ∧ hi' ≤ buf.length ∧ 4 ≤ hi' - lo then some (writeAt buf lo (be32 v)) else none
  | .copy lo hi src =>
    let hi' := hi.getD buf.length
    if lo ≤ hi' ∧ hi' ≤ buf.length then some (writeAt buf lo ((env src).take (hi' - lo))) else none

def applyBlits (env : Src → Bytes) : Bytes → List Blit → Option Bytes
  | buf, [] => some buf
  | buf, b :: bs => (applyBlit env buf b).bind (fun buf' => applyBlits env buf' bs)

end Rpcx
