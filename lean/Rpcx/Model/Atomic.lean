import Rpcx.Gen.Atomic
/-
  Queries over the REGENERATED critical-section facts (Rpcx/Gen/Atomic.lean): which statements
  of a function execute under one acquisition of a mutex, in which order markers occur, and the
  lock-order pairs.  The concurrency models (Mux, Shutdown) treat certain statement groups as one
  atomic step; the `tie_*` theorems in the property files state, over these facts, that the code
  as it is now really executes each such group inside one critical section.
-/
namespace Rpcx.Atomic
open Rpcx.Gen

def marksOf (fn : Fn) : List Mark := marks.filter (·.fn == fn)

/-- the acquisitions of mutex `m` that occur in `fn` (0 = "differs between paths", never counted) -/
def regionsOf (fn : Fn) (m : Mx) : List Nat :=
  (((marksOf fn).flatMap (·.held)).filter (fun r => r.1 == m && r.2 != 0)).map (·.2) |>.eraseDups

/-- some single acquisition of `m` in `fn` covers ALL the given markers -/
def sameRegion (fn : Fn) (m : Mx) (whats : List Mk) : Bool :=
  (regionsOf fn m).any (fun r => whats.all (fun w => (marksOf fn).any (fun a => a.what == w && a.held.contains (m, r))))

/-- every acquisition of `m` in `fn` that covers marker `w` also covers marker `w2` -/
def regionsWithAlsoHave (fn : Fn) (m : Mx) (w w2 : Mk) : Bool :=
  (regionsOf fn m).all (fun r =>
    !((marksOf fn).any (fun a => a.what == w && a.held.contains (m, r)))
      || (marksOf fn).any (fun a => a.what == w2 && a.held.contains (m, r)))

/-- marker `w` never occurs in `fn` outside a (certain) acquisition of `m` -/
def onlyUnder (fn : Fn) (m : Mx) (w : Mk) : Bool :=
  (marksOf fn).all (fun a => a.what != w || a.held.any (fun r => r.1 == m && r.2 != 0))

def indexOfMark (fn : Fn) (w : Mk) : Option Nat :=
  ((marksOf fn).map (·.what)).findIdx? (· == w)

/-- marker `a` occurs in `fn`, and before the first occurrence of marker `b` -/
def occursBefore (fn : Fn) (a b : Mk) : Bool :=
  match indexOfMark fn a, indexOfMark fn b with
  | some i, some j => i < j
  | _, _ => false

/-- how many times marker `w` occurs in `fn` (over all its paths) -/
def countOf (fn : Fn) (w : Mk) : Nat := ((marksOf fn).filter (·.what == w)).length

def occurs (fn : Fn) (w : Mk) : Bool := (indexOfMark fn w).isSome

/-- no lock is acquired while itself held, and no two locks are acquired in both orders -/
def lockOrderAcyclic : Bool :=
  lockPairs.all (fun p => p.1 != p.2.1 && !lockPairs.any (fun q => q.1 == p.2.1 && q.2.1 == p.1))

end Rpcx.Atomic
