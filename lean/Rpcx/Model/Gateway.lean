import Rpcx.Model.Server
import Rpcx.Model.Query
/-
  The HTTP gateway's request conversion (server/converter.go HTTPRequest2RpcxRequest and the
  checks of server/gateway.go handleGatewayRequest) and the JSON-RPC method split
  (server/jsonrpc2.go), on top of the shared server model.  Header values are byte strings;
  `[]` is an absent header (http.Header.Get returns "" for both).
-/
namespace Rpcx.Gw
open Rpcx Rpcx.Gen Rpcx.Srv Rpcx.Query

def isDigit (c : Byte) : Bool := 0x30#8 ≤ c && c ≤ 0x39#8

/-- the value of a non-empty all-digit string (unbounded) -/
def parseDecAux : Bytes → Nat → Option Nat
  | [], acc => some acc
  | c :: r, acc => if isDigit c then parseDecAux r (acc * 10 + (c.toNat - 0x30)) else none

def parseDec (s : Bytes) : Option Nat := if s.isEmpty then none else parseDecAux s 0

/-- strconv.ParseUint(s, 10, 64) -/
def parseUint64 (s : Bytes) : Option Nat :=
  match parseDec s with
  | some n => if n < 18446744073709551616 then some n else none
  | none => none

/-- strconv.Atoi on a 64-bit platform: optional sign, digits, range of int64 -/
def atoi (s : Bytes) : Option Int :=
  match s with
  | [] => none
  | c :: r =>
    if c == 0x2D#8 then
      match parseDec r with
      | some n => if n ≤ 9223372036854775808 then some (-(n : Int)) else none
      | none => none
    else
      match parseDec (if c == 0x2B#8 then r else s) with
      | some n => if n < 9223372036854775808 then some (n : Int) else none
      | none => none

/-- decimal rendering (strconv.FormatUint(n, 10)) -/
def toDecAux : Nat → Nat → Bytes → Bytes
  | 0, _, acc => acc
  | fuel + 1, n, acc =>
    if n < 10 then BitVec.ofNat 8 (0x30 + n) :: acc
    else toDecAux fuel (n / 10) (BitVec.ofNat 8 (0x30 + n % 10) :: acc)

def toDec (n : Nat) : Bytes := toDecAux (n + 1) n []

structure HttpReq where
  msgID : Bytes := []
  heartbeat : Bytes := []
  oneway : Bytes := []
  serType : Bytes := []
  compType : Bytes := []
  mdata : Bytes := []        -- X-RPCX-Meta
  auth : Bytes := []         -- Authorization
  pathHdr : Bytes := []      -- X-RPCX-ServicePath
  urlPath : Bytes := []      -- the URL path without its leading '/'
  method : Bytes := []       -- X-RPCX-ServiceMethod
  body : Bytes := []
deriving Repr

inductive ConvErr | badID | badSerType | badCompType | badMeta
deriving DecidableEq, Repr

/-- share.AuthKey = "__AUTH" -/
def authKey : Bytes := [0x5F#8, 0x5F#8, 0x41#8, 0x55#8, 0x54#8, 0x48#8]
/-- "true" -/
def trueBytes : Bytes := [0x74#8, 0x72#8, 0x75#8, 0x65#8]

/-- `protocol.NewMessage()` + `SetMessageType(Request)` -/
def baseHeader : Header :=
  Header.setMessageType ⟨C.magicNumber, 0#8, 0#8, 0#8, 0#8, 0#8, 0#8, 0#8, 0#8, 0#8, 0#8, 0#8⟩ C.MessageType_Request

/-- HTTPRequest2RpcxRequest, in the order of its statements -/
def httpToMsg (r : HttpReq) : Except ConvErr Msg :=
  let h := baseHeader
  match (if r.msgID.isEmpty then some h else (parseUint64 r.msgID).map (fun n => Header.setSeq h (BitVec.ofNat 64 n))) with
  | none => .error .badID
  | some h =>
    let h := if r.heartbeat.isEmpty then h else Header.setHeartbeat h true
    let h := if r.oneway.isEmpty then h else Header.setOneway h true
    match (if r.serType.isEmpty then some h else (atoi r.serType).map (fun n => Header.setSerializeType h (BitVec.ofInt 8 n))) with
    | none => .error .badSerType
    | some h =>
      match (if r.compType.isEmpty then some h else (atoi r.compType).map (fun n => Header.setCompressType h (BitVec.ofInt 8 n))) with
      | none => .error .badCompType
      | some h =>
        match (if r.mdata.isEmpty then some [] else
                 (if (parseQuery r.mdata).2 then none else some (firstWins (parseQuery r.mdata).1))) with
        | none => .error .badMeta
        | some md =>
          let md := if r.auth.isEmpty then md else md.filter (fun e => e.1 != authKey) ++ [(authKey, r.auth)]
          .ok ⟨h, r.pathHdr, r.method, md, r.body⟩

inductive GwOut
  | rejected (why : String)              -- X-RPCX-MessageStatusType: Error before anything runs
  | served (acts : List Action) (out : HttpOut)
deriving Repr

/-- handleGatewayRequest: service path from the header or else the URL, conversion, the three
    presence checks, then the shared pipeline (`Srv.httpOne`) -/
def gateway (acceptOk : Bool) (env : Env) (r : HttpReq) : GwOut :=
  let sp := if r.pathHdr.isEmpty then r.urlPath else r.pathHdr
  let r := { r with pathHdr := sp }
  match httpToMsg r with
  | .error .badID => .rejected "bad message id"
  | .error .badSerType => .rejected "bad serialize type"
  | .error .badCompType => .rejected "bad compress type"
  | .error .badMeta => .rejected "bad metadata"
  | .ok req =>
    if sp.isEmpty then .rejected "empty servicepath"
    else if r.method.isEmpty then .rejected "empty servicemethod"
    else if r.serType.isEmpty then .rejected "empty serialized type"
    else .served (httpOne acceptOk env req).1 (httpOne acceptOk env req).2

def gwInvokes : GwOut → Nat
  | .rejected _ => 0
  | .served acts _ => (acts.filter (· == .invoke)).length

/-- how a native client would put the same request on an HTTP gateway -/
def toHttp (seq : BitVec 64) (ser : Byte) (hb ow : Bool) (path method : Bytes) (md : List (Bytes × Bytes)) (payload : Bytes) : HttpReq :=
  { msgID := toDec seq.toNat, heartbeat := if hb then trueBytes else [], oneway := if ow then trueBytes else [],
    serType := toDec ser.toNat, mdata := encodeValues md, pathHdr := path, method := method, body := payload }

/-- the same request as the native client frames it (flags set in the converter's order) -/
def nativeReq (seq : BitVec 64) (ser : Byte) (hb ow : Bool) (path method : Bytes) (md : List (Bytes × Bytes)) (payload : Bytes) : Msg :=
  let h := Header.setSeq baseHeader seq
  let h := if hb then Header.setHeartbeat h true else h
  let h := if ow then Header.setOneway h true else h
  ⟨Header.setSerializeType h ser, path, method, md, payload⟩

/-- JSON-RPC: "service.path.Method" is split at the LAST dot; no dot, or a leading dot only, is
    an error -/
def lastDotAux : Bytes → Nat → Option Nat → Option Nat
  | [], _, best => best
  | c :: r, i, best => lastDotAux r (i + 1) (if c == 0x2E#8 then some i else best)

def splitMethod (m : Bytes) : Option (Bytes × Bytes) :=
  match lastDotAux m 0 none with
  | none => none
  | some 0 => none
  | some i => some (m.take i, m.drop (i + 1))

end Rpcx.Gw

namespace Rpcx.Gw
open Rpcx Rpcx.Gen Rpcx.Srv Rpcx.Query

/-- handleJSONRPCRequest: the request built from a JSON-RPC call (`hasID` = a request, not a
    notification), metadata from the X-RPCX-Meta header (parse errors ignored there), the
    Authorization header, serialize type JSON; then the shared pipeline. `none` = the method name
    has no usable dot ("must contains servicepath and method"). -/
def jsonrpcReq (hasID : Bool) (name params mdata auth : Bytes) : Option Msg :=
  match splitMethod name with
  | none => none
  | some (path, method) =>
    let h := if hasID then baseHeader else Header.setOneway baseHeader true
    let h := Header.setSerializeType h C.SerializeType_JSON
    let md := if mdata.isEmpty then [] else firstWins (parseQuery mdata).1
    let md := if auth.isEmpty then md else md.filter (fun e => e.1 != authKey) ++ [(authKey, auth)]
    some ⟨h, path, method, md, params⟩

def jsonrpc (acceptOk : Bool) (env : Env) (hasID : Bool) (name params mdata auth : Bytes) : GwOut :=
  match jsonrpcReq hasID name params mdata auth with
  | none => .rejected "must contains servicepath and method"
  | some req => .served (httpOne acceptOk env req).1 (httpOne acceptOk env req).2

end Rpcx.Gw
