import Rpcx.Basic
/-
  The client connection multiplexer (client/client.go): sequence counter, pending table,
  closing/shutdown flags, per-call completion signals, the server-message channel.
  One event = one atomic section of the code (a mutex section, one conn operation):

    register c        send(): the first locked section (fail fast or enter `pending`); SendRaw: its locked insertion
    encodeFail c      send(): codec.Encode failed  → locked lookup/delete/signal
    writeFail c       send(): Conn.Write failed    → locked lookup/delete/signal
    writeOk c         send(): the request is on the wire (one-way calls complete here)
    ctxDone c         call(): the waiter's ctx.Done branch → locked lookup/delete/signal
    frame f           input(): one decoded frame: server push, or locked lookup/delete + completion
    terminate         input(): read error → locked: mark shutdown, fail every pending call
    close             Close(): locked: fail every pending call, mark closing

  The model is written from the code AFTER the fixes (see Rpcx/Regress for the pre-fix
  fragments).  Events whose precondition does not hold (e.g. `writeFail` of a call that
  never registered) leave the state unchanged, so theorems quantify over ALL event lists.
-/
namespace Rpcx.Mux

inductive Outcome
  | reply (payload : Nat)         -- normal response; payload identifies the bytes
  | svcErr (text : Nat)           -- Error-status response; text identifies the message
  | decodeErr                     -- the reply did not decode into the caller's reply value (per-call)
  | ctxErr                        -- the call's own context ended
  | shutdownErr                   -- ErrShutdown (fail fast / Close)
  | connErr                       -- connection lost (reader terminated) or write failed
  | codecErr                      -- the argument could not be encoded
  | none_                         -- one-way call: completed without result
deriving DecidableEq, Repr

inductive Phase
  | fresh                         -- Go() was called, send() has not registered yet
  | registered (seq : Nat)        -- in flight under that sequence number
  | finished                      -- the sender thread is done with it (completed or failed)
deriving DecidableEq, Repr

structure CallRec where
  phase : Phase := .fresh
  oneway : Bool := false
  raw : Bool := false             -- issued through SendRaw (caller-framed message, reply returned as bytes)
  written : Bool := false         -- raw calls only: the caller is past its Conn.Write (SendRaw registers, writes and
                                  -- waits in ONE goroutine: it can return only once its write has returned)
  signals : Nat := 0              -- number of times call.done() ran for it
  outcome : Option Outcome := none
  ret : Option Outcome := none    -- what a blocking caller (Client.Call) returned with: first completion or its ctx error
deriving DecidableEq, Repr

structure Frame where
  seq : Nat
  isRequest : Bool                -- MessageType = Request
  heartbeat : Bool
  oneway : Bool
  isError : Bool                  -- MessageStatusType = Error
  tag : Nat                       -- identifies payload / error text
  decodable : Bool := true        -- the payload decodes into the caller's reply type
deriving DecidableEq, Repr

/-- `isServerMessage` as in input() -/
def Frame.isServerMessage (f : Frame) : Bool := f.isRequest && !f.heartbeat && f.oneway

def outcomeOf (f : Frame) : Outcome :=
  if f.isError then .svcErr f.tag
  else if !f.decodable then .decodeErr
  else .reply f.tag

/-- what a response frame means for the call it is addressed to: a raw call takes the payload as
    it is (nothing is decoded, so nothing can fail to decode); a response addressed to a one-way
    call (no reply value) cannot be decoded into it -/
def frameOutcome (r : CallRec) (f : Frame) : Outcome :=
  if r.raw then (if f.isError then .svcErr f.tag else .reply f.tag)
  else if r.oneway && !f.isError then .decodeErr else outcomeOf f

structure St where
  seq : Nat := 0
  pending : List (Nat × Nat) := []      -- (sequence number, call id), keys distinct
  closing : Bool := false
  shutdown : Bool := false
  calls : List CallRec := []
  chan : List Frame := []               -- frames handed to ServerMessageChan, oldest first
deriving Repr

inductive Ev
  | register (c : Nat)
  | encodeFail (c : Nat)
  | writeFail (c : Nat)
  | writeOk (c : Nat)
  | ctxDone (c : Nat)
  | frame (f : Frame)
  | terminate
  | close
deriving DecidableEq, Repr

def lookup (p : List (Nat × Nat)) (seq : Nat) : Option Nat := (p.find? (·.1 == seq)).map (·.2)
def erase (p : List (Nat × Nat)) (seq : Nat) : List (Nat × Nat) := p.filter (·.1 != seq)

/-- what a blocking caller has returned with once its call is completed with `o`: its first
    completion – except that a SendRaw caller still inside its write has not returned anything yet -/
def retAfter (r : CallRec) (o : Outcome) : Option Outcome :=
  if r.raw && !r.written then r.ret else r.ret.orElse (fun _ => some o)

/-- `call.Error = e; call.done()` -/
def signal (calls : List CallRec) (c : Nat) (o : Outcome) : List CallRec :=
  match calls[c]? with
  | none => calls
  | some r => calls.set c { r with signals := r.signals + 1, outcome := some o, ret := retAfter r o }

/-- the caller returns `o` now, whatever happened to the call before (SendRaw: the error of its own write) -/
def setRet (calls : List CallRec) (c : Nat) (o : Outcome) : List CallRec :=
  match calls[c]? with
  | none => calls
  | some r => calls.set c { r with ret := some o }

/-- SendRaw's write returned nil: from now on the caller waits for the completion (or finds it there already) -/
def markWritten (calls : List CallRec) (c : Nat) : List CallRec :=
  match calls[c]? with
  | none => calls
  | some r => calls.set c { r with written := true, ret := r.ret.orElse (fun _ => r.outcome) }

def setPhase (calls : List CallRec) (c : Nat) (p : Phase) : List CallRec :=
  match calls[c]? with
  | none => calls
  | some r => calls.set c { r with phase := p }

/-- the locked "look up my seq, delete it, signal if it was still there" section shared by
    the encode-error, write-error and one-way paths of send() -/
def removeAndSignal (s : St) (c : Nat) (seq : Nat) (o : Outcome) : St :=
  match lookup s.pending seq with
  | some c' => if c' = c then { s with pending := erase s.pending seq, calls := signal s.calls c o }
               else { s with pending := erase s.pending seq }     -- unreachable while seqs are unique
  | none => s

/-- fail every pending call (reader termination, Close): delete AND signal, in one section -/
def failAll (s : St) (o : Outcome) : St :=
  { s with calls := s.pending.foldl (fun cs e => signal cs e.2 o) s.calls, pending := [] }

/-- call()'s ctx.Done section: the blocking caller reads its seq cell under the lock; the cell
    is meaningful only once the sender has registered (the sender writes it inside its locked
    section), and the entry is removed only if it is this call's own -/
def ctxRemove (s : St) (c : Nat) (r : CallRec) : St :=
  match r.phase with
  | .registered q =>
    (match lookup s.pending q with
     | some c' => if c' = c then { s with pending := erase s.pending q, calls := signal s.calls c .ctxErr } else s
     | none => s)
  | _ => s

/-- the blocking caller returns its context's error (unless it had already returned) -/
def markRet (s : St) (c : Nat) : St :=
  match s.calls[c]? with
  | some r1 => { s with calls := s.calls.set c { r1 with ret := r1.ret.orElse (fun _ => some .ctxErr) } }
  | none => s

def step (s : St) : Ev → St
  | .register c =>
    match s.calls[c]? with
    | some r =>
      if r.phase ≠ .fresh then s
      else if s.shutdown || s.closing then
        -- send() fails fast with ErrShutdown; SendRaw has no such test: it registers, its write to the
        -- connection (closed in the same critical section that set the flag) fails, and it removes its
        -- entry again and returns the write error – one step here
        let cs := setPhase (signal s.calls c (if r.raw then .connErr else .shutdownErr)) c .finished
        { s with calls := if r.raw then setRet cs c .connErr else cs }
      else
        { s with seq := s.seq + 1, pending := (s.seq, c) :: s.pending, calls := setPhase s.calls c (.registered s.seq) }
    | none => s
  | .encodeFail c =>
    match s.calls[c]? with
    | some r => match r.phase with
      | .registered q =>
        if r.raw then s    -- SendRaw encodes nothing: the caller supplies the framed message
        else
          let s' := removeAndSignal s c q .codecErr
          { s' with calls := setPhase s'.calls c .finished }
      | _ => s
    | none => s
  | .writeFail c =>
    match s.calls[c]? with
    | some r => match r.phase with
      | .registered q => if r.raw && r.written then s else   -- (a write returns once: nil or an error)
                         let s' := removeAndSignal s c q .connErr
                         let cs := setPhase s'.calls c .finished
                         -- (SendRaw returns the error of its write even if the call had been completed meanwhile)
                         { s' with calls := if r.raw then setRet cs c .connErr else cs }
      | _ => s
    | none => s
  | .writeOk c =>
    match s.calls[c]? with
    | some r => match r.phase with
      | .registered q =>
        if r.raw then { s with calls := markWritten s.calls c }   -- (one-way raw sends are not modelled)
        else if r.oneway then
          let s' := removeAndSignal s c q .none_
          { s' with calls := setPhase s'.calls c .finished }
        else s
      | _ => s
    | none => s
  | .ctxDone c =>
    match s.calls[c]? with
    | some r =>
      if r.ret.isSome then s
      else if r.raw && !r.written then s   -- SendRaw looks at its context only after its write
      else markRet (ctxRemove s c r) c
    | none => s
  | .frame f =>
    if s.shutdown then s   -- the reader has exited
    else if f.isServerMessage then { s with chan := s.chan ++ [f] }
    else match lookup s.pending f.seq with
      | some c =>
        -- a response addressed to a one-way call (no reply value) cannot be decoded into it
        let o := match s.calls[c]? with
          | some r => frameOutcome r f
          | none => outcomeOf f
        { s with pending := erase s.pending f.seq, calls := signal s.calls c o }
      | none => s
  | .terminate =>
    if s.shutdown then s else { failAll s .connErr with shutdown := true }
  | .close =>
    if s.closing || s.shutdown then failAll s .shutdownErr
    else { failAll s .shutdownErr with closing := true }

def run (s : St) (evs : List Ev) : St := evs.foldl step s

/-- an initial state with `n` calls not yet registered; per call: (one-way?, raw?).
    Sequence numbers are abstract here: a raw call is given the next number like any other call –
    SendRaw's caller-chosen numbers are ASSUMED distinct from every number in flight (the harness
    renames accordingly); a collision overwrites the other call's table entry in the code and is
    outside what C03/C05 state about "the call's own sequence number". -/
def init (kinds : List (Bool × Bool)) : St := { calls := kinds.map (fun k => { oneway := k.1, raw := k.2 }) }

/-- calls issued through Go/Call only -/
def plain (oneways : List Bool) : List (Bool × Bool) := oneways.map (fun o => (o, false))

end Rpcx.Mux
