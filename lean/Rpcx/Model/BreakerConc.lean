import Rpcx.Model.Breaker
/-
  Concurrent callers of `ConsecCircuitBreaker.Call` (client/circuit_breaker.go).

  The breaker has no mutex: `ready`, `success`/`reset` and `fail` are short sequences of atomic
  loads, stores and one atomic add on the two fields.  Here every such atomic operation is ONE
  step of one caller, and a history is an arbitrary interleaving of the callers' steps – so the
  theorems over this model (Props/C18, "concurrent callers") hold for every schedule of any number
  of callers, at the granularity of the atomic operations.  A caller running alone executes exactly
  the regenerated `Breaker.call` (`solo_call`, the tie to Gen/Breaker.lean).

  program of one caller (`Pc` = where it stands):
      idle      : load lastFailureTime, compare with the clock  → zero true | loadF
      zero k    : store failures := 0                           → stamp k
      stamp k   : store lastFailureTime := now                  → (k: admitted, run) | idle
      loadF     : load failures, compare with the threshold     → (admitted, run) | (refused, idle)
      run       : the protected function returns ok / error     → zero false | (add 1) failStamp
      failStamp : store lastFailureTime := now                  → idle
-/
namespace Rpcx
open Rpcx.Gen

inductive Pc
  | idle
  | zero (adm : Bool)
  | stamp (adm : Bool)
  | loadF
  | run
  | failStamp
deriving DecidableEq, Repr

inductive CObs | none | admitted | refused
deriving DecidableEq, Repr

/-- one atomic step of a caller standing at `pc`, on the shared fields `sh`; `now` = the clock the
    step reads (if it reads one), `ok` = the protected function's outcome (if the step is its return).
    Returns the shared fields, the caller's next position, what the step makes observable, and
    whether the step was the store `failures := 0`. -/
def Pc.step (p : BreakerCfg) (sh : BreakerSt) (pc : Pc) (now : Int) (ok : Bool) : BreakerSt × Pc × CObs × Bool :=
  match pc with
  | .idle => if now - sh.lastFailureTime > p.window then (sh, .zero true, .none, false) else (sh, .loadF, .none, false)
  | .zero k => ({ sh with failures := 0 }, .stamp k, .none, true)
  | .stamp k => ({ sh with lastFailureTime := now }, if k then .run else .idle, if k then .admitted else .none, false)
  | .loadF => if sh.failures < p.threshold then (sh, .run, .admitted, false) else (sh, .idle, .refused, false)
  | .run => if ok then (sh, .zero false, .none, false) else ({ sh with failures := sh.failures + 1 }, .failStamp, .none, false)
  | .failStamp => ({ sh with lastFailureTime := now }, .idle, .none, false)

/-- the shared fields, every caller's position, and ghost counters over the history so far -/
structure Conc where
  sh : BreakerSt
  pcs : List Pc
  admitted : Nat        -- how often the protected function was started
  refusedN : Nat        -- how many calls were refused
  adds : Nat            -- how many failures were recorded (atomic adds)
  zeroed : Bool         -- some caller stored failures := 0 (a success, or a window found elapsed)
deriving Repr

/-- an event: caller `i` takes its next atomic step -/
structure CEv where
  i : Nat
  now : Int
  ok : Bool
deriving Repr

def Conc.step (p : BreakerCfg) (c : Conc) (e : CEv) : Conc :=
  match c.pcs[e.i]? with
  | none => c
  | some pc =>
    let r := pc.step p c.sh e.now e.ok
    { sh := r.1, pcs := c.pcs.set e.i r.2.1,
      admitted := c.admitted + (if r.2.2.1 = .admitted then 1 else 0),
      refusedN := c.refusedN + (if r.2.2.1 = .refused then 1 else 0),
      adds := c.adds + (if pc = .run ∧ e.ok = false then 1 else 0),
      zeroed := c.zeroed || r.2.2.2 }

def Conc.run (p : BreakerCfg) (c : Conc) (evs : List CEv) : Conc := evs.foldl (Conc.step p) c

/-- `k` callers, none of them inside a call -/
def Conc.init (sh : BreakerSt) (k : Nat) : Conc :=
  { sh := sh, pcs := List.replicate k .idle, admitted := 0, refusedN := 0, adds := 0, zeroed := false }

/-- callers whose protected function is running -/
def Conc.running (c : Conc) : Nat := c.pcs.count .run

/-- one caller alone: a whole `Call` (readiness steps at clock `t`, recording steps at `t'`) -/
def soloCall (p : BreakerCfg) (sh : BreakerSt) (t t' : Int) (ok : Bool) : BreakerSt × CallRes :=
  let a := Pc.step p sh .idle t ok
  match a.2.1 with
  | .zero _ =>
    let b := Pc.step p a.1 a.2.1 t ok
    let c := Pc.step p b.1 b.2.1 t ok          -- admitted
    let d := Pc.step p c.1 c.2.1 t' ok         -- the function returns
    let e := Pc.step p d.1 d.2.1 t' ok
    if ok then ((Pc.step p e.1 e.2.1 t' ok).1, .ok) else (e.1, .failed)
  | _ =>
    let b := Pc.step p a.1 a.2.1 t ok          -- loadF
    if b.2.2.1 = .refused then (b.1, .refused)
    else
      let d := Pc.step p b.1 b.2.1 t' ok
      let e := Pc.step p d.1 d.2.1 t' ok
      if ok then ((Pc.step p e.1 e.2.1 t' ok).1, .ok) else (e.1, .failed)

/-! the failure counter updated by a load followed by a store of the loaded value + 1 – what
  `tie_breaker_updates_atomic` excludes.  Only used to show why (`Props.C18.nonatomic_increment_loses_failures`). -/
namespace Rmw
inductive Ev | load (i : Nat) | store (i : Nat)
structure St where
  failures : Nat
  regs : List Nat          -- what each caller loaded
  recorded : Nat           -- completed `fail()` calls
def step (s : St) : Ev → St
  | .load i => { s with regs := s.regs.set i s.failures }
  | .store i => { s with failures := s.regs.getD i 0 + 1, recorded := s.recorded + 1 }
def run (k : Nat) (evs : List Ev) : St := evs.foldl step ⟨0, List.replicate k 0, 0⟩
end Rmw

end Rpcx
