import Rpcx.Basic
/-
  Broadcast / Fork / Inform (client/xclient.go): fan-out to every contacted server, results
  collected in completion order.  `order` lists the contacted servers in the order their
  calls complete; the result loops are transcribed from the code.
-/
namespace Rpcx.Fan

structure Srv where
  addr : String
  ok : Bool        -- the server answered successfully
  reply : Nat      -- what it replied (meaningful when ok)
deriving DecidableEq, Repr

/-- Broadcast's loop: `l--; if l == 0 || !result { break }`, then `err.ErrorOrNil()`:
    `true` = nil error.  The error list is non-empty iff some completed call failed. -/
def broadcastLoop : List Srv → Bool
  | [] => true
  | s :: rest => if !s.ok then false else broadcastLoop rest

/-- replyOnce: the first successful completion writes the caller's reply -/
def firstOk : List Srv → Option Nat
  | [] => none
  | s :: rest => if s.ok then some s.reply else firstOk rest

def broadcast (order : List Srv) : Bool × Option Nat := (broadcastLoop order, firstOk order)

/-- Fork's loop: return nil at the first success; non-nil when all failed -/
def forkLoop : List Srv → Bool
  | [] => false
  | s :: rest => if s.ok then true else forkLoop rest

def fork (order : List Srv) : Bool × Option Nat := (forkLoop order, firstOk order)

structure Receipt where
  addr : String
  reply : Nat
  errNil : Bool
deriving DecidableEq, Repr

/-- Inform (after the fix): each goroutine appends a receipt with ITS OWN error -/
def inform (order : List Srv) : List Receipt := order.map (fun s => ⟨s.addr, s.reply, s.ok⟩)

end Rpcx.Fan
