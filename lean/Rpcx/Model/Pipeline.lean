import Rpcx.Model.Server
import Rpcx.Gen.Preds
/-
  One call end to end (client/client.go send + input, protocol Encode/Decode, server
  handleRequest + sendResponse), as a composition of functions:

    caller's (args, metadata)
      → codec.Encode → client.send builds the request (compress flag by the REGENERATED
        client threshold rule) → EncodeSlicePointer (zip when flagged) → bytes
      → Decode (unzip when flagged) → handler sees (codec.Decode payload, metadata)
      → handler's (reply, response metadata) → codec.Encode → response skeleton
        (Clone, Response bit), compress flag by the REGENERATED server threshold rule
      → EncodeSlicePointer → bytes → Decode → client.input: codec.Decode payload into the
        caller's reply, response metadata copied into the caller's context map together with
        the framework's reserved server-address key.

  Codecs and compressors are parameters (their laws are hypotheses of the theorems, validated
  for the real ones by `harness c09`); the frame format is the verified wire model.
-/
namespace Rpcx.Pipe
open Rpcx Rpcx.Gen

/-- a serialization codec as both sides use it (share.Codecs[t]) -/
structure Codec (α : Type) where
  enc : α → Option Bytes
  dec : Bytes → Option α

structure ClientOpt where
  ser : Byte      -- option.SerializeType
  ct : Byte       -- option.CompressType

/-- `protocol.NewMessage()`: only the magic byte set -/
def newHeader : Header := ⟨C.magicNumber, 0#8, 0#8, 0#8, 0#8, 0#8, 0#8, 0#8, 0#8, 0#8, 0#8, 0#8⟩

/-- the request `client.send` assembles for encoded arguments `data` -/
def clientReq (o : ClientOpt) (seq : BitVec 64) (oneway : Bool) (path method : Bytes)
    (md : List (Bytes × Bytes)) (data : Bytes) : Msg :=
  let h := Header.setSeq (Header.setMessageType newHeader C.MessageType_Request) seq
  let h := if oneway then Header.setOneway h true else h
  let h := Header.setSerializeType h o.ser
  let h := if Gen.clientCompress data.length o.ct then Header.setCompressType h o.ct else h
  ⟨h, path, method, md, data⟩

/-- one frame across a connection: pooled-buffer encoder (any stale buffer), bytes, decoder -/
def transmit (reg : Registry) (m : Msg) (stale : Bytes) : Option Msg :=
  match encodeBuf reg m stale with
  | none => none
  | some bs =>
    match decode ⟨0, reg⟩ bs with
    | .ok (m', _) => some m'
    | .error _ => none

/-- the server's response to `req` for an encoded reply and the handler's response metadata:
    `req.Clone()`, Response bit, payload, metadata, compress flag by the server's size rule -/
def serverRes (req : Msg) (payload : Bytes) (rm : List (Bytes × Bytes)) : Msg :=
  let res : Msg := { Srv.responseFor req with payload := payload, md := rm }
  if Gen.serverCompress payload.length (Header.compressType req.hdr) then
    { res with hdr := Header.setCompressType res.hdr (Header.compressType req.hdr) }
  else res

/-- share.ServerAddress -/
def serverAddressKey : Bytes := Srv.textOf "__ServerAddress"

/-- `client.call`: response metadata is copied into the caller's map, plus the reserved key;
    nothing is touched when the response carries no metadata -/
def callerMeta (ctx rm : List (Bytes × Bytes)) (addr : Bytes) : List (Bytes × Bytes) :=
  if rm.isEmpty then ctx else ctx ++ rm ++ [(serverAddressKey, addr)]

structure Seen (α β : Type) where
  handlerArgs : α
  handlerMeta : List (Bytes × Bytes)
  callerReply : β
  callerResMeta : List (Bytes × Bytes)   -- the response's metadata as received
  reqOnWire : Msg
  resOnWire : Msg

/-- a two-way call end to end -/
def call {α β : Type} (reg : Registry) (ca : Codec α) (cr : Codec β) (o : ClientOpt) (seq : BitVec 64)
    (path method : Bytes) (md : List (Bytes × Bytes)) (args : α)
    (handler : α → List (Bytes × Bytes) → β × List (Bytes × Bytes)) (stale1 stale2 : Bytes) : Option (Seen α β) :=
  match ca.enc args with
  | none => none
  | some data =>
    match transmit reg (clientReq o seq false path method md data) stale1 with
    | none => none
    | some req =>
      match ca.dec req.payload with
      | none => none
      | some a =>
        match cr.enc (handler a req.md).1 with
        | none => none
        | some p =>
          match transmit reg (serverRes req p (handler a req.md).2) stale2 with
          | none => none
          | some res =>
            match cr.dec res.payload with
            | none => none
            | some r => some ⟨a, req.md, r, res.md, req, res⟩

end Rpcx.Pipe
