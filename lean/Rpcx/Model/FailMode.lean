import Rpcx.Basic
/-
  xClient.Call / xClient.SendRaw under the four fail modes (client/xclient.go), written
  from the code line by line: what the variables `k`, `client`, `err`, `e` hold at each
  point is the property.  The environment is scripted: every dial (GenerateClient) consumes
  the next entry of `dials`, every delivery (RPCClient.Call / SendRaw) the next entry of
  `calls`; the selector is round-robin over `n` servers (Failover's "asks the selector again").
-/
namespace Rpcx.FM

inductive Outcome
  | ok            -- answered successfully (the reply carries the delivery index)
  | svcErr        -- ServiceError
  | lost          -- connection lost (the client is shut down afterwards)
  | cancelled     -- context.Canceled
  | deadline      -- context.DeadlineExceeded
deriving DecidableEq, Repr

inductive Err
  | svc | lost | cancelled | deadline | dial | noServer | unavailable
deriving DecidableEq, Repr

/-- result of the whole call: `nilNoReply` is "nil error although no attempt was answered" -/
inductive Res
  | ok (delivery : Nat)     -- success carrying the reply of that delivery
  | err (e : Err)
  | nilNoReply
deriving DecidableEq, Repr

inductive Cached | none | alive | dead
deriving DecidableEq, Repr

structure St where
  n : Nat                      -- number of servers
  rr : Nat                     -- round-robin cursor
  cache : List Cached          -- per server
  dials : List Bool            -- script: true = dial succeeds
  calls : List Outcome         -- script of delivery outcomes
  deliveries : List Nat        -- servers that received the request, most recent first
  log : List Outcome := []     -- outcomes of those deliveries, most recent first
deriving Repr

def St.init (n : Nat) (dials : List Bool) (calls : List Outcome) : St :=
  ⟨n, 0, List.replicate n .none, dials, calls, [], []⟩

def errOf : Outcome → Option Err
  | .ok => none | .svcErr => some .svc | .lost => some .lost
  | .cancelled => some .cancelled | .deadline => some .deadline

def uncover : Err → Bool
  | .svc => false | .cancelled => false | .deadline => false | _ => true
def ctxErr : Err → Bool
  | .cancelled => true | .deadline => true | _ => false

/-- `getCachedClient(k)`: reuse an alive client, else (re)dial. Returns whether a client is held. -/
def getCached (s : St) (k : Nat) : St × Bool × Option Err :=
  match s.cache[k]? with
  | some .alive => (s, true, none)
  | _ =>
    match s.dials with
    | [] => ({ s with cache := s.cache.set k .none }, false, some .dial)          -- script exhausted: refuse
    | true :: ds => ({ s with cache := s.cache.set k .alive, dials := ds }, true, none)
    | false :: ds => ({ s with cache := s.cache.set k .none, dials := ds }, false, some .dial)

/-- `selectClient`: round-robin pick, then getCachedClient -/
def selectClient (s : St) : St × Nat × Bool × Option Err :=
  if s.n = 0 then (s, 0, false, some .noServer) else
  let k := s.rr % s.n
  let s := { s with rr := k + 1 }
  let (s, has, e) := getCached s k
  (s, k, has, e)

/-- `wrapCall` on a held client: one delivery to server k -/
def deliver (s : St) (k : Nat) : St × Outcome :=
  match s.calls with
  | [] => ({ s with deliveries := k :: s.deliveries, log := .lost :: s.log }, .lost)     -- script exhausted: treat as lost
  | o :: os =>
    let cache := if o = .lost then s.cache.set k .dead else s.cache
    ({ s with calls := os, deliveries := k :: s.deliveries, cache := cache, log := o :: s.log }, o)

/-- `removeClient(k, client)` -/
def removeClient (s : St) (k : Nat) : St := { s with cache := s.cache.set k .none }

/-- result when the loop ends: `if err == nil { err = e }; return err` -/
def finish (err e : Option Err) : Res :=
  match err with
  | some x => .err x
  | none => match e with
    | some x => .err x
    | none => .nilNoReply

/-- Failtry loop, `iters` = retries+1 iterations left -/
def failtryLoop : Nat → St → Nat → Bool → Option Err → Option Err → St × Res
  | 0, s, _, _, err, e => (s, finish err e)
  | it + 1, s, k, has, err, e =>
    if has then
      let (s1, o) := deliver s k
      match errOf o with
      | none => (s1, .ok (s1.deliveries.length - 1))
      | some x =>
        if ctxErr x then (s1, .err x)
        else if x = .svc then (s1, .err x)
        else
          let s2 := if uncover x then removeClient s1 k else s1
          let (s3, has', e') := getCached s2 k
          failtryLoop it s3 k has' (some x) e'
    else
      let s2 := match err with
        | some x => if uncover x then removeClient s k else s
        | none => removeClient s k            -- uncoverError(nil) is true
      let (s3, has', e') := getCached s2 k
      failtryLoop it s3 k has' err e'

def failoverLoop : Nat → St → Nat → Bool → Option Err → Option Err → St × Res
  | 0, s, _, _, err, e => (s, finish err e)
  | it + 1, s, k, has, err, e =>
    if has then
      let (s1, o) := deliver s k
      match errOf o with
      | none => (s1, .ok (s1.deliveries.length - 1))
      | some x =>
        if ctxErr x then (s1, .err x)
        else if x = .svc then (s1, .err x)
        else
          let s2 := if uncover x then removeClient s1 k else s1
          let (s3, k', has', e') := selectClient s2
          failoverLoop it s3 k' has' (some x) e'
    else
      let s2 := match err with
        | some x => if uncover x then removeClient s k else s
        | none => removeClient s k
      let (s3, k', has', e') := selectClient s2
      failoverLoop it s3 k' has' err e'

inductive Mode | failfast | failtry | failover
deriving DecidableEq, Repr

/-- the part of `Call` after the initial `selectClient` returned `(k, client?, err)` -/
def xcallAfter (mode : Mode) (retries : Nat) (s : St) (k : Nat) (has : Bool) (err : Option Err) : St × Res :=
  match err with
  | some x =>
    if mode = .failfast ∨ ctxErr x then (s, .err x)
    else match mode with
      | .failtry => failtryLoop (retries + 1) s k has (some x) none
      | .failover => failoverLoop (retries + 1) s k has (some x) none
      | .failfast => (s, .err x)
  | none =>
    match mode with
    | .failtry => failtryLoop (retries + 1) s k has none none
    | .failover => failoverLoop (retries + 1) s k has none none
    | .failfast =>
      if has then
        match errOf (deliver s k).2 with
        | none => ((deliver s k).1, .ok ((deliver s k).1.deliveries.length - 1))
        | some x => (if uncover x then removeClient (deliver s k).1 k else (deliver s k).1, .err x)
      else (s, .err .unavailable)

/-- `xClient.Call` (and, after the fix, `xClient.SendRaw`) for Failfast / Failtry / Failover -/
def xcall (mode : Mode) (retries : Nat) (s : St) : St × Res :=
  xcallAfter mode retries (selectClient s).1 (selectClient s).2.1 (selectClient s).2.2.1 (selectClient s).2.2.2

/-! ### fail-backup: two dispatches, the second only after the latency timer -/

inductive BEvent
  | reply1 (o : Outcome)    -- the first request completes
  | timer                   -- BackupLatency elapsed
  | reply2 (o : Outcome)
deriving DecidableEq, Repr

def resOf (o : Outcome) (d : Nat) : Res :=
  match errOf o with
  | none => .ok d
  | some x => .err x

/-- only the first request is in flight (the backup could not be sent): wait for it -/
def bWait1 (d1 : Nat) : List BEvent → Res × Nat
  | [] => (.err .deadline, d1)          -- nothing arrives: the caller's context ends the wait
  | .reply1 o :: _ => (resOf o 0, d1)
  | _ :: r => bWait1 d1 r

/-- both requests may be in flight: the first completion decides -/
def bPhase2 (go1 : Bool) (d : Nat) : List BEvent → Res × Nat
  | [] => (.err .deadline, d)
  | .reply1 o :: r => if go1 then (resOf o 0, d) else bPhase2 go1 d r
  | .reply2 o :: _ => (resOf o 1, d)
  | .timer :: r => bPhase2 go1 d r

/-- before the backup latency has passed: only the first request (if it could be sent) -/
def bPhase1 (go1 go2 : Bool) (d1 : Nat) : List BEvent → Res × Nat
  | [] => (.err .deadline, d1)
  | .reply1 o :: rest => if go1 then (resOf o 0, d1) else bPhase1 go1 go2 d1 rest
  | .reply2 _ :: rest => bPhase1 go1 go2 d1 rest     -- cannot happen before the second dispatch
  | .timer :: rest =>
    if !go2 then
      if !go1 then (.err .dial, d1)                   -- neither request could be sent
      else bWait1 d1 rest
    else bPhase2 go1 (d1 + 1) rest

/-- `Call` in Failbackup mode (after the fix): `go1`/`go2` say whether each dispatch could be
    started (selection + dial); `evs` is the order in which completions and the timer arrive.
    Returns the result and the number of requests dispatched. -/
def backupCall (go1 go2 : Bool) (evs : List BEvent) : Res × Nat :=
  bPhase1 go1 go2 (if go1 then 1 else 0) evs

end Rpcx.FM
