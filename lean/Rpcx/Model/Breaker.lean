import Rpcx.Gen.Breaker
/-
  Hand-written part of the circuit-breaker model: the decision skeleton of
  `ConsecCircuitBreaker.Call` around the REGENERATED `ready/success/fail/reset`
  (Rpcx/Gen/Breaker.lean), and the three-line specification it is proved to refine.
  The timer/goroutine of `Call` only decides whether the protected function's outcome is
  "nil error" or "error" (a timeout is an error): that outcome is an input here.
-/
namespace Rpcx
open Rpcx.Gen

structure BreakerCfg where
  threshold : Nat
  window : Int
deriving Repr

inductive CallRes | refused | ok | failed
deriving DecidableEq, Repr

/-- one `Call`: `t` = clock when readiness is checked, `t'` = clock when the outcome is
    recorded (`t ≤ t'`), `okOutcome` = the protected function returned nil in time -/
def Breaker.call (p : BreakerCfg) (s : BreakerSt) (t t' : Int) (okOutcome : Bool) : BreakerSt × CallRes :=
  let r := Breaker.ready s p.threshold p.window t
  if !r.2 then (r.1, .refused)
  else if okOutcome then (Breaker.success r.1 t', .ok)
  else (Breaker.fail r.1 t', .failed)

/-- run a sequence of calls `(t, t', ok?)` -/
def Breaker.run (p : BreakerCfg) : BreakerSt → List (Int × Int × Bool) → BreakerSt × List CallRes
  | s, [] => (s, [])
  | s, (t, t', o) :: rest =>
    let (s1, r) := Breaker.call p s t t' o
    let (s2, rs) := Breaker.run p s1 rest
    (s2, r :: rs)

/-! ### specification -/

/-- abstract state: consecutive failures since the last closing event (a success, or a
    readiness check that found the window elapsed) and the time of the most recent event -/
structure BreakerSpec where
  consec : Nat
  last : Int
deriving DecidableEq, Repr

def BreakerSpec.refuses (p : BreakerCfg) (a : BreakerSpec) (t : Int) : Bool :=
  decide (p.threshold ≤ a.consec) && decide (t - a.last ≤ p.window)

def BreakerSpec.step (p : BreakerCfg) (a : BreakerSpec) (t t' : Int) (okOutcome : Bool) : BreakerSpec × CallRes :=
  if a.refuses p t then (a, .refused)                       -- refused: nothing changes, nothing invoked
  else
    let a := if t - a.last > p.window then { consec := 0, last := t } else a   -- elapsed window closes
    if okOutcome then ({ consec := 0, last := t' }, .ok)    -- one success closes
    else ({ consec := a.consec + 1, last := t' }, .failed)

end Rpcx

namespace Rpcx
open Rpcx.Gen

/-! ### the discovery client's use of the breaker (xClient.getCachedClient / generateClient)
  Before touching its client cache the xclient asks the server's breaker `Ready()`; a refusal is
  `ErrBreakerOpen` and nothing is dialled.  A dial that fails records `Fail()`; a dial that succeeds
  records nothing (the breaker of a server counts connection failures only). -/

inductive DialRes | open | dialedOk | dialedFail
deriving DecidableEq, Repr

/-- one connection attempt to a server with no cached client: `t` = clock at the readiness check,
    `t'` = clock when the failed dial is recorded -/
def Dial.step (p : BreakerCfg) (s : BreakerSt) (t t' : Int) (dialOk : Bool) : BreakerSt × DialRes :=
  let r := Breaker.ready s p.threshold p.window t
  if !r.2 then (r.1, .open)
  else if dialOk then (r.1, .dialedOk)
  else (Breaker.fail r.1 t', .dialedFail)

def Dial.run (p : BreakerCfg) : BreakerSt → List (Int × Int × Bool) → BreakerSt × List DialRes
  | s, [] => (s, [])
  | s, (t, t', o) :: rest =>
    let (s1, r) := Dial.step p s t t' o
    let (s2, rs) := Dial.run p s1 rest
    (s2, r :: rs)

/-- how many of the attempts reached the network -/
def Dial.dials (rs : List DialRes) : Nat := (rs.filter (· != .open)).length

end Rpcx
