/-
  Basic vocabulary shared by every model: bytes, big-endian words, the 12-byte header
  as a structure (one field per byte, so that a Go assignment `h[i] = e` is a record
  update and "every other byte is untouched" is a syntactic fact).
-/
namespace Rpcx

abbrev Byte := BitVec 8
abbrev Bytes := List Byte

structure Header where
  b0 : Byte
  b1 : Byte
  b2 : Byte
  b3 : Byte
  b4 : Byte
  b5 : Byte
  b6 : Byte
  b7 : Byte
  b8 : Byte
  b9 : Byte
  b10 : Byte
  b11 : Byte
deriving DecidableEq, Repr, Inhabited

def Header.toBytes (h : Header) : Bytes :=
  [h.b0, h.b1, h.b2, h.b3, h.b4, h.b5, h.b6, h.b7, h.b8, h.b9, h.b10, h.b11]

def Header.ofBytes : Bytes → Option Header
  | [a0, a1, a2, a3, a4, a5, a6, a7, a8, a9, a10, a11] =>
      some ⟨a0, a1, a2, a3, a4, a5, a6, a7, a8, a9, a10, a11⟩
  | _ => none

@[simp] theorem Header.toBytes_length (h : Header) : h.toBytes.length = 12 := rfl
@[simp] theorem Header.ofBytes_toBytes (h : Header) : Header.ofBytes h.toBytes = some h := rfl

/-- `binary.BigEndian.Uint64(h[4:])` -/
def be64get (a b c d e f g h : Byte) : BitVec 64 := a ++ b ++ c ++ d ++ e ++ f ++ g ++ h

/-- byte `i` (0 = most significant) written by `binary.BigEndian.PutUint64` -/
def be64byte (s : BitVec 64) (i : Nat) : Byte := s.extractLsb' (8 * (7 - i)) 8

theorem be64get_be64byte (s : BitVec 64) :
    be64get (be64byte s 0) (be64byte s 1) (be64byte s 2) (be64byte s 3)
            (be64byte s 4) (be64byte s 5) (be64byte s 6) (be64byte s 7) = s := by
  simp only [be64get, be64byte]
  ext i hi
  simp only [BitVec.getElem_append, BitVec.getElem_extractLsb']
  rw [← BitVec.getLsbD_eq_getElem]
  repeat' split
  all_goals (congr 1; omega)

/-- `binary.BigEndian.PutUint32(_, uint32(n))`: the conversion `uint32(n)` truncates. -/
def be32 (n : Nat) : Bytes :=
  [BitVec.ofNat 8 (n / 16777216), BitVec.ofNat 8 (n / 65536), BitVec.ofNat 8 (n / 256), BitVec.ofNat 8 n]

/-- `binary.BigEndian.Uint32` -/
def rd32 (a b c d : Byte) : Nat :=
  a.toNat * 16777216 + b.toNat * 65536 + c.toNat * 256 + d.toNat

@[simp] theorem be32_length (n : Nat) : (be32 n).length = 4 := rfl

theorem rd32_lt (a b c d : Byte) : rd32 a b c d < 4294967296 := by
  have := a.isLt; have := b.isLt; have := c.isLt; have := d.isLt
  unfold rd32; omega

theorem rd32_be32 (n : Nat) (h : n < 4294967296) :
    rd32 (BitVec.ofNat 8 (n / 16777216)) (BitVec.ofNat 8 (n / 65536))
         (BitVec.ofNat 8 (n / 256)) (BitVec.ofNat 8 n) = n := by
  simp only [rd32, BitVec.toNat_ofNat]
  omega

theorem be32_rd32 (a b c d : Byte) : be32 (rd32 a b c d) = [a, b, c, d] := by
  have ha := a.isLt; have hb := b.isLt; have hc := c.isLt; have hd := d.isLt
  simp only [be32, rd32, List.cons.injEq, and_true]
  refine ⟨?_, ?_, ?_, ?_⟩ <;> (apply BitVec.eq_of_toNat_eq; simp only [BitVec.toNat_ofNat]; omega)

/- `rd32` is opaque to the unifier from here on: unfolding it on symbolic bytes leads
   `whnf` into `Nat.mod`/`Nat.ble` on open terms, which does not terminate in practice
   (it made `simp`/`dsimp` hang on goals containing a decoder applied to an encoder).
   The compiled driver is unaffected; proofs use `rd32_be32` and `rd32_lt`. -/
attribute [irreducible] rd32

/-! ### hex I/O for the line-protocol driver (not used in proofs) -/

def hexDigit (n : Nat) : Char :=
  if n < 10 then Char.ofNat (48 + n) else Char.ofNat (87 + n)

def Bytes.toHex (bs : Bytes) : String :=
  if bs.isEmpty then "-" else
  String.ofList (bs.foldr (fun b acc => hexDigit (b.toNat / 16) :: hexDigit (b.toNat % 16) :: acc) [])

def hexVal (c : Char) : Option Nat :=
  if '0' ≤ c ∧ c ≤ '9' then some (c.toNat - 48)
  else if 'a' ≤ c ∧ c ≤ 'f' then some (c.toNat - 87)
  else if 'A' ≤ c ∧ c ≤ 'F' then some (c.toNat - 55)
  else none

def parseHexAux : List Char → Bytes → Option Bytes
  | [], acc => some acc.reverse
  | [_], _ => none
  | a :: b :: rest, acc =>
    match hexVal a, hexVal b with
    | some x, some y => parseHexAux rest (BitVec.ofNat 8 (x * 16 + y) :: acc)
    | _, _ => none

def parseHex (s : String) : Option Bytes :=
  if s == "-" then some [] else parseHexAux s.toList []

/-- was this generated item translated from the current source (not a canonical fallback)? -/
def tieItem (l : List (String × Bool)) (name : String) : Bool := l.any (fun p => p.1 == name && p.2)

end Rpcx
