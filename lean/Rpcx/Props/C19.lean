import Rpcx.Lemmas.Gateway
/-
  C19: "A request submitted through the HTTP gateway is executed with the same service, method,
  metadata and payload, and yields the same reply payload, response metadata or error message,
  as the identical request sent over the native protocol; the JSON-RPC endpoint likewise …
  Malformed gateway requests (missing service, method or serialization headers, non-numeric ids
  or types) are rejected with an error and never reach a handler."

  * `meta_roundtrip`: url.ParseQuery ∘ url.Values.Encode = id for EVERY list of byte-string
    keys and values (the URL-escaped transport of metadata is lossless) – proved for the model
    of net/url's escaping, which the harness diffs against net/url itself.
  * `conversion_faithful`: for every sequence number, serialize type, flags, service path,
    method, metadata map and payload, converting the HTTP form of a request
    (HTTPRequest2RpcxRequest) yields exactly the message the native client frames.
  * `gateway_equals_native`: hence, for every environment (handler behaviour, plugins, auth)
    and every such two-way request, the gateway's outcome is the outcome the native ingress
    writes: same reply payload or same error text, and the handler runs equally often.
  * `malformed_rejected`: each malformation named by the property leads to a rejection before
    any stage runs – no handler invocation.
  * `jsonrpc_split`: the JSON-RPC "path.Method" name is split back into exactly the service path
    (dots allowed) and the method.
-/
namespace Rpcx.Props.C19
open Rpcx Rpcx.Gen Rpcx.Srv Rpcx.Query Rpcx.Gw

theorem meta_roundtrip (m : List (Bytes × Bytes)) : parseQuery (encodeValues m) = (m, false) :=
  parseQuery_encodeValues m

theorem escape_roundtrip (b : Bytes) : unescape (escape b) = some b := unescape_escape b

theorem textOf_true_nonempty : trueBytes.isEmpty = false := by decide

theorem conversion_faithful (seq : BitVec 64) (ser : Byte) (hb ow : Bool) (path method : Bytes)
    (md : List (Bytes × Bytes)) (payload : Bytes) (hkeys : (md.map (·.1)).Nodup) :
    httpToMsg (toHttp seq ser hb ow path method md payload) = .ok (nativeReq seq ser hb ow path method md payload) := by
  obtain ⟨_, _, hne1⟩ := toDec_spec seq.toNat
  obtain ⟨_, _, hne2⟩ := toDec_spec ser.toNat
  have e1 : (toDec seq.toNat).isEmpty = false := by cases h : toDec seq.toNat <;> simp_all
  have e2 : (toDec ser.toNat).isEmpty = false := by cases h : toDec ser.toNat <;> simp_all
  have hseq : parseUint64 (toDec seq.toNat) = some seq.toNat := parseUint64_toDec _ seq.isLt
  have hser : atoi (toDec ser.toNat) = some (ser.toNat : Int) :=
    atoi_toDec _ (Nat.lt_trans ser.isLt (by decide))
  have hmd : (if (encodeValues md).isEmpty then some [] else
      (if (parseQuery (encodeValues md)).2 then none else some (firstWins (parseQuery (encodeValues md)).1))) = some md := by
    rw [parseQuery_encodeValues]
    simp only [Bool.false_eq_true, if_false, firstWins_nodup md hkeys]
    split
    · rename_i he
      cases md with
      | nil => rfl
      | cons e rest =>
        exfalso
        have : (encodeValues (e :: rest)).isEmpty = false := by
          unfold encodeValues
          cases rest <;> simp [joinAmp, pairOf]
        rw [this] at he; cases he
    · rfl
  unfold httpToMsg toHttp nativeReq
  simp only [e1, e2, hseq, hser, hmd, Option.map_some, Bool.false_eq_true, if_false, List.isEmpty_nil, if_true,
    BitVec.ofNat_toNat, BitVec.setWidth_eq, BitVec.ofInt_natCast]
  cases hb <;> cases ow <;> simp [textOf_true_nonempty]

/-- what a native peer observes of one request: the first response written -/
def nativeOut (acts : List Action) : HttpOut :=
  match acts.filterMap (fun a => match a with | .write m => some m | _ => none) with
  | m :: _ =>
    if Header.messageStatusType m.hdr == C.MessageStatusType_Error
    then HttpOut.error ((metaLookup m.md serviceErrorKey).getD [])
    else HttpOut.result m.payload
  | [] => HttpOut.closed

theorem nativeReq_flags (seq : BitVec 64) (ser : Byte) (path method : Bytes) (md : List (Bytes × Bytes)) (payload : Bytes) :
    Header.isHeartbeat (nativeReq seq ser false false path method md payload).hdr = false
    ∧ Header.isOneway (nativeReq seq ser false false path method md payload).hdr = false
    ∧ Header.setOneway (nativeReq seq ser false false path method md payload).hdr false
        = (nativeReq seq ser false false path method md payload).hdr := by
  refine ⟨?_, ?_, ?_⟩ <;>
    simp [nativeReq, Header.isHeartbeat, Header.isOneway, Header.setOneway, Header.setSerializeType, Header.setSeq, baseHeader,
      Header.setMessageType, C.magicNumber, C.MessageType_Request]

theorem filterMap_write_append_next (l : List Action) :
    (l ++ [Action.next]).filterMap (fun a => match a with | .write m => some m | _ => none)
      = l.filterMap (fun a => match a with | .write m => some m | _ => none) := by
  simp [List.filterMap_append]

theorem filter_invoke_append_next (l : List Action) :
    ((l ++ [Action.next]).filter (· == .invoke)) = l.filter (· == .invoke) := by
  simp [List.filter_append]

/-- **Gateway ≡ native** for every admitted two-way request to a service (not a router
    handler, which only the native ingress can reach): same outcome, same number of handler
    invocations. -/
theorem gateway_equals_native (env : Env) (seq : BitVec 64) (ser : Byte) (path method : Bytes)
    (md : List (Bytes × Bytes)) (payload : Bytes) (hkeys : (md.map (·.1)).Nodup)
    (hp : path ≠ []) (hm : method ≠ [])
    (ht : env.target ≠ .router) (h1 : env.reachLimit = false) (h2 : env.postReadOk = true) (h3 : env.authErr = none) :
    gateway true env (toHttp seq ser false false path method md payload)
      = .served ((serveOne env (nativeReq seq ser false false path method md payload)).filter (· == .invoke))
          (nativeOut (serveOne env (nativeReq seq ser false false path method md payload))) := by
  obtain ⟨_, _, hne2⟩ := toDec_spec ser.toNat
  have e2 : (toDec ser.toNat).isEmpty = false := by cases h : toDec ser.toNat <;> simp_all
  have ep : path.isEmpty = false := by cases path <;> simp_all
  have em : method.isEmpty = false := by cases method <;> simp_all
  obtain ⟨f1, f2, f3⟩ := nativeReq_flags seq ser path method md payload
  have hconv := conversion_faithful seq ser false false path method md payload hkeys
  unfold gateway
  have hsp : (if (toHttp seq ser false false path method md payload).pathHdr.isEmpty then
      (toHttp seq ser false false path method md payload).urlPath else (toHttp seq ser false false path method md payload).pathHdr) = path := by
    show (if path.isEmpty then _ else path) = path
    rw [ep]; rfl
  simp only [hsp]
  have hsame : ({ toHttp seq ser false false path method md payload with pathHdr := path } : HttpReq)
      = toHttp seq ser false false path method md payload := rfl
  rw [hsame, hconv]
  simp only [ep, Bool.false_eq_true, if_false]
  have em' : (toHttp seq ser false false path method md payload).method.isEmpty = false := em
  have es' : (toHttp seq ser false false path method md payload).serType.isEmpty = false := e2
  rw [em', es']
  simp only [Bool.false_eq_true, if_false]
  -- both ingresses now run the shared pipeline on the same message
  have henv : httpEnv env = env := by unfold httpEnv; rw [if_neg ht]
  unfold httpOne serveOne
  simp only [Bool.not_true, Bool.false_eq_true, if_false, h1, h2, h3, f1, f3, henv]
  generalize dispatch env (nativeReq seq ser false false path method md payload) = acts
  unfold nativeOut
  rw [filterMap_write_append_next, filter_invoke_append_next]
  rfl

theorem isEmpty_false_of_ne {b : Bytes} (h : b ≠ []) : b.isEmpty = false := by cases b <;> simp_all

/-- a successful conversion means every numeric header that is present parsed, and the metadata
    header (if present) parsed without error -/
theorem conv_ok_inv (r : HttpReq) (req : Msg) (h : httpToMsg r = .ok req) :
    (r.msgID = [] ∨ ∃ n, parseUint64 r.msgID = some n) ∧ (r.serType = [] ∨ ∃ n, atoi r.serType = some n)
    ∧ (r.compType = [] ∨ ∃ n, atoi r.compType = some n) ∧ (r.mdata = [] ∨ (parseQuery r.mdata).2 = false) := by
  unfold httpToMsg at h
  simp only [] at h
  split at h
  · cases h
  · rename_i h1 heq1
    split at h
    · cases h
    · rename_i h2 heq2
      split at h
      · cases h
      · rename_i h3 heq3
        split at h
        · cases h
        · rename_i md heq4
          refine ⟨?_, ?_, ?_, ?_⟩
          · by_cases he : r.msgID = []
            · exact Or.inl he
            · right
              rw [isEmpty_false_of_ne he] at heq1
              cases hp : parseUint64 r.msgID with
              | none => rw [hp] at heq1; simp at heq1
              | some n => exact ⟨n, rfl⟩
          · by_cases he : r.serType = []
            · exact Or.inl he
            · right
              rw [isEmpty_false_of_ne he] at heq2
              cases hp : atoi r.serType with
              | none => rw [hp] at heq2; simp at heq2
              | some n => exact ⟨n, rfl⟩
          · by_cases he : r.compType = []
            · exact Or.inl he
            · right
              rw [isEmpty_false_of_ne he] at heq3
              cases hp : atoi r.compType with
              | none => rw [hp] at heq3; simp at heq3
              | some n => exact ⟨n, rfl⟩
          · by_cases he : r.mdata = []
            · exact Or.inl he
            · right
              rw [isEmpty_false_of_ne he] at heq4
              cases hp : (parseQuery r.mdata).2 with
              | false => rfl
              | true => rw [hp] at heq4; simp at heq4

/-- **Malformed gateway requests never reach a handler** -/
theorem malformed_rejected (acceptOk : Bool) (env : Env) (r : HttpReq)
    (h : (r.pathHdr = [] ∧ r.urlPath = []) ∨ r.method = [] ∨ r.serType = []
      ∨ (r.msgID ≠ [] ∧ parseUint64 r.msgID = none)
      ∨ (r.serType ≠ [] ∧ atoi r.serType = none)
      ∨ (r.compType ≠ [] ∧ atoi r.compType = none)
      ∨ (r.mdata ≠ [] ∧ (parseQuery r.mdata).2 = true)) :
    ∃ why, gateway acceptOk env r = .rejected why := by
  unfold gateway
  simp only []
  split
  · exact ⟨_, rfl⟩
  · exact ⟨_, rfl⟩
  · exact ⟨_, rfl⟩
  · exact ⟨_, rfl⟩
  · rename_i req hok
    obtain ⟨i1, i2, i3, i4⟩ := conv_ok_inv _ req hok
    simp only [] at i1 i2 i3 i4
    rcases h with ⟨ha, hb⟩ | hmm | hs | ⟨hne, hbad⟩ | ⟨hne, hbad⟩ | ⟨hne, hbad⟩ | ⟨hne, hbad⟩
    · rw [ha, hb]; exact ⟨_, rfl⟩
    · simp only [hmm, List.isEmpty_nil, if_true]
      (repeat' split) <;> exact ⟨_, rfl⟩
    · simp only [hs, List.isEmpty_nil, if_true]
      (repeat' split) <;> exact ⟨_, rfl⟩
    · rcases i1 with h0 | ⟨n, hn⟩
      · exact absurd h0 hne
      · rw [hbad] at hn; cases hn
    · rcases i2 with h0 | ⟨n, hn⟩
      · exact absurd h0 hne
      · rw [hbad] at hn; cases hn
    · rcases i3 with h0 | ⟨n, hn⟩
      · exact absurd h0 hne
      · rw [hbad] at hn; cases hn
    · rcases i4 with h0 | hn
      · exact absurd h0 hne
      · rw [hbad] at hn; cases hn

theorem malformed_no_invoke (acceptOk : Bool) (env : Env) (r : HttpReq)
    (h : (r.pathHdr = [] ∧ r.urlPath = []) ∨ r.method = [] ∨ r.serType = []
      ∨ (r.msgID ≠ [] ∧ parseUint64 r.msgID = none)
      ∨ (r.serType ≠ [] ∧ atoi r.serType = none)
      ∨ (r.compType ≠ [] ∧ atoi r.compType = none)
      ∨ (r.mdata ≠ [] ∧ (parseQuery r.mdata).2 = true)) :
    gwInvokes (gateway acceptOk env r) = 0 := by
  obtain ⟨why, hw⟩ := malformed_rejected acceptOk env r h
  rw [hw]; rfl

theorem jsonrpc_split (path method : Bytes) (hp : path ≠ []) (hm : ∀ x ∈ method, x ≠ 0x2E#8) :
    splitMethod (path ++ 0x2E#8 :: method) = some (path, method) := splitMethod_join path method hp hm

/-- non-vacuity: a request with binary metadata converts, a non-numeric id is rejected -/
example : (parseQuery (encodeValues [([0x00#8, 0x26#8], [0x3D#8, 0xFF#8]), ([], [0x20#8, 0x2B#8])])).1
    = [([0x00#8, 0x26#8], [0x3D#8, 0xFF#8]), ([], [0x20#8, 0x2B#8])] := by decide +kernel
example : gwInvokes (gateway true {} { msgID := [0x31#8, 0x32#8, 0x78#8], pathHdr := [0x53#8], method := [0x44#8], serType := [0x31#8] }) = 0 := by
  decide +kernel

end Rpcx.Props.C19

namespace Rpcx.Props.C19
open Rpcx Rpcx.Gen Rpcx.Srv Rpcx.Query Rpcx.Gw

/-- the request the JSON-RPC endpoint builds for "path.Method" with JSON arguments and an id is
    the request a native client frames for (path, Method) with the JSON codec – up to the
    sequence number, which JSON-RPC does not carry into the rpcx message -/
theorem jsonrpc_request (path method params : Bytes) (md : List (Bytes × Bytes)) (hkeys : (md.map (·.1)).Nodup)
    (hp : path ≠ []) (hm : ∀ x ∈ method, x ≠ 0x2E#8) :
    jsonrpcReq true (path ++ 0x2E#8 :: method) params (encodeValues md) []
      = some (nativeReq 0#64 C.SerializeType_JSON false false path method md params) := by
  unfold jsonrpcReq
  rw [splitMethod_join path method hp hm]
  have hmd : (if (encodeValues md).isEmpty then [] else firstWins (parseQuery (encodeValues md)).1) = md := by
    rw [parseQuery_encodeValues, firstWins_nodup md hkeys]
    split
    · rename_i he
      cases md with
      | nil => rfl
      | cons e rest =>
        exfalso
        have : (encodeValues (e :: rest)).isEmpty = false := by
          unfold encodeValues
          cases rest <;> simp [joinAmp, pairOf]
        rw [this] at he; cases he
    · rfl
  simp only [hmd, if_true, List.isEmpty_nil]
  rfl


/-- a JSON-RPC NOTIFICATION (no id) is the native one-way request for the same service, method,
    arguments and metadata: the same message reaches the shared pipeline -/
theorem jsonrpc_notification_request (path method params : Bytes) (md : List (Bytes × Bytes)) (hkeys : (md.map (·.1)).Nodup)
    (hp : path ≠ []) (hm : ∀ x ∈ method, x ≠ 0x2E#8) :
    jsonrpcReq false (path ++ 0x2E#8 :: method) params (encodeValues md) []
      = some (nativeReq 0#64 C.SerializeType_JSON false true path method md params) := by
  unfold jsonrpcReq
  rw [splitMethod_join path method hp hm]
  have hmd : (if (encodeValues md).isEmpty then [] else firstWins (parseQuery (encodeValues md)).1) = md := by
    rw [parseQuery_encodeValues, firstWins_nodup md hkeys]
    split
    · rename_i he
      cases md with
      | nil => rfl
      | cons e rest =>
        exfalso
        have : (encodeValues (e :: rest)).isEmpty = false := by
          unfold encodeValues
          cases rest <;> simp [joinAmp, pairOf]
        rw [this] at he; cases he
    · rfl
  simp only [hmd, List.isEmpty_nil]
  rfl

/-- …so it invokes a handler exactly as often as that one-way request does on the native protocol -/
theorem jsonrpc_notification_invocations (env : Env) (path method params : Bytes) (md : List (Bytes × Bytes))
    (hkeys : (md.map (·.1)).Nodup) (hp : path ≠ []) (hm : ∀ x ∈ method, x ≠ 0x2E#8) :
    gwInvokes (jsonrpc true env false (path ++ 0x2E#8 :: method) params (encodeValues md) [])
      = (((httpOne true env (nativeReq 0#64 C.SerializeType_JSON false true path method md params)).1).filter (· == .invoke)).length := by
  unfold jsonrpc
  rw [jsonrpc_notification_request path method params md hkeys hp hm]
  rfl


/-- how often a request invokes a handler depends on the environment only – never on the request's
    flags (a one-way request is executed exactly like a two-way one; only the write is left out) -/
theorem dispatch_invokes_indep (env : Env) (req req' : Msg) :
    (dispatch env req).filter (· == .invoke) = (dispatch env req').filter (· == .invoke) := by
  have hr : ∀ (q : Msg) (m : Msg), (reply q m).filter (· == Action.invoke) = [] := by
    intro q m; unfold reply; split <;> simp
  unfold dispatch
  cases env.target <;> simp only [] <;> (repeat' split) <;> simp [hr]

/-- **JSON-RPC notification ≡ native one-way**: the notification invokes a handler exactly as often
    as the identical one-way request on the native protocol -/
theorem jsonrpc_notification_equals_native (env : Env) (path method params : Bytes) (md : List (Bytes × Bytes))
    (hkeys : (md.map (·.1)).Nodup) (hp : path ≠ []) (hm : ∀ x ∈ method, x ≠ 0x2E#8)
    (ht : env.target ≠ .router) (h1 : env.reachLimit = false) (h2 : env.postReadOk = true) (h3 : env.authErr = none) :
    gwInvokes (jsonrpc true env false (path ++ 0x2E#8 :: method) params (encodeValues md) [])
      = ((serveOne env (nativeReq 0#64 C.SerializeType_JSON false true path method md params)).filter (· == .invoke)).length := by
  rw [jsonrpc_notification_invocations env path method params md hkeys hp hm]
  have henv : httpEnv env = env := by unfold httpEnv; rw [if_neg ht]
  have hhb : Header.isHeartbeat (nativeReq 0#64 C.SerializeType_JSON false true path method md params).hdr = false := by
    simp [nativeReq, Header.isHeartbeat, Header.setOneway, Header.setSerializeType, Header.setSeq, baseHeader,
      Header.setMessageType, C.magicNumber, C.MessageType_Request]
  unfold httpOne serveOne
  simp only [Bool.not_true, Bool.false_eq_true, if_false, h1, h2, h3, hhb, henv]
  rw [filter_invoke_append_next]
  simp only [List.filter_filter, Bool.and_self]
  rw [dispatch_invokes_indep env _ (nativeReq 0#64 C.SerializeType_JSON false true path method md params)]

/-- **JSON-RPC ≡ native**: same outcome (reply payload or error text) and the same number of handler
    invocations as the identical request on the native protocol -/
theorem jsonrpc_equals_native (env : Env) (path method params : Bytes) (md : List (Bytes × Bytes))
    (hkeys : (md.map (·.1)).Nodup) (hp : path ≠ []) (hm : ∀ x ∈ method, x ≠ 0x2E#8)
    (ht : env.target ≠ .router) (h1 : env.reachLimit = false) (h2 : env.postReadOk = true) (h3 : env.authErr = none) :
    jsonrpc true env true (path ++ 0x2E#8 :: method) params (encodeValues md) []
      = .served ((serveOne env (nativeReq 0#64 C.SerializeType_JSON false false path method md params)).filter (· == .invoke))
          (nativeOut (serveOne env (nativeReq 0#64 C.SerializeType_JSON false false path method md params))) := by
  unfold jsonrpc
  rw [jsonrpc_request path method params md hkeys hp hm]
  obtain ⟨f1, f2, f3⟩ := nativeReq_flags 0#64 C.SerializeType_JSON path method md params
  have henv : httpEnv env = env := by unfold httpEnv; rw [if_neg ht]
  simp only []
  unfold httpOne serveOne
  simp only [Bool.not_true, Bool.false_eq_true, if_false, h1, h2, h3, f1, f3, henv]
  generalize dispatch env (nativeReq 0#64 C.SerializeType_JSON false false path method md params) = acts
  unfold nativeOut
  rw [filterMap_write_append_next, filter_invoke_append_next]
  rfl

/-- a JSON-RPC method name without a usable dot never reaches a handler -/
theorem jsonrpc_bad_name (acceptOk : Bool) (env : Env) (hasID : Bool) (name params mdata auth : Bytes)
    (h : splitMethod name = none) : gwInvokes (jsonrpc acceptOk env hasID name params mdata auth) = 0 := by
  unfold jsonrpc jsonrpcReq
  rw [h]; rfl

end Rpcx.Props.C19
