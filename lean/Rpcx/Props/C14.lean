import Rpcx.Gen.Atomic
import Rpcx.Model.Discovery
import Rpcx.Gen.DiscoveryFacts
/-
  C14: discovery updates converge to the last published server set, filtered.
  * `keep_iff`: for metadata that parses, a server survives the filter iff it is not marked
    inactive and (no client group is configured or its groups contain the client's group).
  * `converges`: for EVERY interleaving of publish and apply steps (any schedule), any queue
    capacity ≥ 1: once the watcher's queue is empty, the list it applies is the last one
    published – an earlier update never overwrites a later one, and no update is lost for good.
  * `d23_witness`: the pre-fix hand-off (one goroutine per update, delivery order free) can
    leave the watcher on the stale list.
-/
namespace Rpcx.Props.C14
open Rpcx Rpcx.Disc

theorem keep_iff (group : Bytes) (m : Meta) (hp : m.parseOk = true) :
    keep group m = true ↔ (m.state ≠ inactiveBytes ∧ (group = [] ∨ group ∈ m.groups)) := by
  unfold keep
  simp only [hp, Bool.not_true, Bool.false_eq_true, if_false]
  by_cases hs : m.state = inactiveBytes
  · simp [hs]
  · have hb : (m.state == inactiveBytes) = false := by simpa using hs
    simp only [hb, Bool.false_eq_true, if_false]
    by_cases hg : group = []
    · simp [hg, hs]
    · have : group.isEmpty = false := by cases group <;> simp_all
      simp [this, hg, hs]

theorem filter_mem (group : Bytes) (servers : List (String × Meta)) (a : String) :
    a ∈ filterServers group servers ↔ ∃ m, (a, m) ∈ servers ∧ keep group m = true := by
  simp [filterServers]

/-- invariant: the newest pending item (or, with nothing pending, the applied one) is the
    last published list -/
def Inv {α : Type} (w : Watcher α) (last : Option α) : Prop :=
  match w.queue.getLast? with
  | some x => last = some x
  | none => last = none ∨ w.applied = last

theorem notify_last {α : Type} (cap : Nat) (hc : 0 < cap) (w : Watcher α) (x : α) :
    (notify cap w x).queue.getLast? = some x := by
  unfold notify
  simp only
  have hlen : (w.queue ++ [x]).length = w.queue.length + 1 := by simp
  split
  · rw [List.getLast?_drop]
    have : ¬ ((w.queue ++ [x]).length ≤ (w.queue ++ [x]).length - cap) := by rw [hlen]; omega
    rw [if_neg this]; simp
  · simp

theorem applyOne_inv {α : Type} (w : Watcher α) (last : Option α) (h : Inv w last) : Inv (applyOne w) last := by
  unfold applyOne
  cases hq : w.queue with
  | nil => simpa [hq] using h
  | cons x rest =>
    simp only
    unfold Inv at h ⊢
    rw [hq] at h
    cases rest with
    | nil => simp at h ⊢; right; exact h.symm
    | cons y ys =>
      have e : (x :: y :: ys).getLast? = (y :: ys).getLast? := by simp [List.getLast?_cons_cons]
      rw [e] at h
      cases hv : (y :: ys).getLast? with
      | none => simp at hv
      | some v => rw [hv] at h; simpa using h

/-- state after a schedule, together with what was last published before/within it -/
theorem run_inv {α : Type} (cap : Nat) (hc : 0 < cap) : ∀ (steps : List (Step α)) (w : Watcher α) (last : Option α),
    Inv w last → Inv (run cap w steps) ((lastPublished steps).orElse (fun _ => last)) := by
  intro steps
  induction steps with
  | nil => intro w last h; simpa [run, lastPublished] using h
  | cons s rest ih =>
    intro w last h
    cases s with
    | publish x =>
      have h1 : Inv (notify cap w x) (some x) := by
        unfold Inv; rw [notify_last cap hc w x]
      have := ih (notify cap w x) (some x) h1
      simp only [run, List.foldl_cons, step, lastPublished] at this ⊢
      cases hl : lastPublished rest <;> simpa [hl] using this
    | apply =>
      have := ih (applyOne w) last (applyOne_inv w last h)
      simpa [run, step, lastPublished] using this

/-- Convergence: after any schedule, if nothing is pending, the applied list is the last
    published one (when anything was published at all). -/
theorem converges {α : Type} (cap : Nat) (hc : 0 < cap) (steps : List (Step α)) (x : α)
    (hl : lastPublished steps = some x) (hq : (run cap ⟨[], none⟩ steps).queue = []) :
    (run cap ⟨[], none⟩ steps).applied = some x := by
  have h := run_inv cap hc steps ⟨[], none⟩ none (by simp [Inv])
  rw [hl] at h
  unfold Inv at h
  rw [hq] at h
  simp at h
  exact h

/-- and while something is pending, the NEWEST pending item is the last published: an earlier
    update can never be applied after a later one -/
theorem newest_pending_is_last {α : Type} (cap : Nat) (hc : 0 < cap) (steps : List (Step α)) (y : α)
    (hq : (run cap ⟨[], none⟩ steps).queue.getLast? = some y) : lastPublished steps = some y := by
  have h := run_inv cap hc steps ⟨[], none⟩ none (by simp [Inv])
  unfold Inv at h
  rw [hq] at h
  cases hl : lastPublished steps with
  | none => simp [hl] at h
  | some z => simp [hl] at h; rw [h]

/-- Regression witness D23: with one delivery goroutine per update the two sends may be
    delivered in either order; delivering U2 before U1 leaves the watcher on U1. -/
def runUnordered (deliveries : List Nat) : Option Nat :=
  (deliveries.foldl (fun (w : Watcher Nat) x => applyOne { w with queue := w.queue ++ [x] }) ⟨[], none⟩).applied
theorem d23_witness : runUnordered [2, 1] = some 1 := by decide

/-- non-vacuity: capacity 2, three back-to-back publishes then applies -/
example : (run 2 ⟨[], none⟩ [.publish 1, .publish 2, .publish 3, .apply, .apply, .apply] : Watcher Nat).applied = some 3
    ∧ (run 2 ⟨[], none⟩ [.publish 1, .publish 2, .publish 3, .apply, .apply, .apply] : Watcher Nat).queue = [] := by decide


/-! ### many clients on one discovery, coming and going -/

/-- every registered watcher satisfies the single-watcher invariant w.r.t. the discovery's current list -/
def HubInv {α : Type} (h : Hub α) : Prop := ∀ e ∈ h.ws, Inv e.2 h.current

theorem hubStep_inv {α : Type} (cap : Nat) (hc : 0 < cap) (h : Hub α) (s : HubStep α) (hi : HubInv h) :
    HubInv (hubStep cap h s) := by
  cases s with
  | watch id =>
    simp only [hubStep]
    split
    · exact hi
    · intro e he
      simp only [List.mem_append, List.mem_singleton] at he
      rcases he with he | he
      · exact hi e he
      · subst he; simp [Inv]
  | remove id =>
    intro e he
    simp only [hubStep, List.mem_filter] at he
    exact hi e he.1
  | publish x =>
    intro e he
    simp only [hubStep, List.mem_map] at he
    obtain ⟨e0, _, rfl⟩ := he
    simp only [hubStep]
    unfold Inv; rw [notify_last cap hc e0.2 x]
  | apply id =>
    intro e he
    simp only [hubStep, List.mem_map] at he
    obtain ⟨e0, he0, rfl⟩ := he
    simp only [hubStep]
    split
    · exact applyOne_inv _ _ (hi e0 he0)
    · exact hi e0 he0

theorem hubRun_inv {α : Type} (cap : Nat) (hc : 0 < cap) : ∀ (steps : List (HubStep α)) (h : Hub α),
    HubInv h → HubInv (hubRun cap h steps) := by
  intro steps
  induction steps with
  | nil => intro h hi; exact hi
  | cons s rest ih => intro h hi; exact ih _ (hubStep_inv cap hc h s hi)

theorem hubRun_current {α : Type} (cap : Nat) : ∀ (steps : List (HubStep α)) (h : Hub α),
    (hubRun cap h steps).current = (hubLastPublished steps).orElse (fun _ => h.current) := by
  intro steps
  induction steps with
  | nil => intro h; simp [hubRun, hubLastPublished]
  | cons s rest ih =>
    intro h
    have := ih (hubStep cap h s)
    simp only [hubRun, List.foldl_cons] at this ⊢
    rw [this]
    cases s with
    | publish x => cases hl : hubLastPublished rest <;> simp [hubLastPublished, hubStep, hl]
    | watch id => simp only [hubLastPublished, hubStep]; split <;> rfl
    | remove id => simp [hubLastPublished, hubStep]
    | apply id => simp [hubLastPublished, hubStep]

/-- **Convergence with churn**: whatever clients are created and closed and whenever, after any
    schedule every client that is still registered and has nothing pending uses exactly the last
    published list – closing one client never makes another miss an update. -/
theorem hub_converges {α : Type} (cap : Nat) (hc : 0 < cap) (steps : List (HubStep α)) (x : α)
    (hl : hubLastPublished steps = some x) (id : Nat) (w : Watcher α)
    (hm : (id, w) ∈ (hubRun cap ⟨none, []⟩ steps).ws) (hq : w.queue = []) : w.applied = some x := by
  have hi := hubRun_inv cap hc steps ⟨none, []⟩ (by intro e he; cases he) (id, w) hm
  rw [hubRun_current, hl] at hi
  unfold Inv at hi
  simp only [hq, List.getLast?_nil, Option.orElse] at hi
  rcases hi with hi | hi
  · cases hi
  · exact hi

/-- non-vacuity: three clients, the first is closed between two updates, a fourth joins late -/
example : ((hubRun 2 ⟨none, []⟩ [.watch 1, .watch 2, .watch 3, .publish 10, .remove 1, .publish 20, .watch 4,
      .apply 2, .apply 2, .apply 3, .apply 3] : Hub Nat).ws.map (fun e => (e.1, e.2.applied, e.2.queue)))
    = [(2, some 20, []), (3, some 20, []), (4, some 20, [])] := by decide

/-- a delivered server list is a VALUE for the watcher (the model's assumption): no function of
    the client sorts, in place, a list that belongs to the discovery and is shared with the
    publisher and the other watchers (regenerated fact) -/
theorem tie_delivered_list_not_mutated : Gen.inPlaceSortsOfSharedLists = [] := by decide

/-! ### a publication is one step -/

/-- a publication split into two steps – the list is stored, the watchers are notified later – as two
    concurrent publishers can interleave them -/
inductive SplitEv | store (v : Nat) | notify (v : Nat)

/-- (what the discovery holds, what the watcher received last) -/
def splitRun (evs : List SplitEv) : Option Nat × Option Nat :=
  evs.foldl (fun s e => match e with | .store v => (some v, s.2) | .notify v => (s.1, some v)) (none, none)

/-- **why `Update` must store and notify inside one critical section**: two publishers, publications split –
    the discovery ends up holding list 2, the watcher is left on list 1 for good (an earlier update
    overwrote a later one); the hub model's `publish` is ONE step, and `tie_update_publish_atomic` is
    the obligation that the code's is too -/
theorem split_publish_leaves_watcher_stale :
    splitRun [.store 1, .store 2, .notify 2, .notify 1] = (some 2, some 1) := by decide

/-- the tie: in the CURRENT source `MultipleServersDiscovery.Update` stores the list and notifies every
    watcher while holding the discovery's mutex -/
theorem tie_update_publish_atomic :
    Gen.discoveryUpdateAtomic = [("MultipleServersDiscovery.Update", true)] := by decide


end Rpcx.Props.C14
