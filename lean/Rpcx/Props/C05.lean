import Rpcx.Model.Atomic
import Rpcx.Lemmas.MuxInv
import Rpcx.Lemmas.MuxRet
/-
  C05: every call completes exactly once, whatever fails and whenever – theorems about the
  multiplexer model for EVERY number of calls and EVERY event sequence (any interleaving of
  registration, encode/write failures, responses, cancellation, peer close at any point,
  Close), proved through the invariant `Mux.Inv` (Rpcx/Lemmas/MuxInv.lean).
-/
namespace Rpcx.Props.C05
open Rpcx Rpcx.Mux

/-- never signalled twice -/
theorem at_most_once (oneways : List (Bool × Bool)) (evs : List Ev) (c : Nat) (r : CallRec)
    (h : (run (init oneways) evs).calls[c]? = some r) : r.signals ≤ 1 :=
  (inv_run _ (inv_init oneways) evs).sig c r h

/-- ownership: whoever removes a call from the pending table signals it, and nobody else –
    a call still in the table has not been signalled -/
theorem pending_unsignalled (oneways : List (Bool × Bool)) (evs : List Ev) (q c : Nat)
    (h : (q, c) ∈ (run (init oneways) evs).pending) :
    ∃ r, (run (init oneways) evs).calls[c]? = some r ∧ r.signals = 0 :=
  let ⟨r, h1, h2, _⟩ := (inv_run _ (inv_init oneways) evs).pend q c h
  ⟨r, h1, h2⟩

/-- no lost call: a registered call that has not completed is still in the table, where the
    reader, Close, its own sender or its own waiter will find it -/
theorem not_lost (oneways : List (Bool × Bool)) (evs : List Ev) (c q : Nat) (r : CallRec)
    (h : (run (init oneways) evs).calls[c]? = some r) (hp : r.phase = .registered q) (hs : r.signals = 0) :
    (q, c) ∈ (run (init oneways) evs).pending :=
  (inv_run _ (inv_init oneways) evs).held c r q h hp hs

/-- once the connection is lost or the client closed, nothing is left hanging: the table is
    empty, so every registered call has been signalled exactly once -/
theorem drained (oneways : List (Bool × Bool)) (evs : List Ev)
    (hd : (run (init oneways) evs).shutdown = true ∨ (run (init oneways) evs).closing = true) :
    (run (init oneways) evs).pending = []
    ∧ ∀ (c : Nat) (r : CallRec) (q : Nat), (run (init oneways) evs).calls[c]? = some r → r.phase = Phase.registered q → r.signals = 1 := by
  have hi := inv_run _ (inv_init oneways) evs
  have hp := hi.down hd
  refine ⟨hp, ?_⟩
  intro c r q h hph
  have h1 := hi.sig c r h
  by_cases h0 : r.signals = 0
  · have := hi.held c r q h hph h0
    rw [hp] at this; cases this
  · omega

/-- the two events that lose / close the connection do drain it -/
theorem terminate_sets_shutdown (s : St) : (step s .terminate).shutdown = true := by
  simp only [step]; split <;> simp_all
theorem close_sets_flag (s : St) : (step s .close).closing = true ∨ (step s .close).shutdown = true := by
  simp only [step]
  split
  · rename_i h
    have : s.closing = true ∨ s.shutdown = true := by simpa using h
    rcases this with h | h
    · left; simp [failAll, h]
    · right; simp [failAll, h]
  · left; rfl

/-- fail fast: a call started after the connection was lost or the client closed completes at
    once with an error – the shutdown error for Go/Call, the error of its write to the closed
    connection for SendRaw – exactly one signal, and never stays in the table -/
theorem fail_fast (s : St) (c : Nat) (r : CallRec) (hr : s.calls[c]? = some r) (hf : r.phase = .fresh)
    (hs0 : r.signals = 0) (hd : s.shutdown = true ∨ s.closing = true) :
    (step s (.register c)).pending = s.pending
    ∧ ∃ r', (step s (.register c)).calls[c]? = some r' ∧ r'.signals = 1 ∧
        r'.outcome = some (if r.raw then .connErr else .shutdownErr) := by
  have hd' : (s.shutdown || s.closing) = true := by simpa using hd
  simp only [step, hr, hf, ne_eq, not_true_eq_false, if_false, hd', if_true]
  refine ⟨trivial, ?_⟩
  by_cases hraw : r.raw = true
  · simp only [hraw, if_true]
    refine ⟨{ { bump .connErr r with phase := .finished } with ret := some .connErr }, ?_, by simp [bump, hs0], by simp [bump]⟩
    rw [setRet_get, setPhase_get, signal_get]
    simp [hr]
  · have hraw' : r.raw = false := by simpa using hraw
    simp only [hraw', Bool.false_eq_true, if_false]
    refine ⟨{ bump .shutdownErr r with phase := .finished }, ?_, by simp [bump, hs0], by simp [bump]⟩
    rw [setPhase_get, signal_get]
    simp [hr]


/-- **A blocking caller returns once**: in every history, whatever a blocking caller – `Call`, or
    `SendRaw` – has returned with is final: no later response, duplicate, peer close, `Close`, late
    result of its own write or expiry of its context changes it.  (For `SendRaw` this rests on the
    per-record invariant `Mux.RawOk`: a raw caller that has not come back from its write has not
    returned anything, so the one overwriting step – "return the error of my write" – never
    overwrites a result.) -/
theorem returns_once (kinds : List (Bool × Bool)) (before after : List Ev) (c : Nat) (r : CallRec) (x : Outcome)
    (h : (run (init kinds) before).calls[c]? = some r) (hx : r.ret = some x) :
    ∃ r', (run (init kinds) (before ++ after)).calls[c]? = some r' ∧ r'.ret = some x := by
  have hi := inv_run _ (inv_init kinds) before
  have hr := retInv_run before _ (inv_init kinds) (retInv_init kinds)
  have := ret_stable_run after _ hi hr c r x h hx
  simpa [run, List.foldl_append] using this

/-- non-vacuity: a raw caller whose reply arrives while it is still inside its write returns it after
    the write; a later duplicate, a peer close and a Close change nothing -/
example : ((run (init [(false, true)]) [.register 0, .frame ⟨0, false, false, false, false, 7, true⟩, .writeOk 0,
      .frame ⟨0, false, false, false, false, 8, true⟩, .terminate, .close]).calls.map (·.ret)) = [some (.reply 7)] := by decide

/-- flags are monotone: shutdown, once set, stays set (so "new calls fail promptly" persists) -/
theorem shutdown_monotone (s : St) (ev : Ev) (h : s.shutdown = true) : (step s ev).shutdown = true := by
  cases ev <;> simp only [step, removeAndSignal, markRet, ctxRemove, failAll] <;> (repeat' split) <;> (first | exact h | simp [h])

/-- non-vacuity: peer close in the middle, then Close: one signal each, nothing pending -/
example : ((run (init (plain [false, false])) [.register 0, .writeOk 0, .register 1, .terminate, .close]).calls.map (·.signals)) = [1, 1]
    ∧ (run (init (plain [false, false])) [.register 0, .writeOk 0, .register 1, .terminate, .close]).pending = [] := by decide

/-! ### the model's atomic steps are the code's critical sections (regenerated facts) -/

theorem tie_atomic : tieItem Gen.atomicTie "atomic:client.Client.send" = true ∧ tieItem Gen.atomicTie "atomic:client.Client.input" = true
    ∧ tieItem Gen.atomicTie "atomic:client.Client.Close" = true := by decide

/-- the reader's teardown (`terminate` in the model) is ONE critical section of `input`: closing
    the connection, setting `shutdown` and draining the pending table (remove + signal) -/
theorem tie_reader_teardown_atomic :
    Atomic.sameRegion .clientInput .clientMutex [.connClose, .setShutdown, .rangePending, .deletePending, .callDone] = true := by
  decide

/-- `Close` is one critical section: drain (remove + signal), close the connection, set `closing` -/
theorem tie_close_atomic :
    Atomic.sameRegion .clientClose .clientMutex [.rangePending, .deletePending, .callDone, .connClose, .setClosing] = true := by
  decide

/-- registration tests the flags and inserts under one acquisition -/
theorem tie_register_atomic :
    Atomic.sameRegion .clientSend .clientMutex [.testShutdown, .testClosing, .putPending] = true := by decide

/-- the failure paths of `send` (encode error, write error, one-way completion) remove the call
    from the table under the lock, and only signal what they themselves removed: every region
    that deletes from the table first looks the entry up, and no delete happens outside the lock -/
theorem tie_failure_paths_owner_only :
    Atomic.regionsWithAlsoHave .clientSend .clientMutex .deletePending .getPending = true
    ∧ Atomic.onlyUnder .clientSend .clientMutex .deletePending = true
    ∧ Atomic.onlyUnder .clientInput .clientMutex .deletePending = true := by decide

end Rpcx.Props.C05
