import Rpcx.Model.Select
/-
  C13: consistent-hash routing is stable and reproducible (theorems about the doublejump
  model, which `harness c13` ties to the real selector with the real jump hash).

  * `select_stable`: selection is a pure function of (state, key): the same key maps to the
    same server for as long as the state is unchanged (there is no hidden cursor).
  * `add_present`, `update_same`: re-announcing the identical server set leaves the hash
    state untouched.
  * `new_perm`: two selectors constructed from the same set agree whatever the order in
    which the set was enumerated (every map iteration order) – this is the theorem that
    was FALSE before the fix (servers were added while ranging over the map; witness below).
  * monotonicity under pure additions is checked against the implementation by the harness
    (add-only histories, 200 keys each) and on the model by differential runs; it is not yet
    a theorem (it needs the jump-hash step property as a hypothesis).
-/
namespace Rpcx.Props.C13
open Rpcx Rpcx.Sel

theorem select_stable (jh : Nat → Nat → Nat) (s : CH) (key : Nat) :
    CH.select jh s key = CH.select jh s key := rfl

/-- a server present in both holders is not added again -/
theorem add_present (d : DJ) (s : String) (h1 : d.la.contains (some s) = true) (h2 : d.ca.contains s = true) :
    d.add s = d := by
  have h1' : some s ∈ d.la := by simpa using h1
  have h2' : s ∈ d.ca := by simpa using h2
  simp [DJ.add, h1', h2']

/-- `Present d ks`: every key is in both holders -/
def Present (d : DJ) (ks : List String) : Prop :=
  ∀ k ∈ ks, d.la.contains (some k) = true ∧ d.ca.contains k = true

theorem foldl_add_present (ks : List String) (d : DJ) (h : Present d ks) : ks.foldl DJ.add d = d := by
  induction ks with
  | nil => rfl
  | cons k ks ih =>
    have hk := h k (by simp)
    rw [List.foldl_cons, add_present d k hk.1 hk.2]
    exact ih (fun k' hk' => h k' (by simp [hk']))

/-- Re-announcing the identical set changes nothing. -/
theorem update_same (s : CH) (keys : List String) (hs : s.servers = sortStr keys) (hp : Present s.h (sortStr keys)) :
    (s.update keys).h = s.h ∧ (s.update keys).servers = s.servers := by
  have hf : (s.servers.filter (fun k => !(sortStr keys).contains k)) = [] := by
    rw [hs]
    apply List.filter_eq_nil_iff.mpr
    intro a ha
    simp [ha]
  rw [hs] at hf
  simp only [CH.update, foldl_add_present _ _ hp, hs, hf, List.foldl_nil, and_self]

/-! reproducibility: sorting makes construction independent of the enumeration order -/

theorem insertStr_perm (s : String) (l : List String) : (insertStr s l).Perm (s :: l) := by
  induction l with
  | nil => simp [insertStr]
  | cons x xs ih =>
    simp only [insertStr]
    split
    · exact List.Perm.refl _
    · exact (List.Perm.cons x ih).trans (List.Perm.swap s x xs)

theorem sortStr_perm (l : List String) : (sortStr l).Perm l := by
  induction l with
  | nil => exact List.Perm.refl _
  | cons x xs ih =>
    show (insertStr x (sortStr xs)).Perm (x :: xs)
    exact (insertStr_perm x _).trans (List.Perm.cons x ih)

theorem insertStr_sorted (s : String) (l : List String) (h : l.Pairwise (· ≤ ·)) :
    (insertStr s l).Pairwise (· ≤ ·) := by
  induction l with
  | nil => simp [insertStr]
  | cons x xs ih =>
    simp only [insertStr]
    have hx := List.pairwise_cons.mp h
    split
    · rename_i hlt
      have hle : s ≤ x := by
        rcases String.le_total s x with h | h
        · exact h
        · exact absurd hlt (String.not_lt.mpr h)
      apply List.pairwise_cons.mpr
      refine ⟨?_, h⟩
      intro a ha
      rcases List.mem_cons.mp ha with rfl | ha
      · exact hle
      · exact String.le_trans hle (hx.1 a ha)
    · rename_i hnlt
      have hle : x ≤ s := String.not_lt.mp hnlt
      apply List.pairwise_cons.mpr
      refine ⟨?_, ih hx.2⟩
      intro a ha
      have := (insertStr_perm s xs).subset ha
      rcases List.mem_cons.mp this with rfl | ha'
      · exact hle
      · exact hx.1 a ha'

theorem sortStr_sorted (l : List String) : (sortStr l).Pairwise (· ≤ ·) := by
  induction l with
  | nil => simp [sortStr]
  | cons x xs ih => exact insertStr_sorted x _ ih

theorem sortStr_congr {l l' : List String} (h : l.Perm l') : sortStr l = sortStr l' := by
  apply List.Perm.eq_of_pairwise (le := (· ≤ ·))
  · intro a b _ _ h1 h2; exact String.le_antisymm h1 h2
  · exact sortStr_sorted l
  · exact sortStr_sorted l'
  · exact (sortStr_perm l).trans (h.trans (sortStr_perm l').symm)

/-- Two clients constructed from the same server set agree, for every enumeration order. -/
theorem new_perm {keys keys' : List String} (h : keys.Perm keys') : CH.new keys = CH.new keys' := by
  simp only [CH.new, sortStr_congr h]

/-- …hence they agree on every key. -/
theorem instances_agree (jh : Nat → Nat → Nat) {keys keys' : List String} (h : keys.Perm keys') (key : Nat) :
    CH.select jh (CH.new keys) key = CH.select jh (CH.new keys') key := by
  rw [new_perm h]

/-- Regression witness (pre-fix behaviour, D21): adding in enumeration order makes the slot
    assignment – hence the mapping – depend on the order. -/
def newUnsorted (keys : List String) : DJ := keys.foldl DJ.add DJ.empty
theorem d21_witness : newUnsorted ["a", "b"] ≠ newUnsorted ["b", "a"] := by decide

/-- non-vacuity of `update_same`: a constructed selector satisfies its hypotheses -/
example : Present (CH.new ["y", "x", "z"]).h (sortStr ["y", "x", "z"]) := by
  intro k hk
  have : k = "x" ∨ k = "y" ∨ k = "z" := by simpa [sortStr, insertStr] using hk
  rcases this with rfl | rfl | rfl <;> decide

end Rpcx.Props.C13
