import Rpcx.Model.Select
import Rpcx.Lemmas.Jump
import Rpcx.Lemmas.ConsistentHash
/-
  C13: consistent-hash routing is stable and reproducible (theorems about the doublejump
  model, which `harness c13` ties to the real selector with the real jump hash).

  * `select_stable`: selection is a pure function of (state, key): the same key maps to the
    same server for as long as the state is unchanged (there is no hidden cursor).
  * `add_present`, `update_same`: re-announcing the identical server set leaves the hash
    state untouched.
  * `new_perm`: two selectors constructed from the same set agree whatever the order in
    which the set was enumerated (every map iteration order) – this is the theorem that
    was FALSE before the fix (servers were added while ranging over the map; witness below).
  * `update_monotone`, `updates_monotone`: under pure additions – one update or any sequence of
    them, starting from a constructed selector – every key keeps its server or moves to a server
    that was not there before.  The only hypothesis is the contract of jump consistent hash
    (`JumpOK`: a bucket below n; growing n by one keeps the bucket or moves the key to the new
    one), which the harness checks on the real `jump.Hash`.
-/
namespace Rpcx.Props.C13
open Rpcx Rpcx.Sel

theorem select_stable (jh : Nat → Nat → Nat) (s : CH) (key : Nat) :
    CH.select jh s key = CH.select jh s key := rfl

/-- a server present in both holders is not added again -/
theorem add_present (d : DJ) (s : String) (h1 : d.la.contains (some s) = true) (h2 : d.ca.contains s = true) :
    d.add s = d := by
  have h1' : some s ∈ d.la := by simpa using h1
  have h2' : s ∈ d.ca := by simpa using h2
  simp [DJ.add, h1', h2']

/-- `Present d ks`: every key is in both holders -/
def Present (d : DJ) (ks : List String) : Prop :=
  ∀ k ∈ ks, d.la.contains (some k) = true ∧ d.ca.contains k = true

theorem foldl_add_present (ks : List String) (d : DJ) (h : Present d ks) : ks.foldl DJ.add d = d := by
  induction ks with
  | nil => rfl
  | cons k ks ih =>
    have hk := h k (by simp)
    rw [List.foldl_cons, add_present d k hk.1 hk.2]
    exact ih (fun k' hk' => h k' (by simp [hk']))

/-- Re-announcing the identical set changes nothing. -/
theorem update_same (s : CH) (keys : List String) (hs : s.servers = sortStr keys) (hp : Present s.h (sortStr keys)) :
    (s.update keys).h = s.h ∧ (s.update keys).servers = s.servers := by
  have hf : (s.servers.filter (fun k => !(sortStr keys).contains k)) = [] := by
    rw [hs]
    apply List.filter_eq_nil_iff.mpr
    intro a ha
    simp [ha]
  rw [hs] at hf
  simp only [CH.update, foldl_add_present _ _ hp, hs, hf, List.foldl_nil, and_self]

/-! reproducibility: sorting makes construction independent of the enumeration order -/

theorem insertStr_perm (s : String) (l : List String) : (insertStr s l).Perm (s :: l) := by
  induction l with
  | nil => simp [insertStr]
  | cons x xs ih =>
    simp only [insertStr]
    split
    · exact List.Perm.refl _
    · exact (List.Perm.cons x ih).trans (List.Perm.swap s x xs)

theorem sortStr_perm (l : List String) : (sortStr l).Perm l := by
  induction l with
  | nil => exact List.Perm.refl _
  | cons x xs ih =>
    show (insertStr x (sortStr xs)).Perm (x :: xs)
    exact (insertStr_perm x _).trans (List.Perm.cons x ih)

theorem insertStr_sorted (s : String) (l : List String) (h : l.Pairwise (· ≤ ·)) :
    (insertStr s l).Pairwise (· ≤ ·) := by
  induction l with
  | nil => simp [insertStr]
  | cons x xs ih =>
    simp only [insertStr]
    have hx := List.pairwise_cons.mp h
    split
    · rename_i hlt
      have hle : s ≤ x := by
        rcases String.le_total s x with h | h
        · exact h
        · exact absurd hlt (String.not_lt.mpr h)
      apply List.pairwise_cons.mpr
      refine ⟨?_, h⟩
      intro a ha
      rcases List.mem_cons.mp ha with rfl | ha
      · exact hle
      · exact String.le_trans hle (hx.1 a ha)
    · rename_i hnlt
      have hle : x ≤ s := String.not_lt.mp hnlt
      apply List.pairwise_cons.mpr
      refine ⟨?_, ih hx.2⟩
      intro a ha
      have := (insertStr_perm s xs).subset ha
      rcases List.mem_cons.mp this with rfl | ha'
      · exact hle
      · exact hx.1 a ha'

theorem sortStr_sorted (l : List String) : (sortStr l).Pairwise (· ≤ ·) := by
  induction l with
  | nil => simp [sortStr]
  | cons x xs ih => exact insertStr_sorted x _ ih

theorem sortStr_congr {l l' : List String} (h : l.Perm l') : sortStr l = sortStr l' := by
  apply List.Perm.eq_of_pairwise (le := (· ≤ ·))
  · intro a b _ _ h1 h2; exact String.le_antisymm h1 h2
  · exact sortStr_sorted l
  · exact sortStr_sorted l'
  · exact (sortStr_perm l).trans (h.trans (sortStr_perm l').symm)

/-- Two clients constructed from the same server set agree, for every enumeration order. -/
theorem new_perm {keys keys' : List String} (h : keys.Perm keys') : CH.new keys = CH.new keys' := by
  simp only [CH.new, sortStr_congr h]

/-- …hence they agree on every key. -/
theorem instances_agree (jh : Nat → Nat → Nat) {keys keys' : List String} (h : keys.Perm keys') (key : Nat) :
    CH.select jh (CH.new keys) key = CH.select jh (CH.new keys') key := by
  rw [new_perm h]


/-! ### monotonicity under pure additions -/

/-- what every selector state reachable by construction and additive updates satisfies: the free
    list of the holder is sound and every current server is in both holders -/
def CHInv (c : CH) : Prop := c.h.WF ∧ c.h.Has c.servers

theorem mem_sortStr (keys : List String) (k : String) : k ∈ sortStr keys ↔ k ∈ keys :=
  (sortStr_perm keys).mem_iff

theorem inv_new (keys : List String) : CHInv (CH.new keys) := by
  obtain ⟨a, _, c⟩ := fold_add_inv (sortStr keys) DJ.empty [] wf_empty (by intro k hk; cases hk)
  exact ⟨a, c⟩

/-- an update that only adds servers removes nothing from the holder -/
theorem update_additive (c : CH) (keys : List String) (hsub : ∀ k ∈ c.servers, k ∈ keys) :
    (c.update keys).h = (sortStr keys).foldl DJ.add c.h := by
  have hf : (c.servers.filter (fun k => !(sortStr keys).contains k)) = [] := by
    apply List.filter_eq_nil_iff.mpr
    intro a ha
    have : a ∈ sortStr keys := (mem_sortStr keys a).mpr (hsub a ha)
    simp [this]
  simp only [CH.update, hf, List.foldl_nil]

theorem inv_update_additive (c : CH) (hc : CHInv c) (keys : List String) (hsub : ∀ k ∈ c.servers, k ∈ keys) :
    CHInv (c.update keys) := by
  obtain ⟨a, _, d⟩ := fold_add_inv (sortStr keys) c.h c.servers hc.1 hc.2
  refine ⟨by rw [update_additive c keys hsub]; exact a, ?_⟩
  rw [update_additive c keys hsub]
  exact d

/-- **Monotone under addition**: when an update only adds servers, a key either keeps its server or
    moves to one of the new servers. -/
theorem update_monotone (jh : Nat → Nat → Nat) (hj : JumpOK jh) (c : CH) (hc : CHInv c) (keys : List String)
    (hsub : ∀ k ∈ c.servers, k ∈ keys) (key : Nat) :
    (c.update keys).h.get jh key = c.h.get jh key ∨
    ∃ s ∈ keys, s ∉ c.servers ∧ (c.update keys).h.get jh key = some s := by
  rw [update_additive c keys hsub]
  rcases fold_add_mono jh hj c.servers key (sortStr keys) c.h hc.1 hc.2 with h | ⟨s, hs, hn, hv⟩
  · left; exact h
  · right; exact ⟨s, (mem_sortStr keys s).mp hs, hn, hv⟩

/-- a sequence of updates, each a superset of the set before it -/
def Additive : CH → List (List String) → Prop
  | _, [] => True
  | c, keys :: rest => (∀ k ∈ c.servers, k ∈ keys) ∧ Additive (c.update keys) rest

theorem updates_monotone (jh : Nat → Nat → Nat) (hj : JumpOK jh) (key : Nat) :
    ∀ (us : List (List String)) (c : CH), CHInv c → Additive c us →
      (us.foldl CH.update c).h.get jh key = c.h.get jh key ∨
      ∃ s, s ∉ c.servers ∧ s ∈ (us.foldl CH.update c).servers ∧ (us.foldl CH.update c).h.get jh key = some s := by
  intro us
  induction us with
  | nil => intro c _ _; left; rfl
  | cons keys rest ih =>
    intro c hc ha
    obtain ⟨hsub, har⟩ := ha
    have hc1 := inv_update_additive c hc keys hsub
    have grow : ∀ (us : List (List String)) (c : CH), Additive c us → ∀ k ∈ c.servers, k ∈ (us.foldl CH.update c).servers := by
      intro us
      induction us with
      | nil => intro c _ k hk; exact hk
      | cons ks rs ih2 =>
        intro c h k hk
        have hk1 : k ∈ (c.update ks).servers := by
          simp only [CH.update]
          exact (mem_sortStr ks k).mpr (h.1 k hk)
        exact ih2 (c.update ks) h.2 k hk1
    rw [List.foldl_cons]
    rcases ih (c.update keys) hc1 har with h | ⟨s, hn, hm, hv⟩
    · rcases update_monotone jh hj c hc keys hsub key with h2 | ⟨s, hs, hn, hv⟩
      · left; rw [h, h2]
      · right
        refine ⟨s, hn, ?_, by rw [h, hv]⟩
        apply grow rest (c.update keys) har
        simp only [CH.update]
        exact (mem_sortStr keys s).mpr hs
    · right
      refine ⟨s, ?_, hm, hv⟩
      intro hin
      apply hn
      simp only [CH.update]
      exact (mem_sortStr keys s).mpr (hsub s hin)

/-- from construction: any sequence of pure-addition updates after `NewXClient` -/
theorem constructed_monotone (jh : Nat → Nat → Nat) (hj : JumpOK jh) (keys : List String) (us : List (List String))
    (ha : Additive (CH.new keys) us) (key : Nat) :
    (us.foldl CH.update (CH.new keys)).h.get jh key = (CH.new keys).h.get jh key ∨
    ∃ s, s ∉ keys ∧ s ∈ (us.foldl CH.update (CH.new keys)).servers ∧
      (us.foldl CH.update (CH.new keys)).h.get jh key = some s := by
  rcases updates_monotone jh hj key us (CH.new keys) (inv_new keys) ha with h | ⟨s, hn, hm, hv⟩
  · left; exact h
  · right
    refine ⟨s, ?_, hm, hv⟩
    intro hin
    apply hn
    simp only [CH.new]
    exact (mem_sortStr keys s).mpr hin


/-- …and from ANY reachable state – construction followed by arbitrary updates, removals included
    (holes in the loose holder, swapped compact entries) – a pure-addition update is monotone -/
theorem reachable_update_monotone (jh : Nat → Nat → Nat) (hj : JumpOK jh) (keys : List String) (us : List (List String))
    (more : List String) (hsub : ∀ k ∈ (us.foldl CH.update (CH.new keys)).servers, k ∈ more) (key : Nat) :
    ((us.foldl CH.update (CH.new keys)).update more).h.get jh key = (us.foldl CH.update (CH.new keys)).h.get jh key ∨
    ∃ s ∈ more, s ∉ (us.foldl CH.update (CH.new keys)).servers ∧
      ((us.foldl CH.update (CH.new keys)).update more).h.get jh key = some s := by
  have g := chgood_run keys us
  exact update_monotone jh hj _ ⟨g.wf, g.has⟩ more hsub key

/-- non-vacuity: `n ↦ key % n`-style toy hash does NOT satisfy the contract, the identity-on-last one does:
    `jh key n = if key % 2 = 0 then 0 else n - 1` keeps bucket 0 or moves to the new bucket -/
example : JumpOK (fun key n => if key % 2 = 0 then 0 else n - 1) := by
  intro key n
  dsimp only
  constructor
  · intro h; split <;> omega
  · split
    · left; rfl
    · right; omega

example : Additive (CH.new ["b", "a"]) [["a", "b", "c"], ["d", "c", "b", "a"]] := by
  refine ⟨?_, ?_, trivial⟩
  · intro k hk
    have : k = "a" ∨ k = "b" := by simpa [CH.new, sortStr, insertStr] using hk
    rcases this with rfl | rfl <;> simp
  · intro k hk
    have : k = "a" ∨ k = "b" ∨ k = "c" := by simpa [CH.new, CH.update, sortStr, insertStr] using hk
    rcases this with rfl | rfl | rfl <;> simp

/-- Regression witness (pre-fix behaviour, D21): adding in enumeration order makes the slot
    assignment – hence the mapping – depend on the order. -/
def newUnsorted (keys : List String) : DJ := keys.foldl DJ.add DJ.empty
theorem d21_witness : newUnsorted ["a", "b"] ≠ newUnsorted ["b", "a"] := by decide

/-- non-vacuity of `update_same`: a constructed selector satisfies its hypotheses -/
example : Present (CH.new ["y", "x", "z"]).h (sortStr ["y", "x", "z"]) := by
  intro k hk
  have : k = "x" ∨ k = "y" ∨ k = "z" := by simpa [sortStr, insertStr] using hk
  rcases this with rfl | rfl | rfl <;> decide

end Rpcx.Props.C13
