import Rpcx.Model.Fanout
/-
  C17: Broadcast, Fork and Inform report what the servers actually did – for any number of
  contacted servers, any outcome vector and any completion order.
-/
namespace Rpcx.Props.C17
open Rpcx Rpcx.Fan

/-- Broadcast succeeds exactly when every contacted server answered successfully. -/
theorem broadcast_iff (order : List Srv) : (broadcast order).1 = true ↔ ∀ s ∈ order, s.ok = true := by
  induction order with
  | nil => simp [broadcast, broadcastLoop]
  | cons s rest ih =>
    simp only [broadcast, broadcastLoop] at ih ⊢
    cases h : s.ok <;> simp [h, ih]

/-- Fork succeeds exactly when at least one did. -/
theorem fork_iff (order : List Srv) : (fork order).1 = true ↔ ∃ s ∈ order, s.ok = true := by
  induction order with
  | nil => simp [fork, forkLoop]
  | cons s rest ih =>
    simp only [fork, forkLoop] at ih ⊢
    cases h : s.ok <;> simp [h, ih]

/-- whenever a reply was written it is the reply of a server that succeeded -/
theorem firstOk_mem (order : List Srv) (r : Nat) (h : firstOk order = some r) :
    ∃ s ∈ order, s.ok = true ∧ s.reply = r := by
  induction order with
  | nil => simp [firstOk] at h
  | cons s rest ih =>
    simp only [firstOk] at h
    split at h
    · rename_i hs; cases h; exact ⟨s, by simp, hs, rfl⟩
    · obtain ⟨t, ht, h1, h2⟩ := ih h; exact ⟨t, by simp [ht], h1, h2⟩

/-- …and on success a reply HAS been written -/
theorem success_has_reply (order : List Srv) (h : ∃ s ∈ order, s.ok = true) : ∃ r, firstOk order = some r := by
  induction order with
  | nil => simp at h
  | cons s rest ih =>
    simp only [firstOk]
    split
    · exact ⟨_, rfl⟩
    · rename_i hs
      obtain ⟨t, ht, hk⟩ := h
      rcases List.mem_cons.mp ht with rfl | ht
      · exact absurd hk hs
      · exact ih ⟨t, ht, hk⟩

theorem broadcast_reply (order : List Srv) (hne : order ≠ []) (h : (broadcast order).1 = true) :
    ∃ r s, (broadcast order).2 = some r ∧ s ∈ order ∧ s.ok = true ∧ s.reply = r := by
  have hall := (broadcast_iff order).mp h
  obtain ⟨s0, hs0⟩ := List.exists_mem_of_ne_nil order hne
  obtain ⟨r, hr⟩ := success_has_reply order ⟨s0, hs0, hall s0 hs0⟩
  obtain ⟨s, hs, h1, h2⟩ := firstOk_mem order r hr
  exact ⟨r, s, hr, hs, h1, h2⟩

theorem fork_reply (order : List Srv) (h : (fork order).1 = true) :
    ∃ r s, (fork order).2 = some r ∧ s ∈ order ∧ s.ok = true ∧ s.reply = r := by
  obtain ⟨r, hr⟩ := success_has_reply order ((fork_iff order).mp h)
  obtain ⟨s, hs, h1, h2⟩ := firstOk_mem order r hr
  exact ⟨r, s, hr, hs, h1, h2⟩

/-- Inform: one receipt per contacted server, carrying that server's own reply and its own
    error (nil exactly when it succeeded). -/
theorem inform_receipts (order : List Srv) :
    (inform order).length = order.length
    ∧ ∀ i (h : i < order.length), ∃ h' : i < (inform order).length,
        (inform order)[i].addr = order[i].addr ∧ (inform order)[i].reply = order[i].reply
        ∧ ((inform order)[i].errNil = true ↔ order[i].ok = true) := by
  refine ⟨by simp [inform], ?_⟩
  intro i h
  exact ⟨by simpa [inform] using h, by simp [inform], by simp [inform], by simp [inform]⟩

/-- Regression witness D26: with the SHARED error object in every receipt, a successful
    server's receipt shows an error as soon as any other server failed – and, because a non-nil
    *MultiError pointer was stored in the `error` interface, even when none failed. -/
def informPrefix (order : List Srv) : List Receipt := order.map (fun s => ⟨s.addr, s.reply, false⟩)
theorem d26_witness : ∃ r ∈ informPrefix [⟨"a", true, 1⟩], r.errNil = false := by decide

/-- non-vacuity -/
example : (broadcast [⟨"a", true, 1⟩, ⟨"b", true, 2⟩]) = (true, some 1)
    ∧ (fork [⟨"a", false, 0⟩, ⟨"b", true, 2⟩]) = (true, some 2)
    ∧ (broadcast [⟨"a", true, 1⟩, ⟨"b", false, 0⟩]).1 = false := by decide

end Rpcx.Props.C17
