import Rpcx.Model.Fanout
import Rpcx.Lemmas.FanoutConc
import Rpcx.Gen.Fanout
/-
  C17: Broadcast, Fork and Inform report what the servers actually did – for any number of
  contacted servers, any outcome vector and any completion order.
-/
namespace Rpcx.Props.C17
open Rpcx Rpcx.Fan

/-- Broadcast succeeds exactly when every contacted server answered successfully. -/
theorem broadcast_iff (order : List Srv) : (broadcast order).1 = true ↔ ∀ s ∈ order, s.ok = true := by
  induction order with
  | nil => simp [broadcast, broadcastLoop]
  | cons s rest ih =>
    simp only [broadcast, broadcastLoop] at ih ⊢
    cases h : s.ok <;> simp [h, ih]

/-- Fork succeeds exactly when at least one did. -/
theorem fork_iff (order : List Srv) : (fork order).1 = true ↔ ∃ s ∈ order, s.ok = true := by
  induction order with
  | nil => simp [fork, forkLoop]
  | cons s rest ih =>
    simp only [fork, forkLoop] at ih ⊢
    cases h : s.ok <;> simp [h, ih]

/-- whenever a reply was written it is the reply of a server that succeeded -/
theorem firstOk_mem (order : List Srv) (r : Nat) (h : firstOk order = some r) :
    ∃ s ∈ order, s.ok = true ∧ s.reply = r := by
  induction order with
  | nil => simp [firstOk] at h
  | cons s rest ih =>
    simp only [firstOk] at h
    split at h
    · rename_i hs; cases h; exact ⟨s, by simp, hs, rfl⟩
    · obtain ⟨t, ht, h1, h2⟩ := ih h; exact ⟨t, by simp [ht], h1, h2⟩

/-- …and on success a reply HAS been written -/
theorem success_has_reply (order : List Srv) (h : ∃ s ∈ order, s.ok = true) : ∃ r, firstOk order = some r := by
  induction order with
  | nil => simp at h
  | cons s rest ih =>
    simp only [firstOk]
    split
    · exact ⟨_, rfl⟩
    · rename_i hs
      obtain ⟨t, ht, hk⟩ := h
      rcases List.mem_cons.mp ht with rfl | ht
      · exact absurd hk hs
      · exact ih ⟨t, ht, hk⟩

theorem broadcast_reply (order : List Srv) (hne : order ≠ []) (h : (broadcast order).1 = true) :
    ∃ r s, (broadcast order).2 = some r ∧ s ∈ order ∧ s.ok = true ∧ s.reply = r := by
  have hall := (broadcast_iff order).mp h
  obtain ⟨s0, hs0⟩ := List.exists_mem_of_ne_nil order hne
  obtain ⟨r, hr⟩ := success_has_reply order ⟨s0, hs0, hall s0 hs0⟩
  obtain ⟨s, hs, h1, h2⟩ := firstOk_mem order r hr
  exact ⟨r, s, hr, hs, h1, h2⟩

theorem fork_reply (order : List Srv) (h : (fork order).1 = true) :
    ∃ r s, (fork order).2 = some r ∧ s ∈ order ∧ s.ok = true ∧ s.reply = r := by
  obtain ⟨r, hr⟩ := success_has_reply order ((fork_iff order).mp h)
  obtain ⟨s, hs, h1, h2⟩ := firstOk_mem order r hr
  exact ⟨r, s, hr, hs, h1, h2⟩

/-- Inform: one receipt per contacted server, carrying that server's own reply and its own
    error (nil exactly when it succeeded). -/
theorem inform_receipts (order : List Srv) :
    (inform order).length = order.length
    ∧ ∀ i (h : i < order.length), ∃ h' : i < (inform order).length,
        (inform order)[i].addr = order[i].addr ∧ (inform order)[i].reply = order[i].reply
        ∧ ((inform order)[i].errNil = true ↔ order[i].ok = true) := by
  refine ⟨by simp [inform], ?_⟩
  intro i h
  exact ⟨by simpa [inform] using h, by simp [inform], by simp [inform], by simp [inform]⟩


/-! ### every schedule of the worker goroutines and the caller's loop
  `Model/FanoutConc`: per contacted server a worker (call → record → signal), the caller's receive
  loop, and ANY interleaving of their steps.  The verdict theorems above are about completion orders;
  these are about histories – in particular the caller may return while workers are still running. -/

open Rpcx.FanC in
theorem count_bad_zero_iff (srvs : List Srv) (ws : List W) (hm : ws.map (·.srv) = srvs) :
    ws.countP bad = 0 ↔ ∀ s ∈ srvs, s.ok = true := by
  rw [List.countP_eq_zero, ← hm]
  simp only [List.mem_map, bad]
  constructor
  · rintro h s ⟨w, hw, rfl⟩; have := h w hw; simpa using this
  · intro h w hw; have := h w.srv ⟨w, hw, rfl⟩; simp [this]

open Rpcx.FanC in
theorem witness_of_count (srvs : List Srv) (ws : List W) (hm : ws.map (·.srv) = srvs) (r : Nat)
    (h : 1 ≤ ws.countP (fun w => isDone w && w.srv.ok && w.srv.reply == r)) :
    ∃ s ∈ srvs, s.ok = true ∧ s.reply = r := by
  have hpos : 0 < ws.countP (fun w => isDone w && w.srv.ok && w.srv.reply == r) := h
  rw [List.countP_pos_iff] at hpos
  obtain ⟨w, hw, hp⟩ := hpos
  simp at hp
  exact ⟨w.srv, by rw [← hm]; exact List.mem_map.mpr ⟨w, hw, rfl⟩, hp.1.2, hp.2⟩

open Rpcx.FanC in
/-- **Broadcast, every schedule**: whenever the caller's loop has returned – however the workers'
    record and signal steps and the loop's receives interleave, and whether or not other workers are
    still running – it reports success exactly when every contacted server answered successfully -/
theorem conc_broadcast_iff (srvs : List Srv) (evs : List Ev) (v : Bool)
    (h : (run .broadcast srvs evs).ret = some v) : v = true ↔ ∀ s ∈ srvs, s.ok = true := by
  have inv := inv_run .broadcast srvs evs
  have hv := inv.verdict v h
  simp only [Verdict] at hv
  rw [hv.1]
  exact count_bad_zero_iff srvs _ (run_srvs .broadcast srvs evs)

open Rpcx.FanC in
/-- …and then the caller's reply holds the value of a server that succeeded -/
theorem conc_broadcast_reply (srvs : List Srv) (evs : List Ev) (hne : srvs ≠ [])
    (h : (run .broadcast srvs evs).ret = some true) :
    ∃ r, (run .broadcast srvs evs).reply = some r ∧ ∃ s ∈ srvs, s.ok = true ∧ s.reply = r := by
  have inv := inv_run .broadcast srvs evs
  have hm := run_srvs .broadcast srvs evs
  have hv := inv.verdict true h
  simp only [Verdict] at hv
  have hbad := hv.1.mp (by trivial)
  have hdone := hv.2 (by trivial)
  have hlen : 0 < (run .broadcast srvs evs).ws.length := by
    rw [inv.len]; exact List.length_pos_iff.mpr hne
  have hall : (run .broadcast srvs evs).ws.countP (fun w => isDone w && w.srv.ok) = (run .broadcast srvs evs).ws.length := by
    rw [List.countP_eq_length]
    rw [List.countP_eq_length] at hdone
    rw [List.countP_eq_zero] at hbad
    intro w hw
    have h1 := hdone w hw; have h2 := hbad w hw
    simp [bad] at h2; simp [h1, h2]
  cases hr : (run .broadcast srvs evs).reply with
  | none => have := inv.replyNone hr; omega
  | some r => exact ⟨r, rfl, witness_of_count srvs _ hm r (inv.replySome r hr)⟩

open Rpcx.FanC in
/-- **Fork, every schedule**: success exactly when at least one contacted server answered successfully -/
theorem conc_fork_iff (srvs : List Srv) (evs : List Ev) (v : Bool)
    (h : (run .fork srvs evs).ret = some v) : v = true ↔ ∃ s ∈ srvs, s.ok = true := by
  have inv := inv_run .fork srvs evs
  have hm := run_srvs .fork srvs evs
  have hv := inv.verdict v h
  simp only [Verdict] at hv
  rw [hv.1]
  have hb := count_bad_zero_iff
  constructor
  · intro hlt
    by_cases hex : ∃ s ∈ srvs, s.ok = true
    · exact hex
    · exfalso
      have hall : (run .fork srvs evs).ws.countP bad = (run .fork srvs evs).ws.length := by
        rw [List.countP_eq_length]
        intro w hw
        have hs : w.srv ∈ srvs := by rw [← hm]; exact List.mem_map.mpr ⟨w, hw, rfl⟩
        cases hk : w.srv.ok
        · simp [bad, hk]
        · exact absurd ⟨w.srv, hs, hk⟩ hex
      omega
  · rintro ⟨s, hs, hok⟩
    have hle : (run .fork srvs evs).ws.countP bad ≤ (run .fork srvs evs).ws.length := List.countP_le_length
    rcases Nat.lt_or_ge ((run .fork srvs evs).ws.countP bad) (run .fork srvs evs).ws.length with hlt | hge
    · exact hlt
    · exfalso
      have heq : (run .fork srvs evs).ws.countP bad = (run .fork srvs evs).ws.length := by omega
      rw [List.countP_eq_length] at heq
      rw [← hm] at hs
      obtain ⟨w, hw, rfl⟩ := List.mem_map.mp hs
      have := heq w hw
      simp [bad, hok] at this

open Rpcx.FanC in
/-- …and on success the caller's reply holds the value of a server that succeeded – already at the
    moment Fork returns, although other workers may still be running -/
theorem conc_fork_reply (srvs : List Srv) (evs : List Ev) (h : (run .fork srvs evs).ret = some true) :
    ∃ r, (run .fork srvs evs).reply = some r ∧ ∃ s ∈ srvs, s.ok = true ∧ s.reply = r := by
  have inv := inv_run .fork srvs evs
  have hm := run_srvs .fork srvs evs
  have hv := inv.verdict true h
  simp only [Verdict] at hv
  have hone := hv.2 (by trivial)
  cases hr : (run .fork srvs evs).reply with
  | none => have := inv.replyNone hr; omega
  | some r => exact ⟨r, rfl, witness_of_count srvs _ hm r (inv.replySome r hr)⟩

open Rpcx.FanC in
/-- **Inform, every schedule**: when it returns every worker has recorded and signalled; the verdict is
    success exactly when every server succeeded, and the receipts are – as a multiset – exactly one per
    contacted server, each carrying that server's own reply and its own error -/
theorem conc_inform (srvs : List Srv) (evs : List Ev) (v : Bool) (h : (run .inform srvs evs).ret = some v) :
    (v = true ↔ ∀ s ∈ srvs, s.ok = true)
    ∧ (run .inform srvs evs).receipts.Perm (inform srvs) := by
  have inv := inv_run .inform srvs evs
  have hm := run_srvs .inform srvs evs
  have hv := inv.verdict v h
  simp only [Verdict] at hv
  refine ⟨by rw [hv.1]; exact count_bad_zero_iff srvs _ hm, ?_⟩
  rw [List.perm_iff_count]
  intro rc
  rw [inv.rcpts rc]
  have hsig := hv.2
  rw [List.countP_eq_length] at hsig
  have hcongr : (run .inform srvs evs).ws.countP (fun w => isDone w && rcOf w == rc)
      = (run .inform srvs evs).ws.countP (fun w => rcOf w == rc) := by
    apply List.countP_congr
    intro w hw
    have := hsig w hw
    simp [isSig] at this
    simp [isDone, this]
  have e : inform srvs = (run .inform srvs evs).ws.map rcOf := by
    have : inform srvs = ((run .inform srvs evs).ws.map (·.srv)).map (fun s => (⟨s.addr, s.reply, s.ok⟩ : Receipt)) := by
      rw [hm]; rfl
    rw [this, List.map_map]; rfl
  rw [hcongr, e, List.count_eq_countP, List.countP_map]
  apply List.countP_congr
  intro w _
  simp [Function.comp]

open Rpcx.FanC in
/-- non-vacuity: a Fork over [failing, succeeding] that returns success while the first worker has not
    even recorded its failure; a Broadcast over the same servers that returns an error; an Inform that
    returns both receipts -/
example :
    (run .fork [⟨"a", false, 0⟩, ⟨"b", true, 2⟩] [.finish 1, .signal 1, .recv]).ret = some true
    ∧ (run .fork [⟨"a", false, 0⟩, ⟨"b", true, 2⟩] [.finish 1, .signal 1, .recv]).reply = some 2
    ∧ (run .broadcast [⟨"a", false, 0⟩, ⟨"b", true, 2⟩] [.finish 1, .finish 0, .signal 0, .signal 1, .recv]).ret = some false
    ∧ ((run .inform [⟨"a", false, 0⟩, ⟨"b", true, 2⟩] [.finish 1, .finish 0, .signal 0, .signal 1, .recv, .recv]).receipts).length = 2 := by
  decide

open Rpcx.FanC in
/-- **the order is what the verdict rests on**: with workers that signal BEFORE they record (the program
    of the seeded "report completion first" changes), there is a schedule in which Broadcast reports
    success although the only contacted server failed, one in which Inform returns no receipt for a
    server it contacted – which is why `tie_fanout_record_before_signal` is an obligation -/
theorem signal_first_breaks_broadcast :
    (runSignalFirst .broadcast [⟨"a", false, 0⟩] [.signal 0, .recv]).ret = some true
    ∧ (runSignalFirst .inform [⟨"a", true, 1⟩] [.signal 0, .recv]).ret = some true
    ∧ (runSignalFirst .inform [⟨"a", true, 1⟩] [.signal 0, .recv]).receipts = [] := by decide

/-- the tie of the goroutine-level model: in the CURRENT source each of Broadcast, Fork and Inform starts
    a worker goroutine in which everything that records the outcome (error append, one-time reply copy,
    receipt append) happens before the single completion signal, and the signal is sent on every path –
    the program `call → record → signal` of a worker in `Model/FanoutConc` -/
theorem tie_fanout_record_before_signal :
    Gen.fanWorkers.length = 3
    ∧ Gen.fanWorkers.all (fun w => w.found && w.signals == 1 && decide (1 ≤ w.records) && w.recordBeforeSignal && w.signalOnEveryPath) = true := by
  decide

/-- Regression witness D26: with the SHARED error object in every receipt, a successful
    server's receipt shows an error as soon as any other server failed – and, because a non-nil
    *MultiError pointer was stored in the `error` interface, even when none failed. -/
def informPrefix (order : List Srv) : List Receipt := order.map (fun s => ⟨s.addr, s.reply, false⟩)
theorem d26_witness : ∃ r ∈ informPrefix [⟨"a", true, 1⟩], r.errNil = false := by decide

/-- non-vacuity -/
example : (broadcast [⟨"a", true, 1⟩, ⟨"b", true, 2⟩]) = (true, some 1)
    ∧ (fork [⟨"a", false, 0⟩, ⟨"b", true, 2⟩]) = (true, some 2)
    ∧ (broadcast [⟨"a", true, 1⟩, ⟨"b", false, 0⟩]).1 = false := by decide

end Rpcx.Props.C17
