import Rpcx.Model.Server
import Rpcx.Props.C01Header
/-
  C04: the server answers each request exactly once, stamped with its identity – theorems
  about `Srv.serveOne` (one request through serveConn / processOneRequest / handleRequest /
  router handlers), for every header (all flag combinations, any seq, any strings) and every
  environment verdict.  Stamping is proved through the REGENERATED header accessors, reusing
  the C01 header laws.
-/
namespace Rpcx.Props.C04
open Rpcx Rpcx.Srv Rpcx.Gen Rpcx.Props.C01

def writes (as : List Action) : List Msg := as.filterMap (fun a => match a with | .write m => some m | _ => none)
def invokes (as : List Action) : Nat := (as.filter (· == .invoke)).length

/-- the request passes every admission stage -/
def Admitted (env : Env) (req : Msg) : Prop :=
  env.reachLimit = false ∧ env.postReadOk = true ∧ (Header.isHeartbeat req.hdr = true ∨ env.authErr = none)

theorem writes_reply (req res : Msg) : writes (reply req res) = if Header.isOneway req.hdr then [] else [res] := by
  unfold reply; split <;> simp [writes]
theorem invokes_reply (req res : Msg) : invokes (reply req res) = 0 := by
  unfold reply; split <;> simp [invokes]

theorem dispatch_shape (env : Env) (req : Msg) :
    ∃ res, (dispatch env req = reply req res ∨ dispatch env req = .invoke :: reply req res) := by
  unfold dispatch
  cases env.target <;> simp only
  all_goals (first
    | exact ⟨_, Or.inl rfl⟩
    | (split
       · exact ⟨_, Or.inl rfl⟩
       · split
         · exact ⟨_, Or.inl rfl⟩
         · first
           | (split
              · exact ⟨_, Or.inl rfl⟩
              · cases env.behaviour <;> exact ⟨_, Or.inr rfl⟩)
           | (cases env.behaviour <;> exact ⟨_, Or.inr rfl⟩)))

/-- exactly one response for a two-way request, none for a one-way one (heartbeat aside),
    and at most one handler invocation -/
theorem one_response (env : Env) (req : Msg) (ha : Admitted env req) (hh : Header.isHeartbeat req.hdr = false) :
    (writes (serveOne env req)).length = (if Header.isOneway req.hdr then 0 else 1)
    ∧ invokes (serveOne env req) ≤ 1
    ∧ serveOne env req = dispatch env req ++ [.next] := by
  obtain ⟨h1, h2, h3⟩ := ha
  have hauth : env.authErr = none := by rcases h3 with h | h; · rw [hh] at h; cases h
                                        · exact h
  have e : serveOne env req = dispatch env req ++ [.next] := by
    simp [serveOne, h1, h2, hh, hauth]
  obtain ⟨res, hd | hd⟩ := dispatch_shape env req
  · rw [e, hd]
    refine ⟨?_, ?_, rfl⟩
    · simp only [writes, List.filterMap_append, List.length_append]
      have := writes_reply req res; simp only [writes] at this; rw [this]
      split <;> simp
    · simp only [invokes, List.filter_append, List.length_append]
      have := invokes_reply req res; simp only [invokes] at this; rw [this]; simp
  · rw [e, hd]
    refine ⟨?_, ?_, rfl⟩
    · simp only [writes, List.cons_append, List.filterMap_cons, List.filterMap_append, List.length_append]
      have := writes_reply req res; simp only [writes] at this; rw [this]
      split <;> simp
    · simp only [invokes, List.cons_append, List.filter_cons, List.filter_append]
      have := invokes_reply req res; simp only [invokes] at this
      simp [this]

/-- a heartbeat is answered by an echo of itself (type bit set) without invoking any service –
    also when it carries the one-way flag, and without consulting AuthFunc -/
theorem heartbeat_echo (env : Env) (req : Msg) (h1 : env.reachLimit = false) (h2 : env.postReadOk = true)
    (hh : Header.isHeartbeat req.hdr = true) :
    serveOne env req = [.write { req with hdr := Header.setMessageType req.hdr C.MessageType_Response }, .next] := by
  simp [serveOne, h1, h2, hh]

/-! ### a whole connection -/

theorem admitted_no_close (env : Env) (req : Msg) (ha : Admitted env req) (hh : Header.isHeartbeat req.hdr = false) :
    Action.closeConn ∉ serveOne env req := by
  rw [(one_response env req ha hh).2.2]
  obtain ⟨res, hd | hd⟩ := dispatch_shape env req <;> rw [hd] <;> unfold reply <;> split <;> simp

/-- **every request of a connection is answered exactly once**: for any sequence of admitted requests on
    one connection, the frames written are as many as the two-way requests among them (none for the
    one-way ones), and no request runs a handler more than once -/
theorem conn_one_response_each (reqs : List (Env × Msg))
    (h : ∀ e ∈ reqs, Admitted e.1 e.2 ∧ Header.isHeartbeat e.2.hdr = false) :
    (writes (serveConn reqs)).length = (reqs.filter (fun e => !Header.isOneway e.2.hdr)).length
    ∧ invokes (serveConn reqs) ≤ reqs.length := by
  induction reqs with
  | nil => simp [serveConn, writes, invokes]
  | cons e es ih =>
    obtain ⟨env, req⟩ := e
    obtain ⟨ha, hh⟩ := h (env, req) (by simp)
    have hnc := admitted_no_close env req ha hh
    obtain ⟨h1, h2, _⟩ := one_response env req ha hh
    obtain ⟨i1, i2⟩ := ih (fun e he => h e (by simp [he]))
    simp only [serveConn, hnc, if_false]
    constructor
    · simp only [writes, List.filterMap_append, List.length_append] at h1 i1 ⊢
      rw [h1, i1]
      simp only [List.filter_cons]
      cases Header.isOneway req.hdr <;> simp <;> omega
    · simp only [invokes, List.filter_append, List.length_append, List.length_cons] at h2 i2 ⊢
      omega

/-! ### stamping -/

theorem compressType_lt (h : Header) : Header.compressType h < 8#8 := by
  simp only [Header.compressType]
  generalize h.b2 = b
  revert b; decide +kernel

/-- the header of every response the server builds, seen through all getters -/
theorem view_responseFor (req : Msg) :
    view (responseFor req).hdr = { view req.hdr with compress := C.CompressType_None, mtype := C.MessageType_Response } := by
  simp only [responseFor]
  rw [set_messageType _ _ (by decide), set_compressType _ _ (by decide)]

theorem view_errorResponse (req : Msg) (t : Bytes) (cm : List (Bytes × Bytes)) :
    view (errorResponse req t cm).hdr =
      { view req.hdr with compress := C.CompressType_None, mtype := C.MessageType_Response, status := C.MessageStatusType_Error } := by
  simp only [errorResponse]
  rw [set_messageStatusType _ _ (by decide), view_responseFor]

theorem view_okResponse (req : Msg) (p : Bytes) (cm : List (Bytes × Bytes)) :
    (view (okResponse req p cm).hdr).seq = (view req.hdr).seq
    ∧ (view (okResponse req p cm).hdr).serialize = (view req.hdr).serialize
    ∧ (view (okResponse req p cm).hdr).mtype = C.MessageType_Response
    ∧ (view (okResponse req p cm).hdr).status = (view req.hdr).status := by
  simp only [okResponse, finishResponse]
  split
  · simp only
    rw [set_compressType _ _ (compressType_lt _), view_responseFor]
    exact ⟨rfl, rfl, rfl, rfl⟩
  · rw [view_responseFor]; exact ⟨rfl, rfl, rfl, rfl⟩

/-- Stamping: every frame `dispatch` writes carries the request's sequence number, serialize
    type, service path and method, and is marked as a response. -/
theorem stamped (env : Env) (req : Msg) :
    ∀ m ∈ writes (dispatch env req),
      Header.seq m.hdr = Header.seq req.hdr ∧ Header.serializeType m.hdr = Header.serializeType req.hdr
      ∧ Header.messageType m.hdr = C.MessageType_Response ∧ m.path = req.path ∧ m.method = req.method := by
  have herr : ∀ t cm, Header.seq (errorResponse req t cm).hdr = Header.seq req.hdr
      ∧ Header.serializeType (errorResponse req t cm).hdr = Header.serializeType req.hdr
      ∧ Header.messageType (errorResponse req t cm).hdr = C.MessageType_Response
      ∧ (errorResponse req t cm).path = req.path ∧ (errorResponse req t cm).method = req.method := by
    intro t cm
    have := view_errorResponse req t cm
    have e1 := congrArg HView.seq this
    have e2 := congrArg HView.serialize this
    have e3 := congrArg HView.mtype this
    simp only [view] at e1 e2 e3
    exact ⟨e1, e2, e3, rfl, rfl⟩
  have hok : ∀ p cm, Header.seq (okResponse req p cm).hdr = Header.seq req.hdr
      ∧ Header.serializeType (okResponse req p cm).hdr = Header.serializeType req.hdr
      ∧ Header.messageType (okResponse req p cm).hdr = C.MessageType_Response
      ∧ (okResponse req p cm).path = req.path ∧ (okResponse req p cm).method = req.method := by
    intro p cm
    obtain ⟨a, b, c, _⟩ := view_okResponse req p cm
    simp only [view] at a b c
    refine ⟨a, b, c, ?_, ?_⟩ <;> (simp only [okResponse, finishResponse]; split <;> rfl)
  intro m hm
  have key : ∀ res, (∃ t cm, res = errorResponse req t cm) ∨ (∃ p cm, res = okResponse req p cm) →
      ∀ m ∈ writes (reply req res), Header.seq m.hdr = Header.seq req.hdr ∧ Header.serializeType m.hdr = Header.serializeType req.hdr
      ∧ Header.messageType m.hdr = C.MessageType_Response ∧ m.path = req.path ∧ m.method = req.method := by
    intro res hres m hm
    rw [writes_reply] at hm
    split at hm
    · cases hm
    · simp at hm; subst hm
      rcases hres with ⟨t, cm, rfl⟩ | ⟨p, cm, rfl⟩
      · exact herr t cm
      · exact hok p cm
  unfold dispatch at hm
  cases ht : env.target <;> simp only [ht] at hm
  all_goals (first
    | exact key _ (Or.inl ⟨_, _, rfl⟩) m hm
    | (split at hm
       · exact key _ (Or.inl ⟨_, _, rfl⟩) m hm
       · split at hm
         · exact key _ (Or.inl ⟨_, _, rfl⟩) m hm
         · first
           | (split at hm
              · exact key _ (Or.inl ⟨_, _, rfl⟩) m hm
              · cases hb : env.behaviour <;> simp only [hb, writes, List.filterMap_cons] at hm <;>
                  first
                  | exact key _ (Or.inr ⟨_, _, rfl⟩) m (by simpa [writes] using hm)
                  | exact key _ (Or.inl ⟨_, _, rfl⟩) m (by simpa [writes] using hm))
           | (cases hb : env.behaviour <;> simp only [hb, writes, List.filterMap_cons] at hm <;>
                  first
                  | exact key _ (Or.inr ⟨_, _, rfl⟩) m (by simpa [writes] using hm)
                  | exact key _ (Or.inl ⟨_, _, rfl⟩) m (by simpa [writes] using hm))))

/-- the result written for a successful call is the handler's reply for THIS request -/
theorem ok_payload (env : Env) (req : Msg) (ht : env.target = .reflected) (hc : env.codecKnown = true)
    (ha : env.argsErr = none) (hp : env.preCallErr = none) (hb : env.behaviour = .ok) (ho : Header.isOneway req.hdr = false) :
    ∃ m, writes (dispatch env req) = [m] ∧ m.payload = env.replyPayload
      ∧ Header.messageStatusType m.hdr = Header.messageStatusType req.hdr := by
  refine ⟨okResponse req env.replyPayload env.resMeta, ?_, ?_, ?_⟩
  · simp [dispatch, ht, hc, ha, hp, hb, writes, reply, ho]
  · simp only [okResponse, finishResponse]; split <;> rfl
  · have := (view_okResponse req env.replyPayload env.resMeta).2.2.2
    simpa [view] using this

/-- non-vacuity -/
example : Admitted {} ⟨⟨8#8, 0, 0, 0x10#8, 0, 0, 0, 0, 0, 0, 0, 5⟩, [], [], [], []⟩ := by
  refine ⟨rfl, rfl, Or.inr rfl⟩

/-- the tie for the header accessors the stamping theorems rest on -/
theorem tie_header : Gen.headerTieOk = true := by decide

end Rpcx.Props.C04
