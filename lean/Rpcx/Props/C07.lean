import Rpcx.Model.Server
import Rpcx.Props.C01
import Rpcx.Props.C04
/-
  C07: service failures are reported faithfully and never kill the server.
  For every failure kind the response carries status Error and, under the reserved key, the
  server-side message UNCHANGED (any byte string: empty, multi-line, non-ASCII, long); the loop
  goes on to the next request (never `closeConn`); and the message survives the wire because
  metadata is length-prefixed (C01 round trip), so the client's ServiceError has that text.
-/
namespace Rpcx.Props.C07
open Rpcx Rpcx.Srv Rpcx.Gen Rpcx.Props.C04

/-- the failure kinds of the statement, with the message the server produces for each -/
inductive Failure (env : Env) (req : Msg) : Bytes → Prop
  | noService : env.target = .noService → Failure env req (textOf "rpcx: can't find service " ++ req.path)
  | noMethod : env.target = .noMethod → Failure env req (textOf "rpcx: can't find method " ++ req.method)
  | unknownCodec : env.target ≠ .noService → env.target ≠ .noMethod → env.codecKnown = false →
      Failure env req (textOf "can not find codec for " ++ textOf (toString (Header.serializeType req.hdr).toNat))
  | badArgs (t : Bytes) : env.target ≠ .noService → env.target ≠ .noMethod → env.codecKnown = true → env.argsErr = some t →
      Failure env req t
  | handlerError (t : Bytes) : env.target ≠ .noService → env.target ≠ .noMethod → env.codecKnown = true → env.argsErr = none →
      (env.target = .router ∨ env.preCallErr = none) → env.behaviour = .err t → Failure env req t
  | handlerPanic (t : Bytes) : env.target ≠ .noService → env.target ≠ .noMethod → env.codecKnown = true → env.argsErr = none →
      (env.target = .router ∨ env.preCallErr = none) → env.behaviour = .panic t → Failure env req t

theorem lookup_error_text (req : Msg) (t : Bytes) (cm : List (Bytes × Bytes))
    (hcm : ∀ e ∈ cm, e.1 ≠ serviceErrorKey) :
    metaLookup (errorResponse req t cm).md serviceErrorKey = some t := by
  have hnone : ∀ (P : Bytes × Bytes → Bool), ((cm.filter P).reverse.find? (fun e => e.1 == serviceErrorKey)) = none := by
    intro P
    apply List.find?_eq_none.mpr
    intro e he
    have : e ∈ cm := (List.mem_filter.mp (List.mem_reverse.mp he)).1
    simpa using hcm e this
  simp only [errorResponse, mergeMeta]
  unfold metaLookup
  rw [List.reverse_append, List.find?_append, hnone]
  simp

/-- Faithful report: for each failure kind, a two-way request gets exactly one response, with
    status Error and exactly the server-side message; the server goes on serving. -/
theorem failure_reported (env : Env) (req : Msg) (t : Bytes) (hf : Failure env req t)
    (ha : Admitted env req) (hh : Header.isHeartbeat req.hdr = false) (ho : Header.isOneway req.hdr = false)
    (hcm : ∀ e ∈ env.resMeta, e.1 ≠ serviceErrorKey) :
    ∃ m, writes (serveOne env req) = [m]
      ∧ Header.messageStatusType m.hdr = C.MessageStatusType_Error
      ∧ metaLookup m.md serviceErrorKey = some t
      ∧ Action.closeConn ∉ serveOne env req
      ∧ (serveOne env req).getLast? = some .next := by
  have hs := (one_response env req ha hh).2.2
  have hstatus : ∀ t', Header.messageStatusType (errorResponse req t' env.resMeta).hdr = C.MessageStatusType_Error := by
    intro t'
    have := congrArg Props.C01.HView.status (view_errorResponse req t' env.resMeta)
    simpa [Props.C01.view] using this
  have finish : ∀ (pre : List Action), pre = [] ∨ pre = [.invoke] →
      dispatch env req = pre ++ reply req (errorResponse req t env.resMeta) →
      ∃ m, writes (serveOne env req) = [m]
        ∧ Header.messageStatusType m.hdr = C.MessageStatusType_Error
        ∧ metaLookup m.md serviceErrorKey = some t
        ∧ Action.closeConn ∉ serveOne env req
        ∧ (serveOne env req).getLast? = some .next := by
    intro pre hpre hd
    refine ⟨errorResponse req t env.resMeta, ?_, hstatus t, lookup_error_text req t env.resMeta hcm, ?_, ?_⟩
    · rw [hs, hd]; rcases hpre with rfl | rfl <;> simp [writes, reply, ho]
    · rw [hs, hd]; rcases hpre with rfl | rfl <;> simp [reply, ho]
    · rw [hs]; simp
  cases hf with
  | noService h => exact finish [] (Or.inl rfl) (by simp [dispatch, h])
  | noMethod h => exact finish [] (Or.inl rfl) (by simp [dispatch, h])
  | unknownCodec h1 h2 h3 =>
    apply finish [] (Or.inl rfl)
    cases ht : env.target <;> simp_all [dispatch]
  | badArgs t h1 h2 h3 h4 =>
    apply finish [] (Or.inl rfl)
    cases ht : env.target <;> simp_all [dispatch]
  | handlerError t h1 h2 h3 h4 h5 h6 =>
    apply finish [.invoke] (Or.inr rfl)
    cases ht : env.target <;> simp_all [dispatch]
  | handlerPanic t h1 h2 h3 h4 h5 h6 =>
    apply finish [.invoke] (Or.inr rfl)
    cases ht : env.target <;> simp_all [dispatch]

/-! ### the connection goes on: positions of the failing request in a sequence -/

/-- requests that do not close the connection are served one after the other, each exactly as if it
    were alone on the connection -/
theorem serveConn_prefix (pre post : List (Env × Msg)) (h : ∀ e ∈ pre, Action.closeConn ∉ serveOne e.1 e.2) :
    serveConn (pre ++ post) = pre.flatMap (fun e => serveOne e.1 e.2) ++ serveConn post := by
  induction pre with
  | nil => simp
  | cons e es ih =>
    obtain ⟨env, req⟩ := e
    have h1 : Action.closeConn ∉ serveOne env req := h (env, req) (by simp)
    simp only [List.cons_append, serveConn, h1, if_false, List.flatMap_cons, List.append_assoc]
    rw [ih (fun e he => h e (by simp [he]))]

/-- **a failing request never stops the connection**: wherever it stands in the sequence – after any
    requests that were served, before any others – the requests behind it are served exactly as if the
    failure had not happened, and its own caller gets the faithful error report of `failure_reported` -/
theorem failure_does_not_stop_the_connection (pre post : List (Env × Msg)) (env : Env) (req : Msg) (t : Bytes)
    (hpre : ∀ e ∈ pre, Action.closeConn ∉ serveOne e.1 e.2)
    (hf : Failure env req t) (ha : Admitted env req) (hh : Header.isHeartbeat req.hdr = false)
    (ho : Header.isOneway req.hdr = false) (hcm : ∀ e ∈ env.resMeta, e.1 ≠ serviceErrorKey) :
    serveConn (pre ++ (env, req) :: post)
      = pre.flatMap (fun e => serveOne e.1 e.2) ++ serveOne env req ++ serveConn post := by
  obtain ⟨_, _, _, _, hnc, _⟩ := failure_reported env req t hf ha hh ho hcm
  rw [serveConn_prefix pre _ hpre]
  simp only [serveConn, hnc, if_false, List.append_assoc]

/-- one-way failures produce no write at all -/
theorem oneway_failure_silent (env : Env) (req : Msg) (ha : Admitted env req) (hh : Header.isHeartbeat req.hdr = false)
    (ho : Header.isOneway req.hdr = true) : writes (serveOne env req) = [] := by
  have := (one_response env req ha hh).1
  simp only [ho, if_true] at this
  exact List.length_eq_zero_iff.mp this

/-- the message survives the wire: what the client decodes from the encoded error response has
    the same metadata entries, hence the same text under the reserved key (C01 round trip) -/
theorem error_text_survives_wire (reg : Registry) (hl : Props.C01.Lawful reg) (res : Msg) (hwf : Props.C01.WF res)
    (bs rest : Bytes) (he : encodeStream reg res = .ok bs) (hsz : bs.length < 4294967296) :
    ∃ m, decode ⟨0, reg⟩ (bs ++ rest) = .ok (m, rest) ∧ metaLookup m.md serviceErrorKey = metaLookup res.md serviceErrorKey := by
  exact ⟨res, Props.C01.roundtrip_stream reg hl res hwf bs rest he hsz, rfl⟩

/-- the same through the pooled-buffer encoder the server actually uses (`EncodeSlicePointer`,
    interpreted from its regenerated write list), whatever stale bytes the pool buffer held -/
theorem error_text_survives_wire_buf (reg : Registry) (hl : Props.C01.Lawful reg) (res : Msg) (hwf : Props.C01.WF res)
    (stale bs rest : Bytes) (he : encodeBuf reg res stale = some bs) (hsz : bs.length < 4294967296) :
    ∃ m, decode ⟨0, reg⟩ (bs ++ rest) = .ok (m, rest) ∧ metaLookup m.md serviceErrorKey = metaLookup res.md serviceErrorKey :=
  ⟨_, Props.C01.roundtrip_buf reg hl res hwf stale bs rest he hsz, rfl⟩

end Rpcx.Props.C07
