import Rpcx.Gen.Sites
import Rpcx.Props.C01
import Rpcx.Props.C02
/-
  C08: frames are never interleaved or torn on a shared connection.
  * `sites_ok`: in the regenerated table of every place where client or server puts a frame on a
    connection, each block issues exactly ONE Conn.Write, of the WHOLE encoded buffer, and
    returns the pooled buffer only AFTER the write; and there is no other write to a
    connection in those files (no piecewise write, no shared buffered writer).
  * `pooled_frame_decodes`: what a write site hands to Conn.Write (EncodeSlicePointer's buffer) is
    one whole frame.
  * `stream_of_whole_frames`: if every write event is a whole encoded frame then, for EVERY
    order in which the transport serialises the write events of any number of writers, the
    byte stream decodes to exactly those frames, in that order – in particular to a
    permutation of the frames sent (`any_interleaving`).  The atomicity of one Conn.Write with
    respect to other Writes on the same connection is the runtime fact this rests on.
-/
namespace Rpcx.Props.C08
open Rpcx Rpcx.Gen

theorem sites_ok :
    writeSites.all (fun s => s.writes == 1 && s.whole && s.putAfter) = true
    ∧ strayConnWrites = []
    -- the table is not empty by accident: both packages have their sites (client: send, SendRaw;
    -- server: responses, heartbeat echo, pushes, router-handler writes) – whatever the functions
    -- holding them are called after a refactoring
    ∧ 2 ≤ clientWriteSites ∧ 5 ≤ serverWriteSites := by decide

/-- an encoded frame decodes to its message and leaves nothing -/
theorem frame_decodes (reg : Registry) (hl : Props.C01.Lawful reg) (m : Msg) (hwf : Props.C01.WF m) (bs : Bytes)
    (he : encodeStream reg m = .ok bs) (hsz : bs.length < 4294967296) :
    decode ⟨0, reg⟩ bs = .ok (m, []) := by
  have := Props.C01.roundtrip_stream reg hl m hwf bs [] he hsz
  simpa using this

/-- the buffer every write site passes to Conn.Write – the result of `EncodeSlicePointer`, interpreted
    from its regenerated write list, for any stale pool buffer – is a whole frame: it decodes to the
    message (compress bits cleared only where that encoder gives up compressing) and leaves nothing -/
theorem pooled_frame_decodes (reg : Registry) (hl : Props.C01.Lawful reg) (m : Msg) (hwf : Props.C01.WF m) (stale bs : Bytes)
    (he : encodeBuf reg m stale = some bs) (hsz : bs.length < 4294967296) :
    decode ⟨0, reg⟩ bs = .ok ({ m with hdr := (zipLenient reg m.hdr m.payload).1 }, []) := by
  have := Props.C01.roundtrip_buf reg hl m hwf stale bs [] he hsz
  simpa using this

/-- whatever order the transport serialises whole-frame writes in, the stream decodes to
    exactly those frames in that order -/
theorem stream_of_whole_frames (reg : Registry) (events : List (Bytes × Msg))
    (hev : ∀ e ∈ events, decode ⟨0, reg⟩ e.1 = .ok (e.2, [])) (fuel : Nat) (hf : events.length < fuel) :
    decodeAll ⟨0, reg⟩ fuel (events.map (·.1)).flatten = (events.map (·.2), none) :=
  Props.C02.decodeAll_concat ⟨0, reg⟩ events hev fuel hf

/-- any interleaving of the writers' events is a permutation of the frames sent, and the peer
    decodes exactly that permutation: no frame lost, torn, merged or altered -/
theorem any_interleaving (reg : Registry) (sent order : List (Bytes × Msg)) (hp : order.Perm sent)
    (hev : ∀ e ∈ sent, decode ⟨0, reg⟩ e.1 = .ok (e.2, [])) :
    (decodeAll ⟨0, reg⟩ (order.length + 1) (order.map (·.1)).flatten).1.Perm (sent.map (·.2))
    ∧ (decodeAll ⟨0, reg⟩ (order.length + 1) (order.map (·.1)).flatten).2 = none := by
  have hev' : ∀ e ∈ order, decode ⟨0, reg⟩ e.1 = .ok (e.2, []) := fun e he => hev e (hp.subset he)
  rw [stream_of_whole_frames reg order hev' (order.length + 1) (Nat.lt_succ_self _)]
  exact ⟨hp.map _, rfl⟩

/-- **why a frame must be ONE write**: two frames A and B; A is written in two pieces (head, then the
    rest – what a vectored write degrades to on a connection that is not a bare socket) and B's single
    write lands between them.  The peer does not decode A and B from that stream, in either order –
    which is why `sites_ok` is an obligation -/
theorem split_write_tears_frames :
    let fa : Bytes := [0x08#8, 0, 0, 0, 0, 0, 0, 0, 0, 0, 0, 9] ++ be32 18 ++ be32 1 ++ [0x41#8] ++ be32 1 ++ [0x42#8] ++ be32 0 ++ be32 0
    let fb : Bytes := [0x08#8, 0, 0, 0, 0, 0, 0, 0, 0, 0, 0, 7] ++ be32 18 ++ be32 1 ++ [0x43#8] ++ be32 1 ++ [0x44#8] ++ be32 0 ++ be32 0
    -- whole-frame writes, either order: two messages, no error
    ((decodeAll ⟨0, fun _ => none⟩ 3 (fa ++ fb)).1.length = 2 ∧ (decodeAll ⟨0, fun _ => none⟩ 3 (fa ++ fb)).2 = none)
    -- A's head (16 bytes), then B, then A's rest: not the two messages
    ∧ ¬ ((decodeAll ⟨0, fun _ => none⟩ 3 (fa.take 16 ++ fb ++ fa.drop 16)).1.length = 2
          ∧ (decodeAll ⟨0, fun _ => none⟩ 3 (fa.take 16 ++ fb ++ fa.drop 16)).2 = none) := by
  decide +kernel


end Rpcx.Props.C08
