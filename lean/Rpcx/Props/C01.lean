import Rpcx.Lemmas.Wire
import Rpcx.Lemmas.Blit
import Rpcx.Props.C01Header
/-
  C01, codec part: "Any message … that is encoded into the rpcx binary frame decodes back
  to an equal message, whichever of the two encoders produced the bytes."

  `encodeBuf_frame` / `roundtrip_buf`: the pooled-buffer encoder (`EncodeSlicePointer`),
  interpreted from its REGENERATED list of writes, produces exactly the streaming frame whatever
  stale bytes the pool buffer held, and therefore round-trips too.
  `roundtrip_stream`: for EVERY message (any header bits, any byte strings, any number of
  metadata entries in any order, any payload, any registered compressor obeying
  unzip ∘ zip = id) the decoder applied to the streaming encoder's bytes – followed by
  arbitrary further bytes – returns exactly that message and leaves exactly those further
  bytes.  `layout_*`: the regenerated offsets of the pooled-buffer encoder
  (`EncodeSlicePointer`, Rpcx/Gen/Layout.lean) are the prefix sums of the stream layout,
  i.e. both encoders place every section at the same position.
-/
namespace Rpcx.Props.C01
open Rpcx Rpcx.Gen

/-- The compressor law the property presupposes ("supported compression type"). -/
def Lawful (reg : Registry) : Prop :=
  ∀ t c p z, reg t = some c → c.zip p = some z → c.unzip z = some p

/-- What `uint32(len(x))` needs: every section shorter than 2^32 (and the magic byte set,
    which `NewMessage` guarantees and `Decode` checks). -/
structure WF (m : Msg) : Prop where
  magic : m.hdr.b0 = C.magicNumber
  path : m.path.length < 4294967296
  method : m.method.length < 4294967296
  md : MetaWF m.md
  mdBytes : (encodeMeta m.md).length < 4294967296

theorem unzip_of_zipStrict {reg : Registry} (hl : Lawful reg) {h : Header} {p z : Bytes}
    (hz : zipStrict reg h p = .ok z) : unzipStep reg h z = .ok p := by
  unfold zipStrict at hz
  unfold unzipStep
  split at hz
  · rename_i hc; rw [if_pos hc]; cases hz; rfl
  · rename_i hc
    rw [if_neg hc]
    split at hz
    · cases hz
    · rename_i c hr
      split at hz
      · cases hz
      · rename_i z' hzz
        cases hz
        rw [hl _ c p z hr hzz]

/-- the body of a frame: four length-prefixed sections -/
def bodyOf (path method metaB pay : Bytes) : Bytes :=
  be32 path.length ++ (path ++ (be32 method.length ++ (method
    ++ (be32 metaB.length ++ (metaB ++ (be32 pay.length ++ (pay ++ [])))))))

theorem bodyOf_length (path method metaB pay : Bytes) :
    (bodyOf path method metaB pay).length =
      (4 + path.length) + (4 + method.length) + (4 + metaB.length) + (4 + pay.length) := by
  simp only [bodyOf, List.length_append, be32_length, List.length_nil]; omega

theorem frame_shape (h : Header) (path method metaB pay rest : Bytes) :
    frameOf h path method metaB pay ++ rest =
      h.toBytes ++ (be32 (bodyOf path method metaB pay).length ++ (bodyOf path method metaB pay ++ rest)) := by
  rw [bodyOf_length]
  simp only [frameOf, bodyOf, List.append_assoc, List.append_nil]

/-- C01 (streaming encoder): decode ∘ encode = id, for every message, with any bytes after. -/
theorem roundtrip_stream (reg : Registry) (hl : Lawful reg) (m : Msg) (hwf : WF m) (bs rest : Bytes)
    (he : encodeStream reg m = .ok bs) (hsz : bs.length < 4294967296) :
    decode ⟨0, reg⟩ (bs ++ rest) = .ok (m, rest) := by
  unfold encodeStream at he
  cases hz : zipStrict reg m.hdr m.payload with
  | error e => rw [hz] at he; cases he
  | ok z =>
    rw [hz] at he
    simp only [Except.ok.injEq] at he
    subst he
    have hlen : (frameOf m.hdr m.path m.method (encodeMeta m.md) z).length =
        12 + (4 + ((4 + m.path.length) + (4 + m.method.length) + (4 + (encodeMeta m.md).length) + (4 + z.length))) := by
      simp [frameOf, List.length_append]; omega
    have hzl : z.length < 4294967296 := by omega
    rw [frame_shape]
    rw [decode_frame ⟨0, reg⟩ m.hdr _ rest hwf.magic
      (by rw [bodyOf_length]; omega) (by simp)]
    unfold bodyOf
    rw [decodeBody_sections reg m.hdr m.path m.method z [] m.md hwf.path hwf.method hwf.md hwf.mdBytes hzl]
    rw [unzip_of_zipStrict hl hz]
    rfl

/-- non-vacuity: a concrete non-trivial message meets the hypotheses (gzip-like toy registry) -/
def exampleReg : Registry := fun t =>
  if t == 1#8 then some ⟨fun p => some (0x5A#8 :: p), fun z => match z with | [] => none | _ :: p => some p⟩ else none

example : Lawful exampleReg := by
  intro t c p z hr hz
  unfold exampleReg at hr
  split at hr
  · cases hr; cases hz; rfl
  · cases hr

def exampleMsg : Msg :=
  ⟨⟨0x08#8, 1#8, 0x84#8, 0x10#8, 0#8, 0#8, 0#8, 0#8, 0#8, 0#8, 0#8, 7#8⟩, [0x41#8], [0x42#8],
    [([0x6B#8], [0x76#8]), ([], [])], [1#8, 2#8, 3#8]⟩

example : WF exampleMsg := by
  refine ⟨by decide, by decide, by decide, ?_, by decide⟩
  intro e he
  simp [exampleMsg] at he
  rcases he with rfl | rfl <;> decide

/-- the two encoders agree on where every section goes: the regenerated offsets of
    `EncodeSlicePointer` are the prefix sums of the `WriteTo` layout -/
theorem layout_bufLen (spL smL metaL payL : Nat) :
    encBufLen spL smL metaL payL = 12 + 4 + ((4 + spL) + (4 + smL) + (4 + metaL) + (4 + payL)) := by
  unfold encBufLen; omega

/-- the canonical write list: header at 0, total at 12, then each section's length and bytes
    back to back -/
def canonBlits (spL smL metaL payL : Nat) : List Blit := [
  .copy 0 none .header,
  .u32 12 (some 16) ((4 + spL) + (4 + smL) + (4 + metaL) + (4 + payL)),
  .u32 16 (some 20) spL,
  .copy 20 (some (20 + spL)) .path,
  .u32 (20 + spL) (some (24 + spL)) smL,
  .copy (24 + spL) (some (24 + spL + smL)) .method,
  .u32 (24 + spL + smL) (some (28 + spL + smL)) metaL,
  .copy (28 + spL + smL) none .mdata,
  .u32 (28 + spL + smL + metaL) (some (32 + spL + smL + metaL)) payL,
  .copy (32 + spL + smL + metaL) none .payload ]

theorem layout_blits (spL smL metaL payL : Nat) :
    encBlits spL smL metaL payL = canonBlits spL smL metaL payL := by
  unfold encBlits canonBlits
  simp only [List.cons.injEq, Blit.u32.injEq, Blit.copy.injEq, Option.some.injEq, and_true, true_and]
  omega

/-- **The pooled-buffer encoder writes exactly the streaming frame.**  Performing the
    regenerated writes of `EncodeSlicePointer` on a pool buffer with arbitrary stale contents
    yields the frame `WriteTo` would produce for the (leniently) compressed payload – no stale
    byte survives, nothing panics. -/
theorem encodeBuf_frame (reg : Registry) (m : Msg) (stale : Bytes) :
    encodeBuf reg m stale =
      some (frameOf (zipLenient reg m.hdr m.payload).1 m.path m.method (encodeMeta m.md)
        (zipLenient reg m.hdr m.payload).2) := by
  unfold encodeBuf
  simp only []
  rw [layout_blits, layout_bufLen]
  exact applyBlits_frame _ _ _ _ _ _ (by simp [List.length_take, List.length_append])

theorem setCompressType_none (h : Header) :
    (Header.compressType (Header.setCompressType h C.CompressType_None) == C.CompressType_None) = true := by
  have := congrArg HView.compress (set_compressType h C.CompressType_None (by decide))
  simp only [view] at this
  rw [this]; decide

theorem unzip_of_zipLenient {reg : Registry} (hl : Lawful reg) (h : Header) (p : Bytes) :
    unzipStep reg (zipLenient reg h p).1 (zipLenient reg h p).2 = .ok p := by
  unfold zipLenient
  split
  · rename_i hc; simp only [unzipStep]; rw [if_pos hc]
  · rename_i hc
    split
    · simp only [unzipStep]; rw [if_pos (setCompressType_none h)]
    · rename_i c hr
      split
      · simp only [unzipStep]; rw [if_pos (setCompressType_none h)]
      · rename_i z hz
        simp only [unzipStep]; rw [if_neg hc, hr]
        simp only []
        rw [hl _ c p z hr hz]

theorem zipLenient_magic (reg : Registry) (h : Header) (p : Bytes) : (zipLenient reg h p).1.b0 = h.b0 := by
  unfold zipLenient
  split
  · rfl
  · split
    · rfl
    · split <;> rfl

/-- C01 (pooled-buffer encoder): decode ∘ EncodeSlicePointer = id for every message, every
    stale pool buffer and any bytes after – up to the one thing that encoder changes on purpose:
    when the compressor is missing or fails it sends the payload uncompressed and clears the
    compress bits (`zipLenient`); with a registered, working compressor the header is unchanged
    (`zipLenient_hdr`). -/
theorem roundtrip_buf (reg : Registry) (hl : Lawful reg) (m : Msg) (hwf : WF m) (stale bs rest : Bytes)
    (he : encodeBuf reg m stale = some bs) (hsz : bs.length < 4294967296) :
    decode ⟨0, reg⟩ (bs ++ rest) = .ok ({ m with hdr := (zipLenient reg m.hdr m.payload).1 }, rest) := by
  rw [encodeBuf_frame] at he
  simp only [Option.some.injEq] at he
  subst he
  generalize hz : zipLenient reg m.hdr m.payload = hz' at *
  obtain ⟨h', z⟩ := hz'
  have hmag : h'.b0 = C.magicNumber := by
    have := zipLenient_magic reg m.hdr m.payload
    rw [hz] at this; rw [this]; exact hwf.magic
  have hun : unzipStep reg h' z = .ok m.payload := by
    have := unzip_of_zipLenient hl m.hdr m.payload
    rw [hz] at this; exact this
  simp only at hsz ⊢
  have hlen : (frameOf h' m.path m.method (encodeMeta m.md) z).length =
      12 + (4 + ((4 + m.path.length) + (4 + m.method.length) + (4 + (encodeMeta m.md).length) + (4 + z.length))) := by
    simp [frameOf, List.length_append]; omega
  have hzl : z.length < 4294967296 := by omega
  rw [frame_shape]
  rw [decode_frame ⟨0, reg⟩ h' _ rest hmag (by rw [bodyOf_length]; omega) (by simp)]
  unfold bodyOf
  rw [decodeBody_sections reg h' m.path m.method z [] m.md hwf.path hwf.method hwf.md hwf.mdBytes hzl]
  rw [hun]
  rfl

/-- with a registered compressor that accepts the payload (or no compression requested) the
    pooled-buffer encoder leaves the header alone -/
theorem zipLenient_hdr (reg : Registry) (h : Header) (p : Bytes)
    (hok : Header.compressType h == C.CompressType_None ∨ ∃ c z, reg (Header.compressType h) = some c ∧ c.zip p = some z) :
    (zipLenient reg h p).1 = h := by
  unfold zipLenient
  split
  · rfl
  · rename_i hc
    rcases hok with h0 | ⟨c, z, hr, hz⟩
    · exact absurd h0 hc
    · rw [hr]; simp only []; rw [hz]

/-- the tie: the layout of EncodeSlicePointer was translated from the current source this run -/
theorem tie_layout : Gen.layoutTieOk = true := by decide

end Rpcx.Props.C01
