import Rpcx.Gen.Header
import Rpcx.Lemmas.Bits
/-
  C01, header part: "Each header setter changes only its own field and each getter
  returns the value last set."  Stated about the REGENERATED accessors (`Rpcx.Gen.Header.*`,
  emitted from protocol/message.go on every run).

  `HView` lists every getter plus the bits no accessor owns (byte 0 and the low nibble of
  byte 3); `unview_view` shows the view determines all 96 bits, so
  "view (set h v) = { view h with field := v }" says at once: the getter returns v, every
  other getter is unchanged, and no other bit of the header changed.

  Proof method: after unfolding, each goal mentions one header byte `b` and one argument
  ranging over a small interval; it is closed by kernel evaluation over *all* values of
  that byte and argument (`decide +kernel`; at most 16 × 256 cases).  This is a complete
  enumeration of a finite quantifier, and it is insensitive to how the Go expression is
  written – only to what it computes.
-/
namespace Rpcx.Props.C01
open Rpcx Rpcx.Gen

structure HView where
  magic : Byte
  version : Byte
  mtype : Byte
  heartbeat : Bool
  oneway : Bool
  compress : Byte
  status : Byte
  serialize : Byte
  reserved : Byte        -- low nibble of byte 3: owned by no accessor
  seq : BitVec 64
deriving DecidableEq

def view (h : Header) : HView :=
  { magic := h.b0, version := Header.version h, mtype := Header.messageType h,
    heartbeat := Header.isHeartbeat h, oneway := Header.isOneway h,
    compress := Header.compressType h, status := Header.messageStatusType h,
    serialize := Header.serializeType h, reserved := h.b3 &&& 0x0F#8, seq := Header.seq h }

def bmask : Bool → Byte → Byte
  | true, m => m
  | false, _ => 0#8

/-- rebuild a header from its view (specification-side inverse of `view`) -/
def unview (v : HView) : Header :=
  { b0 := v.magic, b1 := v.version,
    b2 := (v.mtype <<< 7) ||| bmask v.heartbeat 0x40#8 ||| bmask v.oneway 0x20#8
          ||| (v.compress <<< 2) ||| v.status,
    b3 := (v.serialize <<< 4) ||| v.reserved,
    b4 := be64byte v.seq 0, b5 := be64byte v.seq 1, b6 := be64byte v.seq 2, b7 := be64byte v.seq 3,
    b8 := be64byte v.seq 4, b9 := be64byte v.seq 5, b10 := be64byte v.seq 6, b11 := be64byte v.seq 7 }

theorem header_ext (a b : Header) (h0 : a.b0 = b.b0) (h1 : a.b1 = b.b1) (h2 : a.b2 = b.b2)
    (h3 : a.b3 = b.b3) (h4 : a.b4 = b.b4) (h5 : a.b5 = b.b5) (h6 : a.b6 = b.b6) (h7 : a.b7 = b.b7)
    (h8 : a.b8 = b.b8) (h9 : a.b9 = b.b9) (h10 : a.b10 = b.b10) (h11 : a.b11 = b.b11) : a = b := by
  cases a; cases b; simp_all

/-- The getters together determine every bit of the header. -/
theorem unview_view (h : Header) : unview (view h) = h := by
  have hs := be64byte_be64get h.b4 h.b5 h.b6 h.b7 h.b8 h.b9 h.b10 h.b11
  have e2 : (unview (view h)).b2 = h.b2 := by
    simp only [unview, view, Header.version, Header.messageType, Header.isHeartbeat, Header.isOneway,
      Header.compressType, Header.messageStatusType, Header.serializeType, Header.seq]
    generalize h.b2 = b; revert b; decide +kernel
  have e3 : (unview (view h)).b3 = h.b3 := by
    simp only [unview, view, Header.version, Header.messageType, Header.isHeartbeat, Header.isOneway,
      Header.compressType, Header.messageStatusType, Header.serializeType, Header.seq]
    generalize h.b3 = b; revert b; decide +kernel
  apply header_ext _ _ _ _ e2 e3 <;>
    simp only [unview, view, Header.version, Header.seq, hs]

theorem view_injective (h h' : Header) (e : view h = view h') : h = h' := by
  rw [← unview_view h, ← unview_view h', e]

theorem set_version (h : Header) (v : Byte) :
    view (Header.setVersion h v) = { view h with version := v } := by
  simp [view, Header.setVersion, Header.version, Header.messageType, Header.isHeartbeat, Header.isOneway,
    Header.compressType, Header.messageStatusType, Header.serializeType, Header.seq]

theorem set_heartbeat (h : Header) (v : Bool) :
    view (Header.setHeartbeat h v) = { view h with heartbeat := v } := by
  simp only [view, Header.setHeartbeat, Header.version, Header.messageType, Header.isHeartbeat, Header.isOneway,
    Header.compressType, Header.messageStatusType, Header.serializeType, Header.seq, HView.mk.injEq,
    and_true]
  generalize h.b2 = b
  cases v <;> (simp only [if_true, if_false, Bool.false_eq_true]; revert b; decide +kernel)

theorem set_oneway (h : Header) (v : Bool) :
    view (Header.setOneway h v) = { view h with oneway := v } := by
  simp only [view, Header.setOneway, Header.version, Header.messageType, Header.isHeartbeat, Header.isOneway,
    Header.compressType, Header.messageStatusType, Header.serializeType, Header.seq, HView.mk.injEq,
    and_true]
  generalize h.b2 = b
  cases v <;> (simp only [if_true, if_false, Bool.false_eq_true]; revert b; decide +kernel)

theorem set_compressType (h : Header) (v : Byte) (hv : v < 8#8) :
    view (Header.setCompressType h v) = { view h with compress := v } := by
  obtain ⟨k, rfl⟩ := byte_lt_cases v 8 (by simpa [BitVec.lt_def] using hv)
  simp only [view, Header.setCompressType, Header.version, Header.messageType, Header.isHeartbeat, Header.isOneway,
    Header.compressType, Header.messageStatusType, Header.serializeType, Header.seq, HView.mk.injEq,
    true_and, and_true]
  generalize h.b2 = b
  revert k b; decide +kernel

theorem set_messageStatusType (h : Header) (v : Byte) (hv : v < 4#8) :
    view (Header.setMessageStatusType h v) = { view h with status := v } := by
  obtain ⟨k, rfl⟩ := byte_lt_cases v 4 (by simpa [BitVec.lt_def] using hv)
  simp only [view, Header.setMessageStatusType, Header.version, Header.messageType, Header.isHeartbeat, Header.isOneway,
    Header.compressType, Header.messageStatusType, Header.serializeType, Header.seq, HView.mk.injEq,
    true_and, and_true]
  generalize h.b2 = b
  revert k b; decide +kernel

theorem set_serializeType (h : Header) (v : Byte) (hv : v < 16#8) :
    view (Header.setSerializeType h v) = { view h with serialize := v } := by
  obtain ⟨k, rfl⟩ := byte_lt_cases v 16 (by simpa [BitVec.lt_def] using hv)
  simp only [view, Header.setSerializeType, Header.version, Header.messageType, Header.isHeartbeat, Header.isOneway,
    Header.compressType, Header.messageStatusType, Header.serializeType, Header.seq, HView.mk.injEq,
    true_and, and_true]
  generalize h.b3 = b
  revert k b; decide +kernel

theorem set_seq (h : Header) (s : BitVec 64) :
    view (Header.setSeq h s) = { view h with seq := s } := by
  simp [view, Header.setSeq, Header.version, Header.messageType, Header.isHeartbeat, Header.isOneway,
    Header.compressType, Header.messageStatusType, Header.serializeType, Header.seq, be64get_be64byte]

/-- The message-type setter: both values (Request = 0, Response = 1) can be set from any
    header, in particular Response → Request. -/
theorem set_messageType (h : Header) (v : Byte) (hv : v < 2#8) :
    view (Header.setMessageType h v) = { view h with mtype := v } := by
  obtain ⟨k, rfl⟩ := byte_lt_cases v 2 (by simpa [BitVec.lt_def] using hv)
  simp only [view, Header.setMessageType, Header.version, Header.messageType, Header.isHeartbeat, Header.isOneway,
    Header.compressType, Header.messageStatusType, Header.serializeType, Header.seq, HView.mk.injEq,
    true_and, and_true]
  generalize h.b2 = b
  revert k b; decide +kernel

/-- `CheckMagicNumber` is "byte 0 equals the magic constant" -/
theorem checkMagic_iff (h : Header) : Header.checkMagicNumber h = true ↔ h.b0 = C.magicNumber := by
  simp [Header.checkMagicNumber]

/-- non-vacuity: the ranges in the hypotheses are inhabited by the protocol's own constants -/
example : C.CompressType_Gzip < 8#8 ∧ C.MessageStatusType_Error < 4#8 ∧ C.SerializeType_Thrift < 16#8
    ∧ C.MessageType_Response < 2#8 := by decide

/-- the tie: every accessor and constant above was translated from the current source this run -/
theorem tie_header : Gen.headerTieOk = true := by decide

end Rpcx.Props.C01
