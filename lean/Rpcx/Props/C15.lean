import Rpcx.Model.Server
import Rpcx.Props.C04
import Rpcx.Props.C07
import Rpcx.Model.Plugins
import Rpcx.Gen.Plugins
/-
  C15: rejected connections and requests never reach a handler, on any ingress.
  Theorems about `Srv.ingressOne` (native serveConn loop, HTTP gateway, JSON-RPC endpoint – all
  ending in the shared dispatch) for every request header (all flag bits), every rejecting
  stage and every ingress.
-/
namespace Rpcx.Props.C15
open Rpcx Rpcx.Srv Rpcx.Gen Rpcx.Props.C04

/-- some stage rejects the connection or the request -/
def Rejected (ing : Ingress) (acceptOk : Bool) (env : Env) (req : Msg) : Prop :=
  acceptOk = false ∨ env.postReadOk = false ∨ env.reachLimit = true
  ∨ (env.authErr ≠ none ∧ (ing = .native → Header.isHeartbeat req.hdr = false))
  ∨ (env.preCallErr ≠ none ∧ env.target ≠ .router ∧ env.target ≠ .noService ∧ env.target ≠ .noMethod
      ∧ env.codecKnown = true ∧ env.argsErr = none)

theorem dispatch_precall_no_invoke (env : Env) (req : Msg) (h : env.preCallErr ≠ none) (ht : env.target ≠ .router) :
    Action.invoke ∉ dispatch env req := by
  unfold dispatch
  cases hp : env.preCallErr with
  | none => exact absurd hp h
  | some t =>
    cases htt : env.target <;> simp only [reply] <;> (try exact absurd htt ht)
    all_goals (first
      | (split <;> simp)
      | (split
         · split <;> simp
         · split
           · split <;> simp
           · split <;> simp))

/-- heartbeat never reaches a handler on the native ingress (echoed or rejected) -/
theorem heartbeat_no_invoke (env : Env) (req : Msg) (hh : Header.isHeartbeat req.hdr = true) :
    Action.invoke ∉ serveOne env req := by
  unfold serveOne
  split
  · (simp [reply] <;> (try (split <;> simp)))
  · split
    · simp
    · simp [hh]

/-- The theorem: whatever stage rejects, on whatever ingress, with whatever flags – no handler runs. -/
theorem rejected_no_invoke (ing : Ingress) (acceptOk : Bool) (env : Env) (req : Msg)
    (h : Rejected ing acceptOk env req) : Action.invoke ∉ ingressOne ing acceptOk env req := by
  rcases h with h | h | h | ⟨h, hhb⟩ | ⟨h, ht, hns, hnm, hc, ha⟩
  · -- accept stage
    cases ing <;> simp [ingressOne, httpOne, h]
  · -- post-read plugin
    cases ing
    · simp only [ingressOne]
      split
      · simp
      · unfold serveOne
        split
        · (simp [reply] <;> (try (split <;> simp)))
        · simp [h]
    all_goals (simp only [ingressOne, httpOne]; split <;> (try simp) <;> split <;> simp [h])
  · -- rate limit
    cases ing
    · simp only [ingressOne]
      split
      · simp
      · (simp [serveOne, h, reply] <;> (try (split <;> simp)))
    all_goals (simp only [ingressOne, httpOne]; split <;> simp [h])
  · -- authentication
    cases ha : env.authErr with
    | none => exact absurd ha h
    | some t =>
      cases ing
      · have hh := hhb rfl
        simp only [ingressOne]
        split
        · simp
        · unfold serveOne
          split
          · (simp [reply] <;> (try (split <;> simp)))
          · split
            · simp
            · (simp [hh, ha, reply] <;> (try (split <;> simp)))
      all_goals (simp only [ingressOne, httpOne]; split <;> (try simp) <;> split <;> (try simp) <;> split <;> simp [ha])
  · -- pre-call plugin
    cases ing
    · simp only [ingressOne]
      split
      · simp
      · by_cases hh : Header.isHeartbeat req.hdr = true
        · exact heartbeat_no_invoke env req hh
        · unfold serveOne
          split
          · (simp [reply] <;> (try (split <;> simp)))
          · split
            · simp
            · have hh' : Header.isHeartbeat req.hdr = false := by simpa using hh
              simp only [hh', Bool.false_eq_true, if_false]
              split
              · (simp [reply] <;> (try (split <;> simp)))
              · have := dispatch_precall_no_invoke env req h ht
                simp [this]
    all_goals (
      simp only [ingressOne, httpOne]
      split <;> (try simp)
      split <;> (try simp)
      split <;> (try simp)
      split
      · simp
      · have he : httpEnv env = env := by simp [httpEnv, ht]
        have := dispatch_precall_no_invoke env { req with hdr := Header.setOneway req.hdr false } h ht
        simp only [he]
        intro hm
        exact this (List.mem_filter.mp hm).1)

/-- on the native ingress a failed authentication also closes the connection -/
theorem auth_failure_closes (env : Env) (req : Msg) (t : Bytes) (h1 : env.reachLimit = false) (h2 : env.postReadOk = true)
    (ha : env.authErr = some t) (hh : Header.isHeartbeat req.hdr = false) :
    (serveOne env req).getLast? = some .closeConn := by
  simp [serveOne, h1, h2, ha, hh]

/-- the rejected requester gets an error, never a result (HTTP ingresses) -/
theorem http_rejected_is_error (acceptOk : Bool) (env : Env) (req : Msg)
    (h : acceptOk = false ∨ env.postReadOk = false ∨ env.reachLimit = true ∨ env.authErr ≠ none) :
    ∀ p, (httpOne acceptOk env req).2 ≠ .result p := by
  intro p
  unfold httpOne
  rcases h with h | h | h | h
  · simp [h]
  · split <;> (try simp) <;> split <;> (try simp) <;> simp [h]
  · split <;> (try simp) <;> simp [h]
  · cases ha : env.authErr with
    | none => exact absurd ha h
    | some t => split <;> (try simp) <;> split <;> (try simp) <;> split <;> simp

/-- non-vacuity: a wrong token with the heartbeat AND one-way flags set on the gateway -/
example : Rejected .gateway true { authErr := some [1#8] } ⟨⟨8#8, 0, 0x60#8, 0x10#8, 0, 0, 0, 0, 0, 0, 0, 5⟩, [], [], [], []⟩ := by
  right; right; right; left; exact ⟨by simp, by intro h; cases h⟩

/-! ### several plugins per stage: the first rejection is final -/

open Rpcx.Plug in
theorem firstErr_some_of_mem : ∀ (vs : List (Option Bytes)), (∃ v ∈ vs, v ≠ none) → firstErr vs ≠ none
  | [], h => by simp at h
  | none :: rest, h => by
    simp only [firstErr]
    apply firstErr_some_of_mem rest
    obtain ⟨v, hv, hne⟩ := h
    simp at hv
    rcases hv with rfl | hv
    · exact absurd rfl hne
    · exact ⟨v, hv, hne⟩
  | some e :: _, _ => by simp [firstErr]

open Rpcx.Plug in
/-- the container's answer is the FIRST rejection: whatever the plugins registered behind it say -/
theorem firstErr_prefix (pre : List (Option Bytes)) (e : Bytes) (post : List (Option Bytes)) (h : ∀ v ∈ pre, v = none) :
    firstErr (pre ++ some e :: post) = some e := by
  induction pre with
  | nil => simp [firstErr]
  | cons x xs ih =>
    have hx : x = none := h x (by simp)
    subst hx
    simp only [List.cons_append, firstErr]
    exact ih (fun v hv => h v (by simp [hv]))

open Rpcx.Plug in
theorem allAccept_false_of_mem : ∀ (bs : List Bool), (∃ b ∈ bs, b = false) → allAccept bs = false
  | [], h => by simp at h
  | true :: rest, h => by
    simp only [allAccept]
    apply allAccept_false_of_mem rest
    obtain ⟨b, hb, hf⟩ := h
    simp at hb
    rcases hb with rfl | hb
    · simp at hf
    · exact ⟨b, hb, hf⟩
  | false :: _, _ => by simp [allAccept]

open Rpcx.Plug in
/-- **any number of plugins per stage, one of them rejecting – at any position, whatever the others
    answer**: no handler runs, on any ingress, for any request header.  (A pre-call rejection is reached
    only by requests that got as far as the call: the service and method exist, the arguments decode.) -/
theorem any_rejecting_plugin_no_invoke (ing : Ingress) (ps : Plugins) (base : Env) (req : Msg)
    (h : (∃ b ∈ ps.accept, b = false) ∨ (∃ v ∈ ps.postRead, v ≠ none)
      ∨ ((∃ v ∈ ps.preCall, v ≠ none) ∧ base.target ≠ .router ∧ base.target ≠ .noService ∧ base.target ≠ .noMethod
          ∧ base.codecKnown = true ∧ base.argsErr = none)) :
    Action.invoke ∉ ingressOne ing ps.acceptOk (ps.env base) req := by
  apply rejected_no_invoke
  rcases h with h | h | ⟨h, h1, h2, h3, h4, h5⟩
  · left; exact allAccept_false_of_mem _ h
  · right; left
    have := firstErr_some_of_mem _ h
    simp only [Plugins.env]
    cases hq : firstErr ps.postRead with
    | none => exact absurd hq this
    | some _ => rfl
  · right; right; right; right
    exact ⟨by simpa [Plugins.env] using firstErr_some_of_mem _ h, h1, h2, h3, h4, h5⟩

/-- the tie: in the CURRENT source the container methods of the three rejecting stages return the first
    rejection from inside their loop (`firstErr` / `allAccept` are those loops) -/
theorem tie_plugin_stages_first_rejection_wins :
    Gen.pluginStages.map (·.1) = ["DoPostConnAccept", "DoPostReadRequest", "DoPreCall"]
    ∧ Gen.pluginStages.all (·.2) = true := by decide

open Rpcx.Plug in
/-- non-vacuity: three post-read plugins, the middle one rejecting, an accepting one behind it -/
example : firstErr [none, some [0x41#8], none] = some [0x41#8] ∧ allAccept [true, false, true] = false := by decide


/-! ### every position of the rejected request within a connection's request sequence -/

/-- **a connection that failed authentication is closed – at any position**: after any number of
    requests that were served, a request whose token is rejected gets its error (if two-way), runs no
    handler, and NOTHING behind it on the connection is read or served, whatever it is -/
theorem auth_failure_ends_the_connection (pre post : List (Env × Msg)) (env : Env) (req : Msg) (t : Bytes)
    (hpre : ∀ e ∈ pre, Action.closeConn ∉ serveOne e.1 e.2)
    (h1 : env.reachLimit = false) (h2 : env.postReadOk = true) (ha : env.authErr = some t)
    (hh : Header.isHeartbeat req.hdr = false) :
    serveConn (pre ++ (env, req) :: post) = pre.flatMap (fun e => serveOne e.1 e.2) ++ serveOne env req
    ∧ Action.invoke ∉ serveOne env req
    ∧ (serveOne env req).getLast? = some .closeConn := by
  have hclose : Action.closeConn ∈ serveOne env req := by
    simp [serveOne, h1, h2, ha, hh]
  refine ⟨?_, ?_, auth_failure_closes env req t h1 h2 ha hh⟩
  · rw [Props.C07.serveConn_prefix pre _ hpre]
    simp only [serveConn, hclose, if_true]
  · have := rejected_no_invoke .native true env req (Or.inr (Or.inr (Or.inr (Or.inl ⟨by simp [ha], fun _ => hh⟩))))
    simpa [ingressOne] using this


end Rpcx.Props.C15
