import Rpcx.Model.Server
import Rpcx.Props.C04
/-
  C15: rejected connections and requests never reach a handler, on any ingress.
  Theorems about `Srv.ingressOne` (native serveConn loop, HTTP gateway, JSON-RPC endpoint – all
  ending in the shared dispatch) for every request header (all flag bits), every rejecting
  stage and every ingress.
-/
namespace Rpcx.Props.C15
open Rpcx Rpcx.Srv Rpcx.Gen Rpcx.Props.C04

/-- some stage rejects the connection or the request -/
def Rejected (ing : Ingress) (acceptOk : Bool) (env : Env) (req : Msg) : Prop :=
  acceptOk = false ∨ env.postReadOk = false ∨ env.reachLimit = true
  ∨ (env.authErr ≠ none ∧ (ing = .native → Header.isHeartbeat req.hdr = false))
  ∨ (env.preCallErr ≠ none ∧ env.target ≠ .router ∧ env.target ≠ .noService ∧ env.target ≠ .noMethod
      ∧ env.codecKnown = true ∧ env.argsErr = none)

theorem dispatch_precall_no_invoke (env : Env) (req : Msg) (h : env.preCallErr ≠ none) (ht : env.target ≠ .router) :
    Action.invoke ∉ dispatch env req := by
  unfold dispatch
  cases hp : env.preCallErr with
  | none => exact absurd hp h
  | some t =>
    cases htt : env.target <;> simp only [reply] <;> (try exact absurd htt ht)
    all_goals (first
      | (split <;> simp)
      | (split
         · split <;> simp
         · split
           · split <;> simp
           · split <;> simp))

/-- heartbeat never reaches a handler on the native ingress (echoed or rejected) -/
theorem heartbeat_no_invoke (env : Env) (req : Msg) (hh : Header.isHeartbeat req.hdr = true) :
    Action.invoke ∉ serveOne env req := by
  unfold serveOne
  split
  · (simp [reply] <;> (try (split <;> simp)))
  · split
    · simp
    · simp [hh]

/-- The theorem: whatever stage rejects, on whatever ingress, with whatever flags – no handler runs. -/
theorem rejected_no_invoke (ing : Ingress) (acceptOk : Bool) (env : Env) (req : Msg)
    (h : Rejected ing acceptOk env req) : Action.invoke ∉ ingressOne ing acceptOk env req := by
  rcases h with h | h | h | ⟨h, hhb⟩ | ⟨h, ht, hns, hnm, hc, ha⟩
  · -- accept stage
    cases ing <;> simp [ingressOne, httpOne, h]
  · -- post-read plugin
    cases ing
    · simp only [ingressOne]
      split
      · simp
      · unfold serveOne
        split
        · (simp [reply] <;> (try (split <;> simp)))
        · simp [h]
    all_goals (simp only [ingressOne, httpOne]; split <;> (try simp) <;> split <;> simp [h])
  · -- rate limit
    cases ing
    · simp only [ingressOne]
      split
      · simp
      · (simp [serveOne, h, reply] <;> (try (split <;> simp)))
    all_goals (simp only [ingressOne, httpOne]; split <;> simp [h])
  · -- authentication
    cases ha : env.authErr with
    | none => exact absurd ha h
    | some t =>
      cases ing
      · have hh := hhb rfl
        simp only [ingressOne]
        split
        · simp
        · unfold serveOne
          split
          · (simp [reply] <;> (try (split <;> simp)))
          · split
            · simp
            · (simp [hh, ha, reply] <;> (try (split <;> simp)))
      all_goals (simp only [ingressOne, httpOne]; split <;> (try simp) <;> split <;> (try simp) <;> split <;> simp [ha])
  · -- pre-call plugin
    cases ing
    · simp only [ingressOne]
      split
      · simp
      · by_cases hh : Header.isHeartbeat req.hdr = true
        · exact heartbeat_no_invoke env req hh
        · unfold serveOne
          split
          · (simp [reply] <;> (try (split <;> simp)))
          · split
            · simp
            · have hh' : Header.isHeartbeat req.hdr = false := by simpa using hh
              simp only [hh', Bool.false_eq_true, if_false]
              split
              · (simp [reply] <;> (try (split <;> simp)))
              · have := dispatch_precall_no_invoke env req h ht
                simp [this]
    all_goals (
      simp only [ingressOne, httpOne]
      split <;> (try simp)
      split <;> (try simp)
      split <;> (try simp)
      split
      · simp
      · have he : httpEnv env = env := by simp [httpEnv, ht]
        have := dispatch_precall_no_invoke env { req with hdr := Header.setOneway req.hdr false } h ht
        simp only [he]
        intro hm
        exact this (List.mem_filter.mp hm).1)

/-- on the native ingress a failed authentication also closes the connection -/
theorem auth_failure_closes (env : Env) (req : Msg) (t : Bytes) (h1 : env.reachLimit = false) (h2 : env.postReadOk = true)
    (ha : env.authErr = some t) (hh : Header.isHeartbeat req.hdr = false) :
    (serveOne env req).getLast? = some .closeConn := by
  simp [serveOne, h1, h2, ha, hh]

/-- the rejected requester gets an error, never a result (HTTP ingresses) -/
theorem http_rejected_is_error (acceptOk : Bool) (env : Env) (req : Msg)
    (h : acceptOk = false ∨ env.postReadOk = false ∨ env.reachLimit = true ∨ env.authErr ≠ none) :
    ∀ p, (httpOne acceptOk env req).2 ≠ .result p := by
  intro p
  unfold httpOne
  rcases h with h | h | h | h
  · simp [h]
  · split <;> (try simp) <;> split <;> (try simp) <;> simp [h]
  · split <;> (try simp) <;> simp [h]
  · cases ha : env.authErr with
    | none => exact absurd ha h
    | some t => split <;> (try simp) <;> split <;> (try simp) <;> split <;> simp

/-- non-vacuity: a wrong token with the heartbeat AND one-way flags set on the gateway -/
example : Rejected .gateway true { authErr := some [1#8] } ⟨⟨8#8, 0, 0x60#8, 0x10#8, 0, 0, 0, 0, 0, 0, 0, 5⟩, [], [], [], []⟩ := by
  right; right; right; left; exact ⟨by simp, by intro h; cases h⟩

end Rpcx.Props.C15
