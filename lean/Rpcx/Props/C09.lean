import Rpcx.Model.Pipeline
import Rpcx.Props.C01
/-
  C09: "Arguments, replies, request metadata seen by the handler and response metadata seen by
  the caller arrive equal to what was sent … for every codec, every compression setting and
  payload size on either side of the threshold … Compression is invisible to handlers and
  callers."

  `call_faithful`: in the end-to-end model (`Pipe.call`: client.send → EncodeSlicePointer →
  Decode → handler → response skeleton → EncodeSlicePointer → Decode → client.input), for EVERY
  argument value, metadata list, payload size, client compress option, registered compressor
  set, pair of codecs, sequence number and stale pool buffers: the handler is given exactly the
  sent arguments and metadata and the caller exactly the handler's reply and response metadata.
  The threshold rules are the REGENERATED `Gen.clientCompress` / `Gen.serverCompress` and the
  proof never looks inside them: whatever they decide, nothing changes for handler and caller
  (`compression_invisible`).  Hypotheses (the laws the property presupposes, exercised on the
  real codecs/compressors/transports by `harness c09`): decode ∘ encode = id for the codecs,
  unzip ∘ zip = id for registered compressors, every section shorter than 2^32 bytes.
-/
namespace Rpcx.Props.C09
open Rpcx Rpcx.Gen Rpcx.Pipe Rpcx.Props.C01

def CodecLawful {α : Type} (c : Codec α) : Prop := ∀ v b, c.enc v = some b → c.dec b = some v

/-- the encoded frame fits the 32-bit length fields -/
def Fits (reg : Registry) (m : Msg) : Prop :=
  (frameOf (zipLenient reg m.hdr m.payload).1 m.path m.method (encodeMeta m.md)
    (zipLenient reg m.hdr m.payload).2).length < 4294967296

/-- one frame across the wire arrives as sent (the header changes only if the encoder had to
    give up compressing: `zipLenient`) -/
theorem transmit_ok (reg : Registry) (hl : Lawful reg) (m : Msg) (hwf : WF m) (hfit : Fits reg m) (stale : Bytes) :
    transmit reg m stale = some { m with hdr := (zipLenient reg m.hdr m.payload).1 } := by
  unfold transmit
  rw [encodeBuf_frame]
  simp only []
  have := roundtrip_buf reg hl m hwf stale _ [] (encodeBuf_frame reg m stale) hfit
  rw [List.append_nil] at this
  rw [this]

theorem clientReq_magic (o : ClientOpt) (seq : BitVec 64) (ow : Bool) (path method : Bytes)
    (md : List (Bytes × Bytes)) (data : Bytes) : (clientReq o seq ow path method md data).hdr.b0 = C.magicNumber := by
  unfold clientReq
  simp only []
  split <;> split <;> rfl

theorem serverRes_magic (req : Msg) (p : Bytes) (rm : List (Bytes × Bytes)) :
    (serverRes req p rm).hdr.b0 = req.hdr.b0 := by
  unfold serverRes
  simp only []
  split <;> rfl

theorem serverRes_fields (req : Msg) (p : Bytes) (rm : List (Bytes × Bytes)) :
    (serverRes req p rm).path = req.path ∧ (serverRes req p rm).method = req.method
    ∧ (serverRes req p rm).md = rm ∧ (serverRes req p rm).payload = p := by
  unfold serverRes
  simp only []
  split <;> exact ⟨rfl, rfl, rfl, rfl⟩

/-- the response leg: whatever request the server decoded, its response arrives with the
    reply payload and the handler's response metadata unchanged -/
theorem respond_ok (reg : Registry) (hl : Lawful reg) (req : Msg) (hm : req.hdr.b0 = C.magicNumber)
    (hpath : req.path.length < 4294967296) (hmethod : req.method.length < 4294967296)
    (p : Bytes) (rm : List (Bytes × Bytes)) (hrm : MetaWF rm) (hrmB : (encodeMeta rm).length < 4294967296)
    (hfit : Fits reg (serverRes req p rm)) (stale : Bytes) :
    ∃ res, transmit reg (serverRes req p rm) stale = some res ∧ res.payload = p ∧ res.md = rm := by
  obtain ⟨f1, f2, f3, f4⟩ := serverRes_fields req p rm
  have hwf : WF (serverRes req p rm) := by
    refine ⟨?_, ?_, ?_, ?_, ?_⟩
    · rw [serverRes_magic]; exact hm
    · rw [f1]; exact hpath
    · rw [f2]; exact hmethod
    · rw [f3]; exact hrm
    · rw [f3]; exact hrmB
  exact ⟨_, transmit_ok reg hl _ hwf hfit stale, f4, f3⟩

/-- **End-to-end faithfulness.** -/
theorem call_faithful {α β : Type} (reg : Registry) (hl : Lawful reg)
    (ca : Codec α) (cr : Codec β) (hca : CodecLawful ca) (hcr : CodecLawful cr)
    (o : ClientOpt) (seq : BitVec 64) (path method : Bytes) (md : List (Bytes × Bytes)) (args : α)
    (handler : α → List (Bytes × Bytes) → β × List (Bytes × Bytes)) (stale1 stale2 : Bytes)
    (data p : Bytes) (hdata : ca.enc args = some data) (hp : cr.enc (handler args md).1 = some p)
    (hpath : path.length < 4294967296) (hmethod : method.length < 4294967296)
    (hmd : MetaWF md) (hmdB : (encodeMeta md).length < 4294967296)
    (hrm : MetaWF (handler args md).2) (hrmB : (encodeMeta (handler args md).2).length < 4294967296)
    (hfit1 : Fits reg (clientReq o seq false path method md data))
    (hfit2 : ∀ h, Fits reg (serverRes ⟨h, path, method, md, data⟩ p (handler args md).2)) :
    ∃ s, call reg ca cr o seq path method md args handler stale1 stale2 = some s
      ∧ s.handlerArgs = args ∧ s.handlerMeta = md
      ∧ s.callerReply = (handler args md).1 ∧ s.callerResMeta = (handler args md).2 := by
  unfold call
  rw [hdata]
  simp only []
  have hwf1 : WF (clientReq o seq false path method md data) :=
    ⟨clientReq_magic _ _ _ _ _ _ _, hpath, hmethod, hmd, hmdB⟩
  rw [transmit_ok reg hl _ hwf1 hfit1 stale1]
  simp only []
  have e1 : (clientReq o seq false path method md data).payload = data := rfl
  have e2 : (clientReq o seq false path method md data).md = md := rfl
  have e3 : (clientReq o seq false path method md data).path = path := rfl
  have e4 : (clientReq o seq false path method md data).method = method := rfl
  rw [e1, e2, e3, e4, hca args data hdata]
  simp only []
  rw [hp]
  simp only []
  obtain ⟨res, hres, hpay, hmdres⟩ := respond_ok reg hl
    ⟨(zipLenient reg (clientReq o seq false path method md data).hdr data).1, path, method, md, data⟩
    (by show (zipLenient reg _ _).1.b0 = _; rw [zipLenient_magic]; exact clientReq_magic _ _ _ _ _ _ _)
    hpath hmethod p (handler args md).2 hrm hrmB (hfit2 _) stale2
  rw [hres]
  simp only []
  rw [hpay, hcr _ p hp]
  exact ⟨_, rfl, rfl, rfl, rfl, hmdres⟩

/-- **Compression is invisible**: two calls that differ only in the client's compress option,
    in the set of registered compressors and in the pool buffers they happen to get show the
    handler and the caller exactly the same values. -/
theorem compression_invisible {α β : Type} (reg reg' : Registry) (hl : Lawful reg) (hl' : Lawful reg')
    (ca : Codec α) (cr : Codec β) (hca : CodecLawful ca) (hcr : CodecLawful cr)
    (ser ct ct' : Byte) (seq : BitVec 64) (path method : Bytes) (md : List (Bytes × Bytes)) (args : α)
    (handler : α → List (Bytes × Bytes) → β × List (Bytes × Bytes)) (s1 s2 s1' s2' : Bytes)
    (data p : Bytes) (hdata : ca.enc args = some data) (hp : cr.enc (handler args md).1 = some p)
    (hpath : path.length < 4294967296) (hmethod : method.length < 4294967296)
    (hmd : MetaWF md) (hmdB : (encodeMeta md).length < 4294967296)
    (hrm : MetaWF (handler args md).2) (hrmB : (encodeMeta (handler args md).2).length < 4294967296)
    (hfit1 : Fits reg (clientReq ⟨ser, ct⟩ seq false path method md data))
    (hfit2 : ∀ h, Fits reg (serverRes ⟨h, path, method, md, data⟩ p (handler args md).2))
    (hfit1' : Fits reg' (clientReq ⟨ser, ct'⟩ seq false path method md data))
    (hfit2' : ∀ h, Fits reg' (serverRes ⟨h, path, method, md, data⟩ p (handler args md).2)) :
    ∃ s s', call reg ca cr ⟨ser, ct⟩ seq path method md args handler s1 s2 = some s
      ∧ call reg' ca cr ⟨ser, ct'⟩ seq path method md args handler s1' s2' = some s'
      ∧ s.handlerArgs = s'.handlerArgs ∧ s.handlerMeta = s'.handlerMeta
      ∧ s.callerReply = s'.callerReply ∧ s.callerResMeta = s'.callerResMeta := by
  obtain ⟨s, hs, a1, a2, a3, a4⟩ := call_faithful reg hl ca cr hca hcr ⟨ser, ct⟩ seq path method md args handler s1 s2
    data p hdata hp hpath hmethod hmd hmdB hrm hrmB hfit1 hfit2
  obtain ⟨s', hs', b1, b2, b3, b4⟩ := call_faithful reg' hl' ca cr hca hcr ⟨ser, ct'⟩ seq path method md args handler s1' s2'
    data p hdata hp hpath hmethod hmd hmdB hrm hrmB hfit1' hfit2'
  exact ⟨s, s', hs, hs', by rw [a1, b1], by rw [a2, b2], by rw [a3, b3], by rw [a4, b4]⟩

/-- what the caller finds in its context map: the response metadata, unchanged, under every key
    other than the framework's reserved server-address key -/
theorem callerMeta_lookup (rm : List (Bytes × Bytes)) (addr k : Bytes) (hk : k ≠ serverAddressKey) :
    metaLookup (callerMeta [] rm addr) k = metaLookup rm k := by
  unfold callerMeta
  split
  · rename_i he
    have : rm = [] := by simpa using he
    subst this; rfl
  · unfold metaLookup
    simp only [List.nil_append, List.reverse_append, List.reverse_cons, List.reverse_nil, List.singleton_append,
      List.find?_cons]
    have : ((serverAddressKey == k) = false) := by
      simpa using fun h => hk h.symm
    simp [this]

/-- the tie: the threshold rules were translated from the current source this run -/
theorem tie_preds : tieItem Gen.predsTie "Client.send:compress-threshold" = true ∧ tieItem Gen.predsTie "server:compress-threshold" = true := by decide

/-- non-vacuity: a concrete call with a payload above the threshold, a toy lawful compressor and
    identity codecs meets the hypotheses' shape (evaluated, not proved in general) -/
def idCodec : Codec Bytes := ⟨some, some⟩
example : CodecLawful idCodec := by intro v b h; cases h; rfl

end Rpcx.Props.C09

namespace Rpcx.Props.C09
open Rpcx Rpcx.Gen Rpcx.Pipe Rpcx.Props.C01

/-- a 1100-byte argument through the toy compressor: flagged on the wire, invisible at the ends -/
def exArgs : Bytes := List.replicate 1100 0x41#8
def exCall := call exampleReg idCodec idCodec ⟨C.SerializeType_SerializeNone, 1#8⟩ 7#64 [0x53#8] [0x4D#8]
  [([0x6B#8], [0x76#8])] exArgs (fun a m => (a.reverse ++ [0x21#8], ([0x72#8], [0x31#8]) :: m)) [0xFF#8, 0xEE#8] []

def exOk : Bool :=
  match exCall with
  | none => false
  | some s => s.handlerArgs == exArgs && s.handlerMeta == [([0x6B#8], [0x76#8])]
      && s.callerReply == exArgs.reverse ++ [0x21#8] && s.callerResMeta == [([0x72#8], [0x31#8]), ([0x6B#8], [0x76#8])]
      && Header.compressType s.reqOnWire.hdr == 1#8 && Header.compressType s.resOnWire.hdr == 1#8
      && s.reqOnWire.payload.length == 1100

theorem example_call : exOk = true := by decide +kernel

end Rpcx.Props.C09
