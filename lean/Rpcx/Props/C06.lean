import Rpcx.Model.Atomic
import Rpcx.Lemmas.MuxInv
import Rpcx.Props.C03
/-
  C06: calls sharing a connection are isolated – the frame lemma of the multiplexer model.
  Every step that belongs to call `a` (its sender registering, failing to encode, failing or
  succeeding to write; its waiter's context ending; the dispatch of a frame addressed to it)
  leaves every other call's record, every other call's pending entry, and the connection
  flags untouched; and dispatching a frame never ends the reader
  (`C03.frame_keeps_running`).  All from any state reachable by any event sequence.
-/
namespace Rpcx.Props.C06
open Rpcx Rpcx.Mux

/-- the events of call `a`'s own threads -/
def ownEvent (a : Nat) : Ev → Bool
  | .register c | .encodeFail c | .writeFail c | .writeOk c | .ctxDone c => c == a
  | _ => false

theorem removeAndSignal_isolated (s : St) (hi : Inv s) (a q : Nat) (o : Outcome) (ra : CallRec)
    (hra : s.calls[a]? = some ra) (hpa : ra.phase = .registered q) (v : Nat) (hv : v ≠ a) :
    (removeAndSignal s a q o).calls[v]? = s.calls[v]?
    ∧ (∀ q', (q', v) ∈ (removeAndSignal s a q o).pending ↔ (q', v) ∈ s.pending)
    ∧ (removeAndSignal s a q o).shutdown = s.shutdown ∧ (removeAndSignal s a q o).closing = s.closing := by
  unfold removeAndSignal
  cases hl : lookup s.pending q with
  | none => simp
  | some c' =>
    have hm := lookup_some hl
    obtain ⟨r', hr', _, hp'⟩ := hi.pend q c' hm
    have e : c' = a := hi.regUniq c' a r' ra q hr' hra hp' hpa
    subst e
    simp only [if_true]
    refine ⟨by rw [signal_get]; simp [hv], ?_, trivial, trivial⟩
    intro q'
    constructor
    · intro h; exact (mem_erase.mp h).1
    · intro h
      refine mem_erase.mpr ⟨h, ?_⟩
      simp only
      intro e; subst e
      -- (q', v) and (q', c') both pending with the same key: keys are distinct
      have := lookup_of_mem hi.keys h
      rw [hl] at this; cases this; exact hv rfl

/-- The frame lemma: a step of call `a`'s own threads changes nothing about any other call. -/
theorem own_step_isolated (s : St) (hi : Inv s) (a : Nat) (ev : Ev) (hown : ownEvent a ev = true) (v : Nat) (hv : v ≠ a) :
    (step s ev).calls[v]? = s.calls[v]?
    ∧ (∀ q', (q', v) ∈ (step s ev).pending ↔ (q', v) ∈ s.pending)
    ∧ (step s ev).shutdown = s.shutdown ∧ (step s ev).closing = s.closing := by
  cases ev with
  | register c =>
    have hc : c = a := by simpa [ownEvent] using hown
    subst hc
    simp only [step]
    cases hr : s.calls[c]? with
    | none => simp
    | some r =>
      simp only
      split
      · simp
      · split
        · refine ⟨?_, by simp, rfl, rfl⟩
          simp only
          split
          · rw [setRet_ne _ _ _ _ hv, setPhase_get]; simp only [hv, if_false]; rw [signal_get]; simp [hv]
          · rw [setPhase_get]; simp only [hv, if_false]; rw [signal_get]; simp [hv]
        · refine ⟨by rw [setPhase_get]; simp [hv], ?_, rfl, rfl⟩
          intro q'
          simp only [List.mem_cons, Prod.mk.injEq]
          constructor
          · rintro (⟨_, e⟩ | h)
            · exact absurd e hv
            · exact h
          · intro h; exact Or.inr h
  | encodeFail c =>
    have hc : c = a := by simpa [ownEvent] using hown
    subst hc
    simp only [step]
    cases hr : s.calls[c]? with
    | none => simp
    | some r =>
      simp only
      cases hp : r.phase with
      | registered q =>
        simp only
        split
        · simp
        · obtain ⟨h1, h2, h3, h4⟩ := removeAndSignal_isolated s hi c q .codecErr r hr hp v hv
          exact ⟨by simp only; rw [setPhase_get]; simp [hv, h1], h2, h3, h4⟩
      | fresh => simp
      | finished => simp
  | writeFail c =>
    have hc : c = a := by simpa [ownEvent] using hown
    subst hc
    simp only [step]
    cases hr : s.calls[c]? with
    | none => simp
    | some r =>
      simp only
      cases hp : r.phase with
      | registered q =>
        simp only
        split
        · simp
        obtain ⟨h1, h2, h3, h4⟩ := removeAndSignal_isolated s hi c q .connErr r hr hp v hv
        refine ⟨?_, h2, h3, h4⟩
        simp only
        split
        · rw [setRet_ne _ _ _ _ hv, setPhase_get]; simp [hv, h1]
        · rw [setPhase_get]; simp [hv, h1]
      | fresh => simp
      | finished => simp
  | writeOk c =>
    have hc : c = a := by simpa [ownEvent] using hown
    subst hc
    simp only [step]
    cases hr : s.calls[c]? with
    | none => simp
    | some r =>
      simp only
      cases hp : r.phase with
      | registered q =>
        simp only
        split
        · exact ⟨markWritten_ne _ _ _ hv, by simp, rfl, rfl⟩
        · split
          · obtain ⟨h1, h2, h3, h4⟩ := removeAndSignal_isolated s hi c q .none_ r hr hp v hv
            exact ⟨by simp only; rw [setPhase_get]; simp [hv, h1], h2, h3, h4⟩
          · simp
      | fresh => simp
      | finished => simp
  | ctxDone c =>
    have hc : c = a := by simpa [ownEvent] using hown
    subst hc
    simp only [step]
    cases hr : s.calls[c]? with
    | none => simp
    | some r =>
      simp only
      split
      · simp
      · split
        · simp
        -- removal (only of its own entry), then the caller's own return bookkeeping
        have h1 : (ctxRemove s c r).calls[v]? = s.calls[v]?
            ∧ (∀ q', (q', v) ∈ (ctxRemove s c r).pending ↔ (q', v) ∈ s.pending)
            ∧ (ctxRemove s c r).shutdown = s.shutdown ∧ (ctxRemove s c r).closing = s.closing := by
          unfold ctxRemove
          cases hp : r.phase with
          | registered q =>
            simp only
            cases hl : lookup s.pending q with
            | none => simp
            | some c' =>
              simp only
              split
              · rename_i e; subst e
                refine ⟨by rw [signal_get]; simp [hv], ?_, rfl, rfl⟩
                intro q'
                constructor
                · intro h; exact (mem_erase.mp h).1
                · intro h
                  refine mem_erase.mpr ⟨h, ?_⟩
                  simp only
                  intro e; subst e
                  have := lookup_of_mem hi.keys h
                  rw [hl] at this; cases this; exact hv rfl
              · simp
          | fresh => simp
          | finished => simp
        generalize ctxRemove s c r = s1 at h1 ⊢
        unfold markRet
        cases hr1 : s1.calls[c]? with
        | none => exact h1
        | some r1 =>
          simp only
          refine ⟨?_, h1.2.1, h1.2.2.1, h1.2.2.2⟩
          rw [← h1.1]
          simp [List.getElem?_set, hv, Ne.symm hv]
  | frame f => simp [ownEvent] at hown
  | terminate => simp [ownEvent] at hown
  | close => simp [ownEvent] at hown

/-- …and so does the dispatch of a response addressed to `a` (including one that does not decode
    into `a`'s reply value, or an error response). -/
theorem reply_to_other_isolated (s : St) (f : Frame) (a : Nat) (hs : s.shutdown = false)
    (hm : f.isServerMessage = false) (hl : lookup s.pending f.seq = some a) (v : Nat) (hv : v ≠ a) :
    (step s (.frame f)).calls[v]? = s.calls[v]?
    ∧ (∀ q', q' ≠ f.seq → ((q', v) ∈ (step s (.frame f)).pending ↔ (q', v) ∈ s.pending))
    ∧ (step s (.frame f)).shutdown = false := by
  obtain ⟨h1, h2, _, _⟩ := C03.route_hit s f a hs hm hl
  refine ⟨h2 v hv, ?_, C03.frame_keeps_running s f hs⟩
  intro q' hq
  rw [h1]
  constructor
  · intro h; exact (mem_erase.mp h).1
  · intro h; exact mem_erase.mpr ⟨h, hq⟩

/-- Regression witnesses.
    D11: the pre-fix waiter deleted `pending[*seq]` with `*seq` still 0 before registration –
    it removed and failed whichever call owned sequence number 0.
    D12: the pre-fix reader assigned a per-call decode error to its loop variable and exited. -/
def ctxDonePrefix (s : St) (cell : Nat) : St :=
  match lookup s.pending cell with
  | some c' => { s with pending := erase s.pending cell, calls := signal s.calls c' .ctxErr }
  | none => s
theorem d11_witness :
    let s := run (init (plain [false, false])) [.register 0, .writeOk 0]     -- the victim owns seq 0; call 1 is not registered
    ((ctxDonePrefix s 0).calls[0]?.map (·.outcome)) = some (some .ctxErr) := by decide

/-! ### the model's atomic steps are the code's critical sections (regenerated facts) -/

theorem tie_atomic : tieItem Gen.atomicTie "atomic:client.Client.call" = true := by decide

/-- a cancelled blocking call looks its own entry up and removes it under one acquisition of the
    client mutex (`ctxDone` in the model) -/
theorem tie_cancel_atomic :
    Atomic.sameRegion .clientCall .clientMutex [.getPending, .deletePending] = true := by decide

end Rpcx.Props.C06
