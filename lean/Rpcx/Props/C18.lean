import Rpcx.Model.Breaker
import Rpcx.Lemmas.BreakerConc
/-
  C18: the consecutive-failure circuit breaker – theorems over the REGENERATED
  `ready/success/fail/reset` (client/circuit_breaker.go) inside the hand-written `Call`
  skeleton.  No bound on the length of the history, the threshold, the window or the times.
-/
namespace Rpcx.Props.C18
open Rpcx Rpcx.Gen

def abs (s : BreakerSt) : BreakerSpec := ⟨s.failures, s.lastFailureTime⟩

/-- Refinement, one step: the implementation's `Call` and the specification agree on the
    verdict (refused / ok / failed) and on the next abstract state, from every state. -/
theorem call_refines (p : BreakerCfg) (s : BreakerSt) (t t' : Int) (o : Bool) :
    let r := Breaker.call p s t t' o
    (BreakerSpec.step p (abs s) t t' o) = (abs r.1, r.2) := by
  simp only [Breaker.call, Breaker.ready, Breaker.success, Breaker.fail, Breaker.reset, BreakerSpec.step,
    BreakerSpec.refuses, abs]
  by_cases h1 : t - s.lastFailureTime > p.window
  · have h1' : ¬ (t - s.lastFailureTime ≤ p.window) := by omega
    simp [h1, h1']
    cases o <;> simp
  · have h1' : t - s.lastFailureTime ≤ p.window := by omega
    simp only [h1, h1', decide_true, decide_false, Bool.and_true]
    by_cases h2 : s.failures < p.threshold
    · have : ¬ (p.threshold ≤ s.failures) := by omega
      simp [h2, this]
      cases o <;> simp
    · have : p.threshold ≤ s.failures := by omega
      simp [h2, this]

/-- Refinement over every history. -/
theorem run_refines (p : BreakerCfg) : ∀ (evs : List (Int × Int × Bool)) (s : BreakerSt),
    let specRun := evs.foldl (fun (acc : BreakerSpec × List CallRes) e =>
        let r := BreakerSpec.step p acc.1 e.1 e.2.1 e.2.2; (r.1, acc.2 ++ [r.2])) (abs s, [])
    specRun = (abs (Breaker.run p s evs).1, (Breaker.run p s evs).2) := by
  intro evs
  suffices h : ∀ (s : BreakerSt) (pre : List CallRes),
      evs.foldl (fun (acc : BreakerSpec × List CallRes) e =>
        let r := BreakerSpec.step p acc.1 e.1 e.2.1 e.2.2; (r.1, acc.2 ++ [r.2])) (abs s, pre)
      = (abs (Breaker.run p s evs).1, pre ++ (Breaker.run p s evs).2) by
    intro s; simpa using h s []
  induction evs with
  | nil => intro s pre; simp [Breaker.run]
  | cons e es ih =>
    intro s pre
    obtain ⟨t, t', o⟩ := e
    have hc := call_refines p s t t' o
    simp only at hc
    simp only [List.foldl_cons, Breaker.run, hc]
    rw [ih]
    simp

/-- "refuses calls, without invoking the protected function, exactly while at least
    threshold failures have occurred … and the window since the most recent failure has not
    elapsed": the verdict is `refused` iff both conditions hold, and a refused call leaves
    the breaker exactly as it was. -/
theorem refused_iff (p : BreakerCfg) (s : BreakerSt) (t t' : Int) (o : Bool) :
    (Breaker.call p s t t' o).2 = .refused ↔ (p.threshold ≤ s.failures ∧ t - s.lastFailureTime ≤ p.window) := by
  have h := call_refines p s t t' o
  simp only at h
  have h2 : (BreakerSpec.step p (abs s) t t' o).2 = (Breaker.call p s t t' o).2 := by rw [h]
  rw [← h2]
  simp only [BreakerSpec.step, BreakerSpec.refuses, abs]
  by_cases a : p.threshold ≤ s.failures <;> by_cases b : t - s.lastFailureTime ≤ p.window <;>
    simp [a, b] <;> cases o <;> simp

theorem refused_unchanged (p : BreakerCfg) (s : BreakerSt) (t t' : Int) (o : Bool)
    (h : (Breaker.call p s t t' o).2 = .refused) : (Breaker.call p s t t' o).1 = s := by
  have hr := (refused_iff p s t t' o).mp h
  simp only [Breaker.call, Breaker.ready]
  have h1 : ¬ (t - s.lastFailureTime > p.window) := by omega
  have h2 : ¬ (s.failures < p.threshold) := by omega
  simp [h1, h2]

/-- one success closes the breaker: right after an executed successful call the count is 0,
    so (threshold ≥ 1) the next call is admitted whatever the time -/
theorem success_closes (p : BreakerCfg) (hp : 1 ≤ p.threshold) (s : BreakerSt) (t t' u u' : Int) (o : Bool)
    (h : (Breaker.call p s t t' true).2 = .ok) :
    (Breaker.call p (Breaker.call p s t t' true).1 u u' o).2 ≠ .refused := by
  intro hc
  have := (refused_iff p _ u u' o).mp hc
  have hf : (Breaker.call p s t t' true).1.failures = 0 := by
    simp only [Breaker.call, Breaker.ready, Breaker.success, Breaker.reset] at h ⊢
    split <;> (try split at h) <;> (try split) <;> simp_all
  omega

/-- an elapsed window closes the breaker -/
theorem window_closes (p : BreakerCfg) (s : BreakerSt) (t t' : Int) (o : Bool)
    (h : t - s.lastFailureTime > p.window) : (Breaker.call p s t t' o).2 ≠ .refused := by
  intro hc
  have := (refused_iff p s t t' o).mp hc
  omega

/-- N consecutive executed failures (each recorded within the window of the previous one)
    open the breaker: the count after `k` failed calls from a closed state is `k`. -/
theorem failures_accumulate (p : BreakerCfg) (s : BreakerSt) (t t' : Int)
    (h : (Breaker.call p s t t' false).2 = .failed) (hw : t - s.lastFailureTime ≤ p.window) :
    (Breaker.call p s t t' false).1.failures = s.failures + 1 ∧
    (Breaker.call p s t t' false).1.lastFailureTime = t' := by
  simp only [Breaker.call, Breaker.ready, Breaker.fail, Breaker.reset] at h ⊢
  have h1 : ¬ (t - s.lastFailureTime > p.window) := by omega
  simp only [h1, decide_false] at h ⊢
  split <;> (try split at h) <;> (try split) <;> simp_all

/-- non-vacuity: threshold 2, window 10: fail, fail, then refused inside the window, admitted after it -/
example : (Breaker.run ⟨2, 10⟩ ⟨0, 0⟩ [(1, 1, false), (2, 2, false), (3, 3, true), (20, 20, true), (21, 21, true)]).2
    = [.failed, .failed, .refused, .ok, .ok] := by decide


/-! ### the discovery client stops dialling (second sentence of the property) -/

/-- an attempt is refused without dialling exactly while the breaker is open; the refusal changes nothing -/
theorem dial_refused_iff (p : BreakerCfg) (s : BreakerSt) (t t' : Int) (o : Bool) :
    (Dial.step p s t t' o).2 = .open ↔ (p.threshold ≤ s.failures ∧ t - s.lastFailureTime ≤ p.window) := by
  simp only [Dial.step, Breaker.ready, Breaker.fail, Breaker.reset]
  by_cases h1 : t - s.lastFailureTime > p.window
  · have : ¬ (t - s.lastFailureTime ≤ p.window) := by omega
    simp [h1, this]
    cases o <;> simp
  · have h1' : t - s.lastFailureTime ≤ p.window := by omega
    by_cases h2 : s.failures < p.threshold
    · have : ¬ (p.threshold ≤ s.failures) := by omega
      simp [h1, h2, this]
      cases o <;> simp
    · have : p.threshold ≤ s.failures := by omega
      simp [h1, h1', h2, this]

theorem dial_refused_unchanged (p : BreakerCfg) (s : BreakerSt) (t t' : Int) (o : Bool)
    (h : (Dial.step p s t t' o).2 = .open) : (Dial.step p s t t' o).1 = s := by
  have hh := (dial_refused_iff p s t t' o).1 h
  simp only [Dial.step, Breaker.ready, Breaker.fail, Breaker.reset] at h ⊢
  have h1 : ¬ (t - s.lastFailureTime > p.window) := by omega
  have h2 : ¬ (s.failures < p.threshold) := by omega
  simp [h1, h2]

/-- **stops dialling**: a run of failing attempts whose clock readings all lie in one stretch
    `[T, T + window]` (so no window elapses between them) reaches the network exactly
    `threshold − failures-so-far` times, however long the run is; every later attempt is refused. -/
theorem dial_count (p : BreakerCfg) (T : Int) : ∀ (evs : List (Int × Int × Bool)) (s : BreakerSt),
    (∀ e ∈ evs, e.2.2 = false ∧ T ≤ e.1 ∧ e.1 ≤ e.2.1 ∧ e.2.1 ≤ T + p.window) →
    T ≤ s.lastFailureTime → s.lastFailureTime ≤ T + p.window →
    Dial.dials (Dial.run p s evs).2 = min evs.length (p.threshold - s.failures) := by
  intro evs
  induction evs with
  | nil => intro s _ _ _; simp [Dial.run, Dial.dials]
  | cons e es ih =>
    intro s hev h1 h2
    obtain ⟨t, t', o⟩ := e
    have he := hev (t, t', o) (List.mem_cons_self ..)
    simp only at he
    obtain ⟨ho, ht1, ht2, ht3⟩ := he
    subst ho
    have hes : ∀ e ∈ es, e.2.2 = false ∧ T ≤ e.1 ∧ e.1 ≤ e.2.1 ∧ e.2.1 ≤ T + p.window :=
      fun e he => hev e (List.mem_cons_of_mem _ he)
    have hw : ¬ (t - s.lastFailureTime > p.window) := by omega
    by_cases hf : s.failures < p.threshold
    · -- dialled and failed: one more failure, recorded at t'
      have hstep : Dial.step p s t t' false = (⟨t', s.failures + 1⟩, .dialedFail) := by
        simp [Dial.step, Breaker.ready, Breaker.fail, Breaker.reset, hw, hf]
      have := ih ⟨t', s.failures + 1⟩ hes (by simp; omega) (by simp; omega)
      simp only [Dial.run, hstep, Dial.dials] at this ⊢
      simp only [List.filter_cons, show (DialRes.dialedFail != DialRes.open) = true from rfl, if_true,
        List.length_cons, this]
      omega
    · have hstep : Dial.step p s t t' false = (s, .open) := by
        simp [Dial.step, Breaker.ready, Breaker.fail, Breaker.reset, hw, hf]
      have := ih s hes h1 h2
      simp only [Dial.run, hstep, Dial.dials] at this ⊢
      simp only [List.filter_cons, show (DialRes.open != DialRes.open) = false from rfl,
        Bool.false_eq_true, if_false, List.length_cons, this]
      omega

/-- …and once the window has elapsed since the last recorded failure the client dials again -/
theorem dial_after_window (p : BreakerCfg) (s : BreakerSt) (t t' : Int) (o : Bool)
    (h : t - s.lastFailureTime > p.window) : (Dial.step p s t t' o).2 ≠ .open := by
  intro hc
  have := (dial_refused_iff p s t t' o).1 hc
  omega

/-- non-vacuity: threshold 2, seven failing attempts inside one window: two dials, five refusals; then one after it -/
example : (Dial.run ⟨2, 100⟩ ⟨0, 0⟩ [(1, 1, false), (2, 2, false), (3, 3, false), (4, 4, false), (5, 5, false), (200, 200, false)]).2
    = [.dialedFail, .dialedFail, .open, .open, .open, .dialedFail] := by decide

/-! ### concurrent callers
  `Model/BreakerConc`: every atomic load / store / add of `ready`, `success`, `fail` is one step of one
  caller; a history is ANY interleaving of the steps of ANY number of callers, with any clock
  readings.  (The sequential theorems above are the case of one caller: `solo_call`.) -/

/-- a caller running alone executes exactly the regenerated `Call` – the micro-step program is
    the code the sequential theorems are about -/
theorem solo_call (p : BreakerCfg) (s : BreakerSt) (t t' : Int) (o : Bool) :
    soloCall p s t t' o = Breaker.call p s t t' o := by
  unfold soloCall Breaker.call Breaker.ready Breaker.success Breaker.fail Breaker.reset
  by_cases h1 : t - s.lastFailureTime > p.window
  · cases o <;> simp [Pc.step, h1]
  · by_cases h2 : s.failures < p.threshold
    · cases o <;> simp [Pc.step, h1, h2]
    · cases o <;> simp [Pc.step, h1, h2]

/-- a refusal is always justified by the counter: the step that refuses is the load of `failures`,
    it reads a value ≥ threshold, and it changes nothing and starts nothing -/
theorem conc_refused_sound (p : BreakerCfg) (sh : BreakerSt) (pc : Pc) (now : Int) (ok : Bool)
    (h : (pc.step p sh now ok).2.2.1 = .refused) :
    pc = .loadF ∧ p.threshold ≤ sh.failures ∧ (pc.step p sh now ok).1 = sh ∧ (pc.step p sh now ok).2.1 = .idle := by
  cases pc <;> simp [Pc.step] at h ⊢
  · split at h <;> simp at h
  · rename_i k; cases k <;> simp at h
  · by_cases hf : sh.failures < p.threshold
    · simp [hf] at h
    · simp [hf]; omega
  · split at h <;> simp at h

/-- the protected function is started only by a caller that read `failures < threshold`, or that
    found the window elapsed and reset the breaker itself -/
theorem conc_admitted_sound (p : BreakerCfg) (sh : BreakerSt) (pc : Pc) (now : Int) (ok : Bool)
    (h : (pc.step p sh now ok).2.2.1 = .admitted) :
    (pc = .loadF ∧ sh.failures < p.threshold) ∨ pc = .stamp true := by
  cases pc <;> simp [Pc.step] at h ⊢
  · split at h <;> simp at h
  · rename_i k; cases k <;> simp at h ⊢
  · by_cases hf : sh.failures < p.threshold
    · exact hf
    · simp [hf] at h
  · split at h <;> simp at h

/-- the window is consulted first: a caller reaches the load of `failures` only after reading a
    `lastFailureTime` whose window has not elapsed -/
theorem conc_loadF_only_inside_window (p : BreakerCfg) (sh : BreakerSt) (pc : Pc) (now : Int) (ok : Bool)
    (h : (pc.step p sh now ok).2.1 = .loadF) : pc = .idle ∧ now - sh.lastFailureTime ≤ p.window := by
  cases pc <;> simp [Pc.step] at h ⊢
  · by_cases hw : now - sh.lastFailureTime > p.window
    · simp [hw] at h
    · omega
  · rename_i k; cases k <;> simp at h
  · split at h <;> simp at h
  · split at h <;> simp at h

/-- **no lost failures**: in every interleaving, as long as nobody has stored `failures := 0` (no
    success recorded, no window found elapsed), the counter is exactly the initial value plus the
    number of failures recorded – concurrent `fail`s never overwrite one another -/
theorem conc_failures_exact (p : BreakerCfg) (sh : BreakerSt) (k : Nat) (evs : List CEv) :
    let c := Conc.run p (Conc.init sh k) evs
    c.zeroed = false → c.sh.failures = sh.failures + c.adds :=
  (Conc.inv_run p sh.failures k evs _ (Conc.inv_init p sh k)).cnt

/-- **an open breaker starts nothing, whoever asks and however the callers interleave**: from
    `failures ≥ threshold`, until somebody stores `failures := 0` (which only a caller that reads an
    elapsed window does – nobody is inside the function to succeed), the protected function is never
    started -/
theorem conc_open_admits_nothing (p : BreakerCfg) (sh : BreakerSt) (k : Nat) (evs : List CEv)
    (hopen : p.threshold ≤ sh.failures) :
    let c := Conc.run p (Conc.init sh k) evs
    c.zeroed = false → c.admitted = 0 :=
  fun hz => (Conc.inv_run p sh.failures k evs _ (Conc.inv_init p sh k)).opn hz hopen

/-- **how far concurrency can overshoot the threshold**: `k` callers, every schedule; while nobody
    has stored `failures := 0`, the protected function has been started at most
    `threshold − failures₀ + k − 1` times: once `threshold` failures are recorded nobody is admitted
    any more, and at most `k − 1` other callers can be past their readiness check at that moment.
    (`k = 1`: at most `threshold − failures₀` – the sequential statement.) -/
theorem conc_admission_bound (p : BreakerCfg) (sh : BreakerSt) (k : Nat) (evs : List CEv) :
    let c := Conc.run p (Conc.init sh k) evs
    c.zeroed = false → c.admitted = 0 ∨ c.admitted + sh.failures + 1 ≤ p.threshold + k :=
  (Conc.inv_run p sh.failures k evs _ (Conc.inv_init p sh k)).bound

/-- every admission is accounted for: a recorded failure, or a caller still inside the function (or
    about to record its success) -/
theorem conc_admissions_accounted (p : BreakerCfg) (sh : BreakerSt) (k : Nat) (evs : List CEv) :
    let c := Conc.run p (Conc.init sh k) evs
    c.zeroed = false → c.admitted = c.adds + c.pending :=
  (Conc.inv_run p sh.failures k evs _ (Conc.inv_init p sh k)).adm

/-- non-vacuity, and the bound is tight: threshold 1, two callers that both pass the readiness check
    before either fails – two starts (= threshold + k − 1), nothing zeroed, then both are refused -/
example :
    let evs : List CEv := [⟨0, 5, false⟩, ⟨1, 5, false⟩, ⟨0, 5, false⟩, ⟨1, 5, false⟩, ⟨0, 6, false⟩, ⟨1, 6, false⟩,
      ⟨0, 7, false⟩, ⟨1, 7, false⟩, ⟨0, 8, false⟩, ⟨0, 8, false⟩, ⟨1, 8, false⟩, ⟨1, 8, false⟩]
    let c := Conc.run ⟨1, 100⟩ (Conc.init ⟨0, 0⟩ 2) evs
    c.zeroed = false ∧ c.admitted = 2 ∧ c.refusedN = 2 ∧ c.sh.failures = 2 := by decide

/-- **why the update must be one atomic operation**: with `fail()` as a load followed by a store of the
    loaded value + 1, two callers whose loads both precede the stores record two failures and leave the
    counter at 1 – `conc_failures_exact` fails, and a breaker with threshold 2 stays closed -/
theorem nonatomic_increment_loses_failures :
    (Rmw.run 2 [.load 0, .load 1, .store 0, .store 1]).recorded = 2
    ∧ (Rmw.run 2 [.load 0, .load 1, .store 0, .store 1]).failures = 1 := by decide

/-- the tie of the concurrent model: every update of a breaker field in the current source is ONE atomic
    operation (no store whose value comes from an earlier load of the same field – the lost-update
    window `conc_failures_exact` excludes) -/
theorem tie_breaker_updates_atomic : Gen.Breaker.nonAtomicUpdates = [] := by decide

/-- the tie: ready/success/fail/reset (and the exported wrappers) were translated from the current source -/
theorem tie_breaker : Gen.breakerTieOk = true := by decide

end Rpcx.Props.C18
