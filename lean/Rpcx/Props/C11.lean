import Rpcx.Model.Select
import Rpcx.Props.C12
import Rpcx.Lemmas.ConsistentHash
import Rpcx.Model.SelectMore
/-
  C11: selectors return only live, eligible servers and never crash – theorems about the
  selector models (regenerated round-robin cursor, hand-written weighted ring and doublejump).
  "Live" is structural: an update REPLACES the state derived from the previous set
  (`RR.update`, `WRR.update = WRR.new`), so a result can only come from the latest set.

  * round-robin: `C12.rr_no_panic` (result is a member of the latest slice, never a panic),
    `rr_empty` (empty result exactly when there is no server).
  * weighted: `wrr_eligible` – every server in the weighted set has a positive parsed weight
    and comes from the latest entries; `ring_mem` – the ring holds only such servers;
    `ring_length` – with servers present the ring has sum-of-weights > 0 entries, so
    `wrr_select_ok`: Select never panics, returns a ring element (eligible), and returns the
    empty result exactly when no server is eligible.  Before the fix the premise
    "all weights positive" failed (D18, witness below).
  * hash: `ch_empty`, `get_mem` (a result is a stored element), and over EVERY history of updates
    `ch_select_live` / `ch_removed_never_selected`: the doublejump holder stays in step with the
    latest server set (invariant `Sel.Good`: free list sound, no duplicates, holder = set; kept by
    `Add` and by the swap-with-last `Remove`), so the result is a server of the latest set, never a
    removed one, never empty while a server exists; random and closest are covered
    by the direct oracle of `harness c11` only (their randomness / floats are not modelled).
-/
namespace Rpcx.Props.C11
open Rpcx Rpcx.Sel Rpcx.Gen

theorem rr_empty (s : RR) (h : s.servers = []) : (RR.select s).2 = some "" := by
  simp [Sel.RR.select, Gen.RR.select, h]

/-! ### weighted -/

theorem scan_spec : ∀ (ws : List W) (i : Nat) (m : Int) (f : Nat),
    (scan ws i m f).1.length = ws.length
    ∧ (scan ws i m f).1.map (·.server) = ws.map (·.server)
    ∧ (scan ws i m f).1.map (·.weight) = ws.map (·.weight)
    ∧ (f < i + ws.length ∨ ws = [] → f ≤ i → (scan ws i m f).2 < i + ws.length ∨ ws = []) := by
  intro ws
  induction ws with
  | nil => intro i m f; simp [scan]
  | cons w ws ih =>
    intro i m f
    simp only [scan]
    split
    · rename_i hgt
      obtain ⟨h1, h2, h3, h4⟩ := ih (i + 1) (w.cw + w.weight) i
      refine ⟨by simp [h1], by simp [h2], by simp [h3], ?_⟩
      intro _ _
      left
      by_cases hws : ws = []
      · subst hws; simp [scan]
      · have := h4 (Or.inl (by have : 0 < ws.length := List.length_pos_iff.mpr hws; omega)) (by omega)
        rcases this with h | h
        · simp only [List.length_cons]; omega
        · exact absurd h hws
    · rename_i hle
      obtain ⟨h1, h2, h3, h4⟩ := ih (i + 1) m f
      refine ⟨by simp [h1], by simp [h2], by simp [h3], ?_⟩
      intro hf hfi
      left
      by_cases hws : ws = []
      · subst hws; simp only [scan, List.length_cons, List.length_nil]; omega
      · have := h4 (Or.inl (by have : 0 < ws.length := List.length_pos_iff.mpr hws; omega)) (by omega)
        rcases this with h | h
        · simp only [List.length_cons]; omega
        · exact absurd h hws

theorem scan_flag_lt (ws : List W) (h : ws ≠ []) : (scan ws 0 0 0).2 < ws.length := by
  have := (scan_spec ws 0 0 0).2.2.2 (Or.inl (by have := List.length_pos_iff.mpr h; omega)) (Nat.le_refl 0)
  rcases this with h' | h'
  · simpa using h'
  · exact absurd h' h

/-- `next` on a non-empty set returns one of its servers and keeps servers and weights -/
theorem next_spec (ws : List W) (t : Int) (h : ws ≠ []) :
    (∃ s, (next ws t).2 = some s ∧ s ∈ ws.map (·.server))
    ∧ (next ws t).1.map (·.server) = ws.map (·.server)
    ∧ (next ws t).1.map (·.weight) = ws.map (·.weight) := by
  match ws, h with
  | [w], _ => simp [next]
  | w1 :: w2 :: rest, _ =>
    have hne : (w1 :: w2 :: rest) ≠ [] := by simp
    obtain ⟨hl, hs, hw, _⟩ := scan_spec (w1 :: w2 :: rest) 0 0 0
    have hf := scan_flag_lt (w1 :: w2 :: rest) hne
    have hf' : (scan (w1 :: w2 :: rest) 0 0 0).2 < (scan (w1 :: w2 :: rest) 0 0 0).1.length := by rw [hl]; exact hf
    simp only [next, charge, List.getElem?_eq_getElem hf']
    refine ⟨⟨_, rfl, ?_⟩, ?_, ?_⟩
    · rw [← hs]; exact List.mem_map_of_mem (List.getElem_mem hf')
    · rw [← hs]
      apply List.ext_getElem (by simp)
      intro i h1 h2
      simp only [List.getElem_map, List.getElem_set]
      split
      · rename_i he; subst he; rfl
      · rfl
    · rw [← hw]
      apply List.ext_getElem (by simp)
      intro i h1 h2
      simp only [List.getElem_map, List.getElem_set]
      split
      · rename_i he; subst he; rfl
      · rfl

theorem buildRing_spec : ∀ (k : Nat) (ws : List W) (t : Int) (acc : List String), ws ≠ [] →
    (buildRingAux k ws t acc).1.map (·.server) = ws.map (·.server)
    ∧ (buildRingAux k ws t acc).1.map (·.weight) = ws.map (·.weight)
    ∧ (buildRingAux k ws t acc).2.length = acc.length + k
    ∧ ∀ s ∈ (buildRingAux k ws t acc).2, s ∈ acc ∨ s ∈ ws.map (·.server) := by
  intro k
  induction k with
  | zero =>
    intro ws t acc _
    simp only [buildRingAux, List.length_reverse, Nat.add_zero, List.mem_reverse, true_and]
    intro s hs; exact Or.inl hs
  | succ k ih =>
    intro ws t acc hne
    obtain ⟨⟨s, hs, hmem⟩, h2, h3⟩ := next_spec ws t hne
    have hne' : (next ws t).1 ≠ [] := by
      intro he
      have : ((next ws t).1.map (·.server)).length = (ws.map (·.server)).length := by rw [h2]
      rw [he] at this
      simp at this
      exact hne (List.length_eq_zero_iff.mp this.symm)
    obtain ⟨i1, i2, i3, i4⟩ := ih (next ws t).1 t (s :: acc) hne'
    simp only [buildRingAux, hs]
    refine ⟨by rw [i1, h2], by rw [i2, h3], by rw [i3]; simp; omega, ?_⟩
    intro x hx
    rcases i4 x hx with h | h
    · rcases List.mem_cons.mp h with rfl | h
      · right; exact hmem
      · left; exact h
    · right; rw [← h2]; exact h

/-- every server of the weighted set is eligible (positive parsed weight) and comes from the
    latest update's entries -/
theorem wrr_eligible (entries : List (String × Int)) :
    ∀ s ∈ (WRR.new entries).ws.map (·.server), ∃ w, (s, w) ∈ entries ∧ 0 < w := by
  intro s hs
  by_cases hne : ((entries.filter (fun e => e.2 > 0)).map (fun e => (⟨e.1, e.2, 0⟩ : W))) = []
  · simp only [WRR.new, hne] at hs
    simp [total, buildRingAux] at hs
  · have hb := (buildRing_spec (total ((entries.filter (fun e => e.2 > 0)).map (fun e => (⟨e.1, e.2, 0⟩ : W)))).toNat
      _ (total ((entries.filter (fun e => e.2 > 0)).map (fun e => (⟨e.1, e.2, 0⟩ : W)))) [] hne).1
    simp only [WRR.new] at hs
    rw [hb] at hs
    simp only [List.map_map, List.mem_map, List.mem_filter, Function.comp] at hs
    obtain ⟨e, ⟨he, hpos⟩, rfl⟩ := hs
    exact ⟨e.2, he, by simpa using hpos⟩

/-- the ring holds only servers of the weighted set -/
theorem ring_mem (entries : List (String × Int)) :
    ∀ s ∈ (WRR.new entries).ring, s ∈ (WRR.new entries).ws.map (·.server) := by
  intro s hs
  by_cases hne : ((entries.filter (fun e => e.2 > 0)).map (fun e => (⟨e.1, e.2, 0⟩ : W))) = []
  · simp only [WRR.new, hne] at hs
    simp [total, buildRingAux] at hs
  · obtain ⟨h1, _, _, h4⟩ := buildRing_spec (total ((entries.filter (fun e => e.2 > 0)).map (fun e => (⟨e.1, e.2, 0⟩ : W)))).toNat
      _ (total ((entries.filter (fun e => e.2 > 0)).map (fun e => (⟨e.1, e.2, 0⟩ : W)))) [] hne
    simp only [WRR.new] at hs ⊢
    rw [h1]
    rcases h4 s hs with h | h
    · simp at h
    · exact h

theorem total_pos : ∀ (ws : List W), ws ≠ [] → (∀ w ∈ ws, 0 < w.weight) → 0 < total ws := by
  intro ws
  induction ws with
  | nil => intro h; exact absurd rfl h
  | cons w ws ih =>
    intro _ hall
    have hw := hall w (by simp)
    by_cases hws : ws = []
    · subst hws; simp [total]; exact hw
    · have := ih hws (fun x hx => hall x (by simp [hx]))
      simp only [total, List.map_cons, List.sum_cons] at this ⊢
      omega

/-- with at least one eligible server the ring is non-empty (sum of weights > 0 entries) -/
theorem ring_length (entries : List (String × Int)) (h : (WRR.new entries).ws ≠ []) :
    0 < (WRR.new entries).ring.length := by
  by_cases hne : ((entries.filter (fun e => e.2 > 0)).map (fun e => (⟨e.1, e.2, 0⟩ : W))) = []
  · exfalso; apply h; simp [WRR.new, hne, total, buildRingAux]
  · have hpos : 0 < total ((entries.filter (fun e => e.2 > 0)).map (fun e => (⟨e.1, e.2, 0⟩ : W))) := by
      apply total_pos _ hne
      intro w hw
      simp only [List.mem_map, List.mem_filter] at hw
      obtain ⟨e, ⟨_, hp⟩, rfl⟩ := hw
      simpa using hp
    obtain ⟨_, _, h3, _⟩ := buildRing_spec (total ((entries.filter (fun e => e.2 > 0)).map (fun e => (⟨e.1, e.2, 0⟩ : W)))).toNat
      _ (total ((entries.filter (fun e => e.2 > 0)).map (fun e => (⟨e.1, e.2, 0⟩ : W)))) [] hne
    simp only [WRR.new]
    rw [h3]
    simp; omega

/-- Select on a freshly built weighted selector: never a panic; the empty result exactly when
    no server is eligible; otherwise an eligible server of the latest entries. -/
theorem wrr_select_ok (entries : List (String × Int)) :
    ((WRR.new entries).ws = [] → (WRR.select (WRR.new entries)).2 = some "")
    ∧ ((WRR.new entries).ws ≠ [] → ∃ s, (WRR.select (WRR.new entries)).2 = some s
          ∧ ∃ w, (s, w) ∈ entries ∧ 0 < w) := by
  constructor
  · intro h; simp [WRR.select, h]
  · intro h
    have hl := ring_length entries h
    have hp : (WRR.new entries).pos = 0 := by simp [WRR.new]
    have hne : (WRR.new entries).ws.isEmpty = false := by
      cases hh : (WRR.new entries).ws with
      | nil => exact absurd hh h
      | cons _ _ => rfl
    have hlt : (WRR.new entries).pos < (WRR.new entries).ring.length := by rw [hp]; exact hl
    refine ⟨(WRR.new entries).ring[(WRR.new entries).pos], ?_, ?_⟩
    · simp only [WRR.select, hne, Bool.false_eq_true, if_false, List.getElem?_eq_getElem hlt]
    · exact wrr_eligible entries _ (ring_mem entries _ (List.getElem_mem hlt))

/-- the position invariant `pos < ring.length` is preserved by Select (so the statement above
    extends to every later selection) -/
theorem wrr_pos_inv (s : WRR) (hr : 0 < s.ring.length) : (WRR.select s).1.pos < (WRR.select s).1.ring.length
    ∨ (WRR.select s).1 = s := by
  simp only [WRR.select]
  split
  · right; rfl
  · split
    · right; rfl
    · left; exact Nat.mod_lt _ hr

/-- Regression witness D18: without the eligibility filter a zero weight gives a total of 0,
    an empty ring, and Select on a non-empty server set panics. -/
theorem d18_witness :
    let ws : List W := [⟨"a", 0, 0⟩]
    let ring := (buildRingAux (total ws).toNat ws (total ws) []).2
    (WRR.select ⟨ws, ring, 0⟩).2 = none := by decide

/-! ### hash -/

theorem ch_empty (jh : Nat → Nat → Nat) (s : CH) (key : Nat) (h : s.servers = []) :
    CH.select jh s key = some "" := by simp [CH.select, h]

/-- a lookup returns a stored element -/
theorem get_mem (jh : Nat → Nat → Nat) (d : DJ) (key : Nat) (s : String) (h : d.get jh key = some s) :
    some s ∈ d.la ∨ s ∈ d.ca := by
  unfold DJ.get at h
  split at h
  · cases h
  · split at h
    · rename_i x hx
      cases h
      left; exact List.mem_of_getElem? hx
    · split at h
      · cases h
      · right; exact List.mem_of_getElem? h

/-- **Consistent hash, every history**: after construction from any server set and ANY sequence of
    updates (additions, removals, replacements, re-announcements), with a non-empty current set the
    selector returns a server of the most recently supplied set – in particular never one that a
    later update removed, and never the empty result.  (`jh` is jump consistent hash; its contract
    `JumpOK` is the only hypothesis, checked on the real function by the harness.) -/
theorem ch_select_live (jh : Nat → Nat → Nat) (hj : JumpOK jh) (keys : List String) (us : List (List String)) (key : Nat)
    (hne : (us.foldl CH.update (CH.new keys)).servers ≠ []) :
    ∃ s ∈ (us.foldl CH.update (CH.new keys)).servers, CH.select jh (us.foldl CH.update (CH.new keys)) key = some s := by
  have g := chgood_run keys us
  obtain ⟨s, hs, hv⟩ := good_get jh hj _ _ g hne key
  refine ⟨s, hs, ?_⟩
  unfold CH.select
  have : (us.foldl CH.update (CH.new keys)).servers.isEmpty = false := by
    cases h : (us.foldl CH.update (CH.new keys)).servers <;> simp_all
  rw [this, hv]
  rfl

/-- the server list after an update is exactly the supplied set -/
theorem ch_update_servers (c : CH) (keys : List String) (k : String) : k ∈ (c.update keys).servers ↔ k ∈ keys := by
  show k ∈ sortStr keys ↔ k ∈ keys
  exact mem_sortStr' keys k

/-- a removed server is never returned again -/
theorem ch_removed_never_selected (jh : Nat → Nat → Nat) (hj : JumpOK jh) (keys : List String) (us : List (List String))
    (last : List String) (gone : String) (hg : gone ∉ last) (hne : last ≠ []) (key : Nat) :
    CH.select jh ((us ++ [last]).foldl CH.update (CH.new keys)) key ≠ some gone := by
  have hserv : ∀ k, k ∈ ((us ++ [last]).foldl CH.update (CH.new keys)).servers ↔ k ∈ last := by
    intro k
    rw [List.foldl_append]
    exact ch_update_servers _ last k
  have hne' : ((us ++ [last]).foldl CH.update (CH.new keys)).servers ≠ [] := by
    obtain ⟨k0, hk0⟩ := List.exists_mem_of_ne_nil last hne
    intro e
    have := (hserv k0).mpr hk0
    rw [e] at this
    cases this
  obtain ⟨s, hs, hv⟩ := ch_select_live jh hj keys (us ++ [last]) key hne'
  rw [hv]
  intro e
  cases e
  exact hg ((hserv gone).mp hs)

/-- non-vacuity: construct, replace two servers, drop one – the holder is in step with [b, d] -/
example : ((([["b", "c", "d"], ["d", "b"]] : List (List String)).foldl CH.update (CH.new ["a", "b"])).servers) = ["b", "d"] := by decide

/-! ### the strategies with a random choice: random and closest (for EVERY value of the random source) -/

/-- the random selector returns "" exactly without servers and otherwise a server of the current set –
    whatever the random source returns -/
theorem random_select_live (ss : List String) (rnd : Nat) :
    (ss = [] → randomSelect ss rnd = "") ∧ (ss ≠ [] → randomSelect ss rnd ∈ ss) := by
  constructor
  · intro h; simp [randomSelect, h]
  · intro h
    have hlen : 0 < ss.length := List.length_pos_iff.mpr h
    have hlt : rnd % ss.length < ss.length := Nat.mod_lt _ hlen
    have hne : ss.isEmpty = false := by cases ss <;> simp_all
    simp only [randomSelect, hne, Bool.false_eq_true, if_false, List.getD_eq_getElem?_getD,
      List.getElem?_eq_getElem hlt, Option.getD_some]
    exact List.getElem_mem hlt

theorem geoScan_sub : ∀ (ss : List (String × Nat)) (m : Nat) (c : List String),
    ∀ x ∈ (geoScan ss m c).1, x ∈ c ∨ x ∈ ss.map (·.1)
  | [], m, c, x, hx => by simp [geoScan] at hx; exact Or.inl hx
  | (s, d) :: rest, m, c, x, hx => by
    simp only [geoScan] at hx
    split at hx
    · rcases geoScan_sub rest d [s] x hx with h | h
      · right; simp at h; simp [h]
      · right; simp only [List.map_cons, List.mem_cons]; exact Or.inr h
    · split at hx
      · rcases geoScan_sub rest m (c ++ [s]) x hx with h | h
        · simp only [List.mem_append, List.mem_singleton] at h
          rcases h with h | h
          · exact Or.inl h
          · right; simp [h]
        · right; simp only [List.map_cons, List.mem_cons]; exact Or.inr h
      · rcases geoScan_sub rest m c x hx with h | h
        · exact Or.inl h
        · right; simp only [List.map_cons, List.mem_cons]; exact Or.inr h

theorem geoScan_nonempty (max : Nat) : ∀ (ss : List (String × Nat)) (m : Nat) (c : List String),
    (∀ e ∈ ss, e.2 ≤ max) → (c ≠ [] ∨ (m = max ∧ ss ≠ [])) → (geoScan ss m c).1 ≠ []
  | [], m, c, _, h => by
    rcases h with h | ⟨_, h⟩
    · simpa [geoScan] using h
    · exact absurd rfl h
  | (s, d) :: rest, m, c, hle, h => by
    have hd : d ≤ max := hle (s, d) (by simp)
    have hrest : ∀ e ∈ rest, e.2 ≤ max := fun e he => hle e (by simp [he])
    simp only [geoScan]
    split
    · exact geoScan_nonempty max rest d [s] hrest (Or.inl (by simp))
    · split
      · exact geoScan_nonempty max rest m (c ++ [s]) hrest (Or.inl (by simp))
      · rename_i h1 h2
        rcases h with h | ⟨hm, _⟩
        · exact geoScan_nonempty max rest m c hrest (Or.inl h)
        · exfalso; omega

/-- **the closest selector never crashes and returns a server of the current set**: for every list of
    servers with (mapped) distances ≤ the largest finite value and every value of the random source,
    the candidate list is not empty, the index is in range, and the result is one of the servers; ""
    exactly when there is no server with coordinates -/
theorem geo_select_live (max : Nat) (ss : List (String × Nat)) (rnd : Nat) (hle : ∀ e ∈ ss, e.2 ≤ max) :
    (ss = [] → geoSelect max ss rnd = some "")
    ∧ (ss ≠ [] → ∃ s, geoSelect max ss rnd = some s ∧ s ∈ ss.map (·.1)) := by
  constructor
  · intro h; simp [geoSelect, h]
  · intro h
    have hne : ss.isEmpty = false := by cases ss <;> simp_all
    have hc := geoScan_nonempty max ss max [] hle (Or.inr ⟨rfl, h⟩)
    have hsub := geoScan_sub ss max []
    simp only [geoSelect, hne, Bool.false_eq_true, if_false]
    have hlen : 0 < (geoScan ss max []).1.length := List.length_pos_iff.mpr hc
    split
    · refine ⟨(geoScan ss max []).1[0], by rw [List.getElem?_eq_getElem hlen], ?_⟩
      rcases hsub _ (List.getElem_mem hlen) with h | h
      · simp at h
      · exact h
    · have hce : (geoScan ss max []).1.isEmpty = false := by
        cases hq : (geoScan ss max []).1 with
        | nil => exact absurd hq hc
        | cons _ _ => rfl
      simp only [hce, Bool.false_eq_true, if_false]
      have hlt : rnd % (geoScan ss max []).1.length < (geoScan ss max []).1.length := Nat.mod_lt _ hlen
      refine ⟨(geoScan ss max []).1[rnd % (geoScan ss max []).1.length], by rw [List.getElem?_eq_getElem hlt], ?_⟩
      rcases hsub _ (List.getElem_mem hlt) with h | h
      · simp at h
      · exact h

/-- non-vacuity: three servers, two at the smallest distance – both are candidates, in slice order -/
example : (geoScan [("a", 7), ("b", 3), ("c", 3)] 100 []).1 = ["b", "c"] ∧ geoSelect 100 [("a", 7), ("b", 3), ("c", 3)] 5 = some "c" := by decide


end Rpcx.Props.C11
